package main

import (
	"fmt"
	"go/types"
	"sort"

	"golang.org/x/tools/go/ssa"
)

func init() {
	register(&Property{
		ID:        "C02",
		Title:     "Felix's output stream never references something the dataplane lacks",
		Technique: "static analysis: SSA dominance/post-dominance ordering of proto emissions, cut-set guard analysis, who-may-construct (go/ssa over felix/calc); role attribution of the raw member callbacks by backward value slices through helpers/closures (go/ssa over felix/labelindex)",
		DesignRef: "DESIGN.md §3 C02",
		Explanation: "Decides the structural clauses of the property on EventSequencer/AsyncCalcGraph: (order) in EventSequencer.Flush every emission of a referenced " +
			"message type dominates every emission of the type that references it, and removals are emitted after the updates/removals of their referrers; " +
			"(sentguard) every *Remove emission is control-dependent on membership of the key in the 'sent' set that the emission updates, at emit or at enqueue; " +
			"(ipset) IP-set member deltas are accepted only for sets that are sent or pending, opposite deltas cancel, a set (re-)add or removal clears both delta multidicts; " +
			"(insync) proto.InSync is constructed in exactly one function, guarded by the flag that is only set under update==api.InSync, after both Flush calls; " +
			"(memberdelta) upstream of the sequencer, each overlap-suppressor wrapper of SelectorAndNamedPortIndex fulfils its roles through the raw OnMemberAdded/OnMemberRemoved callbacks - non-CIDR members unchanged, its own member exactly under the suppressor's primary result being non-nil, and the suppressor's secondary results (newly masked / re-exposed members) in the opposite direction without passing through a suppressor wrapper again - and the raw callbacks are invoked for nothing else, so a delta never removes a member that was not announced nor adds one that was not withdrawn.",
		NotDecided: "That upstream calc-graph nodes call the sequencer with the right objects (e.g. that a policy really references the IP set it is ordered after); run-time contents of sets; that the overlap suppressor's results are the right members (C04.trieprefix decides part of it) and that the set id handed to the raw callbacks is the wrapper's own.",
		Assumptions: []string{
			"go/types + go/ssa (x/tools v0.50.0) model of the current source, CGO_ENABLED=0 build",
			"set.Set / multidict have set semantics (Contains/Add/Discard)",
			"logrus Panic*/Fatal* do not return",
		},
		Run: runC02,
		Fixtures: []Fixture{
			{Name: "flush policy updates before IP set adds", File: "felix/calc/event_sequencer.go",
				Old: "\tbuf.flushAddedIPSets()\n\tbuf.flushIPSetDeltas()\n\tbuf.flushPolicyUpdates()\n", New: "\tbuf.flushPolicyUpdates()\n\tbuf.flushAddedIPSets()\n\tbuf.flushIPSetDeltas()\n", Expect: "C02.order/Flush/IPSetUpdate<ActivePolicyUpdate"},
			{Name: "remove policies before endpoint updates", File: "felix/calc/event_sequencer.go",
				Old: "\tbuf.flushEndpointTierUpdates()\n\n\t// Then flush removals in reverse order.\n\tbuf.flushEndpointTierDeletes()\n\tbuf.flushProfileDeletes()\n\tbuf.flushPolicyDeletes()\n", New: "\tbuf.flushProfileDeletes()\n\tbuf.flushPolicyDeletes()\n\tbuf.flushEndpointTierUpdates()\n\tbuf.flushEndpointTierDeletes()\n", Expect: "C02.order/Flush/WorkloadEndpointUpdate<ActivePolicyRemove"},
			{Name: "route adds before VTEP adds", File: "felix/calc/event_sequencer.go",
				Old: "\tbuf.flushVTEPAdds()\n\tbuf.flushRouteAdds()\n", New: "\tbuf.flushRouteAdds()\n\tbuf.flushVTEPAdds()\n", Expect: "C02.order/Flush/VXLANTunnelEndpointUpdate<RouteUpdate"},
			{Name: "VTEP update no longer cancels the pending remove (seeded C02-1)", File: "felix/calc/event_sequencer.go",
				Old: "\tbuf.pendingVTEPDeletes.Discard(node)\n", New: "", Expect: "C02.cancel/pendingVTEPUpdates"},
			{Name: "enqueue policy delete without sent check", File: "felix/calc/event_sequencer.go",
				Old: "\tif buf.sentPolicies.Contains(key) {\n\t\tbuf.pendingPolicyDeletes.Add(key)\n\t}", New: "\tbuf.pendingPolicyDeletes.Add(key)", Expect: "C02.sentguard/ActivePolicyRemove"},
			{Name: "VTEP delete enqueued when NOT sent", File: "felix/calc/event_sequencer.go",
				Old: "if buf.sentVTEPs.Contains(dst) {", New: "if !buf.sentVTEPs.Contains(dst) {", Expect: "C02.sentguard/VXLANTunnelEndpointRemove"},
			{Name: "member add no longer cancels pending removal", File: "felix/calc/event_sequencer.go",
				Old: "\tif buf.pendingRemovedIPSetMembers.Contains(setID, member) {\n\t\tbuf.pendingRemovedIPSetMembers.Discard(setID, member)\n\t} else {\n\t\tbuf.pendingAddedIPSetMembers.Put(setID, member)\n\t}", New: "\tbuf.pendingAddedIPSetMembers.Put(setID, member)", Expect: "C02.ipset/cancel"},
			{Name: "IP set re-add keeps stale pending removals", File: "felix/calc/event_sequencer.go",
				Old: "\t// An add implicitly means that the set is now empty.\n\tbuf.pendingAddedIPSetMembers.DiscardKey(setID)\n\tbuf.pendingRemovedIPSetMembers.DiscardKey(setID)\n", New: "\t// An add implicitly means that the set is now empty.\n\tbuf.pendingAddedIPSetMembers.DiscardKey(setID)\n", Expect: "C02.ipset/clear"},
			{Name: "in-sync sent before the sequencer flush", File: "felix/calc/async_calc_graph.go",
				Old: "\t\tacg.eventSequencer.Flush()\n", New: "", Expect: "C02.insync/flush-before"},
			{Name: "in-sync flag set on any status", File: "felix/calc/async_calc_graph.go",
				Old: "if update == api.InSync && !acg.initialSyncCompleted {", New: "if !acg.initialSyncCompleted {", Expect: "C02.insync/flag-set"},
			{Name: "C02-3: re-exposed CIDRs routed through the add wrapper again (never delta-added, later delta-removed)", File: "felix/labelindex/named_port_index.go",
				Old: "\t\t\tidx.OnMemberAdded(ipSetID, ipsetmember.MakeCIDROrIPOnly(a))", New: "\t\t\tidx.onMemberAdded(ipSetID, ipsetmember.MakeCIDROrIPOnly(a))", Expect: "C02.memberdelta/reexpose/"},
			{Name: "newly masked CIDRs routed through the remove wrapper again (never withdrawn, later added twice)", File: "felix/labelindex/named_port_index.go",
				Old: "\t\t\tidx.OnMemberRemoved(ipSetID, ipsetmember.MakeCIDROrIPOnly(r))", New: "\t\t\tidx.onMemberRemoved(ipSetID, ipsetmember.MakeCIDROrIPOnly(r))", Expect: "C02.memberdelta/mask/"},
			{Name: "covered member's removal emitted (removes a member the dataplane never got)", File: "felix/labelindex/named_port_index.go",
				Old: "\t\tif rem != nil {\n\t\t\tidx.OnMemberRemoved(ipSetID, cidrMember)\n\t\t}", New: "\t\tif rem == nil {\n\t\t\tidx.OnMemberRemoved(ipSetID, cidrMember)\n\t\t}", Expect: "C02.memberdelta/primary/"},
		},
	})
}

// Dependency pairs: A must be emitted before B within one Flush.
var c02OrderPairs = [][2]string{
	{"IPSetUpdate", "IPSetDeltaUpdate"},
	{"IPSetUpdate", "ActivePolicyUpdate"},
	{"IPSetUpdate", "ActiveProfileUpdate"},
	{"IPSetDeltaUpdate", "ActivePolicyUpdate"},
	{"ActivePolicyUpdate", "WorkloadEndpointUpdate"},
	{"ActivePolicyUpdate", "HostEndpointUpdate"},
	{"ActiveProfileUpdate", "WorkloadEndpointUpdate"},
	{"ActiveProfileUpdate", "HostEndpointUpdate"},
	{"WorkloadEndpointUpdate", "ActivePolicyRemove"},
	{"HostEndpointUpdate", "ActivePolicyRemove"},
	{"WorkloadEndpointUpdate", "ActiveProfileRemove"},
	{"HostEndpointUpdate", "ActiveProfileRemove"},
	{"WorkloadEndpointRemove", "ActivePolicyRemove"},
	{"HostEndpointRemove", "ActivePolicyRemove"},
	{"WorkloadEndpointRemove", "ActiveProfileRemove"},
	{"HostEndpointRemove", "ActiveProfileRemove"},
	{"ActivePolicyUpdate", "IPSetRemove"},
	{"ActiveProfileUpdate", "IPSetRemove"},
	{"ActivePolicyRemove", "IPSetRemove"},
	{"ActiveProfileRemove", "IPSetRemove"},
	{"VXLANTunnelEndpointUpdate", "RouteUpdate"},
	{"RouteRemove", "VXLANTunnelEndpointRemove"},
}

func runC02(c *Ctx) {
	p := c.Load(calcPkg)
	m := buildSeqModel(c, p)

	c.Rule("C02.order", "E-ORDER", "in EventSequencer.Flush every site emitting message type A dominates every site emitting B and is not reachable from it (A<B dependency pairs)", len(c02OrderPairs))
	c.Rule("C02.sentguard", "E-GUARD", "every *Remove emission is guarded by sentX.Contains(key) for the sent set it discards from, at emit or at every enqueue into the pending-delete set", 16)
	c.Rule("C02.ipset", "E-GUARD/E-PAIR", "IP-set delta callbacks: guarded by set-known, opposite deltas cancel, add/remove of a set clears both delta multidicts", 8)
	c.Rule("C02.insync", "E-OWN/E-GUARD/E-ORDER", "proto.InSync constructed once, under needToSendInSync, after both Flush calls; flag stored true only under update==api.InSync", 4)

	flush := p.Func(calcPkg, "EventSequencer.Flush")
	if flush == nil {
		c.Lost("EventSequencer.Flush")
	}
	for _, pr := range c02OrderPairs {
		checkOrder(c, m, flush, pr[0], pr[1], "C02.order/Flush/"+pr[0]+"<"+pr[1], 0)
	}
	c02SentGuard(c, m)
	c02IPSet(c, m)
	c02InSync(c, p)
	// An update queued after a remove in the same flush window must cancel the remove (and vice
	// versa): otherwise the object is removed although it is still referenced (shared with C01).
	c.Rule("C02.cancel", "E-PAIR", "per message family: a store into the pending-update map discards the same key from the pending-delete set on every path, and an Add to the pending-delete set deletes the key from the update map (no Remove is emitted for an object that was re-announced before the flush)", 24)
	c01Cancel(c, m, c01Families(c, m), "C02.cancel")
	// The member deltas the sequencer batches come from SelectorAndNamedPortIndex's raw
	// OnMemberAdded/OnMemberRemoved callbacks (wired to OnIPSetMemberAdded/Removed).  With
	// overlap suppression the index's view "member is in the dataplane" is the suppressor's
	// trie; it equals the dataplane's contents only if every change of that view is announced:
	// a member re-exposed by the removal of its covering CIDR must be delta-added (else its
	// later removal names a member the dataplane never got), a member newly masked must be
	// delta-removed (else its later re-exposure adds a member the dataplane still has), and
	// the wrapper's own member is emitted only when the suppressor says it is not covered.
	// These are the wrapper roles of C04.suppressor - necessary conditions of "delta updates
	// only add absent members and only remove present members" - armed here under C02's id.
	c.Rule("C02.memberdelta", "E-OWN/E-GUARD/E-FLOW", "the overlap-suppressor wrappers of the label index announce every change of the suppressor's view of the emitted members through the raw member callbacks: own member iff the primary result is non-nil, non-CIDR members unchanged, newly masked members as raw removals and re-exposed members as raw adds (bypassing the suppressor); the raw callbacks are invoked for nothing else (c04WrapperRoles)", 6)
	m04 := c04BuildModel(c)
	c.Alias("C04.suppressor/", "C02.memberdelta/", func() { c04WrapperRoles(c, m04) })
}

// orderSites lists the instructions of fn that emit msg, directly or through callees.
func orderSites(m *seqModel, fn *ssa.Function, msg string) []ssa.CallInstruction {
	var out []ssa.CallInstruction
	for _, e := range m.emissions {
		if e.Fn == fn && e.Msg == msg {
			out = append(out, e.Call)
		}
	}
	allInstrs(fn, false, func(f *ssa.Function, in ssa.Instruction) {
		ci, ok := in.(ssa.CallInstruction)
		if !ok {
			return
		}
		// callee reached statically, or closures/bound methods passed as args
		var roots []*ssa.Function
		if sf := calleeFn(ci.Common()); sf != nil {
			roots = append(roots, sf)
		}
		for _, a := range ci.Common().Args {
			if mc, ok := a.(*ssa.MakeClosure); ok {
				roots = append(roots, mc.Fn.(*ssa.Function))
			}
		}
		for _, r := range roots {
			if m.emitsTransitively(r)[msg] {
				out = append(out, ci)
				return
			}
		}
	})
	return out
}

func checkOrder(c *Ctx, m *seqModel, fn *ssa.Function, a, b, key string, depth int) {
	as := orderSites(m, fn, a)
	bs := orderSites(m, fn, b)
	site := c.progOf(fn).Pos(fn.Pos())
	if len(as) == 0 || len(bs) == 0 {
		if depth == 0 {
			c.Lost("%s: no emission site of %s (%d) or %s (%d) reachable from %s", key, a, len(as), b, len(bs), fnName(fn))
		}
		return
	}
	for _, x := range as {
		for _, y := range bs {
			if x == y {
				// same call emits both: the order is decided inside the callee
				if sf := calleeFn(x.Common()); sf != nil && depth < 3 {
					checkOrder(c, m, sf, a, b, key, depth+1)
					return
				}
				c.Undecided(key, c.progOf(fn).Pos(x.Pos()), "one site emits both %s and %s and cannot be descended into", a, b)
				return
			}
			if !instrDominates(x, y) {
				c.Violate(key, c.progOf(fn).Pos(y.Pos()), "in %s the emission of %s at %s is not dominated by the emission of %s at %s", fnName(fn), b, c.progOf(fn).Pos(y.Pos()), a, c.progOf(fn).Pos(x.Pos()))
				return
			}
			if instrReaches(y, x) {
				c.Violate(key, c.progOf(fn).Pos(y.Pos()), "in %s %s can be emitted again after %s (loop)", fnName(fn), a, b)
				return
			}
		}
	}
	c.Ok(key, site, "%d site(s) of %s all dominate %d site(s) of %s in %s", len(as), a, len(bs), b, fnName(fn))
}

// progOf finds the loaded program containing fn (for position rendering).
func (c *Ctx) progOf(fn *ssa.Function) *Prog {
	for _, p := range c.progs {
		if p.SSA == fn.Prog {
			return p
		}
	}
	for _, p := range c.progs {
		return p
	}
	return nil
}

func c02SentGuard(c *Ctx, m *seqModel) {
	p := m.p
	for _, e := range m.emissions {
		if !isRemoveMsg(e.Msg) {
			continue
		}
		key := fmt.Sprintf("C02.sentguard/%s@%s", e.Msg, fnName(topFn(e.Fn)))
		site := p.Pos(e.Call.Pos())
		sent := m.sentSetsAfter(e, "Discard")
		if len(sent) == 0 {
			c.Violate(key, site, "emission of %s is not followed on every path by a Discard from a sent-set field (bookkeeping lost)", e.Msg)
			continue
		}
		ok := false
		var why []string
		for fv, dcs := range sent {
			keyPath := path(dcs.Args()[1])
			// (a) guarded at emit by fv.Contains(sameKey)
			emitGuard := guardedCut(e.Call, callCond(true, func(cs CallSite) bool {
				return m.setCallOnField(cs, "Contains") == fv && path(cs.Args()[1]) == keyPath
			}))
			if emitGuard {
				ok = true
				why = append(why, fmt.Sprintf("guarded at emit by %s.Contains(%s)", fv.Name(), keyPath))
				continue
			}
			// (b) every Add into the ranged pending-delete set is guarded by fv.Contains(sameKey)
			if e.Ranged == nil {
				why = append(why, "no ranged pending set and no emit-time guard")
				continue
			}
			adds := 0
			bad := ""
			for _, f := range m.all {
				for _, cs := range callsIn(f, false, func(fn *types.Func) bool { return fn.Name() == "Add" }) {
					if m.setCallOnField(cs, "Add") != e.Ranged {
						continue
					}
					adds++
					ak := path(cs.Args()[1])
					g := guardedCut(cs.Instr, callCond(true, func(g CallSite) bool {
						return m.setCallOnField(g, "Contains") == fv && path(g.Args()[1]) == ak
					}))
					if !g {
						bad = fmt.Sprintf("%s.Add(%s) at %s is not guarded by %s.Contains(%s)", e.Ranged.Name(), ak, p.Pos(cs.Instr.Pos()), fv.Name(), ak)
					}
				}
			}
			if adds > 0 && bad == "" {
				ok = true
				why = append(why, fmt.Sprintf("all %d enqueue site(s) into %s guarded by %s.Contains(key)", adds, e.Ranged.Name(), fv.Name()))
			} else if bad != "" {
				why = append(why, bad)
			} else {
				why = append(why, "no enqueue site found for "+e.Ranged.Name())
			}
		}
		sort.Strings(why)
		c.Check(ok, key, site, fmt.Sprint(why), fmt.Sprint(why))
	}
}

func isMultidict(t types.Type) bool { return namedTypeName(t) == "Multidict" }

func (m *seqModel) multidictFields() []*types.Var {
	var out []*types.Var
	st := m.recv.Underlying().(*types.Struct)
	for i := 0; i < st.NumFields(); i++ {
		if isMultidict(st.Field(i).Type()) {
			out = append(out, st.Field(i))
		}
	}
	return out
}

func c02IPSet(c *Ctx, m *seqModel) {
	p := m.p
	mds := m.multidictFields()
	if len(mds) != 2 {
		c.Lost("expected 2 multidict fields in EventSequencer (pending added/removed IP set members), found %d", len(mds))
	}
	// The IP-set families, derived from emissions.
	var addedMap, removedSet, sentSets *types.Var
	for _, e := range m.emissionsOf("IPSetUpdate") {
		addedMap = e.Ranged
		for fv := range m.sentSetsAfter(e, "Add") {
			sentSets = fv
		}
	}
	for _, e := range m.emissionsOf("IPSetRemove") {
		removedSet = e.Ranged
	}
	if addedMap == nil || removedSet == nil || sentSets == nil {
		c.Lost("IP set families (added map %v, removed set %v, sent set %v)", addedMap, removedSet, sentSets)
	}
	// "set is known": sentIPSets.Contains(id)==true or pendingAddedIPSets[id] ok==true
	known := anyOf(
		callCond(true, func(cs CallSite) bool { return m.setCallOnField(cs, "Contains") == sentSets }),
		lookupOkCond(true, func(v ssa.Value) bool { return fieldVar(v) == addedMap }),
	)
	nPut := 0
	for _, f := range m.all {
		for _, cs := range callsIn(f, false, func(fn *types.Func) bool { return fn.Name() == "Put" }) {
			a := m.setCallOnField(cs, "Put")
			if a == nil || !isMultidict(a.Type()) {
				continue
			}
			nPut++
			var other *types.Var
			for _, x := range mds {
				if x != a {
					other = x
				}
			}
			site := p.Pos(cs.Instr.Pos())
			k1, k2 := path(cs.Args()[1]), path(cs.Args()[2])
			same := func(g CallSite) bool {
				return len(g.Args()) == 3 && path(g.Args()[1]) == k1 && path(g.Args()[2]) == k2
			}
			c.Check(guardedCut(cs.Instr, known), "C02.ipset/known/"+fnName(f), site,
				"delta Put only reachable when set is sent or pending-add", "delta "+a.Name()+".Put reachable for an IP set that is neither sent nor pending")
			// cancel: Put guarded by other.Contains(k)==false, and other.Discard(k) guarded by ==true
			g1 := guardedCut(cs.Instr, callCond(false, func(g CallSite) bool { return m.setCallOnField(g, "Contains") == other && same(g) }))
			g2 := false
			for _, ds := range callsIn(f, false, func(fn *types.Func) bool { return fn.Name() == "Discard" }) {
				if m.setCallOnField(ds, "Discard") == other && same(ds) &&
					guardedCut(ds.Instr, callCond(true, func(g CallSite) bool { return m.setCallOnField(g, "Contains") == other && same(g) })) {
					g2 = true
				}
			}
			c.Check(g1 && g2, "C02.ipset/cancel/"+fnName(f), site,
				fmt.Sprintf("%s.Put only if !%s.Contains(same key); otherwise %s.Discard", a.Name(), other.Name(), other.Name()),
				fmt.Sprintf("%s.Put(%s,%s) does not cancel against %s (guard=%v discard=%v)", a.Name(), k1, k2, other.Name(), g1, g2))
		}
	}
	if nPut == 0 {
		c.Lost("no multidict Put sites")
	}
	// clear: every method that stores into the added map, or Adds to the removed
	// set, calls DiscardKey on both multidicts on every returning path.
	for _, f := range m.methods {
		touches := ""
		for _, mu := range mapUpdatesOfField(f, false, "", addedMap.Name()) {
			if fieldVar(mu.Map) == addedMap {
				touches = "stores into " + addedMap.Name()
			}
		}
		for _, cs := range callsIn(f, false, func(fn *types.Func) bool { return fn.Name() == "Add" }) {
			if m.setCallOnField(cs, "Add") == removedSet {
				touches = "adds to " + removedSet.Name()
			}
		}
		if touches == "" {
			continue
		}
		for _, md := range mds {
			cleared := true
			dks := callsIn(f, false, func(fn *types.Func) bool { return fn.Name() == "DiscardKey" })
			for _, r := range returnsOf(f) {
				dom := false
				for _, dk := range dks {
					if m.setCallOnField(dk, "DiscardKey") == md && instrDominates(dk.Instr, r) {
						dom = true
					}
				}
				if !dom {
					cleared = false
				}
			}
			c.Check(cleared, "C02.ipset/clear/"+fnName(f)+"/"+md.Name(), p.Pos(f.Pos()),
				fnName(f)+" "+touches+" and clears "+md.Name()+" on every path",
				fnName(f)+" "+touches+" but does not DiscardKey "+md.Name()+" on every returning path (stale member deltas survive a set add/remove)")
		}
	}
}

func c02InSync(c *Ctx, p *Prog) {
	// who constructs proto.InSync in felix/calc?
	var sites []ssa.Instruction
	for _, f := range p.AllFuncs() {
		allInstrs(f, false, func(fn *ssa.Function, in ssa.Instruction) {
			if al, ok := in.(*ssa.Alloc); ok {
				if qualTypeName(al.Type()) == "felix/proto.InSync" {
					sites = append(sites, in)
				}
			}
		})
	}
	if len(sites) == 0 {
		c.Lost("no construction of proto.InSync in felix/calc")
	}
	acgFlag := p.LookupObj(calcPkg, "AsyncCalcGraph.needToSendInSync")
	if acgFlag == nil {
		c.Lost("AsyncCalcGraph.needToSendInSync")
	}
	c.Check(len(sites) == 1, "C02.insync/single-constructor", p.Pos(sites[0].Pos()),
		"proto.InSync constructed in exactly one place: "+fnName(sites[0].Parent()),
		fmt.Sprintf("proto.InSync constructed at %d sites", len(sites)))
	for _, s := range sites {
		fn := s.Parent()
		site := p.Pos(s.Pos())
		g := guardedCut(s, func(cond ssa.Value, pol bool) bool { return pol && fieldVar(cond) == acgFlag })
		c.Check(g, "C02.insync/flag-guard/"+fnName(fn), site, "construction guarded by needToSendInSync", "proto.InSync constructed without needToSendInSync guard")
		// both Flush calls dominate
		nFlush := 0
		for _, cs := range callsIn(fn, false, func(f *types.Func) bool { return f.Name() == "Flush" }) {
			rt := recvTypeName(cs.Callee)
			if (rt == "EventSequencer" || rt == "CalcGraph") && instrDominates(cs.Instr, s) {
				nFlush++
			}
		}
		c.Check(nFlush >= 2, "C02.insync/flush-before/"+fnName(fn), site, "CalcGraph.Flush and EventSequencer.Flush dominate the InSync emission",
			fmt.Sprintf("only %d of {CalcGraph.Flush, EventSequencer.Flush} dominate the InSync emission", nFlush))
	}
	// every store of true into the flag is guarded by update == api.InSync
	nStores := 0
	for _, f := range p.AllFuncs() {
		for _, st := range storesToField(f, false, "AsyncCalcGraph", "needToSendInSync") {
			cv, isConst := constOf(st.Val)
			if isConst && cv.String() == "false" {
				continue
			}
			nStores++
			inSync := p.LookupExt("libcalico-go/lib/backend/api", "InSync")
			g := guardedCut(st, eqCond(true,
				func(v ssa.Value) bool { _, ok := v.(*ssa.Const); return !ok },
				func(v ssa.Value) bool {
					cst, ok := v.(*ssa.Const)
					if !ok || inSync == nil {
						return false
					}
					k, ok2 := inSync.(*types.Const)
					return ok2 && cst.Value != nil && cst.Value.ExactString() == k.Val().ExactString() && types.Identical(cst.Type(), k.Type())
				}))
			c.Check(g, "C02.insync/flag-set/"+fnName(f), p.Pos(st.Pos()), "store to needToSendInSync guarded by == api.InSync", "needToSendInSync set without a dominating `== api.InSync` test")
		}
	}
	if nStores == 0 {
		c.Lost("no store of true into needToSendInSync")
	}
}
