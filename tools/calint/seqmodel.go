package main

import (
	"go/types"
	"sort"
	"strings"

	"golang.org/x/tools/go/ssa"
)

// Model of felix/calc.EventSequencer derived from the code itself: which proto
// message types are emitted where, over which pending collection each emission
// iterates, and which "sent" set is updated with it.  Shared by C01 and C02.

type seqEmission struct {
	Call   ssa.CallInstruction
	Fn     *ssa.Function // function (or closure / range-func body) holding the call
	Msg    string        // short message type name, e.g. "IPSetUpdate"
	Ranged *types.Var    // field of EventSequencer ranged over at the emission (nil if none)
}

type seqModel struct {
	c         *Ctx
	p         *Prog
	recv      *types.Named
	methods   []*ssa.Function // declared methods of EventSequencer
	all       []*ssa.Function // methods + closures
	emissions []seqEmission
	pd        map[*ssa.Function]map[*ssa.BasicBlock]map[*ssa.BasicBlock]bool
}

const calcPkg = "felix/calc"

func buildSeqModel(c *Ctx, p *Prog) *seqModel {
	m := &seqModel{c: c, p: p, pd: map[*ssa.Function]map[*ssa.BasicBlock]map[*ssa.BasicBlock]bool{}}
	tn, _ := p.LookupObj(calcPkg, "EventSequencer").(*types.TypeName)
	if tn == nil {
		c.Lost("type felix/calc.EventSequencer")
	}
	m.recv = tn.Type().(*types.Named)
	m.methods = p.methodsOf(calcPkg, "EventSequencer")
	if len(m.methods) == 0 {
		c.Lost("methods of EventSequencer")
	}
	m.all = withClosures(m.methods)
	for _, f := range m.all {
		allInstrs(f, false, func(fn *ssa.Function, in ssa.Instruction) {
			ci, ok := in.(ssa.CallInstruction)
			if !ok {
				return
			}
			cc := ci.Common()
			if cc.IsInvoke() || cc.StaticCallee() != nil {
				return
			}
			// dynamic call through a func-typed field of EventSequencer = the sink
			fv := fieldVar(cc.Value)
			if fv == nil || !m.isSeqField(fv) || len(cc.Args) != 1 {
				return
			}
			msg := emittedType(cc.Args[0])
			if msg == "" {
				return
			}
			rf, _ := p.rangedField(ci.Pos())
			if rf != nil && !m.isSeqField(rf) {
				rf = nil
			}
			m.emissions = append(m.emissions, seqEmission{ci, fn, msg, rf})
		})
	}
	return m
}

func (m *seqModel) isSeqField(v *types.Var) bool {
	st := m.recv.Underlying().(*types.Struct)
	for i := 0; i < st.NumFields(); i++ {
		if st.Field(i) == v {
			return true
		}
	}
	return false
}

// emittedType: the dynamic type of the value wrapped into the interface argument.
func emittedType(v ssa.Value) string {
	if mi, ok := v.(*ssa.MakeInterface); ok {
		return namedTypeName(mi.X.Type())
	}
	return ""
}

func (m *seqModel) postdom(fn *ssa.Function) map[*ssa.BasicBlock]map[*ssa.BasicBlock]bool {
	if pd, ok := m.pd[fn]; ok {
		return pd
	}
	pd := postDominators(fn)
	m.pd[fn] = pd
	return pd
}

// setCallOnField: call site is method `name` invoked on (a load of) a field of
// EventSequencer; returns the field.
func (m *seqModel) setCallOnField(cs CallSite, names ...string) *types.Var {
	if cs.Callee == nil {
		return nil
	}
	ok := false
	for _, n := range names {
		if cs.Callee.Name() == n {
			ok = true
		}
	}
	if !ok {
		return nil
	}
	args := cs.Args()
	if len(args) == 0 {
		return nil
	}
	fv := fieldVar(args[0])
	if fv == nil || !m.isSeqField(fv) {
		return nil
	}
	return fv
}

// emitsTransitively returns the message types emitted by fn or anything it
// reaches by static calls, closures, bound-method values within EventSequencer.
func (m *seqModel) emitsTransitively(fn *ssa.Function) map[string]bool {
	reach := reachableFuncs([]*ssa.Function{fn}, nil)
	out := map[string]bool{}
	for _, e := range m.emissions {
		if reach[e.Fn] {
			out[e.Msg] = true
		}
	}
	return out
}

func (m *seqModel) emissionsOf(msg string) []seqEmission {
	var out []seqEmission
	for _, e := range m.emissions {
		if e.Msg == msg {
			out = append(out, e)
		}
	}
	return out
}

func (m *seqModel) msgTypes() []string {
	s := map[string]bool{}
	for _, e := range m.emissions {
		s[e.Msg] = true
	}
	var out []string
	for k := range s {
		out = append(out, k)
	}
	sort.Strings(out)
	return out
}

// sentSetsAfter: fields F != ranged such that a call F.<method>(…) post-dominates
// the emission in its own function.
func (m *seqModel) sentSetsAfter(e seqEmission, method string) map[*types.Var]CallSite {
	out := map[*types.Var]CallSite{}
	pd := m.postdom(e.Fn)
	for _, cs := range callsIn(e.Fn, false, func(f *types.Func) bool { return f.Name() == method }) {
		fv := m.setCallOnField(cs, method)
		if fv == nil || fv == e.Ranged {
			continue
		}
		if instrPostDominates(pd, cs.Instr, e.Call) {
			out[fv] = cs
		}
	}
	return out
}

func isRemoveMsg(msg string) bool { return strings.HasSuffix(msg, "Remove") }
