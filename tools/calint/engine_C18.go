package main

// engine_C18.go — a small symbolic executor over go/ssa for "few keys, symbolic
// values" models of a map-based data structure.
//
// The structure under analysis (felix/deltatracker.DeltaTracker and its view
// types) keeps its state in a handful of map[K]V fields plus an int counter.
// All methods are generic in K and V and touch keys only through map
// operations, so they are data-independent: a method's effect on a key depends
// only on that key's membership in each map and on the outcome of the value
// comparison callback.  The executor therefore enumerates, for a universe of
// exactly two keys, every CFG path of a method (inlining in-package callees and
// closures) from a given abstract entry state and hands the final states to the
// rule for checking.  Nothing from /repo is executed: this interprets SSA.
//
// Abstract domain:
//   - keys:   two concrete key identities (0, 1)
//   - values: symbols; equality between symbols is only learnt from the
//     tracker's valuesEqual callback, which is forked both ways
//     (assumed a deterministic, reflexive relation)
//   - maps:   objects holding (present, value-symbol) per key
//   - ints:   linear forms over symbols ("L0", "len#<map id>") + constant
//   - callbacks (func-typed parameters of the method under test): recorded as
//     events; results are forked over every declared constant of the result
//     type (+ one undeclared value), nil/non-nil for error; iterator-style
//     callbacks (callback that receives a closure) yield each key at most once
//     in any order and may fail after any prefix.
//
// Anything outside the modelled instruction subset makes the run *undecided*
// (fail closed), never a silent pass.

import (
	"fmt"
	"go/constant"
	"go/token"
	"go/types"
	"sort"
	"strings"

	"golang.org/x/tools/go/ssa"
)

type c18Kind int

const (
	c18Opaque c18Kind = iota
	c18Tracker
	c18FieldPtr
	c18CellPtr
	c18Map
	c18Key
	c18Val
	c18Bool
	c18Int
	c18Tuple
	c18Closure
	c18Callback
	c18Nil
	c18ValuesEq
	c18Iter
	c18Func
	c18Builtin
	c18NonNilErr
)

type c18V struct {
	k     c18Kind
	n     int
	s     string
	b     bool
	lin   map[string]int
	tup   []c18V
	fn    *ssa.Function
	binds []c18V
}

func (v c18V) String() string {
	switch v.k {
	case c18Opaque:
		return "?"
	case c18Tracker:
		return "tracker"
	case c18FieldPtr:
		return "&" + v.s
	case c18CellPtr:
		return fmt.Sprintf("&cell%d", v.n)
	case c18Map:
		return fmt.Sprintf("map#%d", v.n)
	case c18Key:
		return fmt.Sprintf("k%d", v.n)
	case c18Val:
		return fmt.Sprintf("v%d", v.n)
	case c18Bool:
		return fmt.Sprint(v.b)
	case c18Int:
		return c18LinString(v.lin)
	case c18Tuple:
		var p []string
		for _, e := range v.tup {
			p = append(p, e.String())
		}
		return "(" + strings.Join(p, ",") + ")"
	case c18Closure:
		return "closure " + v.fn.Name()
	case c18Callback:
		return "callback " + v.s
	case c18Nil:
		return "nil"
	case c18NonNilErr:
		return "err"
	}
	return fmt.Sprintf("kind%d", v.k)
}

func c18LinString(l map[string]int) string {
	var ks []string
	for k, n := range l {
		if n != 0 {
			ks = append(ks, k)
		}
	}
	sort.Strings(ks)
	var p []string
	for _, k := range ks {
		if k == "" {
			p = append(p, fmt.Sprint(l[k]))
		} else {
			p = append(p, fmt.Sprintf("%d*%s", l[k], k))
		}
	}
	if len(p) == 0 {
		return "0"
	}
	return strings.Join(p, "+")
}

func c18LinEq(a, b map[string]int) bool {
	for k, n := range a {
		if b[k] != n {
			return false
		}
	}
	for k, n := range b {
		if a[k] != n {
			return false
		}
	}
	return true
}

func c18LinConst(l map[string]int) (int, bool) {
	for k, n := range l {
		if k != "" && n != 0 {
			return 0, false
		}
	}
	return l[""], true
}

const c18NKeys = 2

type c18MapObj struct {
	present [c18NKeys]bool
	val     [c18NKeys]int
	ext     bool // supplied by the caller (parameter)
}

type c18IterSt struct {
	m       int // map id, -1 = empty
	yielded [c18NKeys]bool
}

type c18Event struct {
	cb     string
	args   []c18V
	result c18V
}

type c18State struct {
	maps   []c18MapObj
	fields map[string]c18V
	cells  []c18V
	iters  []c18IterSt
	eq     map[[2]int]bool
	nsym   int
	events []c18Event
	// iterator-style callback model
	extYielded [c18NKeys]bool
	extVal     [c18NKeys]int
	extErr     bool
	trace      []string
	steps      int
}

func (s *c18State) clone() *c18State {
	n := *s
	n.maps = append([]c18MapObj(nil), s.maps...)
	n.fields = make(map[string]c18V, len(s.fields))
	for k, v := range s.fields {
		n.fields[k] = v
	}
	n.cells = append([]c18V(nil), s.cells...)
	n.iters = append([]c18IterSt(nil), s.iters...)
	n.eq = make(map[[2]int]bool, len(s.eq))
	for k, v := range s.eq {
		n.eq[k] = v
	}
	n.events = append([]c18Event(nil), s.events...)
	n.trace = append([]string(nil), s.trace...)
	return &n
}

func (s *c18State) newSym() int { s.nsym++; return s.nsym }

// knownEq returns (equal, known).
func (s *c18State) knownEq(a, b int) (bool, bool) {
	if a == b {
		return true, true
	}
	if a > b {
		a, b = b, a
	}
	v, ok := s.eq[[2]int{a, b}]
	return v, ok
}

func (s *c18State) setEq(a, b int, eq bool) {
	if a > b {
		a, b = b, a
	}
	s.eq[[2]int{a, b}] = eq
}

type c18Out struct {
	st  *c18State
	ret c18V
}

type c18Exec struct {
	p          *Prog
	pkg        *ssa.Package
	resultVals map[string][]int64 // named int result type -> declared constant values
	problems   map[string]bool    // reasons the run is undecided
	escapes    map[string]bool    // internal state handed to foreign code
	curTop     string
	// inlined records every function body that was interpreted as a callee (depth>0)
	// of the method under test; shared by all runs of one property run (may be nil).
	inlined map[*ssa.Function]bool
}

const c18StepLimit = 20000
const c18DepthLimit = 12

func (x *c18Exec) undecided(format string, a ...any) {
	x.problems[fmt.Sprintf(format, a...)] = true
}

type c18Env map[ssa.Value]c18V

func (e c18Env) clone() c18Env {
	n := make(c18Env, len(e))
	for k, v := range e {
		n[k] = v
	}
	return n
}

func c18IsKeyedMap(t types.Type) bool {
	m, ok := t.Underlying().(*types.Map)
	if !ok {
		return false
	}
	_, tp := m.Key().(*types.TypeParam)
	return tp
}

func (x *c18Exec) eval(env c18Env, v ssa.Value) c18V {
	switch v := v.(type) {
	case *ssa.Const:
		if v.Value == nil {
			// nil or zero value of an aggregate / type parameter
			t := v.Type().Underlying()
			switch t.(type) {
			case *types.Struct, *types.Array:
				return c18V{k: c18Val, n: -2} // the unique value of a constant aggregate
			case *types.TypeParam:
				return c18V{k: c18Val, n: -1}
			}
			if _, ok := v.Type().(*types.TypeParam); ok {
				return c18V{k: c18Val, n: -1}
			}
			return c18V{k: c18Nil}
		}
		switch v.Value.Kind() {
		case constant.Bool:
			return c18V{k: c18Bool, b: constant.BoolVal(v.Value)}
		case constant.Int:
			if n, ok := constant.Int64Val(v.Value); ok {
				return c18V{k: c18Int, lin: map[string]int{"": int(n)}}
			}
		}
		return c18V{}
	case *ssa.Function:
		return c18V{k: c18Func, fn: v}
	case *ssa.Builtin:
		return c18V{k: c18Builtin, s: v.Name()}
	case *ssa.Global:
		return c18V{}
	}
	if r, ok := env[v]; ok {
		return r
	}
	x.undecided("value %s used before definition in %s", v.Name(), x.curTop)
	return c18V{}
}

// call symbolically executes fn and returns every (final state, result) pair.
func (x *c18Exec) call(fn *ssa.Function, args []c18V, binds []c18V, st *c18State, depth int) []c18Out {
	if depth > c18DepthLimit {
		x.undecided("call depth limit in %s", x.curTop)
		return nil
	}
	if len(fn.Blocks) == 0 {
		x.undecided("no body for %s", fn.Name())
		return nil
	}
	if depth > 0 && x.inlined != nil {
		x.inlined[fn] = true
	}
	env := c18Env{}
	if len(args) != len(fn.Params) {
		x.undecided("arity mismatch calling %s", fn.Name())
		return nil
	}
	for i, p := range fn.Params {
		env[p] = args[i]
	}
	if len(binds) != len(fn.FreeVars) {
		x.undecided("binding mismatch calling %s", fn.Name())
		return nil
	}
	for i, fv := range fn.FreeVars {
		env[fv] = binds[i]
	}
	var outs []c18Out
	x.run(fn, env, st, fn.Blocks[0], 0, nil, depth, &outs)
	return outs
}

type c18Alt struct {
	st  *c18State
	val c18V
}

func (x *c18Exec) run(fn *ssa.Function, env c18Env, st *c18State, b *ssa.BasicBlock, i int, prev *ssa.BasicBlock, depth int, outs *[]c18Out) {
	for {
		st.steps++
		if st.steps > c18StepLimit {
			x.undecided("step limit in %s", x.curTop)
			return
		}
		if i >= len(b.Instrs) {
			x.undecided("fell off block in %s", fn.Name())
			return
		}
		in := b.Instrs[i]
		switch in := in.(type) {
		case *ssa.Jump:
			prev, b, i = b, b.Succs[0], 0
			continue
		case *ssa.If:
			cv := x.eval(env, in.Cond)
			if cv.k == c18Bool {
				if cv.b {
					prev, b, i = b, b.Succs[0], 0
				} else {
					prev, b, i = b, b.Succs[1], 0
				}
				continue
			}
			// unknown condition: explore both
			st2 := st.clone()
			st2.trace = append(st2.trace, fmt.Sprintf("%s=false", c18CondName(in.Cond)))
			x.run(fn, env.clone(), st2, b.Succs[1], 0, b, depth, outs)
			st.trace = append(st.trace, fmt.Sprintf("%s=true", c18CondName(in.Cond)))
			prev, b, i = b, b.Succs[0], 0
			continue
		case *ssa.Return:
			var ret c18V
			switch len(in.Results) {
			case 0:
			case 1:
				ret = x.eval(env, in.Results[0])
			default:
				ret.k = c18Tuple
				for _, r := range in.Results {
					ret.tup = append(ret.tup, x.eval(env, r))
				}
			}
			*outs = append(*outs, c18Out{st, ret})
			return
		case *ssa.Panic:
			return
		case *ssa.Phi:
			found := false
			for k, p := range b.Preds {
				if p == prev {
					env[in] = x.eval(env, in.Edges[k])
					found = true
					break
				}
			}
			if !found {
				x.undecided("phi without predecessor in %s", fn.Name())
				return
			}
			i++
			continue
		}
		alts := x.step(fn, env, st, in, depth)
		if alts == nil {
			return // path ends (panic in callee, or undecided)
		}
		val, isVal := in.(ssa.Value)
		if len(alts) == 1 {
			st = alts[0].st
			if isVal {
				env[val] = alts[0].val
			}
			i++
			continue
		}
		for _, a := range alts {
			e2 := env.clone()
			if isVal {
				e2[val] = a.val
			}
			x.run(fn, e2, a.st, b, i+1, prev, depth, outs)
		}
		return
	}
}

func c18CondName(v ssa.Value) string {
	if c, ok := v.(*ssa.Call); ok {
		if u, ok := c.Call.Value.(*ssa.UnOp); ok {
			if fa, ok := u.X.(*ssa.FieldAddr); ok {
				return c18FieldName(fa) + "()"
			}
		}
	}
	return "cond"
}

func c18FieldName(fa *ssa.FieldAddr) string {
	pt, ok := fa.X.Type().Underlying().(*types.Pointer)
	if !ok {
		return "?"
	}
	stt, ok := pt.Elem().Underlying().(*types.Struct)
	if !ok {
		return "?"
	}
	return stt.Field(fa.Field).Name()
}

func one(st *c18State, v c18V) []c18Alt { return []c18Alt{{st, v}} }

func (x *c18Exec) forkBool(st *c18State, what string) []c18Alt {
	s2 := st.clone()
	st.trace = append(st.trace, what+"=true")
	s2.trace = append(s2.trace, what+"=false")
	return []c18Alt{{st, c18V{k: c18Bool, b: true}}, {s2, c18V{k: c18Bool, b: false}}}
}

func (x *c18Exec) step(fn *ssa.Function, env c18Env, st *c18State, in ssa.Instruction, depth int) []c18Alt {
	switch in := in.(type) {
	case *ssa.DebugRef:
		return one(st, c18V{})
	case *ssa.Alloc:
		st.cells = append(st.cells, c18V{})
		return one(st, c18V{k: c18CellPtr, n: len(st.cells) - 1})
	case *ssa.Store:
		addr := x.eval(env, in.Addr)
		val := x.eval(env, in.Val)
		switch addr.k {
		case c18CellPtr:
			st.cells[addr.n] = val
		case c18FieldPtr:
			st.fields[addr.s] = val
		case c18Opaque:
			if c18Internal(val) {
				x.escapes[fmt.Sprintf("%s stores internal state (%s) through an unmodelled pointer", fn.Name(), val)] = true
			}
		default:
			x.undecided("store through %s in %s", addr, fn.Name())
			return nil
		}
		return one(st, c18V{})
	case *ssa.UnOp:
		xv := x.eval(env, in.X)
		switch in.Op {
		case token.MUL:
			switch xv.k {
			case c18CellPtr:
				return one(st, st.cells[xv.n])
			case c18FieldPtr:
				if v, ok := st.fields[xv.s]; ok {
					return one(st, v)
				}
				return one(st, c18V{})
			case c18Tracker:
				x.escapes[fmt.Sprintf("%s copies the tracker struct by dereference (the copy forks the counter and, after a replace, the maps)", fn.Name())] = true
				return one(st, c18V{})
			}
			return one(st, c18V{})
		case token.NOT:
			if xv.k == c18Bool {
				return one(st, c18V{k: c18Bool, b: !xv.b})
			}
			return x.forkBool(st, "cond")
		case token.SUB:
			if xv.k == c18Int {
				l := map[string]int{}
				for k, n := range xv.lin {
					l[k] = -n
				}
				return one(st, c18V{k: c18Int, lin: l})
			}
		}
		return one(st, c18V{})
	case *ssa.FieldAddr:
		xv := x.eval(env, in.X)
		if xv.k == c18Tracker {
			return one(st, c18V{k: c18FieldPtr, s: c18FieldName(in)})
		}
		return one(st, c18V{})
	case *ssa.Field, *ssa.IndexAddr, *ssa.Index, *ssa.Slice, *ssa.MakeSlice, *ssa.ChangeInterface:
		return one(st, c18V{})
	case *ssa.MakeInterface:
		xv := x.eval(env, in.X)
		if c18Internal(xv) {
			x.undecided("%s boxes internal state into an interface", fn.Name())
			return nil
		}
		return one(st, c18V{})
	case *ssa.ChangeType:
		return one(st, x.eval(env, in.X))
	case *ssa.Convert:
		return one(st, x.eval(env, in.X))
	case *ssa.MakeMap:
		if c18IsKeyedMap(in.Type()) {
			st.maps = append(st.maps, c18MapObj{})
			return one(st, c18V{k: c18Map, n: len(st.maps) - 1})
		}
		return one(st, c18V{})
	case *ssa.MapUpdate:
		mv := x.eval(env, in.Map)
		if mv.k != c18Map {
			if c18IsKeyedMap(in.Map.Type()) {
				x.undecided("update of unmodelled keyed map in %s", fn.Name())
				return nil
			}
			return one(st, c18V{})
		}
		kv := x.eval(env, in.Key)
		if kv.k != c18Key {
			x.undecided("update with unmodelled key in %s", fn.Name())
			return nil
		}
		vv := x.eval(env, in.Value)
		if vv.k != c18Val {
			vv = c18V{k: c18Val, n: st.newSym()}
		}
		st.maps[mv.n].present[kv.n] = true
		st.maps[mv.n].val[kv.n] = vv.n
		return one(st, c18V{})
	case *ssa.Lookup:
		mv := x.eval(env, in.X)
		if mv.k != c18Map {
			if c18IsKeyedMap(in.X.Type()) {
				if mv.k == c18Nil {
					zero := c18V{k: c18Val, n: -1}
					if in.CommaOk {
						return one(st, c18V{k: c18Tuple, tup: []c18V{zero, {k: c18Bool, b: false}}})
					}
					return one(st, zero)
				}
				x.undecided("lookup in unmodelled keyed map in %s", fn.Name())
				return nil
			}
			return one(st, c18V{})
		}
		kv := x.eval(env, in.Index)
		if kv.k != c18Key {
			x.undecided("lookup with unmodelled key in %s", fn.Name())
			return nil
		}
		m := st.maps[mv.n]
		val := c18V{k: c18Val, n: -1}
		if m.present[kv.n] {
			val.n = m.val[kv.n]
		}
		if in.CommaOk {
			return one(st, c18V{k: c18Tuple, tup: []c18V{val, {k: c18Bool, b: m.present[kv.n]}}})
		}
		return one(st, val)
	case *ssa.Extract:
		tv := x.eval(env, in.Tuple)
		if tv.k == c18Tuple && in.Index < len(tv.tup) {
			return one(st, tv.tup[in.Index])
		}
		return one(st, c18V{})
	case *ssa.BinOp:
		return x.binop(st, in, x.eval(env, in.X), x.eval(env, in.Y))
	case *ssa.Range:
		mv := x.eval(env, in.X)
		switch {
		case mv.k == c18Map:
			st.iters = append(st.iters, c18IterSt{m: mv.n})
		case mv.k == c18Nil:
			st.iters = append(st.iters, c18IterSt{m: -1})
		default:
			x.undecided("range over unmodelled value in %s", fn.Name())
			return nil
		}
		return one(st, c18V{k: c18Iter, n: len(st.iters) - 1})
	case *ssa.Next:
		iv := x.eval(env, in.Iter)
		if iv.k != c18Iter {
			x.undecided("next on unmodelled iterator in %s", fn.Name())
			return nil
		}
		it := st.iters[iv.n]
		var pending []int
		if it.m >= 0 {
			for k := 0; k < c18NKeys; k++ {
				if st.maps[it.m].present[k] && !it.yielded[k] {
					pending = append(pending, k)
				}
			}
		}
		if len(pending) == 0 {
			return one(st, c18V{k: c18Tuple, tup: []c18V{{k: c18Bool, b: false}, {}, {}}})
		}
		var alts []c18Alt
		for idx, k := range pending {
			s := st
			if idx < len(pending)-1 {
				s = st.clone()
			}
			s.iters[iv.n].yielded[k] = true
			if len(pending) > 1 {
				s.trace = append(s.trace, fmt.Sprintf("range yields k%d first", k))
			}
			alts = append(alts, c18Alt{s, c18V{k: c18Tuple, tup: []c18V{{k: c18Bool, b: true}, {k: c18Key, n: k}, {k: c18Val, n: s.maps[it.m].val[k]}}}})
		}
		return alts
	case *ssa.MakeClosure:
		f, _ := in.Fn.(*ssa.Function)
		if f == nil {
			x.undecided("closure of non-function in %s", fn.Name())
			return nil
		}
		cv := c18V{k: c18Closure, fn: f}
		for _, b := range in.Bindings {
			cv.binds = append(cv.binds, x.eval(env, b))
		}
		return one(st, cv)
	case *ssa.Call:
		return x.doCall(fn, env, st, in, depth)
	}
	x.undecided("unmodelled instruction %T in %s", in, fn.Name())
	return nil
}

func c18Internal(v c18V) bool {
	switch v.k {
	case c18Tracker, c18FieldPtr, c18Map:
		return true
	case c18Tuple:
		for _, e := range v.tup {
			if c18Internal(e) {
				return true
			}
		}
	}
	return false
}

func (x *c18Exec) binop(st *c18State, in *ssa.BinOp, a, b c18V) []c18Alt {
	switch in.Op {
	case token.ADD, token.SUB:
		if a.k == c18Int && b.k == c18Int {
			l := map[string]int{}
			for k, n := range a.lin {
				l[k] += n
			}
			for k, n := range b.lin {
				if in.Op == token.ADD {
					l[k] += n
				} else {
					l[k] -= n
				}
			}
			return one(st, c18V{k: c18Int, lin: l})
		}
		return one(st, c18V{})
	case token.EQL, token.NEQ, token.LSS, token.LEQ, token.GTR, token.GEQ:
		res, known := false, false
		switch {
		case a.k == c18Int && b.k == c18Int:
			d := map[string]int{}
			for k, n := range a.lin {
				d[k] += n
			}
			for k, n := range b.lin {
				d[k] -= n
			}
			if n, ok := c18LinConst(d); ok {
				known = true
				switch in.Op {
				case token.EQL:
					res = n == 0
				case token.NEQ:
					res = n != 0
				case token.LSS:
					res = n < 0
				case token.LEQ:
					res = n <= 0
				case token.GTR:
					res = n > 0
				case token.GEQ:
					res = n >= 0
				}
			}
		case (in.Op == token.EQL || in.Op == token.NEQ) && (a.k == c18Nil || b.k == c18Nil):
			o := a
			if a.k == c18Nil {
				o = b
			}
			switch o.k {
			case c18Nil:
				known, res = true, in.Op == token.EQL
			case c18NonNilErr, c18Map, c18Tracker, c18Closure, c18Callback:
				known, res = true, in.Op == token.NEQ
			}
		case (in.Op == token.EQL || in.Op == token.NEQ) && a.k == c18Bool && b.k == c18Bool:
			known, res = true, (a.b == b.b) == (in.Op == token.EQL)
		}
		if known {
			return one(st, c18V{k: c18Bool, b: res})
		}
		return x.forkBool(st, "cmp")
	}
	return one(st, c18V{})
}

func (x *c18Exec) inPkg(f *ssa.Function) *ssa.Function {
	o := f
	if o.Origin() != nil {
		o = o.Origin()
	}
	top := o
	for top.Parent() != nil {
		top = top.Parent()
	}
	if top.Pkg == x.pkg && len(o.Blocks) > 0 {
		return o
	}
	return nil
}

func (x *c18Exec) doCall(fn *ssa.Function, env c18Env, st *c18State, in *ssa.Call, depth int) []c18Alt {
	cc := in.Common()
	var args []c18V
	for _, a := range cc.Args {
		args = append(args, x.eval(env, a))
	}
	if cc.IsInvoke() {
		for _, a := range args {
			if c18Internal(a) {
				x.escapes[fmt.Sprintf("%s passes internal state (%s) to interface method %s", fn.Name(), a, cc.Method.Name())] = true
			}
		}
		return one(st, c18V{})
	}
	cv := x.eval(env, cc.Value)
	switch cv.k {
	case c18Builtin:
		switch cv.s {
		case "delete":
			if args[0].k != c18Map {
				if c18IsKeyedMap(cc.Args[0].Type()) && args[0].k != c18Nil {
					x.undecided("delete on unmodelled keyed map in %s", fn.Name())
					return nil
				}
				return one(st, c18V{})
			}
			if args[1].k != c18Key {
				x.undecided("delete with unmodelled key in %s", fn.Name())
				return nil
			}
			st.maps[args[0].n].present[args[1].n] = false
			return one(st, c18V{})
		case "len":
			if args[0].k == c18Map {
				return one(st, c18V{k: c18Int, lin: map[string]int{fmt.Sprintf("len#%d", args[0].n): 1}})
			}
			return one(st, c18V{})
		}
		for _, a := range args {
			if c18Internal(a) {
				x.undecided("builtin %s on internal state in %s", cv.s, fn.Name())
				return nil
			}
		}
		return one(st, c18V{})
	case c18Func:
		if o := x.inPkg(cv.fn); o != nil {
			return c18OutsToAlts(x.call(o, args, nil, st, depth+1))
		}
		o := cv.fn
		if o.Origin() != nil {
			o = o.Origin()
		}
		if o.Pkg != nil && o.Pkg.Pkg.Path() == "maps" && o.Name() == "Copy" && len(args) == 2 {
			dst, src := args[0], args[1]
			if dst.k != c18Map || (src.k != c18Map && src.k != c18Nil) {
				x.undecided("maps.Copy on unmodelled maps in %s", fn.Name())
				return nil
			}
			if src.k == c18Map {
				for k := 0; k < c18NKeys; k++ {
					if st.maps[src.n].present[k] {
						st.maps[dst.n].present[k] = true
						st.maps[dst.n].val[k] = st.maps[src.n].val[k]
					}
				}
			}
			return one(st, c18V{})
		}
		for _, a := range args {
			if c18Internal(a) {
				x.escapes[fmt.Sprintf("%s passes internal state (%s) to %s", fn.Name(), a, o.String())] = true
			}
		}
		return one(st, c18V{})
	case c18Closure:
		return c18OutsToAlts(x.call(cv.fn, args, cv.binds, st, depth+1))
	case c18ValuesEq:
		if len(args) != 2 {
			x.undecided("valuesEqual arity in %s", fn.Name())
			return nil
		}
		if args[0].k == c18Val && args[1].k == c18Val {
			if eq, known := st.knownEq(args[0].n, args[1].n); known {
				return one(st, c18V{k: c18Bool, b: eq})
			}
			s2 := st.clone()
			st.setEq(args[0].n, args[1].n, true)
			s2.setEq(args[0].n, args[1].n, false)
			st.trace = append(st.trace, fmt.Sprintf("valuesEqual(%s,%s)=true", args[0], args[1]))
			s2.trace = append(s2.trace, fmt.Sprintf("valuesEqual(%s,%s)=false", args[0], args[1]))
			return []c18Alt{{st, c18V{k: c18Bool, b: true}}, {s2, c18V{k: c18Bool, b: false}}}
		}
		return x.forkBool(st, "valuesEqual(?)")
	case c18Callback:
		return x.callback(fn, st, cv, cc, args, depth)
	}
	x.undecided("call of unmodelled function value (%s) in %s", cv, fn.Name())
	return nil
}

func c18OutsToAlts(outs []c18Out) []c18Alt {
	var alts []c18Alt
	for _, o := range outs {
		alts = append(alts, c18Alt{o.st, o.ret})
	}
	return alts
}

// callback models a call of a func-typed parameter of the method under test.
func (x *c18Exec) callback(fn *ssa.Function, st *c18State, cv c18V, cc *ssa.CallCommon, args []c18V, depth int) []c18Alt {
	sig, _ := cc.Value.Type().Underlying().(*types.Signature)
	if sig == nil {
		x.undecided("callback without signature in %s", fn.Name())
		return nil
	}
	var clos *c18V
	for i := range args {
		switch args[i].k {
		case c18Closure:
			clos = &args[i]
		case c18Key, c18Val, c18Opaque, c18Int, c18Bool:
		default:
			x.escapes[fmt.Sprintf("%s hands internal state (%s) to callback %s", fn.Name(), args[i], cv.s)] = true
		}
	}
	res := sig.Results()
	if clos != nil {
		// iterator protocol: callback(yield) error
		if res.Len() != 1 || !c18IsError(res.At(0).Type()) {
			x.undecided("iterator-style callback %s with unmodelled result in %s", cv.s, fn.Name())
			return nil
		}
		return x.iterProto(st, *clos, depth)
	}
	switch {
	case res.Len() == 0:
		st.events = append(st.events, c18Event{cb: cv.s, args: args})
		return one(st, c18V{})
	case res.Len() == 1 && c18IsError(res.At(0).Type()):
		s2 := st.clone()
		st.events = append(st.events, c18Event{cb: cv.s, args: args, result: c18V{k: c18Nil}})
		s2.events = append(s2.events, c18Event{cb: cv.s, args: args, result: c18V{k: c18NonNilErr}})
		s2.trace = append(s2.trace, cv.s+" fails")
		return []c18Alt{{st, c18V{k: c18Nil}}, {s2, c18V{k: c18NonNilErr}}}
	case res.Len() == 1:
		if nt, ok := res.At(0).Type().(*types.Named); ok {
			if vals, ok := x.resultVals[nt.Obj().Name()]; ok {
				var alts []c18Alt
				all := append(append([]int64(nil), vals...), 99)
				for i, v := range all {
					s := st
					if i < len(all)-1 {
						s = st.clone()
					}
					r := c18V{k: c18Int, lin: map[string]int{"": int(v)}}
					s.events = append(s.events, c18Event{cb: cv.s, args: args, result: r})
					s.trace = append(s.trace, fmt.Sprintf("%s(%s) returns %d", cv.s, c18ArgString(args), v))
					alts = append(alts, c18Alt{s, r})
				}
				return alts
			}
		}
	}
	x.undecided("callback %s with unmodelled result type in %s", cv.s, fn.Name())
	return nil
}

func c18ArgString(args []c18V) string {
	var p []string
	for _, a := range args {
		p = append(p, a.String())
	}
	return strings.Join(p, ",")
}

func c18IsError(t types.Type) bool {
	return types.Identical(t, types.Universe.Lookup("error").Type())
}

// iterProto: the foreign iterator calls yield for each key at most once, in
// any order, for any subset, and returns nil or an error after any prefix.
func (x *c18Exec) iterProto(st *c18State, yield c18V, depth int) []c18Alt {
	var alts []c18Alt
	sErr := st.clone()
	sErr.extErr = true
	sErr.trace = append(sErr.trace, "iterator fails")
	alts = append(alts, c18Alt{st.clone(), c18V{k: c18Nil}}, c18Alt{sErr, c18V{k: c18NonNilErr}})
	for k := 0; k < c18NKeys; k++ {
		if st.extYielded[k] {
			continue
		}
		s := st.clone()
		s.extYielded[k] = true
		s.trace = append(s.trace, fmt.Sprintf("iterator yields k%d", k))
		var args []c18V
		switch len(yield.fn.Params) {
		case 1:
			args = []c18V{{k: c18Key, n: k}}
		case 2:
			args = []c18V{{k: c18Key, n: k}, {k: c18Val, n: s.extVal[k]}}
		default:
			x.undecided("yield function with %d parameters", len(yield.fn.Params))
			return nil
		}
		for _, o := range x.call(yield.fn, args, yield.binds, s, depth+1) {
			alts = append(alts, x.iterProto(o.st, yield, depth)...)
		}
	}
	return alts
}
