package main

// C38.notfound — interprocedural escape analysis of "resource does not exist"
// outcomes of keyed datastore reads inside libcalico-go/lib/ipam.
//
// The CNI plugin's cmdDel treats ErrorResourceDoesNotExist from the
// handle-keyed IPAM calls as success (C38.idem): "the handle is gone, nothing is
// allocated under it".  That reading is only sound if the ONLY not-found outcome
// that can leave ipamClient.ReleaseByHandle / IPsByHandle is the one of the read
// of the handle object itself.  A not-found from the read of some other object
// (one block the handle points at, the IPAM config, an affinity …) that is
// returned unfiltered aborts the per-block loop: DEL reports success while the
// blocks not yet visited keep their addresses.
//
// Sources: calls of backend/api.Client.Get (the keyed read; its contract is to
// return ErrorResourceDoesNotExist for a missing key), classified by the static
// type of the key.  A source's error result is followed, without changing its
// dynamic type (phi, local variables, multi-value pass-through), to the returns
// of the enclosing function and from there through the static callers' error
// results up to the entry point.  It is absorbed at a return that every path
// reaches only over an edge on which the value is known not to be
// ErrorResourceDoesNotExist (`_, ok := err.(ErrorResourceDoesNotExist)` false,
// a type switch, errors.As, or a one-result bool helper returning such a test)
// or to be nil.

import (
	"go/token"
	"go/types"
	"sort"
	"strings"

	"golang.org/x/tools/go/ssa"
)

type c38NFSource struct {
	get     *ssa.Call     // the api.Client.Get call
	fn      *ssa.Function // function containing it
	keyType string        // short name of the key's static type ("BlockKey"), "?" if not a literal key
}

func (s c38NFSource) name() string { return fnName(s.fn) + "(" + s.keyType + ")" }

type c38NFEscape struct {
	src  c38NFSource
	path []string // "fn: return at site" hops, innermost first
}

type c38NF struct {
	p        *Prog
	pkgPath  string
	getM     *types.Func
	notFound *types.TypeName
	memo     map[*ssa.Function][]c38NFEscape
	inprog   map[*ssa.Function]bool
	seen     map[string]c38NFSource // every source met while exploring
	unknown  []string               // constructs the analysis could not follow (fail closed)
}

func c38NewNF(c *Ctx, p *Prog) *c38NF {
	getM, _ := p.LookupExt("libcalico-go/lib/backend/api", "Client.Get").(*types.Func)
	nf, _ := p.LookupExt("libcalico-go/lib/errors", "ErrorResourceDoesNotExist").(*types.TypeName)
	if getM == nil || nf == nil {
		c.Lost("backend/api.Client.Get / errors.ErrorResourceDoesNotExist")
	}
	return &c38NF{p: p, pkgPath: calicoPrefix + c21IpamPkg, getM: getM, notFound: nf,
		memo: map[*ssa.Function][]c38NFEscape{}, inprog: map[*ssa.Function]bool{}, seen: map[string]c38NFSource{}}
}

func (a *c38NF) isNotFoundType(t types.Type) bool {
	if p, ok := t.(*types.Pointer); ok {
		t = p.Elem()
	}
	n, ok := t.(*types.Named)
	return ok && n.Obj() == a.notFound
}

// c38SameErr: x denotes the same error value as one of vs (identity, or a load
// of a local variable one of them is stored into).
func c38SameErr(x ssa.Value, vs ...ssa.Value) bool {
	for _, v := range vs {
		if v == nil {
			continue
		}
		if x == v {
			return true
		}
		if ld, ok := x.(*ssa.UnOp); ok && ld.Op == token.MUL {
			if al, ok := ld.X.(*ssa.Alloc); ok && al.Referrers() != nil {
				for _, r := range *al.Referrers() {
					if st, ok := r.(*ssa.Store); ok && st.Addr == ssa.Value(al) && st.Val == v {
						return true
					}
				}
			}
		}
	}
	return false
}

// c38Carries: the value eo may be the very error value e (same dynamic type):
// identity, phi edges, interface-to-interface changes, loads of local variables
// e is stored into.  Calls (fmt.Errorf, wrappers) produce a different value.
func c38Carries(eo, e ssa.Value) bool {
	seen := map[ssa.Value]bool{}
	var walk func(v ssa.Value, d int) bool
	walk = func(v ssa.Value, d int) bool {
		if v == nil || d == 0 || seen[v] {
			return false
		}
		if v == e {
			return true
		}
		seen[v] = true
		switch x := v.(type) {
		case *ssa.Phi:
			for _, ed := range x.Edges {
				if walk(ed, d-1) {
					return true
				}
			}
		case *ssa.ChangeInterface:
			return walk(x.X, d-1)
		case *ssa.UnOp:
			if x.Op != token.MUL {
				return false
			}
			if al, ok := x.X.(*ssa.Alloc); ok && al.Referrers() != nil {
				for _, r := range *al.Referrers() {
					if st, ok := r.(*ssa.Store); ok && st.Addr == ssa.Value(al) && walk(st.Val, d-1) {
						return true
					}
				}
			}
		}
		return false
	}
	return walk(eo, 12)
}

// isNotFoundTest: cond is true exactly when (one of) vs is an ErrorResourceDoesNotExist.
func (a *c38NF) isNotFoundTest(cond ssa.Value, depth int, vs ...ssa.Value) bool {
	switch x := cond.(type) {
	case *ssa.Extract:
		ta, ok := x.Tuple.(*ssa.TypeAssert)
		return ok && x.Index == 1 && ta.CommaOk && a.isNotFoundType(ta.AssertedType) && c38SameErr(ta.X, vs...)
	case *ssa.Call:
		cc := x.Common()
		f := calleeOf(cc)
		if f == nil || cc.IsInvoke() {
			return false
		}
		// errors.As(err, &notFound)
		if f.Pkg() != nil && f.Pkg().Path() == "errors" && f.Name() == "As" && len(cc.Args) == 2 && c38SameErr(cc.Args[0], vs...) {
			tgt := cc.Args[1]
			if mi, ok := tgt.(*ssa.MakeInterface); ok {
				tgt = mi.X
			}
			if pt, ok := tgt.Type().Underlying().(*types.Pointer); ok && a.isNotFoundType(pt.Elem()) {
				return true
			}
			return false
		}
		// bool helper: every return is such a test of the parameter the error is passed as
		sf := calleeFn(cc)
		if depth == 0 || sf == nil || sf.Blocks == nil || sf.Signature.Results().Len() != 1 {
			return false
		}
		pi := -1
		for i, arg := range cc.Args {
			if c38SameErr(arg, vs...) {
				pi = i
			}
		}
		if pi < 0 || pi >= len(sf.Params) {
			return false
		}
		rs := returnsOf(sf)
		if len(rs) == 0 {
			return false
		}
		for _, r := range rs {
			if !a.isNotFoundTest(r.Results[0], depth-1, sf.Params[pi]) {
				return false
			}
		}
		return true
	}
	return false
}

// absorbed: edge predicate — on this edge the error value is known not to be a
// not-found (or to be nil).
func (a *c38NF) absorbed(vs ...ssa.Value) EdgePred {
	return func(cond ssa.Value, pol bool) bool {
		if !pol && a.isNotFoundTest(cond, 2, vs...) {
			return true
		}
		if x, isNil, ok := c21NilCmp(cond, pol); ok && isNil && c38SameErr(x, vs...) {
			return true
		}
		return false
	}
}

func (a *c38NF) keyTypeOf(v ssa.Value) string {
	if mi, ok := v.(*ssa.MakeInterface); ok {
		v = mi.X
	}
	if ld, ok := v.(*ssa.UnOp); ok && ld.Op == token.MUL {
		v = ld.X
	}
	t := v.Type()
	if p, ok := t.(*types.Pointer); ok {
		if _, isAlloc := v.(*ssa.Alloc); isAlloc {
			t = p.Elem()
		}
	}
	if n, ok := t.(*types.Named); ok && !types.IsInterface(t) {
		return n.Obj().Name()
	}
	return "?"
}

// escapes returns the keyed-read sources whose not-found outcome can be the
// error value returned by f.
func (a *c38NF) escapes(f *ssa.Function) []c38NFEscape {
	if f == nil || f.Blocks == nil {
		return nil
	}
	if r, ok := a.memo[f]; ok {
		return r
	}
	if a.inprog[f] {
		return nil // recursion: the outer activation accounts for the sources
	}
	res := f.Signature.Results()
	if res.Len() == 0 || !types.Identical(res.At(res.Len()-1).Type(), c38ErrType) {
		a.memo[f] = nil
		return nil
	}
	a.inprog[f] = true
	defer delete(a.inprog, f)
	var out []c38NFEscape
	var calls []*ssa.Call
	allInstrs(f, false, func(_ *ssa.Function, in ssa.Instruction) {
		if call, ok := in.(*ssa.Call); ok {
			calls = append(calls, call)
		}
	})
	rets := returnsOf(f)
	for _, call := range calls {
		srcs := a.sourcesOf(f, call)
		if len(srcs) == 0 {
			continue
		}
		errs := c38ErrOf(call)
		if len(errs) == 0 {
			continue // error discarded
		}
		if len(errs) > 1 {
			a.unknown = append(a.unknown, fnName(f)+": call at "+a.p.Pos(call.Pos())+" has several error results")
			continue
		}
		e := errs[0]
		for _, r := range rets {
			if r.Block() == f.Recover {
				continue
			}
			raw := c21ErrOperand(r)
			if raw == nil {
				continue
			}
			eo := c38Unspill(r, raw)
			if eo == nil {
				a.unknown = append(a.unknown, fnName(f)+": returned error at "+a.p.Pos(r.Pos())+" is spilled outside the return's block")
				continue
			}
			if isNilConst(eo) || !c38Carries(eo, e) {
				continue
			}
			if guardedCut(r, a.absorbed(e, eo)) {
				continue
			}
			for _, s := range srcs {
				out = append(out, c38NFEscape{src: s.src, path: append(append([]string{}, s.path...), fnName(f)+" returns it at "+a.p.Pos(r.Pos()))})
			}
		}
	}
	a.memo[f] = out
	return out
}

// sourcesOf: the not-found sources the error result of this call may carry.
func (a *c38NF) sourcesOf(f *ssa.Function, call *ssa.Call) []c38NFEscape {
	cc := call.Common()
	if cc.IsInvoke() {
		if cc.Method == a.getM && len(cc.Args) >= 2 {
			s := c38NFSource{get: call, fn: f, keyType: a.keyTypeOf(cc.Args[1])}
			return []c38NFEscape{{src: s}}
		}
		return nil
	}
	sf := calleeFn(cc)
	if sf == nil || sf.Blocks == nil || sf.Pkg == nil || sf.Pkg.Pkg.Path() != a.pkgPath {
		return nil
	}
	return a.escapes(sf)
}

// candidates records in a.seen every keyed read whose error result is connected,
// ignoring guards, to a return of f: directly, or through the error results of
// static callees in the package that f itself passes on.
func (a *c38NF) candidates(f *ssa.Function, visiting map[*ssa.Function]bool) {
	if f == nil || f.Blocks == nil || visiting[f] {
		return
	}
	visiting[f] = true
	rets := returnsOf(f)
	allInstrs(f, false, func(_ *ssa.Function, in ssa.Instruction) {
		call, ok := in.(*ssa.Call)
		if !ok {
			return
		}
		cc := call.Common()
		isGet := cc.IsInvoke() && cc.Method == a.getM && len(cc.Args) >= 2
		sf := calleeFn(cc)
		inPkg := sf != nil && sf.Blocks != nil && sf.Pkg != nil && sf.Pkg.Pkg.Path() == a.pkgPath
		if !isGet && !inPkg {
			return
		}
		errs := c38ErrOf(call)
		if len(errs) != 1 {
			return
		}
		passed := false
		for _, r := range rets {
			if raw := c21ErrOperand(r); raw != nil {
				if eo := c38Unspill(r, raw); eo != nil && c38Carries(eo, errs[0]) {
					passed = true
				}
			}
		}
		if !passed {
			return
		}
		if isGet {
			s := c38NFSource{get: call, fn: f, keyType: a.keyTypeOf(cc.Args[1])}
			a.seen[s.name()] = s
			return
		}
		a.candidates(sf, visiting)
	})
}

// c38NotFound: family driver.
func c38NotFound(c *Ctx, p *Prog, entries []string) {
	a := c38NewNF(c, p)
	const allowed = "IPAMHandleKey"
	for _, name := range entries {
		m := p.Func(c21IpamPkg, "ipamClient."+name)
		if m == nil || m.Blocks == nil {
			c.Lost("ipam.ipamClient.%s", name)
		}
		a.unknown = nil
		esc := a.escapes(m)
		// the sources that matter for this entry: keyed reads whose error result is
		// structurally connected (guards aside) to a return of the entry
		a.seen = map[string]c38NFSource{}
		a.candidates(m, map[*ssa.Function]bool{})
		for _, u := range a.unknown {
			c.Undecided("C38.notfound/"+name+"/unfollowed", p.Pos(m.Pos()), "%s", u)
		}
		byName := map[string][]c38NFEscape{}
		for _, e := range esc {
			byName[e.src.name()] = append(byName[e.src.name()], e)
		}
		names := sortedKeys(a.seen)
		handleSeen := false
		for _, sn := range names {
			s := a.seen[sn]
			key := "C38.notfound/" + name + "/" + sn
			site := p.Pos(s.get.Pos())
			es := byName[sn]
			switch {
			case s.keyType == allowed:
				handleSeen = handleSeen || len(es) > 0
				c.Ok(key, site, "read of the handle object: not-found means nothing is allocated under the handle (%d escaping path(s))", len(es))
			case len(es) == 0:
				c.Ok(key, site, "its not-found outcome is absorbed (tested and turned into nil/continue, or not returned) before any return of %s", name)
			default:
				var hops []string
				for _, e := range es {
					hops = append(hops, strings.Join(e.path, " → "))
				}
				sort.Strings(hops)
				c.Violate(key, site, "ErrorResourceDoesNotExist from the read of a %s in %s can be returned by ipamClient.%s (%s): cmdDel treats not-found from %s as \"handle gone, nothing to release\" and reports success, "+
					"but here the handle exists and %s aborted before visiting its remaining blocks — their addresses stay allocated after a successful DEL; only the read of the handle object itself (%s) may yield not-found",
					s.keyType, fnName(s.fn), name, strings.Join(hops, "; "), name, name, allowed)
			}
		}
		if !handleSeen {
			c.Lost("ipamClient.%s: no read of a %s whose not-found outcome is returned (the tolerance in cmdDel would be dead: re-confirm the model)", name, allowed)
		}
	}
}
