package main

import (
	"fmt"
	"go/types"

	"golang.org/x/tools/go/ssa"
)

// C24.publish/delta-mirrors-tree, interprocedural.
//
// The obligation "within one iteration every tree mutation is recorded as a delta and every
// recorded delta was applied to the tree" is decided on the function that holds both sides
// (the unit).  Either side may sit in an in-package helper (method, function or closure):
//
//   - events: a tree mutation / a Deltas append / a SerializeUpdate call is either the direct
//     instruction or a call of an in-package function that (transitively) contains one;
//   - a helper that mutates the tree and has no Deltas append of its own is "open": its
//     obligation is lifted to every call site, with a summary computed from the helper's SSA:
//     mutAlways (every return is preceded by a mutation) or, per result index and polarity
//     of a constant bool result, mustMutWhen (every return with result==pol is preceded by a
//     mutation) and noMutWhen (no return with result==pol is reachable from a mutation).  In the
//     caller, an edge on (result==pol) is treated as "mutated" resp. "not mutated" accordingly;
//   - the Value==nil / Value!=nil guard of Delete / ReplaceOrInsert may be established in the
//     helper itself or, for every call site, in its callers (guard lifting).
type c24Mirror struct {
	m       *c24Model
	fns     []*ssa.Function
	inPkg   map[*ssa.Function]bool
	sites   map[*ssa.Function][]*ssa.Call // static in-package call sites of a function
	escapes map[*ssa.Function]bool        // referenced other than by a static call (go/defer/value)

	mayMut, maySer, mayDelta, open map[*ssa.Function]bool
	memoMutAlways, memoMustDelta    map[*ssa.Function]int // 1 yes 2 no 3 busy
}

func (m *c24Model) newMirror(fns []*ssa.Function) *c24Mirror {
	x := &c24Mirror{m: m, fns: fns, inPkg: map[*ssa.Function]bool{}, sites: map[*ssa.Function][]*ssa.Call{}, escapes: map[*ssa.Function]bool{},
		mayMut: map[*ssa.Function]bool{}, maySer: map[*ssa.Function]bool{}, mayDelta: map[*ssa.Function]bool{}, open: map[*ssa.Function]bool{},
		memoMutAlways: map[*ssa.Function]int{}, memoMustDelta: map[*ssa.Function]int{}}
	for _, f := range fns {
		x.inPkg[f] = true
	}
	for _, f := range fns {
		allInstrs(f, false, func(_ *ssa.Function, in ssa.Instruction) {
			switch ci := in.(type) {
			case *ssa.Call:
				if g := x.callee(ci); g != nil {
					x.sites[g] = append(x.sites[g], ci)
				}
			case *ssa.Go:
				if g := calleeFn(ci.Common()); g != nil {
					x.escapes[g] = true
				}
			case *ssa.Defer:
				if g := calleeFn(ci.Common()); g != nil {
					x.escapes[g] = true
				}
			}
		})
	}
	// transitive may-effects
	for _, f := range fns {
		allInstrs(f, false, func(_ *ssa.Function, in ssa.Instruction) {
			if x.directMut(in) {
				x.mayMut[f] = true
			}
			if x.directSer(in) {
				x.maySer[f] = true
			}
			if x.directDelta(in) {
				x.mayDelta[f] = true
			}
		})
	}
	for changed := true; changed; {
		changed = false
		for g, cs := range x.sites {
			for _, ci := range cs {
				f := ci.Parent()
				for _, mp := range []map[*ssa.Function]bool{x.mayMut, x.maySer, x.mayDelta} {
					if mp[g] && !mp[f] {
						mp[f] = true
						changed = true
					}
				}
			}
		}
	}
	// open: mutates (itself or through an open helper) and holds no Deltas append at all
	for changed := true; changed; {
		changed = false
		for _, f := range fns {
			if x.open[f] || x.mayDelta[f] {
				continue
			}
			has := false
			allInstrs(f, false, func(_ *ssa.Function, in ssa.Instruction) {
				if x.directMut(in) {
					has = true
				}
				if ci, ok := in.(*ssa.Call); ok {
					if g := x.callee(ci); g != nil && x.open[g] {
						has = true
					}
				}
			})
			if has {
				x.open[f] = true
				changed = true
			}
		}
	}
	return x
}

func (x *c24Mirror) callee(ci *ssa.Call) *ssa.Function {
	g := calleeFn(ci.Common())
	if g == nil || !x.inPkg[g] || len(g.Blocks) == 0 {
		return nil
	}
	return g
}

func (x *c24Mirror) directMut(in ssa.Instruction) bool {
	k := x.m.treeCall(in)
	return k != "" && k != "read"
}

func (x *c24Mirror) directSer(in ssa.Instruction) bool {
	ci, ok := in.(*ssa.Call)
	if !ok {
		return false
	}
	cal := calleeOf(ci.Common())
	return cal != nil && isFunc(cal, c24Proto, "SerializeUpdate")
}

func (x *c24Mirror) directDelta(in ssa.Instruction) bool {
	st, ok := in.(*ssa.Store)
	if !ok || fieldVar(st.Addr) != x.m.fDeltas {
		return false
	}
	_, isApp := isBuiltinCall(c24AsInstr(st.Val), "append")
	return isApp
}

// mutEv: the instruction is a tree mutation whose recording is owed by the enclosing function.
func (x *c24Mirror) mutEv(in ssa.Instruction) bool {
	if x.directMut(in) {
		return true
	}
	if ci, ok := in.(*ssa.Call); ok {
		if g := x.callee(ci); g != nil && x.open[g] {
			return true
		}
	}
	return false
}

func (x *c24Mirror) serEv(in ssa.Instruction) bool {
	if x.directSer(in) {
		return true
	}
	if ci, ok := in.(*ssa.Call); ok {
		if g := x.callee(ci); g != nil && x.maySer[g] {
			return true
		}
	}
	return false
}

func (x *c24Mirror) mayDeltaEv(in ssa.Instruction) bool {
	if x.directDelta(in) {
		return true
	}
	if ci, ok := in.(*ssa.Call); ok {
		if g := x.callee(ci); g != nil && x.mayDelta[g] {
			return true
		}
	}
	return false
}

func c24IsRet(in ssa.Instruction) bool { _, ok := in.(*ssa.Return); return ok }

// mustDeltaEv: the instruction appends to Deltas on every path through it.
func (x *c24Mirror) mustDeltaEv(in ssa.Instruction) bool {
	if x.directDelta(in) {
		return true
	}
	ci, ok := in.(*ssa.Call)
	if !ok {
		return false
	}
	g := x.callee(ci)
	if g == nil || !x.mayDelta[g] {
		return false
	}
	switch x.memoMustDelta[g] {
	case 1:
		return true
	case 2, 3:
		return false
	}
	x.memoMustDelta[g] = 3
	res := c25Reach(g, nil, c24IsRet, x.mustDeltaEv, nil) == nil
	x.memoMustDelta[g] = 2
	if res {
		x.memoMustDelta[g] = 1
	}
	return res
}

// mustMutEv: the instruction mutates the tree on every path through it.
func (x *c24Mirror) mustMutEv(in ssa.Instruction) bool {
	if x.directMut(in) {
		return true
	}
	ci, ok := in.(*ssa.Call)
	if !ok {
		return false
	}
	g := x.callee(ci)
	if g == nil || !x.mayMut[g] {
		return false
	}
	return x.mutAlways(g)
}

func (x *c24Mirror) mutAlways(g *ssa.Function) bool {
	switch x.memoMutAlways[g] {
	case 1:
		return true
	case 2, 3:
		return false
	}
	x.memoMutAlways[g] = 3
	res := c25Reach(g, nil, c24IsRet, x.mustMutEv, nil) == nil
	x.memoMutAlways[g] = 2
	if res {
		x.memoMutAlways[g] = 1
	}
	return res
}

// retsWhen: the returns of g on which result i can equal pol (non-constant results: both).
func (x *c24Mirror) retsWhen(g *ssa.Function, i int, pol bool) []*ssa.Return {
	var out []*ssa.Return
	for _, r := range c25Returns(g) {
		if i >= len(r.Results) {
			continue
		}
		if cv, ok := constOf(r.Results[i]); ok && (cv.ExactString() == "true") != pol {
			continue
		}
		out = append(out, r)
	}
	return out
}

// mustMutWhen: every return of g with result i == pol is preceded by a tree mutation on every path.
func (x *c24Mirror) mustMutWhen(g *ssa.Function, i int, pol bool) bool {
	for _, r := range x.retsWhen(g, i, pol) {
		if c25Reach(g, nil, func(in ssa.Instruction) bool { return in == ssa.Instruction(r) }, x.mustMutEv, nil) != nil {
			return false
		}
	}
	return true
}

// noMutWhen: no return of g with result i == pol can follow a tree mutation.
func (x *c24Mirror) noMutWhen(g *ssa.Function, i int, pol bool) bool {
	for _, r := range x.retsWhen(g, i, pol) {
		bad := false
		allInstrs(g, false, func(_ *ssa.Function, in ssa.Instruction) {
			mm := x.directMut(in)
			if ci, ok := in.(*ssa.Call); ok && !mm {
				if h := x.callee(ci); h != nil && x.mayMut[h] {
					mm = true
				}
			}
			if mm && instrReaches(in, r) {
				bad = true
			}
		})
		if bad {
			return false
		}
	}
	return true
}

// resultOf: cond is (a bool result of) a call of an in-package function.
func (x *c24Mirror) resultOf(cond ssa.Value) (*ssa.Call, *ssa.Function, int) {
	idx := 0
	if ex, ok := cond.(*ssa.Extract); ok {
		cond, idx = ex.Tuple, ex.Index
	}
	ci, ok := cond.(*ssa.Call)
	if !ok {
		return nil, nil, 0
	}
	g := x.callee(ci)
	if g == nil {
		return nil, nil, 0
	}
	if b, ok := g.Signature.Results().At(idx).Type().Underlying().(*types.Basic); !ok || b.Kind() != types.Bool {
		return nil, nil, 0
	}
	return ci, g, idx
}

// guardedIP: target is guarded by pred in its own function or, for every call site, in the callers.
func (x *c24Mirror) guardedIP(target ssa.Instruction, pred EdgePred, depth int) bool {
	if guardedCut(target, pred) {
		return true
	}
	f := target.Parent()
	if depth > 4 || x.escapes[f] || len(x.sites[f]) == 0 {
		return false
	}
	for _, cs := range x.sites[f] {
		if !x.guardedIP(cs, pred, depth+1) {
			return false
		}
	}
	return true
}

func (x *c24Mirror) run() {
	m := x.m
	c, p := m.c, m.p
	for _, f := range x.fns {
		var muts, sers []ssa.Instruction
		hasDelta := false
		allInstrs(f, false, func(_ *ssa.Function, in ssa.Instruction) {
			if x.mutEv(in) {
				muts = append(muts, in)
			}
			if x.serEv(in) {
				sers = append(sers, in)
			}
			if x.mayDeltaEv(in) {
				hasDelta = true
			}
		})
		// guard of the tree operation (direct mutators only; lifted through call sites)
		for _, mu := range muts {
			name := m.treeCall(mu)
			var want bool
			switch name {
			case "Delete":
				want = true
			case "ReplaceOrInsert":
				want = false
			default:
				continue
			}
			g := x.guardedIP(mu, c25NilCond(want, func(v ssa.Value) bool { return fieldVar(v) == m.kvValue }), 0)
			c.Check(g, "C24.publish/tree-op-guard/"+fnName(f)+"/"+name, p.Pos(mu.Pos()),
				fmt.Sprintf("kvs.%s only when the update's Value is nil == %v", name, want),
				fmt.Sprintf("kvs.%s is reachable when the update's Value nil-ness is not %v: deletions would be stored / values deleted", name, want))
		}
		if len(muts) == 0 {
			continue
		}
		base := "C24.publish/delta-mirrors-tree/" + fnName(f)
		if !hasDelta {
			// open: the obligation is owed by the callers
			if len(x.sites[f]) > 0 && !x.escapes[f] {
				continue
			}
			if f.Parent() != nil || (x.escapes[f] && len(x.sites[f]) > 0) {
				c.Undecided(base, p.Pos(f.Pos()), "%s mutates the tree, holds no Deltas append and its callers are not all static calls", fnName(f))
				continue
			}
			c.Violate(base+"/mutation-recorded", p.Pos(muts[0].Pos()), "the tree mutation at %s is never recorded in Deltas (neither %s nor a caller of it appends to Breadcrumb.Deltas): connected clients never hear of it while new clients see it in the snapshot", p.Pos(muts[0].Pos()), fnName(f))
			continue
		}
		if len(sers) != 1 {
			c.Undecided(base, p.Pos(f.Pos()), "%s mutates the tree and appends Deltas but has %d SerializeUpdate site(s) (direct or through helpers)", fnName(f), len(sers))
			continue
		}
		ser := sers[0]
		// (a) no delta without a mutation in the same iteration
		mutatedEdge := func(cond ssa.Value, pol bool) bool {
			ci, g, i := x.resultOf(cond)
			return ci != nil && x.mutEv(ci) && x.mustMutWhen(g, i, pol)
		}
		var hit ssa.Instruction
		if !x.mustMutEv(ser) {
			hit = c25Reach(f, ser, x.mayDeltaEv, func(in ssa.Instruction) bool { return x.mustMutEv(in) || in == ser }, mutatedEdge)
		}
		if hit == nil {
			c.Ok(base+"/delta-applied", p.Pos(ser.Pos()), "every delta appended in an iteration follows a tree mutation of that iteration")
		} else {
			c.Violate(base+"/delta-applied", p.Pos(hit.Pos()), "a delta can be appended at %s without the tree having been updated in that iteration: later joiners get a snapshot that disagrees with what followers were sent", p.Pos(hit.Pos()))
		}
		// (b) no mutation without a delta
		var badMut ssa.Instruction
		for _, mu := range muts {
			mu := mu
			var cut EdgePred
			if !x.directMut(mu) {
				cut = func(cond ssa.Value, pol bool) bool {
					ci, g, i := x.resultOf(cond)
					return ci != nil && ssa.Instruction(ci) == mu && x.noMutWhen(g, i, pol)
				}
			}
			h := c25Reach(f, mu, func(in ssa.Instruction) bool {
				if c24IsRet(in) || x.serEv(in) {
					return true
				}
				if ci, ok := in.(*ssa.Call); ok {
					if cal := calleeOf(ci.Common()); cal != nil && cal.Name() == "Clone" && m.treeCall(in) == "read" {
						return true // left the loop
					}
				}
				return false
			}, x.mustDeltaEv, cut)
			if h != nil && badMut == nil {
				badMut = mu
			}
		}
		if badMut == nil {
			c.Ok(base+"/mutation-recorded", p.Pos(ser.Pos()), "all %d tree mutation site(s) are followed by a Deltas append before the next iteration / the snapshot", len(muts))
		} else {
			c.Violate(base+"/mutation-recorded", p.Pos(badMut.Pos()), "the tree mutation at %s can be left unrecorded in Deltas: connected clients never hear of it while new clients see it in the snapshot", p.Pos(badMut.Pos()))
		}
	}
}
