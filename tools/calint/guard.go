package main

import (
	"go/ast"
	"go/token"
	"go/types"

	"golang.org/x/tools/go/ast/astutil"
	"golang.org/x/tools/go/packages"
	"golang.org/x/tools/go/ssa"
)

// EdgePred decides whether an If edge establishes the wanted fact: cond is the
// branch condition with leading negations stripped, pol the truth value cond
// has on that edge.
type EdgePred func(cond ssa.Value, pol bool) bool

// guardedCut reports whether every CFG path from fn's entry to target's block
// traverses at least one If edge accepted by pred (i.e. target becomes
// unreachable once those edges are cut).  This generalises dominance guards to
// disjunctions ("sent || pending" established by two different edges).
func guardedCut(target ssa.Instruction, pred EdgePred) bool {
	fn := target.Parent()
	if fn == nil || len(fn.Blocks) == 0 {
		return false
	}
	tb := target.Block()
	seen := map[*ssa.BasicBlock]bool{}
	st := []*ssa.BasicBlock{fn.Blocks[0]}
	for len(st) > 0 {
		b := st[len(st)-1]
		st = st[:len(st)-1]
		if seen[b] {
			continue
		}
		seen[b] = true
		if b == tb {
			return false
		}
		if isPanicBlock(b) {
			continue // log.Panic/Fatal do not return
		}
		if ifi, ok := b.Instrs[len(b.Instrs)-1].(*ssa.If); ok && len(b.Succs) == 2 {
			for k, s := range b.Succs {
				c, pol := stripNot(ifi.Cond, k == 0)
				if b.Succs[0] != b.Succs[1] && pred(c, pol) {
					continue // edge cut
				}
				st = append(st, s)
			}
			continue
		}
		st = append(st, b.Succs...)
	}
	return true
}

// callCond builds an EdgePred accepting edges on which a call satisfying
// matchCall returned `want`.
func callCond(want bool, matchCall func(CallSite) bool) EdgePred {
	return func(cond ssa.Value, pol bool) bool {
		if pol != want {
			return false
		}
		cs, ok := condCall(cond)
		return ok && matchCall(cs)
	}
}

// anyOf combines edge predicates disjunctively.
func anyOf(ps ...EdgePred) EdgePred {
	return func(c ssa.Value, pol bool) bool {
		for _, p := range ps {
			if p(c, pol) {
				return true
			}
		}
		return false
	}
}

// commaOk: cond is the ok result (#1) of a map lookup / type assert on a value
// satisfying matchX.
func lookupOkCond(want bool, matchMap func(ssa.Value) bool) EdgePred {
	return func(cond ssa.Value, pol bool) bool {
		if pol != want {
			return false
		}
		ex, ok := cond.(*ssa.Extract)
		if !ok || ex.Index != 1 {
			return false
		}
		lk, ok := ex.Tuple.(*ssa.Lookup)
		return ok && lk.CommaOk && matchMap(lk.X)
	}
}

// cmpCond: cond is `X op Y` (EQL/NEQ normalised to EQL polarity) with one side
// satisfying a and the other b; want is the truth value of X==Y.
func eqCond(want bool, a, b func(ssa.Value) bool) EdgePred {
	return func(cond ssa.Value, pol bool) bool {
		bo, ok := cond.(*ssa.BinOp)
		if !ok || (bo.Op != token.EQL && bo.Op != token.NEQ) {
			return false
		}
		if bo.Op == token.NEQ {
			pol = !pol
		}
		if pol != want {
			return false
		}
		return (a(bo.X) && b(bo.Y)) || (a(bo.Y) && b(bo.X))
	}
}

// ------------------------------------------------------------- AST helpers --

// astPath returns the AST path (innermost first) enclosing pos in a root package.
func (p *Prog) astPath(pos token.Pos) ([]ast.Node, *packages.Package) {
	if !pos.IsValid() {
		return nil, nil
	}
	for _, pk := range p.Roots {
		for _, f := range pk.Syntax {
			if f.FileStart <= pos && pos < f.FileEnd {
				path, _ := astutil.PathEnclosingInterval(f, pos, pos)
				return path, pk
			}
		}
	}
	return nil, nil
}

// selField resolves expr (after stripping parens/&/*) to a struct field object
// if it is a selector of a field.
func selField(info *types.Info, e ast.Expr) *types.Var {
	e = ast.Unparen(e)
	if se, ok := e.(*ast.SelectorExpr); ok {
		if s := info.Selections[se]; s != nil && s.Kind() == types.FieldVal {
			return s.Obj().(*types.Var)
		}
	}
	return nil
}

// rangedField: for the innermost RangeStmt enclosing pos, returns the field
// ranged over: `range recv.F` or `range recv.F.Method()`.
func (p *Prog) rangedField(pos token.Pos) (*types.Var, *ast.RangeStmt) {
	path, pk := p.astPath(pos)
	for _, n := range path {
		if rs, ok := n.(*ast.RangeStmt); ok {
			x := ast.Unparen(rs.X)
			if f := selField(pk.TypesInfo, x); f != nil {
				return f, rs
			}
			if ce, ok := x.(*ast.CallExpr); ok {
				if se, ok := ast.Unparen(ce.Fun).(*ast.SelectorExpr); ok {
					if f := selField(pk.TypesInfo, se.X); f != nil {
						return f, rs
					}
				}
			}
			return nil, rs
		}
		if _, ok := n.(*ast.FuncDecl); ok {
			break
		}
	}
	return nil, nil
}
