package main

// engine_C17.go — the shared `iteraction` rule (DESIGN C17.commit, used by C16 and
// C17) plus a few small SSA helpers around closures and captured variables.
//
// iteraction: every closure handed to a deltatracker
// PendingUpdates()/PendingDeletions().Iter(...) that performs a fallible call
// returns IterActionUpdateDataplane (which makes the tracker record "this KV is
// now in the dataplane") only on that call's nil-error edge.
//
// A *fallible call* is, inside the closure's own body:
//   (direct)   a call one of whose results has type `error`, unless the callee
//              lives in package fmt or errors (pure error constructors), or it
//              only transforms an error it is given (has an `error` parameter
//              fed from an earlier fallible call);
//   (indirect) a call of a sibling closure (a captured func value) that stores
//              into a captured `error` variable which this closure also captures
//              (the `writeLine(...) ; if err != nil` idiom of ipsets.writeUpdates).
//
// "Only on the nil-error edge": every CFG path from the call to a return of
// IterActionUpdateDataplane crosses an If edge on which `e == nil` holds, where e
// is (direct) a value whose backward slice contains the call's result, or
// (indirect) a load of the shared error variable executed after the call.

import (
	"fmt"
	"go/token"
	"go/types"
	"sort"

	"golang.org/x/tools/go/ssa"
)

const c17DeltaPkg = "felix/deltatracker"

// c17IterSite is one `X.PendingUpdates()/PendingDeletions().Iter(closure)` call.
type c17IterSite struct {
	Call    CallSite
	Kind    string        // PendingUpdates | PendingDeletions
	Tracker ssa.Value     // the tracker value the view was taken from (receiver of PendingX())
	Closure *ssa.Function // nil if the argument is not a closure/function literal
	Encl    *ssa.Function // function containing the Iter call
}

// c17IterKind classifies a callee as deltatracker Pending*View.Iter.
func c17IterKind(f *types.Func) string {
	if f == nil || f.Name() != "Iter" || f.Pkg() == nil || f.Pkg().Path() != calicoPrefix+c17DeltaPkg {
		return ""
	}
	switch recvTypeName(f) {
	case "PendingUpdatesView", "PendingUpdatesSetView":
		return "PendingUpdates"
	case "PendingDeletionsView", "PendingDeletionsSetView":
		return "PendingDeletions"
	}
	return ""
}

// c17FuncOfValue resolves a func-typed SSA value to the function it denotes:
// a MakeClosure, a plain *ssa.Function, or a FreeVar bound (transitively) to one.
func c17FuncOfValue(v ssa.Value) *ssa.Function {
	for i := 0; i < 8 && v != nil; i++ {
		switch x := v.(type) {
		case *ssa.MakeClosure:
			f, _ := x.Fn.(*ssa.Function)
			return f
		case *ssa.Function:
			return x
		case *ssa.FreeVar:
			v = c17Binding(x)
			continue
		case *ssa.ChangeType:
			v = x.X
			continue
		case *ssa.UnOp:
			// load of a captured/local func variable with a single store
			if x.Op != token.MUL {
				return nil
			}
			cell := c17Cell(x.X)
			al, ok := cell.(*ssa.Alloc)
			if !ok {
				return nil
			}
			var stored []ssa.Value
			for _, st := range c17StoresToCell(al) {
				stored = append(stored, st.Val)
			}
			if len(stored) != 1 {
				return nil
			}
			v = stored[0]
			continue
		}
		return nil
	}
	return nil
}

// c17MakeClosureOf finds the MakeClosure instruction that creates closure fn.
func c17MakeClosureOf(fn *ssa.Function) *ssa.MakeClosure {
	par := fn.Parent()
	if par == nil {
		return nil
	}
	for _, b := range par.Blocks {
		for _, in := range b.Instrs {
			if mc, ok := in.(*ssa.MakeClosure); ok && mc.Fn == fn {
				return mc
			}
		}
	}
	return nil
}

// c17Binding returns the value bound to a closure's free variable in the
// enclosing function (nil if it cannot be resolved).
func c17Binding(fv *ssa.FreeVar) ssa.Value {
	fn := fv.Parent()
	mc := c17MakeClosureOf(fn)
	if mc == nil {
		return nil
	}
	for i, x := range fn.FreeVars {
		if x == fv && i < len(mc.Bindings) {
			return mc.Bindings[i]
		}
	}
	return nil
}

// c17Cell canonicalises an address value: free variables are resolved through
// the closure bindings up to the Alloc (or other value) of the outermost
// function, so the same captured variable is the same cell in every closure.
func c17Cell(v ssa.Value) ssa.Value {
	for i := 0; i < 8; i++ {
		fv, ok := v.(*ssa.FreeVar)
		if !ok {
			return v
		}
		b := c17Binding(fv)
		if b == nil {
			return v
		}
		v = b
	}
	return v
}

// c17StoresToCell lists the stores into a captured/local variable cell, in the
// allocating function and all of its nested closures.
func c17StoresToCell(cell *ssa.Alloc) []*ssa.Store {
	var out []*ssa.Store
	allInstrs(cell.Parent(), true, func(f *ssa.Function, in ssa.Instruction) {
		if st, ok := in.(*ssa.Store); ok && c17Cell(st.Addr) == ssa.Value(cell) {
			out = append(out, st)
		}
	})
	return out
}

func c17IsErrorType(t types.Type) bool {
	return types.Identical(t, types.Universe.Lookup("error").Type())
}

func c17ReturnsError(sig *types.Signature) bool {
	for i := 0; i < sig.Results().Len(); i++ {
		if c17IsErrorType(sig.Results().At(i).Type()) {
			return true
		}
	}
	return false
}

// c17IterSites lists every Pending*View.Iter call in the root packages whose
// path is in pkgs (calico-relative).
func c17IterSites(p *Prog, pkgs ...string) []c17IterSite {
	want := map[string]bool{}
	for _, k := range pkgs {
		want[calicoPrefix+k] = true
	}
	var out []c17IterSite
	for _, fn := range p.AllFuncs() {
		top := topFn(fn)
		pk := top.Pkg
		if pk == nil && top.Origin() != nil {
			pk = top.Origin().Pkg
		}
		if pk == nil || !want[pk.Pkg.Path()] {
			continue
		}
		for _, cs := range callsIn(fn, false, func(f *types.Func) bool { return c17IterKind(f) != "" }) {
			s := c17IterSite{Call: cs, Kind: c17IterKind(cs.Callee), Encl: fn}
			args := cs.Args()
			if len(args) >= 2 {
				s.Closure = c17FuncOfValue(args[1])
			}
			// receiver: result of tracker.PendingX()
			if len(args) >= 1 {
				if rc, ok := args[0].(*ssa.Call); ok && len(rc.Common().Args) >= 1 {
					s.Tracker = rc.Common().Args[0]
				}
			}
			out = append(out, s)
		}
	}
	sort.SliceStable(out, func(i, j int) bool { return out[i].Call.Instr.Pos() < out[j].Call.Instr.Pos() })
	return out
}

// c17Fallible is one fallible call inside an Iter closure.
type c17Fallible struct {
	Call  ssa.CallInstruction
	Name  string                 // callee name for the obligation key
	Cells map[ssa.Value]bool     // indirect: shared error cells written by the callee closure
	isErr func(x ssa.Value) bool // does x denote this call's error?
}

// c17CalleeName names a call for keys: static/interface callee name, or the
// name of the called closure's variable.
func c17CalleeName(ci ssa.CallInstruction) string {
	cc := ci.Common()
	if f := calleeOf(cc); f != nil {
		return f.Name()
	}
	v := cc.Value
	if ld, ok := v.(*ssa.UnOp); ok && ld.Op == token.MUL {
		v = ld.X // load of a (captured) func variable: name the variable
	}
	switch v := v.(type) {
	case *ssa.FreeVar:
		return v.Name()
	case *ssa.Alloc:
		if v.Comment != "" {
			return v.Comment
		}
	case *ssa.MakeClosure:
		return v.Fn.Name()
	}
	return "<dynamic>"
}

// c17FallibleCalls finds the fallible calls of closure f (own body only).
func c17FallibleCalls(f *ssa.Function) []c17Fallible {
	var out []c17Fallible
	var direct []ssa.CallInstruction
	for _, b := range f.Blocks {
		for _, in := range b.Instrs {
			ci, ok := in.(ssa.CallInstruction)
			if !ok {
				continue
			}
			if _, isGo := in.(*ssa.Go); isGo {
				continue
			}
			if _, isDefer := in.(*ssa.Defer); isDefer {
				continue
			}
			cc := ci.Common()
			if _, isBuiltin := cc.Value.(*ssa.Builtin); isBuiltin {
				continue
			}
			sig := cc.Signature()
			if sig != nil && c17ReturnsError(sig) {
				if callee := calleeOf(cc); callee != nil && callee.Pkg() != nil {
					if pp := callee.Pkg().Path(); pp == "fmt" || pp == "errors" {
						continue
					}
				}
				// error transformer: takes an error derived from an earlier fallible call
				transformer := false
				for _, a := range cc.Args {
					if !c17IsErrorType(a.Type()) {
						continue
					}
					for _, o := range origins(a, nil) {
						for _, d := range direct {
							if dv, ok := d.(ssa.Value); ok && o.V == dv {
								transformer = true
							}
						}
					}
				}
				if transformer {
					continue
				}
				direct = append(direct, ci)
				call := ci
				out = append(out, c17Fallible{Call: ci, Name: c17CalleeName(ci), isErr: func(x ssa.Value) bool {
					cv, ok := call.(ssa.Value)
					if !ok || !c17IsErrorType(x.Type()) {
						return false
					}
					for _, o := range origins(x, nil) {
						if o.V == cv {
							return true
						}
					}
					return false
				}})
				continue
			}
			// indirect: call of a captured closure that writes a shared error cell
			if calleeOf(cc) != nil {
				continue
			}
			g := c17FuncOfValue(cc.Value)
			if g == nil || g.Blocks == nil {
				continue
			}
			cells := map[ssa.Value]bool{}
			allInstrs(g, false, func(_ *ssa.Function, gi ssa.Instruction) {
				if st, ok := gi.(*ssa.Store); ok && c17IsErrorType(st.Val.Type()) {
					cell := c17Cell(st.Addr)
					if _, isAlloc := cell.(*ssa.Alloc); isAlloc && cell.Parent() != g {
						cells[cell] = true
					}
				}
			})
			if len(cells) == 0 {
				continue
			}
			call := ci
			out = append(out, c17Fallible{Call: ci, Name: "closure-call", Cells: cells, isErr: func(x ssa.Value) bool {
				ld, ok := x.(*ssa.UnOp)
				if !ok || ld.Op != token.MUL || !cells[c17Cell(ld.X)] {
					return false
				}
				// the load must happen after the call
				return instrReaches(call, ld) && !instrReaches(ld, call)
			}})
		}
	}
	return out
}

// c17NilEdge builds the EdgePred "isErr(e) and e == nil on this edge".
func c17NilEdge(isErr func(ssa.Value) bool) EdgePred {
	return func(cond ssa.Value, pol bool) bool {
		bo, ok := cond.(*ssa.BinOp)
		if !ok || (bo.Op != token.EQL && bo.Op != token.NEQ) {
			return false
		}
		var x ssa.Value
		switch {
		case isNilConst(bo.Y):
			x = bo.X
		case isNilConst(bo.X):
			x = bo.Y
		default:
			return false
		}
		isNil := pol
		if bo.Op == token.NEQ {
			isNil = !pol
		}
		return isNil && isErr(x)
	}
}

// c17CutBetween: every CFG path from instruction `from` to instruction `to`
// (same function) crosses an If edge accepted by pred.  Vacuously true if `to`
// is not reachable from `from`.
func c17CutBetween(from, to ssa.Instruction, pred EdgePred) bool {
	if from.Parent() != to.Parent() {
		return false
	}
	fb, tb := from.Block(), to.Block()
	if fb == tb && instrIndex(from) < instrIndex(to) {
		return false
	}
	seen := map[*ssa.BasicBlock]bool{}
	var st []*ssa.BasicBlock
	push := func(b *ssa.BasicBlock) {
		if ifi, ok := b.Instrs[len(b.Instrs)-1].(*ssa.If); ok && len(b.Succs) == 2 && b.Succs[0] != b.Succs[1] {
			for k, s := range b.Succs {
				c, pol := stripNot(ifi.Cond, k == 0)
				if pred(c, pol) {
					continue
				}
				st = append(st, s)
			}
			return
		}
		st = append(st, b.Succs...)
	}
	push(fb)
	for len(st) > 0 {
		b := st[len(st)-1]
		st = st[:len(st)-1]
		if seen[b] {
			continue
		}
		seen[b] = true
		if b == tb {
			return false
		}
		if isPanicBlock(b) {
			continue
		}
		push(b)
	}
	return true
}

// c17ActionTargets returns, for closure f, the program points that return the
// given IterAction constant: Return instructions with a constant result, or the
// terminators of the predecessor blocks feeding that constant into a returned
// Phi.  undecided is set when some returned value is neither.
func c17ActionTargets(f *ssa.Function, want int64) (targets []ssa.Instruction, undecided bool) {
	var fromVal func(v ssa.Value, at ssa.Instruction, depth int)
	fromVal = func(v ssa.Value, at ssa.Instruction, depth int) {
		switch x := v.(type) {
		case *ssa.Const:
			if x.Value != nil && x.Int64() == want {
				targets = append(targets, at)
			}
		case *ssa.Phi:
			if depth > 6 {
				undecided = true
				return
			}
			for i, e := range x.Edges {
				pb := x.Block().Preds[i]
				fromVal(e, pb.Instrs[len(pb.Instrs)-1], depth+1)
			}
		case *ssa.Convert:
			fromVal(x.X, at, depth+1)
		case *ssa.ChangeType:
			fromVal(x.X, at, depth+1)
		default:
			undecided = true
		}
	}
	for _, r := range returnsOf(f) {
		if len(r.Results) != 1 {
			undecided = true
			continue
		}
		fromVal(r.Results[0], r, 0)
	}
	return
}

// c17UpdateDataplaneConst resolves deltatracker.IterActionUpdateDataplane.
func c17UpdateDataplaneConst(c *Ctx, p *Prog) int64 {
	k, _ := p.LookupExt(c17DeltaPkg, "IterActionUpdateDataplane").(*types.Const)
	if k == nil {
		c.Lost("deltatracker.IterActionUpdateDataplane")
	}
	if namedTypeName(k.Type()) != "IterAction" {
		c.Lost("deltatracker.IterActionUpdateDataplane is not an IterAction")
	}
	n, ok := constInt64(k)
	if !ok {
		c.Lost("deltatracker.IterActionUpdateDataplane has no integer value")
	}
	return n
}

func constInt64(k *types.Const) (int64, bool) {
	v := k.Val()
	if v == nil {
		return 0, false
	}
	var n int64
	if _, err := fmt.Sscan(v.ExactString(), &n); err != nil {
		return 0, false
	}
	return n, true
}

// c17CheckIterAction applies the iteraction rule to every Pending*.Iter closure
// of the given packages.  rule is the declared rule id ("C17.iteraction").
// Returns the sites (for callers that add their own obligations) and the number
// of fallible-call obligations reported.
func c17CheckIterAction(c *Ctx, p *Prog, rule string, pkgs ...string) ([]c17IterSite, int) {
	upd := c17UpdateDataplaneConst(c, p)
	sites := c17IterSites(p, pkgs...)
	n := 0
	for _, s := range sites {
		site := p.Pos(s.Call.Instr.Pos())
		base := fmt.Sprintf("%s/%s/%s", rule, fnName(s.Encl), s.Kind)
		if s.Closure == nil || s.Closure.Blocks == nil {
			c.Undecided(base, site, "argument of %s().Iter is not a function literal; cannot inspect its returns", s.Kind)
			n++
			continue
		}
		fall := c17FallibleCalls(s.Closure)
		if len(fall) == 0 {
			continue // nothing fallible: the closure only reads/queues
		}
		targets, und := c17ActionTargets(s.Closure, upd)
		for _, fc := range fall {
			key := base + "/" + fc.Name
			n++
			if und {
				c.Undecided(key, site, "closure returns a non-constant IterAction")
				continue
			}
			bad := ""
			reach := 0
			for _, t := range targets {
				if fc.Call.Block() == t.Block() && instrIndex(fc.Call) > instrIndex(t) {
					continue
				}
				if !(fc.Call.Block() == t.Block() || blockReach(fc.Call.Block())[t.Block()]) {
					continue
				}
				reach++
				if !c17CutBetween(fc.Call, t, c17NilEdge(fc.isErr)) {
					bad = p.Pos(t.Pos())
				}
			}
			if bad != "" {
				c.Violate(key, p.Pos(fc.Call.Pos()), "closure passed to %s().Iter in %s can return IterActionUpdateDataplane (at %s) on a path where the error of %s was not checked to be nil: the tracker would record a dataplane write that failed",
					s.Kind, fnName(s.Encl), bad, fc.Name)
			} else {
				c.Ok(key, p.Pos(fc.Call.Pos()), "%d UpdateDataplane return(s) reachable from %s, all behind its nil-error edge", reach, fc.Name)
			}
		}
	}
	return sites, n
}

// c17PathsThrough: every CFG path from `from` to `to` (same function) executes
// one of the via instructions; If edges accepted by cut are not followed.
// Vacuously true if `to` is unreachable from `from`.
func c17PathsThrough(from, to ssa.Instruction, via []ssa.Instruction, cut EdgePred) bool {
	hasVia := func(b *ssa.BasicBlock, after, before int) bool {
		for _, v := range via {
			if v.Block() == b {
				i := instrIndex(v)
				if i > after && (before < 0 || i < before) {
					return true
				}
			}
		}
		return false
	}
	fb, tb := from.Block(), to.Block()
	if fb == tb && instrIndex(from) < instrIndex(to) {
		return hasVia(fb, instrIndex(from), instrIndex(to))
	}
	if hasVia(fb, instrIndex(from), -1) {
		return true
	}
	seen := map[*ssa.BasicBlock]bool{}
	var st []*ssa.BasicBlock
	push := func(b *ssa.BasicBlock) {
		if ifi, ok := b.Instrs[len(b.Instrs)-1].(*ssa.If); ok && len(b.Succs) == 2 && b.Succs[0] != b.Succs[1] {
			for k, s := range b.Succs {
				cnd, pol := stripNot(ifi.Cond, k == 0)
				if cut != nil && cut(cnd, pol) {
					continue
				}
				st = append(st, s)
			}
			return
		}
		st = append(st, b.Succs...)
	}
	push(fb)
	for len(st) > 0 {
		b := st[len(st)-1]
		st = st[:len(st)-1]
		if seen[b] {
			continue
		}
		seen[b] = true
		if b == tb {
			if hasVia(b, -1, instrIndex(to)) {
				continue
			}
			return false
		}
		if hasVia(b, -1, -1) || isPanicBlock(b) {
			continue
		}
		push(b)
	}
	return true
}

// c17NonNilEdge is the complement of c17NilEdge: accepts edges on which the
// error is known to be non-nil.
func c17NonNilEdge(isErr func(ssa.Value) bool) EdgePred {
	return func(cond ssa.Value, pol bool) bool {
		bo, ok := cond.(*ssa.BinOp)
		if !ok || (bo.Op != token.EQL && bo.Op != token.NEQ) {
			return false
		}
		var x ssa.Value
		switch {
		case isNilConst(bo.Y):
			x = bo.X
		case isNilConst(bo.X):
			x = bo.Y
		default:
			return false
		}
		isNil := pol
		if bo.Op == token.NEQ {
			isNil = !pol
		}
		return !isNil && isErr(x)
	}
}

// c17ErrOf builds the "x denotes the error result of one of these calls" test.
func c17ErrOf(calls ...ssa.CallInstruction) func(ssa.Value) bool {
	return func(x ssa.Value) bool {
		if !c17IsErrorType(x.Type()) {
			return false
		}
		for _, o := range origins(x, nil) {
			for _, c := range calls {
				if cv, ok := c.(ssa.Value); ok && o.V == cv {
					return true
				}
			}
		}
		return false
	}
}

// c17FieldMutations lists the instructions of fn (and closures) that mutate the
// given struct field: whole-field stores, map updates and delete() on its value.
func c17FieldMutations(fn *ssa.Function, fv *types.Var) (stores, perKey []ssa.Instruction) {
	allInstrs(fn, true, func(_ *ssa.Function, in ssa.Instruction) {
		switch x := in.(type) {
		case *ssa.Store:
			if fa, ok := x.Addr.(*ssa.FieldAddr); ok && fieldVar(fa) == fv {
				stores = append(stores, in)
			}
		case *ssa.MapUpdate:
			if fieldVar(x.Map) == fv {
				perKey = append(perKey, in)
			}
		default:
			if cc, ok := isBuiltinCall(in, "delete"); ok && len(cc.Args) == 2 && fieldVar(cc.Args[0]) == fv {
				perKey = append(perKey, in)
			}
		}
	})
	return
}

// c17PosInParent maps an instruction inside nested closures of `parent` to the
// instruction of parent's own body at which the (outermost) closure is consumed
// by a call (range-over-func bodies, Iter callbacks).  nil if it cannot be found.
func c17PosInParent(in ssa.Instruction, parent *ssa.Function) ssa.Instruction {
	for i := 0; i < 8; i++ {
		fn := in.Parent()
		if fn == parent {
			return in
		}
		if fn == nil || fn.Parent() == nil {
			return nil
		}
		mc := c17MakeClosureOf(fn)
		if mc == nil || mc.Referrers() == nil {
			return nil
		}
		var use ssa.Instruction
		for _, r := range *mc.Referrers() {
			if _, ok := r.(ssa.CallInstruction); ok {
				use = r
			}
		}
		if use == nil {
			return nil
		}
		in = use
	}
	return nil
}
