package main

import (
	"fmt"
	"go/types"
	"strings"

	"golang.org/x/tools/go/ssa"
)

// C31.replace — a full update replaces what the Processor has stored.
//
// The feed has, for some kinds, two messages: a full <K>Update ("the set is
// now exactly these members") and a <K>DeltaUpdate ("add / remove these").  The
// Processor's stored copy is what late joiners are synced from, so after a full
// update it must hold exactly the message's contents.  Structurally: wherever
// elements derived from a full <K>Update message are *added* to a collection
// held in a field of a policysync struct (x.f.Add(...), x.f[k] = ...), that
// collection is fresh on every path: a store of a new (not re-loaded) value to
// x.f, or x.f.Clear(), dominates the add – in the same function or, when x is
// a parameter, at every static caller for the object it passes.  Only the
// delta message may be merged into an existing collection.

// c31FullMsgs: named message types of felix/proto that have a Delta sibling.
func c31FullMsgName(p *Prog, t types.Type) string {
	for {
		pt, ok := t.(*types.Pointer)
		if !ok {
			break
		}
		t = pt.Elem()
	}
	nt, ok := t.(*types.Named)
	if !ok || nt.Obj().Pkg() == nil || !strings.HasSuffix(nt.Obj().Pkg().Path(), "/felix/proto") {
		return ""
	}
	n := nt.Obj().Name()
	if !strings.HasSuffix(n, "Update") || strings.HasSuffix(n, "DeltaUpdate") {
		return ""
	}
	k := strings.TrimSuffix(n, "Update")
	if nt.Obj().Pkg().Scope().Lookup(k+"DeltaUpdate") == nil {
		return ""
	}
	return n
}

// c31DerivedFromFull: backward closure of v over instruction operands (inside
// one function); returns the name of a full feed message such that v is
// computed from an element of one of its repeated fields (the walk reaches the
// message through a slice/array/map typed value: update.GetMembers()[i]).
// Scalars of the message (its Id) do not count.
func c31DerivedFromFull(p *Prog, v ssa.Value) string {
	type st struct {
		v   ssa.Value
		via bool
	}
	seen := map[st]bool{}
	var found string
	var walk func(v ssa.Value, via bool, d int)
	walk = func(v ssa.Value, via bool, d int) {
		if v == nil || seen[st{v, via}] || found != "" || d > 40 {
			return
		}
		seen[st{v, via}] = true
		if n := c31FullMsgName(p, v.Type()); n != "" {
			if via {
				found = n
			}
			return
		}
		t := v.Type()
		if pt, ok := t.Underlying().(*types.Pointer); ok {
			t = pt.Elem()
		}
		switch t.Underlying().(type) {
		case *types.Slice, *types.Array, *types.Map:
			via = true
		}
		switch x := v.(type) {
		case *ssa.Alloc:
			if refs := x.Referrers(); refs != nil {
				for _, r := range *refs {
					if s, ok := r.(*ssa.Store); ok && s.Addr == x {
						walk(s.Val, via, d+1)
					}
				}
			}
			return
		case *ssa.Phi:
			for _, e := range x.Edges {
				walk(e, via, d+1)
			}
			return
		}
		in, ok := v.(ssa.Instruction)
		if !ok {
			return
		}
		for _, op := range in.Operands(nil) {
			if op != nil && *op != nil {
				walk(*op, via, d+1)
			}
		}
	}
	walk(v, false, 0)
	return found
}

type c31Add struct {
	in   ssa.Instruction
	fn   *ssa.Function
	coll ssa.Value // the collection value (a load of a field)
	elem []ssa.Value
}

// c31Adds: element-adding operations on a collection loaded from a struct field.
func c31Adds(fn *ssa.Function) []c31Add {
	var out []c31Add
	allInstrs(fn, false, func(f *ssa.Function, in ssa.Instruction) {
		switch x := in.(type) {
		case *ssa.MapUpdate:
			if fieldVar(x.Map) != nil {
				out = append(out, c31Add{in, f, x.Map, []ssa.Value{x.Key, x.Value}})
			}
		case ssa.CallInstruction:
			cc := x.Common()
			name := ""
			var recv ssa.Value
			var args []ssa.Value
			if cc.IsInvoke() {
				name, recv, args = cc.Method.Name(), cc.Value, cc.Args
			} else if fo := calleeOf(cc); fo != nil && len(cc.Args) > 0 {
				if sig, ok := fo.Type().(*types.Signature); ok && sig.Recv() != nil {
					name, recv, args = fo.Name(), cc.Args[0], cc.Args[1:]
				}
			}
			if recv == nil || !(strings.HasPrefix(name, "Add") || strings.HasPrefix(name, "Insert") || strings.HasPrefix(name, "Put")) {
				return
			}
			if fieldVar(recv) != nil {
				out = append(out, c31Add{in, f, recv, args})
			}
		}
	})
	return out
}

// freshAt: at instruction `at` in its function, field fld of the object `base`
// holds a collection created (or emptied) on every path.
func (m *c31Model) freshAt(at ssa.Instruction, base ssa.Value, fld *types.Var, seen map[string]bool) (bool, string) {
	fn := at.Parent()
	sameBase := func(b ssa.Value) bool { return b == base || c23Same(b, base) }
	found := false
	allInstrs(fn, false, func(_ *ssa.Function, in ssa.Instruction) {
		if found {
			return
		}
		switch x := in.(type) {
		case *ssa.Store:
			fa, ok := x.Addr.(*ssa.FieldAddr)
			if !ok || fieldVar(fa) != fld || !sameBase(fa.X) || !instrDominates(x, at) {
				return
			}
			// the stored value is new: not (derived from) a load of the same field
			reload := false
			c23Back(x.Val, nil, func(l ssa.Value) {
				if fieldVar(l) == fld {
					reload = true
				}
			})
			if !reload {
				found = true
			}
		case ssa.CallInstruction:
			cc := x.Common()
			name := ""
			var recv ssa.Value
			if cc.IsInvoke() {
				name, recv = cc.Method.Name(), cc.Value
			} else if fo := calleeOf(cc); fo != nil && len(cc.Args) > 0 {
				name, recv = fo.Name(), cc.Args[0]
			}
			if name != "Clear" || recv == nil || fieldVar(recv) != fld {
				return
			}
			if _, _, b, ok := fieldOf(recv); ok && sameBase(b) && instrDominates(in, at) {
				found = true
			}
		}
	})
	if found {
		return true, "reset in " + fnName(fn)
	}
	par, ok := base.(*ssa.Parameter)
	if !ok {
		return false, fmt.Sprintf("in %s, %s.%s is neither replaced by a new collection nor cleared before", fnName(fn), path(base), fld.Name())
	}
	key := fnName(fn) + "|" + par.Name()
	if seen[key] {
		return false, "recursive"
	}
	seen[key] = true
	idx := -1
	for i, pp := range fn.Params {
		if pp == par {
			idx = i
		}
	}
	n := 0
	for _, g := range m.p.AllFuncs() {
		if g.Blocks == nil || g.Pkg != fn.Pkg {
			continue
		}
		for _, cs := range callsIn(g, false, func(fo *types.Func) bool { return fo == fn.Object() }) {
			if idx >= len(cs.Common().Args) {
				continue
			}
			n++
			if ok, why := m.freshAt(cs.Instr, cs.Common().Args[idx], fld, seen); !ok {
				return false, fmt.Sprintf("caller %s (%s) hands %s an object whose %s still holds the previous contents: %s", fnName(g), m.p.Pos(cs.Instr.Pos()), fnName(fn), fld.Name(), why)
			}
		}
	}
	if n == 0 {
		return false, "no reset in " + fnName(fn) + " and no static caller"
	}
	return true, fmt.Sprintf("reset by all %d caller(s) of %s", n, fnName(fn))
}

func c31Replace(m *c31Model) {
	c, p := m.c, m.p
	pk := p.SSAPkg(c31Pkg)
	if pk == nil {
		c.Lost("package %s", c31Pkg)
	}
	// anchor: at least one full/delta message pair exists in the feed
	if ext := p.LookupExt("felix/proto", "IPSetDeltaUpdate"); ext == nil {
		c.Lost("felix/proto.IPSetDeltaUpdate (full/delta message pair)")
	}
	n := 0
	for _, f := range p.AllFuncs() {
		if f.Blocks == nil || f.Pkg != pk {
			continue
		}
		for _, a := range c31Adds(f) {
			fld := fieldVar(a.coll)
			if fld.Pkg() == nil || fld.Pkg() != pk.Pkg {
				continue
			}
			msg := ""
			for _, e := range a.elem {
				if msg == "" {
					msg = c31DerivedFromFull(p, e)
				}
			}
			if msg == "" {
				continue
			}
			tname, _, base, ok := fieldOf(a.coll)
			key := "C31.replace/" + tname + "." + fld.Name() + "/" + fnName(a.fn)
			if !ok || c31RootIsFreeVar(base) {
				c.Undecided(key, p.Pos(a.in.Pos()), "cannot resolve the object whose %s receives elements of %s (inside a closure or through an unknown access path %s)", fld.Name(), msg, path(a.coll))
				continue
			}
			n++
			good, why := m.freshAt(a.in, base, fld, map[string]bool{})
			c.Check(good, key, p.Pos(a.in.Pos()),
				fmt.Sprintf("elements of the full %s are added to %s.%s only after it was replaced/cleared (%s)", msg, tname, fld.Name(), why),
				fmt.Sprintf("elements of the full update message %s are merged into the stored %s.%s instead of replacing it: %s; members dropped by the update stay in the Processor's copy and are sent to workloads that join or start referencing the object later", msg, tname, fld.Name(), why))
		}
	}
	if n == 0 {
		c.Lost("no function adds elements of a full <K>Update message (one with a <K>DeltaUpdate sibling) to a stored collection")
	}
}

func c31RootIsFreeVar(v ssa.Value) bool {
	for {
		switch x := v.(type) {
		case *ssa.FreeVar:
			return true
		case *ssa.UnOp:
			v = x.X
		case *ssa.FieldAddr:
			v = x.X
		case *ssa.Field:
			v = x.X
		default:
			return false
		}
	}
}
