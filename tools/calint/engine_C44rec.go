package main

import (
	"fmt"
	"go/token"
	"go/types"
	"sort"

	"golang.org/x/tools/go/ssa"
)

// C44.chainrecord: the endpoint manager programs its dispatch / per-interface
// chains incrementally: it renders the wanted chains, looks the previous version
// up in a record map (name -> chain(s) believed programmed) and calls
// Table.UpdateChain(s) only when they differ.  That is only correct while the
// record is what the table holds, so (E-PAIR):
//
//	(store)  the rendered chains that were compared with record[k] end up as
//	         record[k] - either stored in place after the UpdateChain(s), or stored
//	         unconditionally into a fresh map that later replaces the record field;
//	(remove) every Table.RemoveChains / RemoveChainByName in such a function is
//	         paired with the delete of that entry from the record, or the record
//	         field is replaced wholesale afterwards.
//
// A stale entry makes a later, identical chain look "already programmed": it is
// never written again and the parent chain jumps to a chain that does not exist
// (the interfaces behind it lose their dispatch entry); a missing entry makes the
// chain invisible to the removal loop (it stays for a name no endpoint uses).
//
// Gates and record maps are found structurally: an UpdateChain(s)(X) invoke that
// is control-dependent on the false edge of an equality test (reflect.DeepEqual
// or ==) between X and a lookup in a map-typed parameter / endpointManager field.

type c44RecID struct {
	fld *types.Var
	prm *ssa.Parameter
}

func (r c44RecID) name() string {
	if r.fld != nil {
		return r.fld.Name()
	}
	if r.prm != nil {
		return r.prm.Name()
	}
	return "?"
}

func (x *c44) recOf(v ssa.Value) (c44RecID, bool) {
	v = c44Strip(v)
	if _, ok := v.Type().Underlying().(*types.Map); !ok {
		return c44RecID{}, false
	}
	if prm, ok := v.(*ssa.Parameter); ok {
		return c44RecID{prm: prm}, true
	}
	if f := x.mgrField(v); f != nil {
		return c44RecID{fld: f}, true
	}
	return c44RecID{}, false
}

// c44TableCall: in is an invoke of one of the named methods on an interface that
// is a chain table (has UpdateChains and RemoveChainByName).
func c44TableCall(in ssa.Instruction, names ...string) (*ssa.CallCommon, bool) {
	ci, ok := in.(ssa.CallInstruction)
	if !ok {
		return nil, false
	}
	cc := ci.Common()
	if !cc.IsInvoke() || cc.Method == nil || len(cc.Args) != 1 {
		return nil, false
	}
	hit := false
	for _, n := range names {
		if cc.Method.Name() == n {
			hit = true
		}
	}
	if !hit {
		return nil, false
	}
	it, _ := cc.Value.Type().Underlying().(*types.Interface)
	if it == nil {
		return nil, false
	}
	has := map[string]bool{}
	for i := 0; i < it.NumMethods(); i++ {
		has[it.Method(i).Name()] = true
	}
	if !has["UpdateChains"] || !has["RemoveChainByName"] {
		return nil, false
	}
	return cc, true
}

func c44SameVal(a, b ssa.Value) bool {
	return c44Ident(a) == c44Ident(b) || path(c44Strip(a)) == path(c44Strip(b))
}

// c44EntryOf: v is an entry (key or value) of a record map: a lookup in it or a
// range variable over it.  Returns the record, the entry's key value (may be nil).
func (x *c44) entryOf(v ssa.Value) (c44RecID, ssa.Value, bool) {
	v = c44Strip(v)
	if ex, ok := v.(*ssa.Extract); ok {
		switch t := ex.Tuple.(type) {
		case *ssa.Next:
			rg, _ := t.Iter.(*ssa.Range)
			if rg == nil {
				return c44RecID{}, nil, false
			}
			r, ok := x.recOf(rg.X)
			if !ok {
				return c44RecID{}, nil, false
			}
			var key ssa.Value
			if ex.Index == 1 {
				key = ex
			} else if refs := t.Referrers(); refs != nil {
				for _, rr := range *refs {
					if e2, ok := rr.(*ssa.Extract); ok && e2.Index == 1 {
						key = e2
					}
				}
			}
			return r, key, true
		case *ssa.Lookup:
			if r, ok := x.recOf(t.X); ok && ex.Index == 0 {
				return r, t.Index, true
			}
		}
		return c44RecID{}, nil, false
	}
	if lk, ok := v.(*ssa.Lookup); ok {
		if r, ok := x.recOf(lk.X); ok {
			return r, lk.Index, true
		}
	}
	return c44RecID{}, nil, false
}

type c44Gate struct {
	fn     *ssa.Function
	upd    ssa.Instruction // the UpdateChain(s) call
	val    ssa.Value       // the chains programmed
	rec    c44RecID
	key    ssa.Value
	lookup ssa.Instruction
	table  ssa.Value
}

// differs: the edge (cond, pol) establishes that val differs from an entry of a
// record map (reflect.DeepEqual false, == false, != true).
func (x *c44) differs(cond ssa.Value, pol bool, val ssa.Value) (rec c44RecID, key ssa.Value, lookup ssa.Instruction, ok bool) {
	var a, b ssa.Value
	wantTrue := false
	switch cnd := cond.(type) {
	case *ssa.Call:
		f := calleeOf(cnd.Common())
		if f == nil || f.Name() != "DeepEqual" || f.Pkg() == nil || f.Pkg().Path() != "reflect" || len(cnd.Common().Args) != 2 {
			return
		}
		a, b = cnd.Common().Args[0], cnd.Common().Args[1]
	case *ssa.BinOp:
		switch cnd.Op {
		case token.EQL:
		case token.NEQ:
			wantTrue = true
		default:
			return
		}
		a, b = cnd.X, cnd.Y
	default:
		return
	}
	if pol != wantTrue {
		return
	}
	for _, pr := range [][2]ssa.Value{{a, b}, {b, a}} {
		if !c44SameVal(pr[0], val) {
			continue
		}
		r, k, isEntry := x.entryOf(pr[1])
		if !isEntry || k == nil {
			continue
		}
		lk, _ := c44Strip(pr[1]).(ssa.Instruction)
		if ex, isEx := c44Strip(pr[1]).(*ssa.Extract); isEx {
			lk, _ = ex.Tuple.(ssa.Instruction)
		}
		if lk == nil {
			continue
		}
		return r, k, lk, true
	}
	return
}

// chainGates: the UpdateChain(s)(X) calls of f that are reachable only across an
// edge establishing "X differs from record[k]" (or "record has no entry k").
func (x *c44) chainGates(f *ssa.Function) []c44Gate {
	var out []c44Gate
	allInstrs(f, false, func(fn *ssa.Function, in ssa.Instruction) {
		cc, ok := c44TableCall(in, "UpdateChain", "UpdateChains")
		if !ok {
			return
		}
		val := cc.Args[0]
		// candidate comparisons anywhere in the function
		for _, b := range fn.Blocks {
			ifi, isIf := b.Instrs[len(b.Instrs)-1].(*ssa.If)
			if !isIf {
				continue
			}
			for _, pol := range []bool{true, false} {
				cnd, p2 := stripNot(ifi.Cond, pol)
				rec, key, lk, ok := x.differs(cnd, p2, val)
				if !ok {
					continue
				}
				pred := func(c ssa.Value, pl bool) bool {
					if r, _, _, ok := x.differs(c, pl, val); ok && r == rec {
						return true
					}
					// `_, ok := record[k]` false: nothing recorded
					if ex, isEx := c.(*ssa.Extract); isEx && ex.Index == 1 && !pl {
						if lk2, isLk := ex.Tuple.(*ssa.Lookup); isLk && lk2.CommaOk {
							if r, isRec := x.recOf(lk2.X); isRec && r == rec {
								return true
							}
						}
					}
					return false
				}
				if guardedCut(in, pred) {
					out = append(out, c44Gate{fn: fn, upd: in, val: val, rec: rec, key: key, lookup: lk, table: cc.Value})
					return
				}
			}
		}
	})
	return out
}

func (x *c44) chainrecord() {
	c, p := x.c, x.p
	nGates := 0
	for _, f := range x.mgrFuncs() {
		gates := x.chainGates(f)
		if len(gates) == 0 {
			continue
		}
		nGates += len(gates)
		pd := postDominators(f)
		gated := map[c44RecID]bool{}
		for _, g := range gates {
			gated[g.rec] = true
		}
		// replacement of a record field by another map: field -> stores
		swaps := map[*types.Var][]*ssa.Store{}
		var updates []*ssa.MapUpdate
		var deletes []ssa.Instruction
		allInstrs(f, false, func(_ *ssa.Function, in ssa.Instruction) {
			switch y := in.(type) {
			case *ssa.Store:
				if fa, ok := y.Addr.(*ssa.FieldAddr); ok {
					fv := structField(fa.X.Type(), fa.Field)
					if gated[c44RecID{fld: fv}] {
						if r, ok := x.recOf(y.Val); !ok || r.fld != fv {
							swaps[fv] = append(swaps[fv], y)
						}
					}
				}
			case *ssa.MapUpdate:
				updates = append(updates, y)
			}
			if _, ok := isBuiltinCall(in, "delete"); ok {
				deletes = append(deletes, in)
			}
		})

		// ---- store
		seen := map[string]int{}
		for _, g := range gates {
			key := "C44.chainrecord/store/" + fnName(f) + "/" + g.rec.name()
			seen[key]++
			if n := seen[key]; n > 1 {
				key = fmt.Sprintf("%s#%d", key, n)
			}
			how := ""
			for _, mu := range updates {
				if !c44SameVal(mu.Value, g.val) || !c44SameVal(mu.Key, g.key) {
					continue
				}
				if r, ok := x.recOf(mu.Map); ok && r == g.rec {
					if instrPostDominates(pd, mu, g.upd) || (instrDominates(mu, g.upd) && instrPostDominates(pd, g.upd, mu)) {
						how = "stored in place together with the update"
					}
					continue
				}
				// fresh map that replaces the record field
				if g.rec.fld == nil || !instrPostDominates(pd, mu, g.lookup) {
					continue
				}
				for _, sw := range swaps[g.rec.fld] {
					if c44SameVal(sw.Val, mu.Map) && instrPostDominates(pd, sw, mu) {
						how = "stored unconditionally into the map that replaces " + g.rec.name()
					}
				}
			}
			if how != "" {
				c.Ok(key, p.Pos(g.upd.Pos()), "%s[%s] is compared with %s to decide on %s; the programmed value is %s", g.rec.name(), c44Short(g.key), c44Short(g.val), c44CallMethod(g.upd), how)
			} else {
				c.Violate(key, p.Pos(g.upd.Pos()), "%s calls %s(%s) only when it differs from %s[%s], but does not make %s[%s] = %s on every path afterwards (in place after the call, or unconditionally in a map that then replaces %s): the record no longer tells what the table holds, so the chain is invisible to the removal of no-longer-wanted chains (it stays programmed for an interface name no live endpoint uses) and is rewritten on every pass",
					fnName(f), c44CallMethod(g.upd), c44Short(g.val), g.rec.name(), c44Short(g.key), g.rec.name(), c44Short(g.key), c44Short(g.val), g.rec.name())
			}
		}

		// ---- remove
		allInstrs(f, false, func(_ *ssa.Function, in ssa.Instruction) {
			cc, ok := c44TableCall(in, "RemoveChains", "RemoveChainByName")
			if !ok {
				return
			}
			arg := cc.Args[0]
			var recs []c44RecID
			var entryKey ssa.Value
			if r, k, ok := x.entryOf(arg); ok {
				if !gated[r] {
					return // entry of a map that is not a diff record
				}
				recs, entryKey = []c44RecID{r}, k
			} else {
				for _, g := range gates {
					if path(g.table) == path(cc.Value) {
						dup := false
						for _, r := range recs {
							dup = dup || r == g.rec
						}
						if !dup {
							recs = append(recs, g.rec)
						}
					}
				}
				if cc.Method.Name() == "RemoveChainByName" {
					entryKey = arg
				}
			}
			sort.Slice(recs, func(i, j int) bool { return recs[i].name() < recs[j].name() })
			for _, r := range recs {
				key := "C44.chainrecord/remove/" + fnName(f) + "/" + r.name()
				seen[key]++
				if n := seen[key]; n > 1 {
					key = fmt.Sprintf("%s#%d", key, n)
				}
				how := ""
				for _, d := range deletes {
					dc, _ := isBuiltinCall(d, "delete")
					if dr, ok := x.recOf(dc.Args[0]); !ok || dr != r {
						continue
					}
					if entryKey == nil || !c44SameVal(dc.Args[1], entryKey) {
						continue
					}
					if instrPostDominates(pd, d, in) || (d.Block() == in.Block() && instrDominates(d, in)) {
						how = "delete(" + r.name() + ", " + c44Short(entryKey) + ") accompanies the removal"
					}
				}
				if how == "" && r.fld != nil {
					for _, sw := range swaps[r.fld] {
						if instrPostDominates(pd, sw, in) {
							how = r.name() + " is replaced by the freshly built record afterwards"
						}
					}
				}
				if how != "" {
					c.Ok(key, p.Pos(in.Pos()), "%s(%s): %s", cc.Method.Name(), c44Short(arg), how)
				} else {
					c.Violate(key, p.Pos(in.Pos()), "%s removes a chain from the table with %s(%s) but leaves its entry in %s, the record the next pass compares newly rendered chains with: when the same chain is rendered again (an endpoint with that interface name comes back) it equals the stale entry, %s is skipped, and the parent dispatch chain jumps to a chain that does not exist - the live endpoints behind it have no dispatch entry",
						fnName(f), cc.Method.Name(), c44Short(arg), r.name(), "UpdateChain")
				}
			}
		})
	}
	if nGates == 0 {
		c.Lost("no Table.UpdateChain(s) call in endpointManager is gated on a comparison with a record map entry (updateDispatchChains / updateHostEndpoints diff programming)")
	}
}

// c44Short renders a value's access path, shortened for messages.
func c44Short(v ssa.Value) string {
	s := []rune(path(v))
	if len(s) > 72 {
		return string(s[:69]) + "..."
	}
	return string(s)
}

func c44CallMethod(in ssa.Instruction) string {
	if ci, ok := in.(ssa.CallInstruction); ok && ci.Common().Method != nil {
		return ci.Common().Method.Name()
	}
	return "call"
}
