package main

import (
	"fmt"
	"go/token"
	"go/types"
	"sort"

	"golang.org/x/tools/go/ssa"
)

// C10.mapview (E-PAIR)
//
// The nftables map/set planes (felix/nftables Maps, IPSets) keep two believed
// views of the kernel: WHICH maps exist (the Dataplane() side of the metadata
// delta tracker) and, per map, WHICH members it holds (the Dataplane() side of
// the per-map member tracker).  The write path creates a map that is not in the
// first view and adds only the members that are not in the second, so the two
// views are tied by the invariant
//
//	a map that is not believed to exist has no members believed to be programmed.
//
// A method that resets the whole "exists" view (DeleteAll / Replace* on
// <meta>.Dataplane()) therefore has to visit every member tracker it keeps and
// reset its Dataplane() side (or drop the tracker), unless the map has been put
// back into the "exists" view in the meantime.  Otherwise the map is re-created
// empty while its members are believed to be programmed: the workload dispatch
// verdict map comes back without elements and every known interface falls to
// the unknown-interface drop.
//
// Both views are derived from the types of the fields (deltatracker.DeltaTracker
// and map[…]*deltatracker.SetDeltaTracker), the methods from the calls they make.

type c10ViewOwner struct {
	name string
	meta *types.Var // *deltatracker.DeltaTracker[name, metadata]
	mem  *types.Var // map[name]*deltatracker.SetDeltaTracker[member]
}

func c10IsDT(f *types.Func, recv string, names ...string) bool {
	if f == nil || f.Pkg() == nil || f.Pkg().Path() != calicoPrefix+c10DTPkg || recvTypeName(f) != recv {
		return false
	}
	for _, n := range names {
		if f.Name() == n || (n == "Replace*" && len(f.Name()) > 7 && f.Name()[:7] == "Replace") {
			return true
		}
	}
	return false
}

// c10ViewOwners: struct types of pkg with exactly one metadata tracker field and
// one map-of-member-trackers field.
func c10ViewOwners(c *Ctx, p *Prog, pkg string) []c10ViewOwner {
	pk := p.Pkg(pkg)
	if pk == nil {
		c.Lost("package %s", pkg)
	}
	var out []c10ViewOwner
	sc := pk.Types.Scope()
	for _, n := range sc.Names() {
		tn, ok := sc.Lookup(n).(*types.TypeName)
		if !ok || tn.IsAlias() {
			continue
		}
		st, ok := tn.Type().Underlying().(*types.Struct)
		if !ok {
			continue
		}
		var metas, mems []*types.Var
		for i := 0; i < st.NumFields(); i++ {
			f := st.Field(i)
			if _, isPtr := f.Type().(*types.Pointer); isPtr && qualTypeName(f.Type()) == c10DTPkg+".DeltaTracker" {
				metas = append(metas, f)
			}
			if mt, isMap := f.Type().Underlying().(*types.Map); isMap {
				if _, isPtr := mt.Elem().(*types.Pointer); isPtr && qualTypeName(mt.Elem()) == c10DTPkg+".SetDeltaTracker" {
					mems = append(mems, f)
				}
			}
		}
		if len(metas) == 0 || len(mems) == 0 {
			continue
		}
		if len(metas) != 1 || len(mems) != 1 {
			c.Undecided("C10.mapview/"+n, p.Pos(tn.Pos()), "%s has %d metadata trackers and %d member-tracker maps: which member view belongs to which existence view cannot be derived", n, len(metas), len(mems))
			continue
		}
		out = append(out, c10ViewOwner{n, metas[0], mems[0]})
	}
	sort.Slice(out, func(i, j int) bool { return out[i].name < out[j].name })
	return out
}

// c10DataplaneOf: v is `<X>.Dataplane()`; returns X.
func c10DataplaneOf(v ssa.Value) ssa.Value {
	call, ok := v.(*ssa.Call)
	if !ok {
		return nil
	}
	f := calleeOf(call.Common())
	if !c10IsDT(f, "DeltaTracker", "Dataplane") && !c10IsDT(f, "SetDeltaTracker", "Dataplane") {
		return nil
	}
	if len(call.Common().Args) != 1 {
		return nil
	}
	return call.Common().Args[0]
}

// c10Loop is one `for k, v := range recv.<mem>` loop.
type c10Loop struct {
	next   *ssa.Next
	header *ssa.BasicBlock
	body   *ssa.BasicBlock
	done   *ssa.BasicBlock
}

func (l *c10Loop) isKey(v ssa.Value) bool {
	ex, ok := v.(*ssa.Extract)
	return ok && ex.Tuple == ssa.Value(l.next) && ex.Index == 1
}

func (l *c10Loop) isVal(v ssa.Value) bool {
	ex, ok := v.(*ssa.Extract)
	return ok && ex.Tuple == ssa.Value(l.next) && ex.Index == 2
}

func c10LoopsOver(fn *ssa.Function, fld *types.Var) []*c10Loop {
	var out []*c10Loop
	allInstrs(fn, false, func(_ *ssa.Function, in ssa.Instruction) {
		nx, ok := in.(*ssa.Next)
		if !ok {
			return
		}
		rg, ok := nx.Iter.(*ssa.Range)
		if !ok || fieldVar(rg.X) != fld {
			return
		}
		b := nx.Block()
		ifi, ok := b.Instrs[len(b.Instrs)-1].(*ssa.If)
		if !ok || len(b.Succs) != 2 {
			return
		}
		ex, ok := ifi.Cond.(*ssa.Extract)
		if !ok || ex.Tuple != ssa.Value(nx) || ex.Index != 0 {
			return
		}
		out = append(out, &c10Loop{nx, b, b.Succs[0], b.Succs[1]})
	})
	return out
}

type c10ViewCheck struct {
	p     *Prog
	pkg   string
	own   c10ViewOwner
	memoH map[*ssa.Function]int // 0 unknown, 1 resets one tracker (by param), 2 no
}

// isTracker: v is the member tracker identified by isVal (the tracker value
// itself) or isKey (its name: recv.<mem>[name]).
func (vc *c10ViewCheck) isTracker(v ssa.Value, isKey, isVal func(ssa.Value) bool) bool {
	if isVal(v) {
		return true
	}
	if lk, ok := v.(*ssa.Lookup); ok && !lk.CommaOk && fieldVar(lk.X) == vc.own.mem && isKey(lk.Index) {
		return true
	}
	if ex, ok := v.(*ssa.Extract); ok && ex.Index == 0 {
		if lk, ok := ex.Tuple.(*ssa.Lookup); ok && fieldVar(lk.X) == vc.own.mem && isKey(lk.Index) {
			return true
		}
	}
	return false
}

// noTrackerCut accepts the If edges on which there is nothing to reset for the
// identified tracker: the tracker is nil, it is absent from the member map, or
// (existsCut) its map is in the "exists" view: `_, ok := recv.<meta>.Dataplane().Get(name); ok`.
func (vc *c10ViewCheck) noTrackerCut(isKey, isVal func(ssa.Value) bool, existsCut bool) EdgePred {
	return func(cond ssa.Value, pol bool) bool {
		if bo, ok := cond.(*ssa.BinOp); ok && (bo.Op == token.EQL || bo.Op == token.NEQ) {
			want := bo.Op == token.EQL
			return pol == want && ((vc.isTracker(bo.X, isKey, isVal) && isNilConst(bo.Y)) || (vc.isTracker(bo.Y, isKey, isVal) && isNilConst(bo.X)))
		}
		ex, ok := cond.(*ssa.Extract)
		if !ok || ex.Index != 1 {
			return false
		}
		if lk, ok := ex.Tuple.(*ssa.Lookup); ok {
			return !pol && lk.CommaOk && fieldVar(lk.X) == vc.own.mem && isKey(lk.Index)
		}
		if !existsCut || !pol {
			return false
		}
		call, ok := ex.Tuple.(*ssa.Call)
		if !ok || !c10IsDT(calleeOf(call.Common()), "DataplaneView", "Get") || len(call.Common().Args) != 2 {
			return false
		}
		tr := c10DataplaneOf(call.Common().Args[0])
		return tr != nil && fieldVar(tr) == vc.own.meta && isKey(call.Common().Args[1])
	}
}

// resetsTracker: in resets the dataplane member view of the tracker identified
// by isKey (its name) / isVal (the tracker itself): DeleteAll/Replace* on its
// Dataplane() side, removal or replacement of its entry in the member map, or a
// helper of the package doing one of these for the corresponding parameter
// before each of its returns.
func (vc *c10ViewCheck) resetsTracker(in ssa.Instruction, isKey, isVal func(ssa.Value) bool, depth int) bool {
	isTracker := func(v ssa.Value) bool { return vc.isTracker(v, isKey, isVal) }
	switch y := in.(type) {
	case *ssa.MapUpdate:
		return fieldVar(y.Map) == vc.own.mem && isKey(y.Key)
	case ssa.CallInstruction:
		cc := y.Common()
		if b, ok := cc.Value.(*ssa.Builtin); ok {
			return b.Name() == "delete" && len(cc.Args) == 2 && fieldVar(cc.Args[0]) == vc.own.mem && isKey(cc.Args[1])
		}
		f := calleeOf(cc)
		if c10IsDT(f, "DataplaneSetView", "DeleteAll", "Replace*") && len(cc.Args) >= 1 {
			if tr := c10DataplaneOf(cc.Args[0]); tr != nil && isTracker(tr) {
				return true
			}
			return false
		}
		h := calleeFn(cc)
		if h == nil || h.Blocks == nil || depth >= 2 || h.Pkg == nil || h.Pkg.Pkg.Path() != calicoPrefix+vc.pkg {
			return false
		}
		for i, a := range cc.Args {
			if i >= len(h.Params) {
				break
			}
			par := h.Params[i]
			var hk, hv func(ssa.Value) bool
			switch {
			case isKey(a):
				hk, hv = func(v ssa.Value) bool { return v == ssa.Value(par) }, func(ssa.Value) bool { return false }
			case isTracker(a):
				hk, hv = func(ssa.Value) bool { return false }, func(v ssa.Value) bool { return v == ssa.Value(par) }
			default:
				continue
			}
			if c10ReachesReturn(h, vc.noTrackerCut(hk, hv, false), func(in2 ssa.Instruction) bool { return vc.resetsTracker(in2, hk, hv, depth+1) }) == nil {
				return true
			}
		}
	}
	return false
}

// iterationGap: a path through one iteration of loop l on which the ranged
// tracker is neither reset nor dropped nor known to be in the "exists" view
// (the latter only if existsCut).  Returns the instruction where that path
// leaves the iteration (nil if there is none).
func (vc *c10ViewCheck) iterationGap(l *c10Loop, existsCut bool) ssa.Instruction {
	cut := vc.noTrackerCut(l.isKey, l.isVal, existsCut)
	type item struct{ b, pred *ssa.BasicBlock }
	lastPos := func(b *ssa.BasicBlock) ssa.Instruction {
		for i := len(b.Instrs) - 1; i >= 0; i-- {
			if b.Instrs[i].Pos().IsValid() {
				return b.Instrs[i]
			}
		}
		if rg, ok := l.next.Iter.(*ssa.Range); ok {
			return rg // position of the range statement
		}
		return l.next
	}
	seen := map[*ssa.BasicBlock]bool{}
	st := []item{{l.body, l.header}}
	for len(st) > 0 {
		b, pred := st[len(st)-1].b, st[len(st)-1].pred
		st = st[:len(st)-1]
		if b == l.header || b == l.done {
			// came back round (or left the loop) without touching the tracker
			return lastPos(pred)
		}
		if seen[b] {
			continue
		}
		seen[b] = true
		if isPanicBlock(b) {
			continue
		}
		stopped := false
		for _, in := range b.Instrs {
			if vc.resetsTracker(in, l.isKey, l.isVal, 0) {
				stopped = true
				break
			}
			if r, ok := in.(*ssa.Return); ok {
				return r
			}
		}
		if stopped {
			continue
		}
		if ifi, ok := b.Instrs[len(b.Instrs)-1].(*ssa.If); ok && len(b.Succs) == 2 && b.Succs[0] != b.Succs[1] {
			for k, s := range b.Succs {
				if cnd, pol := stripNot(ifi.Cond, k == 0); cut(cnd, pol) {
					continue
				}
				st = append(st, item{s, b})
			}
			continue
		}
		for _, s := range b.Succs {
			st = append(st, item{s, b})
		}
	}
	return nil
}

// c10IsErrorReturn: r returns a non-nil value in a trailing result of type error.
// (In a function with defers go/ssa returns loads of result cells: the value is
// then the one stored to the cell in the returning block; if that store cannot be
// found the return counts as a normal one.)
func c10IsErrorReturn(r *ssa.Return) bool {
	if len(r.Results) == 0 {
		return false
	}
	last := r.Results[len(r.Results)-1]
	if !types.Identical(last.Type(), types.Universe.Lookup("error").Type()) {
		return false
	}
	if u, ok := last.(*ssa.UnOp); ok && u.Op == token.MUL {
		if al, ok := u.X.(*ssa.Alloc); ok {
			instrs := r.Block().Instrs
			for i := len(instrs) - 1; i >= 0; i-- {
				if st, ok := instrs[i].(*ssa.Store); ok && st.Addr == ssa.Value(al) {
					return !isNilConst(st.Val)
				}
			}
			return false
		}
	}
	return !isNilConst(last)
}

// sweeps: fn (a helper) visits every member tracker on every normally-returning
// path: each such path runs a gap-free loop over the member map.
func (vc *c10ViewCheck) sweeps(fn *ssa.Function) bool {
	if fn == nil || fn.Blocks == nil || fn.Pkg == nil || fn.Pkg.Pkg.Path() != calicoPrefix+vc.pkg {
		return false
	}
	if v, ok := vc.memoH[fn]; ok {
		return v == 1
	}
	vc.memoH[fn] = 2
	good := map[*ssa.BasicBlock]bool{}
	for _, l := range c10LoopsOver(fn, vc.own.mem) {
		if vc.iterationGap(l, false) == nil {
			good[l.header] = true
		}
	}
	if len(good) == 0 {
		return false
	}
	if vc.escapes(fn.Blocks[0], 0, good, false) == nil {
		vc.memoH[fn] = 1
		return true
	}
	return false
}

// escapes: a normal (non-error) Return reachable from instruction index `from`
// of block b without entering a block of `good` and (if helpers) without
// calling a sweeping helper.
func (vc *c10ViewCheck) escapes(b0 *ssa.BasicBlock, from int, good map[*ssa.BasicBlock]bool, helpers bool) *ssa.Return {
	type item struct {
		b    *ssa.BasicBlock
		from int
	}
	seen := map[*ssa.BasicBlock]bool{}
	st := []item{{b0, from}}
	for len(st) > 0 {
		it := st[len(st)-1]
		st = st[:len(st)-1]
		b := it.b
		if it.from == 0 {
			if good[b] {
				continue
			}
			if seen[b] {
				continue
			}
			seen[b] = true
		}
		if isPanicBlock(b) {
			continue
		}
		stopped := false
		for _, in := range b.Instrs[it.from:] {
			if ci, ok := in.(ssa.CallInstruction); ok && helpers {
				if h := calleeFn(ci.Common()); h != nil && h != b.Parent() && vc.sweeps(h) {
					stopped = true
					break
				}
			}
			if r, ok := in.(*ssa.Return); ok {
				if c10IsErrorReturn(r) {
					stopped = true
					break
				}
				return r
			}
		}
		if stopped {
			continue
		}
		for _, s := range b.Succs {
			st = append(st, item{s, 0})
		}
	}
	return nil
}

func c10MapView(c *Ctx, p *Prog) {
	c.Rule("C10.mapview", "E-PAIR", "a method of an nftables map/set plane that resets the whole \"exists in the dataplane\" view (DeleteAll/Replace* on the metadata tracker's Dataplane() side) also, on every normally-returning path, visits every per-map member tracker and resets its Dataplane() side (or drops the tracker) unless the map is back in the \"exists\" view", 3)
	owners := c10ViewOwners(c, p, c10NftPkg)
	haveMaps := false
	for _, o := range owners {
		// the dispatch verdict maps are programmed through the type that has AddOrReplaceMap
		if p.Func(c10NftPkg, o.name+".AddOrReplaceMap") != nil {
			haveMaps = true
		}
	}
	if !haveMaps {
		c.Lost("%s: no type with a metadata tracker, a map of member trackers and an AddOrReplaceMap method (found %d candidates)", c10NftPkg, len(owners))
	}
	for _, own := range owners {
		vc := &c10ViewCheck{p: p, pkg: c10NftPkg, own: own, memoH: map[*ssa.Function]int{}}
		n := 0
		for _, fn := range p.methodsOf(c10NftPkg, own.name) {
			var drops []ssa.CallInstruction
			allInstrs(fn, true, func(f *ssa.Function, in ssa.Instruction) {
				ci, ok := in.(ssa.CallInstruction)
				if !ok {
					return
				}
				cc := ci.Common()
				if !c10IsDT(calleeOf(cc), "DataplaneView", "DeleteAll", "Replace*") || len(cc.Args) < 1 {
					return
				}
				if tr := c10DataplaneOf(cc.Args[0]); tr != nil && fieldVar(tr) == own.meta {
					if f != fn {
						n++
						c.Undecided(fmt.Sprintf("C10.mapview/%s/%s", fnName(fn), own.mem.Name()), p.Pos(in.Pos()), "the \"exists\" view %s is reset inside a closure of %s", own.meta.Name(), fnName(fn))
						return
					}
					drops = append(drops, ci)
				}
			})
			if len(drops) == 0 {
				continue
			}
			loops := c10LoopsOver(fn, own.mem)
			key := fmt.Sprintf("C10.mapview/%s/%s", fnName(fn), own.mem.Name())
			for _, d := range drops {
				n++
				site := p.Pos(d.Pos())
				// (1) sweep after the drop: every normal path from the drop to a return runs a gap-free loop
				good := map[*ssa.BasicBlock]bool{}
				var gap ssa.Instruction
				for _, l := range loops {
					after := instrDominates(d, l.next)
					before := !after && instrDominates(l.next, d) && (l.done == d.Block() || l.done.Dominates(d.Block()))
					if !after && !before {
						continue
					}
					g := vc.iterationGap(l, after)
					if g != nil {
						if gap == nil {
							gap = g
						}
						continue
					}
					if before {
						good = nil // a complete sweep already happened on every path to the drop
						break
					}
					good[l.header] = true
				}
				if good == nil {
					c.Ok(key, site, "every member tracker's dataplane view is reset by the loop that precedes the reset of %s", own.meta.Name())
					continue
				}
				esc := vc.escapes(d.Block(), instrIndex(d)+1, good, true)
				switch {
				case esc == nil:
					c.Ok(key, site, "after %s.Dataplane() is reset every kept member tracker has its Dataplane() side reset (or is in the rebuilt \"exists\" view) before %s returns", own.meta.Name(), fnName(fn))
				case gap != nil:
					c.Violate(key, p.Pos(gap.Pos()), "%s resets the \"exists in the dataplane\" view %s.Dataplane() (%s), but its loop over %s has an iteration path (ending at %s) on which the map's member tracker is kept with its Dataplane() side untouched and the map is not known to be back in the \"exists\" view: the map will be re-created while its members are still believed to be programmed, so they are never re-added (an nftables dispatch verdict map comes back empty and every known workload interface hits the unknown-interface drop)", fnName(fn), own.meta.Name(), site, own.mem.Name(), p.Pos(gap.Pos()))
				default:
					c.Violate(key, p.Pos(esc.Pos()), "%s resets the \"exists in the dataplane\" view %s.Dataplane() (%s) and can return (%s) without visiting the member trackers in %s to reset their Dataplane() side: maps are re-created while their members are still believed to be programmed", fnName(fn), own.meta.Name(), site, p.Pos(esc.Pos()), own.mem.Name())
				}
			}
		}
		if n == 0 {
			c.Lost("%s: no method resets %s.Dataplane() as a whole (the resync/invalidate methods are gone?)", own.name, own.meta.Name())
		}
	}
}
