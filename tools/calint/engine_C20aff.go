package main

import (
	"fmt"
	"go/token"
	"go/types"
	"sort"
	"strings"

	"golang.org/x/tools/go/ssa"
)

// C20.afftype — one classification of a request's intended use into an affinity
// type, applied by every function that builds an AffinityConfig for a request.
//
// The blocks a request may use / has to count against MaxBlocksPerHost are found
// by listing the block affinities of (AffinityType, Host); new blocks are claimed
// under (AffinityType, Host) too.  Several functions on the same request path
// build their own AffinityConfig from the request's host and intended use
// (autoAssign claims and assigns with its config, prepareAffinityBlocksForHost
// looks the existing affinities up with its own, AssignIP claims with a third).
// They only talk about the same set of blocks if every one of them maps the
// intended use to the affinity type in the same way: LoadBalancer → virtual,
// anything else → host.
//
// Decided per function, path-sensitively: a small forward abstract
// interpretation over the CFG with the state
//
//	fact  — what the path has established about `use == LoadBalancer` (unknown / true / false)
//	cells — for every local AffinityConfig (and every phi of type AffinityType) the
//	        AffinityType it holds: zero / host / virtual / unknown
//
// At every point where a config leaves the function's hands (whole-struct load that
// is passed, stored or returned; its address escaping; its AffinityType read) the
// pair (fact, type) must be (true, virtual) or (false, host).

const c20APIv3 = "github.com/projectcalico/api/pkg/apis/projectcalico/v3"

type c20AffModel struct {
	cfgT, useT, affT  types.Type
	fType             *types.Var
	kHost, kVirt, kLB *types.Const
}

func c20ConstIs(v ssa.Value, k *types.Const) bool {
	cst, ok := v.(*ssa.Const)
	return ok && cst.Value != nil && k != nil && cst.Value.ExactString() == k.Val().ExactString() && types.Identical(cst.Type(), k.Type())
}

type c20AffState struct {
	fact  byte // 'U', 'T', 'F'
	cells string
}

func c20AffType(m *c20Model) {
	c, p := m.c, m.p
	am := &c20AffModel{}
	typ := func(pkg, name string) types.Type {
		o := p.LookupObj(pkg, name)
		if o == nil {
			o = p.LookupExt(pkg, name)
		}
		tn, _ := o.(*types.TypeName)
		if tn == nil {
			c.Lost("type %s.%s", pkg, name)
		}
		return tn.Type()
	}
	cst := func(pkg, name string) *types.Const {
		o := p.LookupObj(pkg, name)
		if o == nil {
			o = p.LookupExt(pkg, name)
		}
		k, _ := o.(*types.Const)
		if k == nil {
			c.Lost("constant %s.%s", pkg, name)
		}
		return k
	}
	am.cfgT = typ(c21IpamPkg, "AffinityConfig")
	am.affT = typ(c21IpamPkg, "AffinityType")
	am.useT = typ(c20APIv3, "IPPoolAllowedUse")
	am.fType, _ = p.LookupObj(c21IpamPkg, "AffinityConfig.AffinityType").(*types.Var)
	if am.fType == nil {
		c.Lost("field AffinityConfig.AffinityType")
	}
	am.kHost, am.kVirt = cst(c21IpamPkg, "AffinityTypeHost"), cst(c21IpamPkg, "AffinityTypeVirtual")
	am.kLB = cst(c20APIv3, "IPPoolAllowedUseLoadBalancer")

	var fns []*ssa.Function
	for _, f := range p.AllFuncs() {
		if f.Pkg != nil && f.Pkg.Pkg.Path() == calicoPrefix+c21IpamPkg && f.Blocks != nil {
			fns = append(fns, f)
		}
	}
	sort.Slice(fns, func(i, j int) bool { return fns[i].Pos() < fns[j].Pos() })
	n := 0
	for _, f := range fns {
		if c20AffOne(c, p, am, f) {
			n++
		}
	}
	if n == 0 {
		c.Lost("no function of lib/ipam builds an AffinityConfig with an intended use in scope")
	}
}

// c20AffOne analyses one function; reports whether it is an instance (builds an
// AffinityConfig while an intended-use value is in scope).
func c20AffOne(c *Ctx, p *Prog, am *c20AffModel, f *ssa.Function) bool {
	isCfgAlloc := func(v ssa.Value) (*ssa.Alloc, bool) {
		a, ok := v.(*ssa.Alloc)
		if !ok {
			return nil, false
		}
		return a, types.Identical(derefType(a.Type()), am.cfgT)
	}
	// cells
	cellOf := map[ssa.Value]int{}
	var allocs []*ssa.Alloc
	useInScope := false
	for _, pa := range f.Params {
		if types.Identical(pa.Type(), am.useT) {
			useInScope = true
		}
	}
	for _, fv := range f.FreeVars {
		if types.Identical(derefType(fv.Type()), am.useT) {
			useInScope = true
		}
	}
	for _, b := range f.Blocks {
		for _, in := range b.Instrs {
			if a, ok := isCfgAlloc(c20ValueOf(in)); ok {
				cellOf[a] = len(cellOf)
				allocs = append(allocs, a)
			}
			if ph, ok := in.(*ssa.Phi); ok && types.Identical(ph.Type(), am.affT) {
				cellOf[ph] = len(cellOf)
			}
			if v := c20ValueOf(in); v != nil {
				if _, isConst := v.(*ssa.Const); !isConst && types.Identical(v.Type(), am.useT) {
					useInScope = true
				}
			}
		}
	}
	if len(allocs) == 0 || !useInScope {
		return false
	}
	// only configs whose AffinityType this function decides are instances
	decides := false
	for _, a := range allocs {
		for _, r := range *a.Referrers() {
			if fa, ok := r.(*ssa.FieldAddr); ok && structField(fa.X.Type(), fa.Field) == am.fType {
				for _, rr := range *fa.Referrers() {
					if st, ok := rr.(*ssa.Store); ok && st.Addr == ssa.Value(fa) {
						decides = true
					}
				}
			}
		}
	}
	if !decides {
		return false
	}
	key := "C20.afftype/" + fnName(f)
	site := p.Pos(f.Pos())

	// the LoadBalancer tests of this function
	lbTest := func(cond ssa.Value, pol bool) (fact byte, use ssa.Value, ok bool) {
		a, b, equal, isEq := c21Eq(cond, pol)
		if !isEq {
			return 0, nil, false
		}
		for _, pr := range [][2]ssa.Value{{a, b}, {b, a}} {
			if c20ConstIs(pr[1], am.kLB) {
				if equal {
					return 'T', pr[0], true
				}
				return 'F', pr[0], true
			}
		}
		return 0, nil, false
	}
	uses := map[string]bool{}
	for _, b := range f.Blocks {
		if ifi, ok := b.Instrs[len(b.Instrs)-1].(*ssa.If); ok {
			cnd, pol := stripNot(ifi.Cond, true)
			if _, u, ok := lbTest(cnd, pol); ok {
				uses[path(u)] = true
			}
		}
	}
	if len(uses) > 1 {
		var us []string
		for u := range uses {
			us = append(us, u)
		}
		sort.Strings(us)
		c.Undecided(key, site, "%s compares several different values with IPPoolAllowedUseLoadBalancer (%s); which of them is the request's intended use is not modelled", fnName(f), strings.Join(us, ", "))
		return true
	}

	// classify the referrers of the tracked allocs
	isTypeAddr := func(v ssa.Value) (*ssa.Alloc, bool) {
		fa, ok := v.(*ssa.FieldAddr)
		if !ok || structField(fa.X.Type(), fa.Field) != am.fType {
			return nil, false
		}
		a, ok := isCfgAlloc(fa.X)
		return a, ok
	}
	onlyCopied := func(ld *ssa.UnOp, whole bool) bool {
		refs := ld.Referrers()
		if refs == nil || len(*refs) == 0 {
			return false
		}
		for _, r := range *refs {
			if _, dbg := r.(*ssa.DebugRef); dbg {
				continue
			}
			st, ok := r.(*ssa.Store)
			if !ok || st.Val != ssa.Value(ld) {
				return false
			}
			if whole {
				if _, ok := isCfgAlloc(st.Addr); !ok {
					return false
				}
			} else if _, ok := isTypeAddr(st.Addr); !ok {
				return false
			}
		}
		return true
	}
	consumer := map[ssa.Instruction]*ssa.Alloc{}
	for _, a := range allocs {
		for _, r := range *a.Referrers() {
			switch x := r.(type) {
			case *ssa.DebugRef:
			case *ssa.FieldAddr:
				if structField(x.X.Type(), x.Field) != am.fType {
					continue
				}
				for _, rr := range *x.Referrers() {
					switch y := rr.(type) {
					case *ssa.DebugRef:
					case *ssa.Store:
						if y.Addr != ssa.Value(x) {
							consumer[y] = a // the field's address is stored somewhere
						}
					case *ssa.UnOp:
						if y.Op == token.MUL && !onlyCopied(y, false) {
							consumer[y] = a
						}
					default:
						consumer[rr] = a
					}
				}
			case *ssa.Store:
				if x.Addr != ssa.Value(a) {
					consumer[x] = a // the config's address is stored somewhere
				}
			case *ssa.UnOp:
				if x.Op == token.MUL && !onlyCopied(x, true) {
					consumer[x] = a
				}
			default:
				consumer[r] = a // call argument, closure binding, ...
			}
		}
	}

	eval := func(v ssa.Value, s c20AffState) byte {
		switch x := v.(type) {
		case *ssa.Const:
			switch {
			case c20ConstIs(x, am.kHost):
				return 'H'
			case c20ConstIs(x, am.kVirt):
				return 'V'
			}
			return 'X'
		case *ssa.Phi:
			if i, ok := cellOf[x]; ok {
				return s.cells[i]
			}
		case *ssa.UnOp:
			if x.Op == token.MUL {
				if a, ok := isTypeAddr(x.X); ok {
					return s.cells[cellOf[a]]
				}
			}
		}
		return 'X'
	}
	set := func(s c20AffState, i int, b byte) c20AffState {
		bs := []byte(s.cells)
		bs[i] = b
		s.cells = string(bs)
		return s
	}

	type finding struct {
		at        ssa.Instruction
		fact, val byte
	}
	var bad, und []finding
	seenF := map[string]bool{}
	note := func(list *[]finding, in ssa.Instruction, s c20AffState, v byte) {
		k := fmt.Sprintf("%p/%c/%c", in, s.fact, v)
		if !seenF[k] {
			seenF[k] = true
			*list = append(*list, finding{in, s.fact, v})
		}
	}
	nCons := map[ssa.Instruction]bool{}

	start := c20AffState{fact: 'U', cells: strings.Repeat("X", len(cellOf))}
	type item struct {
		b *ssa.BasicBlock
		s c20AffState
	}
	seen := map[*ssa.BasicBlock]map[c20AffState]bool{}
	work := []item{{f.Blocks[0], start}}
	steps := 0
	for len(work) > 0 {
		it := work[len(work)-1]
		work = work[:len(work)-1]
		if seen[it.b] == nil {
			seen[it.b] = map[c20AffState]bool{}
		}
		if seen[it.b][it.s] {
			continue
		}
		seen[it.b][it.s] = true
		if steps++; steps > 200000 {
			c.Undecided(key, site, "state space of %s too large", fnName(f))
			return true
		}
		s := it.s
		for _, in := range it.b.Instrs {
			if a, isCons := consumer[in]; isCons {
				nCons[in] = true
				v := s.cells[cellOf[a]]
				switch {
				case v == 'X' || v == 'Z':
					note(&und, in, s, v)
				case s.fact == 'U', s.fact == 'T' && v != 'V', s.fact == 'F' && v != 'H':
					note(&bad, in, s, v)
				}
			}
			switch x := in.(type) {
			case *ssa.Alloc:
				if i, ok := cellOf[x]; ok {
					s = set(s, i, 'Z')
				}
			case *ssa.Store:
				if a, ok := isTypeAddr(x.Addr); ok {
					s = set(s, cellOf[a], eval(x.Val, s))
				} else if a, ok := isCfgAlloc(x.Addr); ok {
					nv := byte('X')
					if ld, isLd := x.Val.(*ssa.UnOp); isLd && ld.Op == token.MUL {
						if src, ok := isCfgAlloc(ld.X); ok {
							nv = s.cells[cellOf[src]]
						}
					}
					s = set(s, cellOf[a], nv)
				}
			}
		}
		if isPanicBlock(it.b) {
			continue
		}
		ifi, isIf := it.b.Instrs[len(it.b.Instrs)-1].(*ssa.If)
		for k, succ := range it.b.Succs {
			ns := s
			if isIf && len(it.b.Succs) == 2 && it.b.Succs[0] != it.b.Succs[1] {
				cnd, pol := stripNot(ifi.Cond, k == 0)
				if fact, _, ok := lbTest(cnd, pol); ok {
					if ns.fact != 'U' && ns.fact != fact {
						continue // infeasible
					}
					ns.fact = fact
				}
			}
			// phis of the successor, evaluated on the state at the end of this block
			pi := -1
			for i, pb := range succ.Preds {
				if pb == it.b {
					pi = i
					break
				}
			}
			if pi >= 0 {
				upd := ns
				for _, in := range succ.Instrs {
					ph, ok := in.(*ssa.Phi)
					if !ok {
						break
					}
					if i, tracked := cellOf[ph]; tracked {
						upd = set(upd, i, eval(ph.Edges[pi], ns))
					}
				}
				ns = upd
			}
			work = append(work, item{succ, ns})
		}
	}
	if len(nCons) == 0 {
		c.Undecided(key, site, "%s sets the AffinityType of a local AffinityConfig but the config is never used", fnName(f))
		return true
	}
	name := map[byte]string{'H': "host", 'V': "virtual", 'X': "not a known constant", 'Z': "unset"}
	switch {
	case len(bad) > 0:
		b := bad[0]
		what := ""
		switch b.fact {
		case 'T':
			what = "on a path where the intended use IS LoadBalancer the config's AffinityType is " + name[b.val]
		case 'F':
			what = "on a path where the intended use is NOT LoadBalancer the config's AffinityType is " + name[b.val]
		default:
			what = "the config (AffinityType " + name[b.val] + ") is used on a path that never compared the intended use with IPPoolAllowedUseLoadBalancer"
		}
		c.Violate(key, p.Pos(b.at.Pos()), "%s builds its own AffinityConfig from the request's intended use, and at %s %s (expected: LoadBalancer → virtual, any other use → host, as in the sibling functions on the request path): "+
			"this function would look up / claim block affinities under a different (type, host) than the rest of the request, so blocks the host already holds are not found and not counted against MaxBlocksPerHost (or blocks are claimed under a type nobody looks up)",
			fnName(f), p.Pos(b.at.Pos()), what)
	case len(und) > 0:
		u := und[0]
		c.Undecided(key, p.Pos(u.at.Pos()), "%s: the AffinityType of the config used at %s is %s", fnName(f), p.Pos(u.at.Pos()), name[u.val])
	default:
		c.Ok(key, site, "at all %d use(s) of the locally built AffinityConfig: intended use == LoadBalancer ⇒ AffinityTypeVirtual, otherwise AffinityTypeHost", len(nCons))
	}
	return true
}

func c20ValueOf(in ssa.Instruction) ssa.Value {
	v, _ := in.(ssa.Value)
	return v
}
