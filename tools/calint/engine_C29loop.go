package main

// Loop structure for C29 (technique of engine_C09loop.go, private copy so that
// the two properties evolve independently): natural loops of an SSA function
// and the loop-carried part of a value's backward data slice.  Everything is
// derived from the CFG and def-use edges; no source text, statement shape or
// local name is looked at.

import (
	"go/constant"
	"go/token"
	"go/types"
	"sort"
	"strconv"
	"strings"

	"golang.org/x/tools/go/ssa"
)

type c29Loop struct {
	Header *ssa.BasicBlock
	Blocks map[*ssa.BasicBlock]bool
}

func c29Loops(fn *ssa.Function) []*c29Loop {
	by := map[*ssa.BasicBlock]*c29Loop{}
	var out []*c29Loop
	for _, b := range fn.Blocks {
		for _, h := range b.Succs {
			if !h.Dominates(b) {
				continue
			}
			l := by[h]
			if l == nil {
				l = &c29Loop{Header: h, Blocks: map[*ssa.BasicBlock]bool{h: true}}
				by[h] = l
				out = append(out, l)
			}
			st := []*ssa.BasicBlock{b}
			for len(st) > 0 {
				x := st[len(st)-1]
				st = st[:len(st)-1]
				if l.Blocks[x] {
					continue
				}
				l.Blocks[x] = true
				st = append(st, x.Preds...)
			}
		}
	}
	return out
}

func (l *c29Loop) has(in ssa.Instruction) bool {
	return in != nil && in.Block() != nil && l.Blocks[in.Block()]
}

func c29InnermostLoop(loops []*c29Loop, in ssa.Instruction) *c29Loop {
	var best *c29Loop
	for _, l := range loops {
		if l.has(in) && (best == nil || len(l.Blocks) < len(best.Blocks)) {
			best = l
		}
	}
	return best
}

func c29IntConst(v ssa.Value) (int64, bool) {
	k, ok := v.(*ssa.Const)
	if !ok || k.Value == nil || k.Value.Kind() != constant.Int {
		return 0, false
	}
	return constant.Int64Val(k.Value)
}

// c29IsCounter: phi (in the header of l) only counts iterations: every value
// arriving over a back edge is phi±const and every value arriving from outside
// is defined outside the loop.
func c29IsCounter(l *c29Loop, phi *ssa.Phi) bool {
	if phi.Block() != l.Header {
		return false
	}
	if b, ok := phi.Type().Underlying().(*types.Basic); !ok || b.Info()&types.IsInteger == 0 {
		return false
	}
	for i, e := range phi.Edges {
		if l.Blocks[phi.Block().Preds[i]] {
			bo, ok := e.(*ssa.BinOp)
			if !ok || (bo.Op != token.ADD && bo.Op != token.SUB) || bo.X != ssa.Value(phi) {
				return false
			}
			if _, ok := c29IntConst(bo.Y); !ok {
				return false
			}
			continue
		}
		if in, ok := e.(ssa.Instruction); ok && l.has(in) {
			return false
		}
	}
	return true
}

func c29AllocRoot(v ssa.Value) *ssa.Alloc {
	for {
		switch x := v.(type) {
		case *ssa.Alloc:
			return x
		case *ssa.FieldAddr:
			v = x.X
		case *ssa.IndexAddr:
			v = x.X
		default:
			return nil
		}
	}
}

func c29AddrKey(v ssa.Value) string {
	switch x := v.(type) {
	case *ssa.FieldAddr:
		return c29AddrKey(x.X) + "." + strconv.Itoa(x.Field) + ";"
	case *ssa.IndexAddr:
		return c29AddrKey(x.X) + "[" + pathN(x.Index, 2) + "];"
	}
	return ""
}

func c29StoresTo(a *ssa.Alloc) []*ssa.Store {
	var out []*ssa.Store
	seen := map[ssa.Value]bool{}
	var rec func(addr ssa.Value)
	rec = func(addr ssa.Value) {
		if seen[addr] || addr.Referrers() == nil {
			return
		}
		seen[addr] = true
		for _, r := range *addr.Referrers() {
			switch x := r.(type) {
			case *ssa.Store:
				if x.Addr == addr {
					out = append(out, x)
				}
			case *ssa.FieldAddr:
				if x.X == addr {
					rec(x)
				}
			case *ssa.IndexAddr:
				if x.X == addr {
					rec(x)
				}
			}
		}
	}
	rec(a)
	return out
}

type c29Carried struct {
	V    ssa.Value
	What string
}

func c29ValName(v ssa.Value) string {
	switch x := v.(type) {
	case *ssa.Phi:
		if x.Comment != "" {
			return x.Comment
		}
	case *ssa.Alloc:
		if x.Comment != "" {
			return x.Comment
		}
	}
	return v.Name()
}

// c29LoopCarried walks the backward data slice of root (operands of
// instructions, all phi edges, values stored into locals that are read) and
// returns the places where it picks up a value computed by an EARLIER iteration
// of loop l: a phi in l's header that is not a plain iteration counter, or a
// variable that lives outside the loop, is written inside it and is read at a
// point no write of the current iteration dominates.  Values defined outside
// the loop are invariant and end the walk.
func c29LoopCarried(l *c29Loop, root ssa.Value) []c29Carried {
	var out []c29Carried
	seen := map[ssa.Value]bool{}
	var walk func(v ssa.Value)
	walk = func(v ssa.Value) {
		if v == nil || seen[v] {
			return
		}
		seen[v] = true
		in, isInstr := v.(ssa.Instruction)
		if !isInstr {
			return
		}
		if a, ok := v.(*ssa.Alloc); ok {
			if l.has(a) {
				for _, st := range c29StoresTo(a) {
					walk(st.Val)
				}
			}
			return
		}
		if !l.has(in) {
			return
		}
		switch x := v.(type) {
		case *ssa.Phi:
			if x.Block() == l.Header {
				if !c29IsCounter(l, x) {
					out = append(out, c29Carried{x, "`" + c29ValName(x) + "` is carried over from the previous iteration (it is only initialised before the loop)"})
				}
				return
			}
		case *ssa.UnOp:
			if x.Op == token.MUL {
				if a := c29AllocRoot(x.X); a != nil && !l.has(a) {
					var inLoop []*ssa.Store
					reinit := false
					for _, st := range c29StoresTo(a) {
						if l.has(st) {
							inLoop = append(inLoop, st)
							if instrDominates(st, x) && strings.HasPrefix(c29AddrKey(x.X), c29AddrKey(st.Addr)) {
								reinit = true
							}
						}
					}
					if len(inLoop) > 0 && !reinit {
						out = append(out, c29Carried{a, "the variable `" + c29ValName(a) + "` lives outside the loop, is written inside it and is read where no write of the current iteration dominates"})
						return
					}
					for _, st := range inLoop {
						walk(st.Val)
					}
					return
				}
			}
		}
		for _, op := range in.Operands(nil) {
			if op != nil {
				walk(*op)
			}
		}
	}
	walk(root)
	return out
}

// ------------------------------------------------------------- peerlocal --

// c29PeerLocal: Kubernetes ORs the peers of a rule and an ipBlock's `except`
// list only carves a hole into its own cidr, whereas a Calico rule ANDs NotNets
// against its whole Nets list.  The conversion is therefore only faithful if
// the Nets / NotNets of each generated rule come from ONE peer: in every loop
// that walks NetworkPolicyPeer elements, neither the value stored into
// EntityRule.Nets / EntityRule.NotNets nor the rule object that receives it may
// depend on an earlier iteration (an accumulator, or an element of the rules
// slice built so far).
func c29PeerLocal(c *Ctx, p *Prog, ty *c29Types, cl map[*ssa.Function]bool) {
	peerTN := ty.k8s["NetworkPolicyPeer"]
	fields := map[*types.Var]string{}
	for _, n := range []string{"Nets", "NotNets"} {
		fv, _ := p.LookupExt(c29APIv3, "EntityRule."+n).(*types.Var)
		if fv == nil {
			c.Lost("field v3.EntityRule.%s", n)
		}
		fields[fv] = n
	}
	isPeer := func(t types.Type) bool {
		for {
			if pt, ok := t.Underlying().(*types.Pointer); ok {
				t = pt.Elem()
				continue
			}
			break
		}
		n, ok := types.Unalias(t).(*types.Named)
		return ok && n.Obj() == peerTN
	}
	elemOf := func(t types.Type) types.Type {
		switch u := derefType(t).Underlying().(type) {
		case *types.Slice:
			return u.Elem()
		case *types.Array:
			return u.Elem()
		}
		return nil
	}
	var fns []*ssa.Function
	for f := range cl {
		fns = append(fns, f)
	}
	sort.Slice(fns, func(i, j int) bool { return fns[i].Pos() < fns[j].Pos() })

	// the loops that walk peers, per function
	peerLoops := map[*ssa.Function][]*c29Loop{}
	nLoops := 0
	for _, fn := range fns {
		loops := c29Loops(fn)
		seen := map[*c29Loop]bool{}
		for _, b := range fn.Blocks {
			for _, in := range b.Instrs {
				var xt types.Type
				switch x := in.(type) {
				case *ssa.IndexAddr:
					xt = x.X.Type()
				case *ssa.Index:
					xt = x.X.Type()
				default:
					continue
				}
				if et := elemOf(xt); et == nil || !isPeer(et) {
					continue
				}
				if l := c29InnermostLoop(loops, in); l != nil && !seen[l] {
					seen[l] = true
					peerLoops[fn] = append(peerLoops[fn], l)
					nLoops++
				}
			}
		}
	}
	if nLoops == 0 {
		c.Lost("no loop over NetworkPolicyPeer elements in the closure of K8sNetworkPolicyToCalico")
	}

	type agg struct {
		fn      *ssa.Function
		field   string
		site    string
		n       int
		bad     map[string]bool
		located bool
	}
	aggs := map[string]*agg{}
	nStores := 0
	for _, fn := range fns {
		for _, b := range fn.Blocks {
			for _, in := range b.Instrs {
				st, ok := in.(*ssa.Store)
				if !ok {
					continue
				}
				fa, ok := st.Addr.(*ssa.FieldAddr)
				if !ok {
					continue
				}
				name, ok := fields[structField(fa.X.Type(), fa.Field)]
				if !ok {
					continue
				}
				nStores++
				k := fnName(fn) + "/" + name
				a := aggs[k]
				if a == nil {
					a = &agg{fn: fn, field: name, site: p.Pos(st.Pos()), bad: map[string]bool{}}
					if st.Pos() == token.NoPos {
						a.site = p.Pos(fn.Pos())
					}
					aggs[k] = a
				}
				a.n++
				if pls := peerLoops[fn]; len(pls) > 0 {
					a.located = true
					for _, l := range pls {
						for _, cr := range c29LoopCarried(l, st.Val) {
							a.bad["the value stored: "+cr.What] = true
						}
						for _, cr := range c29LoopCarried(l, st.Addr) {
							a.bad["the rule written to: "+cr.What] = true
						}
					}
					continue
				}
				// the store sits in a helper: look at what the peers loops of its callers hand it
				for _, g := range fns {
					for _, cs := range callsIn(g, false, func(*types.Func) bool { return true }) {
						if calleeFn(cs.Common()) != fn {
							continue
						}
						for _, l := range peerLoops[g] {
							if !l.has(cs.Instr) {
								continue
							}
							a.located = true
							for _, arg := range cs.Common().Args {
								for _, cr := range c29LoopCarried(l, arg) {
									a.bad["an argument of the call in "+fnName(g)+": "+cr.What] = true
								}
							}
						}
					}
				}
			}
		}
	}
	if nStores == 0 {
		c.Lost("no store into v3.EntityRule.Nets / NotNets in the closure of K8sNetworkPolicyToCalico")
	}
	for _, k := range sortedKeys(aggs) {
		a := aggs[k]
		key := "C29.peerlocal/" + k
		switch {
		case !a.located:
			c.Undecided(key, a.site, "%s fills EntityRule.%s but neither contains a loop over NetworkPolicyPeer elements nor is called from one: cannot relate the store to the peers", fnName(a.fn), a.field)
		case len(a.bad) > 0:
			c.Violate(key, a.site, "%s: EntityRule.%s of a generated rule depends on an earlier iteration of the loop over the Kubernetes peers (%s): CIDRs / exceptions of several ipBlock peers end up in one Calico rule, whose NotNets are ANDed against ALL its Nets, so one peer's `except` cuts into another peer's cidr (Kubernetes ORs the peers)", fnName(a.fn), a.field, strings.Join(sortedKeys(a.bad), "; "))
		default:
			c.Ok(key, a.site, "%d store(s): value and target rule are local to one iteration of the peers loop", a.n)
		}
	}
}
