package main

// engine_C25.go — E-LOCK: a small inter-procedural *must-hold* lockset analysis
// for one mutex field of one struct type (DESIGN §1.3), plus two CFG path
// walkers used by the C24–C26 rules.
//
// Model.  The state is one bit: "the receiver's lock is held".  It is propagated
// forward through each function (meet = AND).  `x.lock.Lock()` sets it,
// `x.lock.Unlock()` clears it, `defer` effects are applied at `rundefers` in
// LIFO order, a static call of a function of the same package applies the
// callee's summary (so a function that unlocks and relocks, such as
// dropLockAndSendBatch, splits its own body but is the identity for its caller),
// and a `go` statement starts with the lock not held.  The entry state of a
// function is derived, not named: exported functions, functions without static
// callers, functions used as values and methods that may be invoked through an
// interface start with the lock not held; every other function ("…LockHeld"
// helpers) starts with the AND of the states at all of its call sites.  A
// deferred closure starts with the state at `rundefers`, a range-over-func body
// with the state at the iterator call.
//
// Every access to a guarded field through the method receiver is then an
// obligation "lock held here".  Accesses through a freshly allocated object
// (constructor) are exempt.  Anything the model cannot follow (another *T than
// the receiver, a reference that is returned or stored, conditional defers that
// touch the lock, recursion) is reported as a problem → the rule is undecided.

import (
	"fmt"
	"go/constant"
	"go/token"
	"go/types"
	"sort"
	"strings"

	"golang.org/x/tools/go/ssa"
)

type c25LockSpec struct {
	Pkg       string          // calico-relative package path (must be a Load root)
	Type      string          // struct type whose fields are guarded
	LockField string          // its sync.Mutex field
	Unguarded map[string]bool // fields not protected by the lock
}

type c25Access struct {
	Fn    *ssa.Function
	Field string
	At    ssa.Instruction
	Kind  string // read | write | use | wait
	Held  bool
}

type c25FlowKey struct {
	fn    *ssa.Function
	entry bool
}

type c25Site struct {
	callee *ssa.Function
	state  bool
}

type c25Flow struct {
	before map[ssa.Instruction]bool
	sites  map[ssa.Instruction][]c25Site
	exit   bool
}

type c25Locks struct {
	p     *Prog
	spec  c25LockSpec
	named *types.Named
	funcs []*ssa.Function // every function of the package, closures included
	inPkg map[*ssa.Function]bool
	root  map[*ssa.Function]string // functions whose entry state is "not held", with the reason
	Entry map[*ssa.Function]bool
	memo  map[c25FlowKey]*c25Flow
	busy  map[c25FlowKey]bool

	Accesses []c25Access
	Problems []string
	nLockOps int
}

const (
	c25OpNone = iota
	c25OpLock
	c25OpUnlock
)

// c25Lockset runs the analysis.  A non-empty error string means an anchor is lost.
func c25Lockset(p *Prog, spec c25LockSpec) (*c25Locks, string) {
	l := &c25Locks{p: p, spec: spec, inPkg: map[*ssa.Function]bool{}, root: map[*ssa.Function]string{},
		Entry: map[*ssa.Function]bool{}, memo: map[c25FlowKey]*c25Flow{}, busy: map[c25FlowKey]bool{}}
	pk := p.Pkg(spec.Pkg)
	sp := p.SSAPkg(spec.Pkg)
	if pk == nil || sp == nil {
		return nil, "package " + spec.Pkg + " is not a root of this load"
	}
	tn, _ := pk.Types.Scope().Lookup(spec.Type).(*types.TypeName)
	if tn == nil {
		return nil, "type " + spec.Pkg + "." + spec.Type
	}
	l.named, _ = tn.Type().(*types.Named)
	lf, _ := p.LookupObj(spec.Pkg, spec.Type+"."+spec.LockField).(*types.Var)
	if l.named == nil || lf == nil {
		return nil, "field " + spec.Type + "." + spec.LockField
	}
	if qualTypeName(lf.Type()) != "sync.Mutex" {
		return nil, fmt.Sprintf("%s.%s is a %s; the lockset engine models sync.Mutex only", spec.Type, spec.LockField, qualTypeName(lf.Type()))
	}
	// functions of the package (package-level functions, methods of its named types, closures)
	var tops []*ssa.Function
	for _, m := range sp.Members {
		switch x := m.(type) {
		case *ssa.Function:
			if x.Blocks != nil && x.Synthetic == "" {
				tops = append(tops, x)
			}
		case *ssa.Type:
			if nt, ok := x.Type().(*types.Named); ok {
				for i := 0; i < nt.NumMethods(); i++ {
					if f := p.SSA.FuncValue(nt.Method(i)); f != nil && f.Blocks != nil {
						tops = append(tops, f)
					}
				}
			}
		}
	}
	sort.Slice(tops, func(i, j int) bool { return tops[i].Pos() < tops[j].Pos() })
	l.funcs = withClosures(tops)
	for _, f := range l.funcs {
		l.inPkg[f] = true
	}
	l.findRoots(tops)

	// greatest fixpoint of the entry states
	for _, f := range l.funcs {
		l.Entry[f] = l.root[f] == ""
	}
	for iter := 0; ; iter++ {
		next := map[*ssa.Function]bool{}
		for _, f := range l.funcs {
			next[f] = l.root[f] == ""
		}
		for _, f := range l.funcs {
			fl := l.flow(f, l.Entry[f])
			for _, ss := range fl.sites {
				for _, s := range ss {
					if l.root[s.callee] == "" && !s.state {
						next[s.callee] = false
					}
				}
			}
		}
		changed := false
		for _, f := range l.funcs {
			if next[f] != l.Entry[f] {
				changed = true
			}
			// monotone: never raise
			l.Entry[f] = l.Entry[f] && next[f]
		}
		if !changed {
			break
		}
		if iter > len(l.funcs)+2 {
			l.problem("entry-state fixpoint did not converge")
			break
		}
	}
	l.collect()
	if l.nLockOps == 0 {
		return nil, fmt.Sprintf("no Lock/Unlock of %s.%s found in %s", spec.Type, spec.LockField, spec.Pkg)
	}
	l.Problems = c25Uniq(l.Problems)
	return l, ""
}

func c25Uniq(in []string) []string {
	seen := map[string]bool{}
	var out []string
	for _, s := range in {
		if !seen[s] {
			seen[s] = true
			out = append(out, s)
		}
	}
	return out
}

func (l *c25Locks) problem(format string, a ...any) {
	l.Problems = append(l.Problems, fmt.Sprintf(format, a...))
}

// findRoots decides which functions start with the lock not held.
func (l *c25Locks) findRoots(tops []*ssa.Function) {
	staticSites := map[*ssa.Function]int{}
	invoked := map[string]bool{}
	for _, f := range l.funcs {
		for _, b := range f.Blocks {
			for _, in := range b.Instrs {
				var callee ssa.Value
				if ci, ok := in.(ssa.CallInstruction); ok {
					cc := ci.Common()
					if cc.IsInvoke() {
						invoked[cc.Method.Name()] = true
					} else {
						callee = cc.Value
						if sf, ok := cc.Value.(*ssa.Function); ok {
							if _, isGo := in.(*ssa.Go); isGo {
								l.root[sf] = "started with go"
							} else {
								staticSites[sf]++
							}
						}
					}
				}
				// any other operand that is a function value = address taken
				for _, op := range in.Operands(nil) {
					if op == nil || *op == nil || *op == callee {
						continue
					}
					switch x := (*op).(type) {
					case *ssa.Function:
						if l.inPkg[x] && x.Parent() == nil {
							l.root[x] = "used as a value"
						}
					case *ssa.MakeClosure:
						// bound method value d.m: the wrapper's object is the method
						if fn, ok := x.Fn.(*ssa.Function); ok && fn.Synthetic != "" && fn.Parent() == nil {
							if o, ok := fn.Object().(*types.Func); ok {
								if t := l.p.SSA.FuncValue(o); t != nil && l.inPkg[t] {
									l.root[t] = "used as a bound method value"
								}
							}
						}
					}
				}
			}
		}
	}
	for _, f := range tops {
		o, _ := f.Object().(*types.Func)
		switch {
		case l.root[f] != "":
		case o == nil || o.Exported() || f.Name() == "init" || f.Name() == "main":
			l.root[f] = "exported"
		case staticSites[f] == 0:
			l.root[f] = "no static caller in the package"
		case f.Signature.Recv() != nil && invoked[f.Name()]:
			l.root[f] = "may be invoked through an interface"
		}
	}
	// closures: tracked only when deferred, called in place, or a range-over-func body
	for _, f := range l.funcs {
		if f.Parent() == nil {
			continue
		}
		mcs := c25MakeClosures(f)
		if len(mcs) == 0 {
			l.root[f] = "closure without make-closure site"
			continue
		}
		for _, mc := range mcs {
			refs := mc.Referrers()
			if refs == nil {
				l.root[f] = "closure escapes"
				continue
			}
			for _, r := range *refs {
				switch x := r.(type) {
				case *ssa.DebugRef:
				case *ssa.Defer:
					if x.Call.Value != ssa.Value(mc) {
						l.root[f] = "closure passed to a deferred call"
					}
					if x.DeferStack != nil {
						l.root[f] = "defer inside a range-over-func body"
					}
				case *ssa.Call:
					if x.Call.Value == ssa.Value(mc) {
						continue // called in place
					}
					if f.Synthetic == "range-over-func yield" {
						continue // body of `for … := range seq`: runs inside this call
					}
					l.root[f] = "closure passed as an argument (may run later)"
				case *ssa.Go:
					l.root[f] = "started with go"
				default:
					l.root[f] = "closure escapes"
				}
			}
		}
	}
}

func c25MakeClosures(f *ssa.Function) []*ssa.MakeClosure {
	var out []*ssa.MakeClosure
	par := f.Parent()
	if par == nil {
		return nil
	}
	for _, b := range par.Blocks {
		for _, in := range b.Instrs {
			if mc, ok := in.(*ssa.MakeClosure); ok && mc.Fn == ssa.Value(f) {
				out = append(out, mc)
			}
		}
	}
	return out
}

// isT: t is T or *T.
func (l *c25Locks) isT(t types.Type) bool {
	if p, ok := types.Unalias(t).(*types.Pointer); ok {
		t = p.Elem()
	}
	return types.Identical(types.Unalias(t), l.named)
}

// baseKind classifies the object a field access goes through:
// "recv" (the method receiver, possibly via a closure cell), "fresh" (allocated
// in this function, not yet shared) or "other".
func (l *c25Locks) baseKind(v ssa.Value, depth int) string {
	if depth > 6 {
		return "other"
	}
	cell := func(a *ssa.Alloc) string {
		refs := a.Referrers()
		if refs == nil {
			return "other"
		}
		n := 0
		for _, r := range *refs {
			if st, ok := r.(*ssa.Store); ok && st.Addr == ssa.Value(a) {
				if l.baseKind(st.Val, depth+1) != "recv" {
					return "other"
				}
				n++
			}
		}
		if n == 0 {
			return "other"
		}
		return "recv"
	}
	binding := func(fv *ssa.FreeVar) ssa.Value {
		fn := fv.Parent()
		idx := -1
		for i, x := range fn.FreeVars {
			if x == fv {
				idx = i
			}
		}
		mcs := c25MakeClosures(fn)
		if idx < 0 || len(mcs) != 1 || idx >= len(mcs[0].Bindings) {
			return nil
		}
		return mcs[0].Bindings[idx]
	}
	switch x := v.(type) {
	case *ssa.Parameter:
		fn := x.Parent()
		if fn.Signature.Recv() != nil && len(fn.Params) > 0 && fn.Params[0] == x && l.isT(x.Type()) {
			return "recv"
		}
	case *ssa.Alloc:
		if l.isT(x.Type()) {
			return "fresh"
		}
	case *ssa.FreeVar:
		if b := binding(x); b != nil {
			if a, ok := b.(*ssa.Alloc); ok && !l.isT(a.Type()) {
				return "other" // a cell must be loaded first
			}
			return l.baseKind(b, depth+1)
		}
	case *ssa.UnOp:
		if x.Op != token.MUL {
			return "other"
		}
		switch c := x.X.(type) {
		case *ssa.Alloc:
			return cell(c)
		case *ssa.FreeVar:
			if b := binding(c); b != nil {
				if a, ok := b.(*ssa.Alloc); ok {
					return cell(a)
				}
			}
		}
	}
	return "other"
}

// lockOp classifies a call as Lock/Unlock of the modelled mutex.
func (l *c25Locks) lockOp(in ssa.Instruction) int {
	ci, ok := in.(ssa.CallInstruction)
	if !ok {
		return c25OpNone
	}
	cc := ci.Common()
	f := calleeOf(cc)
	if f == nil || cc.IsInvoke() || f.Pkg() == nil || f.Pkg().Path() != "sync" || recvTypeName(f) != "Mutex" || len(cc.Args) == 0 {
		return c25OpNone
	}
	fa, ok := cc.Args[0].(*ssa.FieldAddr)
	if !ok || !l.isT(fa.X.Type()) || fieldName(fa.X.Type(), fa.Field) != l.spec.LockField {
		return c25OpNone
	}
	if l.baseKind(fa.X, 0) != "recv" {
		l.problem("%s: %s of the lock of a %s that is not the method receiver", l.p.Pos(in.Pos()), f.Name(), l.spec.Type)
		return c25OpNone
	}
	switch f.Name() {
	case "Lock":
		return c25OpLock
	case "Unlock":
		return c25OpUnlock
	}
	l.problem("%s: unsupported mutex operation %s", l.p.Pos(in.Pos()), f.Name())
	return c25OpNone
}

func c25IsCondWait(in ssa.Instruction) bool {
	ci, ok := in.(ssa.CallInstruction)
	if !ok {
		return false
	}
	f := calleeOf(ci.Common())
	return f != nil && f.Pkg() != nil && f.Pkg().Path() == "sync" && recvTypeName(f) == "Cond" && f.Name() == "Wait"
}

// applyCall returns the state after executing the call described by cc in state s
// and records the call site (for entry-state derivation).
func (l *c25Locks) applyCall(in ssa.Instruction, cc *ssa.CallCommon, s bool, sites *[]c25Site) bool {
	switch l.lockOp(in) {
	case c25OpLock:
		return true
	case c25OpUnlock:
		return false
	}
	if cc.IsInvoke() {
		return s
	}
	var targets []*ssa.Function
	switch v := cc.Value.(type) {
	case *ssa.Function:
		targets = append(targets, v)
	case *ssa.MakeClosure:
		if fn, ok := v.Fn.(*ssa.Function); ok {
			targets = append(targets, fn)
		}
	}
	for _, a := range cc.Args {
		if mc, ok := a.(*ssa.MakeClosure); ok {
			if fn, ok := mc.Fn.(*ssa.Function); ok && fn.Synthetic == "range-over-func yield" {
				// the loop body runs (zero or more times) inside this call
				*sites = append(*sites, c25Site{fn, s})
				if l.inPkg[fn] && (l.flow(fn, s).exit != s) {
					l.problem("%s: range-over-func body changes the lock state", l.p.Pos(in.Pos()))
				}
			}
		}
	}
	for _, t := range targets {
		if !l.inPkg[t] || t.Blocks == nil {
			continue
		}
		*sites = append(*sites, c25Site{t, s})
		s = l.flow(t, s).exit
	}
	return s
}

// flow analyses fn with the given entry state (memoised; pure in (fn, entry)).
func (l *c25Locks) flow(fn *ssa.Function, entry bool) *c25Flow {
	key := c25FlowKey{fn, entry}
	if fl, ok := l.memo[key]; ok {
		return fl
	}
	if l.busy[key] {
		l.problem("recursion through %s: lock summary not computed", fnName(fn))
		return &c25Flow{before: map[ssa.Instruction]bool{}, sites: map[ssa.Instruction][]c25Site{}, exit: entry}
	}
	l.busy[key] = true
	defer delete(l.busy, key)

	fl := &c25Flow{before: map[ssa.Instruction]bool{}, sites: map[ssa.Instruction][]c25Site{}, exit: true}
	if len(fn.Blocks) == 0 {
		fl.exit = entry
		l.memo[key] = fl
		return fl
	}
	var defers []*ssa.Defer
	for _, b := range fn.Blocks {
		for _, in := range b.Instrs {
			if d, ok := in.(*ssa.Defer); ok {
				defers = append(defers, d)
			}
		}
	}
	in := map[*ssa.BasicBlock]bool{fn.Blocks[0]: entry}
	seen := map[*ssa.BasicBlock]bool{fn.Blocks[0]: true}
	work := []*ssa.BasicBlock{fn.Blocks[0]}
	for len(work) > 0 {
		b := work[len(work)-1]
		work = work[:len(work)-1]
		s := in[b]
		for _, ins := range b.Instrs {
			fl.before[ins] = s
			var sites []c25Site
			switch x := ins.(type) {
			case *ssa.Call:
				s = l.applyCall(ins, &x.Call, s, &sites)
			case *ssa.Go:
				// the new goroutine starts without the lock; no effect here
			case *ssa.RunDefers:
				s = l.runDefers(x, defers, s, &sites)
			}
			fl.sites[ins] = sites
		}
		for _, sc := range b.Succs {
			ns := s
			if seen[sc] {
				ns = in[sc] && s
				if ns == in[sc] {
					continue
				}
			}
			seen[sc] = true
			in[sc] = ns
			work = append(work, sc)
		}
	}
	nret := 0
	for _, r := range returnsOf(fn) {
		if st, ok := fl.before[r]; ok {
			nret++
			fl.exit = fl.exit && st
		}
	}
	if nret == 0 {
		fl.exit = entry // never returns normally
	}
	l.memo[key] = fl
	return fl
}

// runDefers applies, in LIFO order, the deferred calls that are certainly
// registered when rd executes.  Deferred calls that are only possibly registered
// must not change the lock state.
func (l *c25Locks) runDefers(rd *ssa.RunDefers, defers []*ssa.Defer, s bool, sites *[]c25Site) bool {
	var must, may []*ssa.Defer
	for _, d := range defers {
		switch {
		case instrDominates(d, rd):
			must = append(must, d)
		case instrReaches(d, rd):
			may = append(may, d)
		}
	}
	sort.SliceStable(must, func(i, j int) bool { return instrDominates(must[j], must[i]) }) // last registered first
	for _, d := range may {
		var tmp []c25Site
		if l.applyCall(d, &d.Call, true, &tmp) != true || l.applyCall(d, &d.Call, false, &tmp) != false {
			l.problem("%s: conditionally registered defer changes the lock state", l.p.Pos(d.Pos()))
		}
		// its closure (if any) may run here with the current state
		var t2 []c25Site
		l.applyCall(d, &d.Call, s, &t2)
		*sites = append(*sites, t2...)
	}
	for _, d := range must {
		s = l.applyCall(d, &d.Call, s, sites)
	}
	return s
}

// StateAt returns the lock state immediately before in (under the derived entry
// state of its function).
func (l *c25Locks) StateAt(in ssa.Instruction) bool {
	fn := in.Parent()
	return l.flow(fn, l.Entry[fn]).before[in]
}

// Releases reports whether executing in may release the lock at some point
// (Unlock, Cond.Wait, or a call of a package function that does).
func (l *c25Locks) Releases(in ssa.Instruction) bool {
	if l.lockOp(in) == c25OpUnlock || c25IsCondWait(in) {
		return true
	}
	ci, ok := in.(*ssa.Call)
	if !ok {
		return false
	}
	sf := calleeFn(ci.Common())
	if sf == nil || !l.inPkg[sf] {
		return false
	}
	return l.mayRelease(sf, map[*ssa.Function]bool{})
}

func (l *c25Locks) mayRelease(fn *ssa.Function, seen map[*ssa.Function]bool) bool {
	if seen[fn] {
		return false
	}
	seen[fn] = true
	found := false
	allInstrs(fn, true, func(f *ssa.Function, in ssa.Instruction) {
		if found {
			return
		}
		if l.lockOp(in) == c25OpUnlock || c25IsCondWait(in) {
			found = true
			return
		}
		if ci, ok := in.(ssa.CallInstruction); ok {
			if sf := calleeFn(ci.Common()); sf != nil && l.inPkg[sf] && l.mayRelease(sf, seen) {
				found = true
			}
		}
	})
	return found
}

func c25IsRefType(t types.Type) bool {
	switch t.Underlying().(type) {
	case *types.Map, *types.Pointer, *types.Chan, *types.Slice, *types.Interface, *types.Signature:
		return true
	}
	return false
}

// collect enumerates the guarded accesses and their lock state.
func (l *c25Locks) collect() {
	for _, fn := range l.funcs {
		fl := l.flow(fn, l.Entry[fn])
		rec := func(field string, at ssa.Instruction, kind string) {
			st, ok := fl.before[at]
			if !ok {
				return // unreachable code
			}
			l.Accesses = append(l.Accesses, c25Access{fn, field, at, kind, st})
		}
		escape := func(field string, at ssa.Instruction) {
			l.problem("%s: a reference to guarded field %s.%s leaves the analysed scope in %s (%T); aliases are not tracked", l.p.Pos(at.Pos()), l.spec.Type, field, fnName(fn), at)
		}
		var valueUses func(v ssa.Value, field string, depth int)
		valueUses = func(v ssa.Value, field string, depth int) {
			refs := v.Referrers()
			if refs == nil || depth > 4 {
				return
			}
			for _, r := range *refs {
				switch x := r.(type) {
				case *ssa.DebugRef:
				case *ssa.Call:
					rec(field, x, "use")
				case *ssa.MapUpdate:
					if x.Map == v {
						rec(field, x, "write")
					} else {
						escape(field, x)
					}
				case *ssa.Lookup, *ssa.Index, *ssa.IndexAddr, *ssa.Next, *ssa.BinOp, *ssa.UnOp, *ssa.FieldAddr, *ssa.Field, *ssa.If:
					rec(field, r, "read")
				case *ssa.Range:
					rec(field, x, "read")
					if rr := x.Referrers(); rr != nil {
						for _, n := range *rr {
							if nx, ok := n.(*ssa.Next); ok {
								rec(field, nx, "read")
							}
						}
					}
				case *ssa.TypeAssert:
					rec(field, x, "read")
					valueUses(x, field, depth+1)
				case *ssa.Slice:
					valueUses(x, field, depth+1)
				case *ssa.MakeInterface:
					valueUses(x, field, depth+1)
				case *ssa.ChangeInterface:
					valueUses(x, field, depth+1)
				case *ssa.ChangeType:
					valueUses(x, field, depth+1)
				case *ssa.Extract:
					valueUses(x, field, depth+1)
				case *ssa.Store:
					if fa, ok := x.Addr.(*ssa.FieldAddr); ok && x.Val == v && l.isT(fa.X.Type()) && l.baseKind(fa.X, 0) == "recv" {
						continue // moved into another field of the same object; that store is checked itself
					}
					escape(field, x)
				default:
					escape(field, r)
				}
			}
		}
		var addrUses func(addr ssa.Value, field string, depth int)
		addrUses = func(addr ssa.Value, field string, depth int) {
			refs := addr.Referrers()
			if refs == nil || depth > 4 {
				return
			}
			for _, r := range *refs {
				switch x := r.(type) {
				case *ssa.DebugRef:
				case *ssa.UnOp:
					rec(field, x, "read")
					if x.Op == token.MUL && c25IsRefType(x.Type()) {
						valueUses(x, field, 0)
					}
				case *ssa.Store:
					if x.Addr == addr {
						rec(field, x, "write")
					} else {
						escape(field, x)
					}
				case *ssa.FieldAddr:
					addrUses(x, field, depth+1)
				case *ssa.IndexAddr:
					addrUses(x, field, depth+1)
				case *ssa.Call:
					rec(field, x, "use")
				default:
					escape(field, r)
				}
			}
		}
		for _, b := range fn.Blocks {
			for _, in := range b.Instrs {
				if op := l.lockOp(in); op != c25OpNone {
					l.nLockOps++
				}
				if c25IsCondWait(in) {
					rec("cond.Wait()", in, "wait")
				}
				switch x := in.(type) {
				case *ssa.FieldAddr:
					if !l.isT(x.X.Type()) {
						continue
					}
					name := fieldName(x.X.Type(), x.Field)
					if l.spec.Unguarded[name] {
						continue
					}
					switch l.baseKind(x.X, 0) {
					case "fresh":
					case "recv":
						addrUses(x, name, 0)
					default:
						l.problem("%s: %s.%s accessed in %s through a value that is not the method receiver", l.p.Pos(x.Pos()), l.spec.Type, name, fnName(fn))
					}
				case *ssa.Field:
					if l.isT(x.X.Type()) {
						l.problem("%s: %s copied/accessed by value in %s", l.p.Pos(x.Pos()), l.spec.Type, fnName(fn))
					}
				}
			}
		}
	}
}

// EntryReason explains the derived entry state of a function (for reports).
func (l *c25Locks) EntryReason(fn *ssa.Function) string {
	if r := l.root[fn]; r != "" {
		return "entered without the lock (" + r + ")"
	}
	if l.Entry[fn] {
		return "entered with the lock held at every call site"
	}
	return "entered without the lock at some call site"
}

// ------------------------------------------------------------ path walkers --

// c25Reach walks the CFG of fn forward, starting after `from` (at the function
// entry if from is nil), and returns the first instruction satisfying isTarget
// that can be reached without executing an instruction satisfying isStop and
// without crossing an If edge accepted by cut; nil if there is none.  Blocks
// that end in panic/log.Panic/log.Fatal terminate the path.  `from` itself is
// visited again if a cycle leads back to it (so it can be a target or a stop).
func c25Reach(fn *ssa.Function, from ssa.Instruction, isTarget, isStop func(ssa.Instruction) bool, cut EdgePred) ssa.Instruction {
	if fn == nil || len(fn.Blocks) == 0 {
		return nil
	}
	type pos struct {
		b   *ssa.BasicBlock
		idx int
	}
	start := pos{fn.Blocks[0], 0}
	if from != nil {
		start = pos{from.Block(), instrIndex(from) + 1}
	}
	seen := map[*ssa.BasicBlock]bool{}
	st := []pos{start}
	for len(st) > 0 {
		cur := st[len(st)-1]
		st = st[:len(st)-1]
		if cur.idx == 0 {
			if seen[cur.b] {
				continue
			}
			seen[cur.b] = true
		}
		stopped := false
		for i := cur.idx; i < len(cur.b.Instrs); i++ {
			in := cur.b.Instrs[i]
			if isTarget != nil && isTarget(in) {
				return in
			}
			if isStop != nil && isStop(in) {
				stopped = true
				break
			}
		}
		if stopped || isPanicBlock(cur.b) {
			continue
		}
		if ifi, ok := cur.b.Instrs[len(cur.b.Instrs)-1].(*ssa.If); ok && len(cur.b.Succs) == 2 {
			for k, s := range cur.b.Succs {
				c, pol := stripNot(ifi.Cond, k == 0)
				if cut != nil && cur.b.Succs[0] != cur.b.Succs[1] && cut(c, pol) {
					continue
				}
				st = append(st, pos{s, 0})
			}
			continue
		}
		for _, s := range cur.b.Succs {
			st = append(st, pos{s, 0})
		}
	}
	return nil
}

// c25NilCond builds an EdgePred accepting edges on which a value satisfying
// match is known to be nil (wantNil) or non-nil.
func c25NilCond(wantNil bool, match func(ssa.Value) bool) EdgePred {
	return eqCond(wantNil, match, isNilConst)
}

// c25FieldLoad reports whether v is a load of (or the address of) field fv.
func c25FieldLoad(v ssa.Value, fv *types.Var) bool { return fv != nil && fieldVar(v) == fv }

// c25CallOnField: cs is a method call named `name` whose receiver is (a load of,
// or the address of) field fv.
func c25CallOnField(cs CallSite, fv *types.Var, name string) bool {
	if cs.Callee == nil || cs.Callee.Name() != name || len(cs.Args()) == 0 {
		return false
	}
	return c25FieldLoad(cs.Args()[0], fv)
}

// c25Root strips loads and field selections: the value (Alloc, Parameter, call
// result …) that a field chain such as u.KVPair.Key hangs off.
func c25Root(v ssa.Value) ssa.Value {
	for i := 0; i < 16; i++ {
		switch x := v.(type) {
		case *ssa.UnOp:
			if x.Op == token.MUL {
				v = x.X
				continue
			}
		case *ssa.FieldAddr:
			v = x.X
			continue
		case *ssa.Field:
			v = x.X
			continue
		case *ssa.MakeInterface:
			v = x.X
			continue
		case *ssa.ChangeInterface:
			v = x.X
			continue
		}
		break
	}
	return v
}

// c25CanonRoot is c25Root continued through plain copies: a local variable that
// is assigned exactly once, from (a field-free load of) another value, stands
// for that value (`kk := u; kk.key` hangs off whatever `u` hangs off).
func c25CanonRoot(v ssa.Value) ssa.Value {
	r := c25Root(v)
	for i := 0; i < 8; i++ {
		a, ok := r.(*ssa.Alloc)
		if !ok || a.Referrers() == nil {
			return r
		}
		var only *ssa.Store
		n := 0
		for _, x := range *a.Referrers() {
			if st, ok := x.(*ssa.Store); ok && st.Addr == ssa.Value(a) {
				only = st
				n++
			}
		}
		if n != 1 {
			return r
		}
		// whole-value copy only: the stored value must itself be a root or a plain load of one
		src := only.Val
		if u, ok := src.(*ssa.UnOp); ok && u.Op == token.MUL {
			if _, isAlloc := u.X.(*ssa.Alloc); !isAlloc {
				return r
			}
			src = u.X
		}
		switch src.(type) {
		case *ssa.Alloc:
			r = src
		case *ssa.Parameter, *ssa.Extract, *ssa.Call, *ssa.Field, *ssa.TypeAssert, *ssa.Lookup, *ssa.Index:
			return src
		default:
			return r
		}
	}
	return r
}

// c25FieldChain returns the selected field names of a chain (outermost last).
func c25FieldChain(v ssa.Value) []string {
	var out []string
	for i := 0; i < 16; i++ {
		switch x := v.(type) {
		case *ssa.UnOp:
			if x.Op == token.MUL {
				v = x.X
				continue
			}
		case *ssa.FieldAddr:
			out = append([]string{fieldName(x.X.Type(), x.Field)}, out...)
			v = x.X
			continue
		case *ssa.Field:
			out = append([]string{fieldName(x.X.Type(), x.Field)}, out...)
			v = x.X
			continue
		case *ssa.MakeInterface:
			v = x.X
			continue
		}
		break
	}
	return out
}

func c25HasSuffix(chain []string, suffix ...string) bool {
	if len(chain) < len(suffix) {
		return false
	}
	return strings.Join(chain[len(chain)-len(suffix):], ".") == strings.Join(suffix, ".")
}

// ---------------------------------------------------------------------------
// Ownership of a slice handed to a callback (E-FLOW, forward may-dataflow).
//
// Once a slice S has been passed to a sink that may retain it, the elements
// S[0:len(S)] belong to the sink.  c25HandedFlow tracks, flow-sensitively, how
// every later slice value relates to a handed S:
//
//	same    - covers the handed elements (S itself, S[:], S[:len(S)], append(S,…))
//	tail    - starts behind them (S[len(S):] and anything resliced/appended from it)
//	overlap - shares the array but is shorter than / offset into the handed region
//	          (S[:0], S[:k], S[a:b] …): an append to it overwrites handed elements
//
// and reports: append to an overlap value, element stores / copy / clear into a
// same or overlap value, and handing a same value to the sink again
// (the already delivered elements would be delivered twice).  SSA names denote a
// fresh dynamic value each time their instruction executes, so facts are
// overwritten at (re)definition and merged (union) at joins; phis are
// transferred per incoming edge.  Local variables whose address is taken
// (Alloc cells) are followed through Store/load.
const (
	c25FactSame = 1 << iota
	c25FactTail
	c25FactOverlap
)

type c25HandIssue struct {
	At   ssa.Instruction
	Kind string // "append" | "store" | "copy" | "clear" | "redeliver"
	What string
}

// c25HandedFlow analyses fn.  sinkArg returns the handed slice if in is a sink
// call.  undecided lists sink calls whose argument lives in a variable this
// analysis does not model (captured, field, global).
func c25HandedFlow(fn *ssa.Function, sinkArg func(ssa.Instruction) ssa.Value) (sinks []ssa.Instruction, issues []c25HandIssue, undecided []ssa.Instruction) {
	if len(fn.Blocks) == 0 {
		return
	}
	type state map[ssa.Value]uint8
	// is the cell a purely local variable (only stored to / loaded from)?
	localCell := func(v ssa.Value) bool {
		a, ok := v.(*ssa.Alloc)
		if !ok || a.Referrers() == nil {
			return false
		}
		for _, r := range *a.Referrers() {
			switch x := r.(type) {
			case *ssa.Store:
				if x.Addr != ssa.Value(a) {
					return false // the address itself escapes
				}
			case *ssa.UnOp:
				if x.Op != token.MUL {
					return false
				}
			case *ssa.DebugRef:
			default:
				return false
			}
		}
		return true
	}
	seenSink := map[ssa.Instruction]bool{}
	seenUndecided := map[ssa.Instruction]bool{}
	seenIssue := map[string]bool{}
	report := func(in ssa.Instruction, kind, what string) {
		k := fmt.Sprintf("%p/%s", in, kind)
		if !seenIssue[k] {
			seenIssue[k] = true
			issues = append(issues, c25HandIssue{in, kind, what})
		}
	}
	isLenOf := func(v, x ssa.Value) bool {
		call, ok := v.(*ssa.Call)
		if !ok {
			return false
		}
		b, ok := call.Call.Value.(*ssa.Builtin)
		return ok && b.Name() == "len" && len(call.Call.Args) == 1 && call.Call.Args[0] == x
	}
	isZero := func(v ssa.Value) bool {
		if v == nil {
			return true
		}
		cv, ok := constOf(v)
		return ok && cv.Kind() == constant.Int && constant.Sign(cv) == 0
	}
	set := func(st state, v ssa.Value, m uint8) {
		if m == 0 {
			delete(st, v)
		} else {
			st[v] = m
		}
	}
	transfer := func(st state, in ssa.Instruction) {
		// --- uses that write ---
		switch x := in.(type) {
		case *ssa.Store:
			if ia, ok := x.Addr.(*ssa.IndexAddr); ok && st[ia.X]&(c25FactSame|c25FactOverlap) != 0 {
				report(in, "store", "an element of the slice handed to the sink is assigned")
			}
			if localCell(x.Addr) {
				set(st, x.Addr, st[x.Val])
			}
			return
		}
		if arg := sinkArg(in); arg != nil {
			if !seenSink[in] {
				seenSink[in] = true
				sinks = append(sinks, in)
			}
			modelled := true
			if ld, ok := arg.(*ssa.UnOp); ok && ld.Op == token.MUL && !localCell(ld.X) {
				modelled = false
			}
			if !modelled {
				if !seenUndecided[in] {
					seenUndecided[in] = true
					undecided = append(undecided, in)
				}
			}
			if st[arg]&c25FactSame != 0 {
				report(in, "redeliver", "a slice that still covers elements already handed to the sink is handed to it again")
			}
			st[arg] |= c25FactSame
			if ld, ok := arg.(*ssa.UnOp); ok && ld.Op == token.MUL && localCell(ld.X) {
				st[ld.X] |= c25FactSame
			}
			if v, ok := in.(ssa.Value); ok {
				delete(st, v)
			}
			return
		}
		v, isVal := in.(ssa.Value)
		if !isVal {
			return
		}
		var m uint8
		switch x := in.(type) {
		case *ssa.Slice:
			src := st[x.X]
			if src&c25FactTail != 0 {
				m |= c25FactTail
			}
			if src&c25FactOverlap != 0 {
				m |= c25FactOverlap
			}
			if src&c25FactSame != 0 {
				switch {
				case x.Low != nil && isLenOf(x.Low, x.X):
					m |= c25FactTail
				case isZero(x.Low) && (x.High == nil || isLenOf(x.High, x.X)):
					m |= c25FactSame
				default:
					m |= c25FactOverlap
				}
			}
		case *ssa.Call:
			if b, ok := x.Call.Value.(*ssa.Builtin); ok && len(x.Call.Args) > 0 {
				dst := st[x.Call.Args[0]]
				switch b.Name() {
				case "append":
					if dst&c25FactOverlap != 0 {
						report(in, "append", "append to a slice that shares the array handed to the sink but is shorter than what was handed: it overwrites elements the sink still holds")
					}
					m = dst
				case "copy":
					if dst&(c25FactSame|c25FactOverlap) != 0 {
						report(in, "copy", "copy into the slice handed to the sink")
					}
				case "clear":
					if dst&(c25FactSame|c25FactOverlap) != 0 {
						report(in, "clear", "clear of the slice handed to the sink")
					}
				}
			}
		case *ssa.UnOp:
			if x.Op == token.MUL && localCell(x.X) {
				m = st[x.X]
			}
		case *ssa.ChangeType:
			m = st[x.X]
		case *ssa.Convert:
			m = st[x.X]
		case *ssa.MakeInterface:
			m = st[x.X]
		case *ssa.Phi:
			return // transferred on the incoming edge
		}
		set(st, v, m) // (a re-executed Alloc is a fresh variable)
	}
	in := map[*ssa.BasicBlock]state{fn.Blocks[0]: {}}
	work := []*ssa.BasicBlock{fn.Blocks[0]}
	for len(work) > 0 {
		b := work[len(work)-1]
		work = work[:len(work)-1]
		st := state{}
		for k, v := range in[b] {
			st[k] = v
		}
		for _, ins := range b.Instrs {
			transfer(st, ins)
		}
		for _, s := range b.Succs {
			ns := state{}
			for k, v := range st {
				ns[k] = v
			}
			pi := -1
			for i, p := range s.Preds {
				if p == b {
					pi = i
				}
			}
			for _, ins := range s.Instrs {
				ph, ok := ins.(*ssa.Phi)
				if !ok {
					break
				}
				if pi >= 0 {
					set(ns, ph, st[ph.Edges[pi]])
				}
			}
			old, visited := in[s]
			changed := !visited
			if old == nil {
				old = state{}
				in[s] = old
			}
			for k, v := range ns {
				if old[k]|v != old[k] {
					old[k] |= v
					changed = true
				}
			}
			if changed {
				work = append(work, s)
			}
		}
	}
	return
}
