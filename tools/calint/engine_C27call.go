package main

import (
	"go/types"
	"strings"

	"golang.org/x/tools/go/ssa"
)

// Interprocedural layer of C27: the per-value discipline of Config.resolve is
// followed through the in-package static callees of resolve (extracted
// helpers).  Helpers are never identified by name: a helper is whatever
// function of the same package resolve reaches by static calls.
//
//   - parameter mapping: a helper's parameter is the argument of its (unique)
//     call site, repeatedly (aliases / same);
//   - guard lifting: an instruction of a helper is guarded by P if it is
//     guarded inside the helper, or every call site of the helper is (guarded);
//   - result summaries: the value of `x, err := helper(...)` is the merge of
//     the helper's returned values; returns whose error result is provably
//     non-nil are dropped when the consumer is guarded by err == nil.

type c27Calls struct {
	root  *ssa.Function
	funcs []*ssa.Function               // root first
	sites map[*ssa.Function][]*ssa.Call // static call sites (inside the closure) of each helper
	loops map[*ssa.Function]*c27Loop    // pseudo-loops: the whole helper is one "iteration"
}

func c27CallClosure(root *ssa.Function) *c27Calls {
	cc := &c27Calls{root: root, sites: map[*ssa.Function][]*ssa.Call{}, loops: map[*ssa.Function]*c27Loop{}}
	seen := map[*ssa.Function]bool{root: true}
	cc.funcs = []*ssa.Function{root}
	for i := 0; i < len(cc.funcs); i++ {
		for _, b := range cc.funcs[i].Blocks {
			for _, in := range b.Instrs {
				call, ok := in.(*ssa.Call)
				if !ok {
					continue
				}
				g := call.Common().StaticCallee()
				if g == nil || g == root || g.Pkg == nil || g.Pkg != root.Pkg || len(g.Blocks) == 0 || g.Parent() != nil {
					continue
				}
				cc.sites[g] = append(cc.sites[g], call)
				if !seen[g] {
					seen[g] = true
					cc.funcs = append(cc.funcs, g)
				}
			}
		}
	}
	return cc
}

// helperOf: the in-closure helper called by call (nil if none).
func (cc *c27Calls) helperOf(call *ssa.Call) *ssa.Function {
	g := call.Common().StaticCallee()
	if g == nil || g == cc.root || len(cc.sites[g]) == 0 {
		return nil
	}
	return g
}

// ctx: the per-iteration region reasoning happens in.  For resolve it is the
// per-value loop; for a helper it is the whole function.
func (cc *c27Calls) ctx(f *ssa.Function, rootLoop *c27Loop) *c27Loop {
	if f == cc.root {
		return rootLoop
	}
	if l := cc.loops[f]; l != nil {
		return l
	}
	l := &c27Loop{Fn: f, BodyEntry: f.Blocks[0], Blocks: map[*ssa.BasicBlock]bool{}}
	cc.loops[f] = l
	return l
}

// aliases: v, and — while v is a parameter of a helper with a single call
// site — the argument passed for it.
func (cc *c27Calls) aliases(v ssa.Value) []ssa.Value {
	out := []ssa.Value{v}
	for d := 0; d < 6; d++ {
		pa, ok := c27Unwrap(v).(*ssa.Parameter)
		if !ok || pa.Parent() == cc.root {
			break
		}
		s := cc.sites[pa.Parent()]
		if len(s) != 1 {
			break
		}
		idx := -1
		for i, q := range pa.Parent().Params {
			if q == pa {
				idx = i
			}
		}
		if idx < 0 || idx >= len(s[0].Common().Args) {
			break
		}
		v = s[0].Common().Args[idx]
		out = append(out, v, c27Unwrap(v))
	}
	return out
}

func (cc *c27Calls) same(a, b ssa.Value) bool {
	for _, x := range cc.aliases(a) {
		for _, y := range cc.aliases(b) {
			if x == y {
				return true
			}
		}
	}
	return false
}

// c27ErrIdx: index of the trailing error result of f, or -1.
func c27ErrIdx(f *ssa.Function) int {
	res := f.Signature.Results()
	if res.Len() == 0 {
		return -1
	}
	if types.TypeString(res.At(res.Len()-1).Type(), nil) != "error" {
		return -1
	}
	return res.Len() - 1
}

// c27ResultOf: v is result #idx of call.
func c27ResultOf(v ssa.Value, call *ssa.Call, idx int) bool {
	if ex, ok := v.(*ssa.Extract); ok {
		return ex.Tuple == ssa.Value(call) && ex.Index == idx
	}
	return v == ssa.Value(call) && idx == 0 && call.Common().Signature().Results().Len() == 1
}

// c27ResultIndex: v is a result of a call; which call, which index.
func c27ResultIndex(v ssa.Value) (*ssa.Call, int) {
	if ex, ok := v.(*ssa.Extract); ok {
		if call, ok := ex.Tuple.(*ssa.Call); ok {
			return call, ex.Index
		}
		return nil, 0
	}
	if call, ok := v.(*ssa.Call); ok && call.Common().Signature().Results().Len() == 1 {
		return call, 0
	}
	return nil, 0
}

func c27ErrNilCond(want bool, call *ssa.Call, idx int) EdgePred {
	return eqCond(want, func(v ssa.Value) bool { return c27ResultOf(v, call, idx) }, isNilConst)
}

// guarded: in is only reached (within its iteration) across an edge accepted by
// pred, established in its own function or at every call site of it.
func (m *c27Model) guarded(in ssa.Instruction, pred EdgePred) bool {
	return m.guardedN(in, pred, 6)
}

func (m *c27Model) guardedN(in ssa.Instruction, pred EdgePred, depth int) bool {
	f := in.Parent()
	if m.calls.ctx(f, m.loop).instrGuarded(in, pred) {
		return true
	}
	if f == m.fn || depth == 0 {
		return false
	}
	s := m.calls.sites[f]
	if len(s) == 0 {
		return false
	}
	for _, call := range s {
		if !m.guardedN(call, pred, depth-1) {
			return false
		}
	}
	return true
}

// rootSites: the instructions of resolve through which in is reached.
func (m *c27Model) rootSites(in ssa.Instruction, depth int) []ssa.Instruction {
	if in.Parent() == m.fn {
		return []ssa.Instruction{in}
	}
	if depth == 0 {
		return nil
	}
	var out []ssa.Instruction
	for _, call := range m.calls.sites[in.Parent()] {
		out = append(out, m.rootSites(call, depth-1)...)
	}
	return out
}

// errNonNil: the error result returned by ret is provably non-nil.
func (m *c27Model) errNonNil(ret *ssa.Return, idx int) bool {
	if idx < 0 || idx >= len(ret.Results) {
		return false
	}
	r := ret.Results[idx]
	if isNilConst(r) {
		return false
	}
	if call, ok := r.(*ssa.Call); ok {
		if f := calleeOf(call.Common()); f != nil && f.Pkg() != nil {
			if (f.Pkg().Path() == "errors" && f.Name() == "New") || (f.Pkg().Path() == "fmt" && f.Name() == "Errorf") {
				return true
			}
		}
	}
	l := m.calls.ctx(ret.Parent(), m.loop)
	return l.instrGuarded(ret, eqCond(false, func(v ssa.Value) bool { return v == r }, isNilConst))
}

// c27VLeaf is one alternative of a merged value with the ways its selection
// can be guarded (any one suffices: all of them lie on the path selecting it).
type c27VLeaf struct {
	v      ssa.Value
	guards []func(EdgePred) bool
}

func (lf c27VLeaf) guarded(pred EdgePred) bool {
	for _, g := range lf.guards {
		if g(pred) {
			return true
		}
	}
	return false
}

// valueLeaves resolves v (consumed by `consumer`, an instruction of v's
// function) to its alternatives, through phis of the region and through the
// results of in-package helpers.  top: v is the value handed to reflect Set.
func (m *c27Model) valueLeaves(v ssa.Value, consumer ssa.Instruction, guards []func(EdgePred) bool, depth int) []c27VLeaf {
	f := consumer.Parent()
	l := m.calls.ctx(f, m.loop)
	if depth > 0 {
		if phi, ok := v.(*ssa.Phi); ok && l.InRegion(phi.Block()) && !(f == m.fn && phi.Block() == l.Header) {
			var out []c27VLeaf
			for i, e := range phi.Edges {
				from, to := phi.Block().Preds[i], phi.Block()
				g := func(pred EdgePred) bool {
					return l.edgeGuarded(func(a, b *ssa.BasicBlock) bool { return a == from && b == to }, pred)
				}
				out = append(out, m.valueLeaves(e, consumer, append(append([]func(EdgePred) bool{}, guards...), g), depth-1)...)
			}
			return out
		}
		if call, k := c27ResultIndex(v); call != nil && l.InRegion(call.Block()) {
			if h := m.calls.helperOf(call); h != nil {
				ei := c27ErrIdx(h)
				skipErr := false
				if ei >= 0 && ei != k {
					// the value is only consumed when the helper's error is nil: either
					// the consumer is guarded so, or the phi edge the value travels on is
					errNil := c27ErrNilCond(true, call, ei)
					skipErr = l.instrGuarded(consumer, errNil)
					for _, g := range guards {
						if g(errNil) {
							skipErr = true
						}
					}
				}
				cg := func(pred EdgePred) bool { return l.instrGuarded(call, pred) }
				hl := m.calls.ctx(h, m.loop)
				var out []c27VLeaf
				for _, ret := range returnsOf(h) {
					if isPanicBlock(ret.Block()) || k >= len(ret.Results) {
						continue
					}
					if skipErr && m.errNonNil(ret, ei) {
						continue
					}
					ret := ret
					rg := func(pred EdgePred) bool { return hl.instrGuarded(ret, pred) }
					out = append(out, m.valueLeaves(ret.Results[k], ret, append(append([]func(EdgePred) bool{}, guards...), cg, rg), depth-1)...)
				}
				return out
			}
		}
	}
	return []c27VLeaf{{v: v, guards: guards}}
}

// errStored: the error r, returned at `at`, is non-nil-able only after having
// been stored in Config.Err (of resolve's receiver) on every path — in at's
// function, or inside the helper whose result r is.
func (m *c27Model) errStored(r ssa.Value, at ssa.Instruction, depth int) bool {
	if isNilConst(r) || depth == 0 {
		return false
	}
	recv := m.fn.Params[0]
	for _, b := range at.Parent().Blocks {
		for _, in := range b.Instrs {
			st, ok := in.(*ssa.Store)
			if !ok || st.Val != r || fieldVar(st.Addr) != m.fErr {
				continue
			}
			fa, ok := st.Addr.(*ssa.FieldAddr)
			if ok && m.calls.same(fa.X, recv) && instrDominates(st, at) {
				return true
			}
		}
	}
	if phi, ok := r.(*ssa.Phi); ok {
		// a merged error: every alternative is nil, known nil on its edge, or stored
		l := m.calls.ctx(at.Parent(), m.loop)
		n := 0
		for i, e := range phi.Edges {
			e, from, to := e, phi.Block().Preds[i], phi.Block()
			if isNilConst(e) || l.edgeGuarded(func(a, b *ssa.BasicBlock) bool { return a == from && b == to },
				eqCond(true, func(v ssa.Value) bool { return v == e }, isNilConst)) {
				continue
			}
			n++
			if !m.errStored(e, at, depth-1) {
				return false
			}
		}
		_ = n
		return true // every alternative that can be non-nil has been stored
	}
	if call, k := c27ResultIndex(r); call != nil {
		if h := m.calls.helperOf(call); h != nil {
			n := 0
			for _, ret := range returnsOf(h) {
				if isPanicBlock(ret.Block()) || k >= len(ret.Results) || isNilConst(ret.Results[k]) {
					continue
				}
				n++
				if !m.errStored(ret.Results[k], ret, depth-1) {
					return false
				}
			}
			return n > 0
		}
	}
	return false
}

// leavesVia: taking the branch `succ` inside helper h can never continue
// resolve's per-value loop: every return reachable from succ returns a
// provably non-nil error, and every call site of h (in resolve) reaches the
// loop header only across an edge establishing that error == nil.
func (m *c27Model) leavesVia(h *ssa.Function, succ *ssa.BasicBlock) string {
	ei := c27ErrIdx(h)
	if ei < 0 {
		return "the helper " + h.Name() + " has no error result to report the failure with"
	}
	reach := blockReach(succ)
	reach[succ] = true
	for _, ret := range returnsOf(h) {
		if !reach[ret.Block()] || isPanicBlock(ret.Block()) {
			continue
		}
		if !m.errNonNil(ret, ei) {
			return "the branch can return from " + h.Name() + " without a (provably non-nil) error"
		}
	}
	for _, call := range m.calls.sites[h] {
		if call.Parent() != m.fn {
			return "the failure is reported through more than one level of helpers (" + call.Parent().Name() + " -> " + h.Name() + "): not followed"
		}
		if !m.loop.InRegion(call.Block()) {
			continue
		}
		pred := c27ErrNilCond(true, call, ei)
		seen := map[*ssa.BasicBlock]bool{}
		st := []*ssa.BasicBlock{call.Block()}
		for len(st) > 0 {
			b := st[len(st)-1]
			st = st[:len(st)-1]
			if seen[b] {
				continue
			}
			seen[b] = true
			if isPanicBlock(b) {
				continue
			}
			ifi, isIf := b.Instrs[len(b.Instrs)-1].(*ssa.If)
			for k, s := range b.Succs {
				if isIf && len(b.Succs) == 2 && b.Succs[0] != b.Succs[1] {
					cnd, pol := stripNot(ifi.Cond, k == 0)
					if pred(cnd, pol) {
						continue
					}
				}
				if s == m.loop.Header {
					return "resolve can continue with the next value although " + h.Name() + " returned an error"
				}
				st = append(st, s)
			}
		}
	}
	return ""
}

// c27Isolated runs one family; a lost anchor is recorded instead of aborting
// the independent families.
func c27Isolated(lost *[]string, f func()) {
	defer func() {
		if r := recover(); r != nil {
			al, ok := r.(anchorLost)
			if !ok {
				panic(r)
			}
			*lost = append(*lost, strings.TrimPrefix(al.msg, "ANCHOR-LOST: "))
		}
	}()
	f()
}

// storedByCallers: every call site of helper h stores result #idx of the call
// in Config.Err (of resolve's receiver) after the call.
func (m *c27Model) storedByCallers(h *ssa.Function, idx int) bool {
	recv := m.fn.Params[0]
	sites := m.calls.sites[h]
	for _, call := range sites {
		ok := false
		for _, b := range call.Parent().Blocks {
			for _, in := range b.Instrs {
				st, isSt := in.(*ssa.Store)
				if !isSt || fieldVar(st.Addr) != m.fErr || !c27ResultOf(st.Val, call, idx) {
					continue
				}
				if fa, isFA := st.Addr.(*ssa.FieldAddr); isFA && m.calls.same(fa.X, recv) && instrDominates(call, st) {
					ok = true
				}
			}
		}
		if !ok {
			return false
		}
	}
	return len(sites) > 0
}
