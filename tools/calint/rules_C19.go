package main

import (
	"fmt"
	"go/token"
	"go/types"
	"sort"
	"strings"

	"golang.org/x/tools/go/ssa"
)

func init() {
	register(&Property{
		ID:        "C19",
		Title:     "IPAM never gives one address to two live allocations",
		Technique: "static analysis: value provenance (backward slices with parameter→call-site propagation), error-edge reachability, ordering, guard cuts and struct-field coverage on go/ssa of libcalico-go/lib/ipam",
		DesignRef: "DESIGN.md §3 C19",
		Explanation: "Decides the compare-and-swap discipline that the design names as the mechanism: (cas) every *model.KVPair reaching Client.Update/DeleteKVP — directly or through any helper that forwards a pair parameter " +
			"(updateBlock, deleteBlock, updateAffinity, deleteAffinity, updateHandle, deleteHandle, confirmAffinity, claimAffineBlock, getBlockFromAffinity, assignFromExistingBlock, decrementHandle, ...) — is a pair returned by a backend " +
			"Get/List/Create/Update (possibly with Value replaced, possibly via a map/list of such pairs), nil, or a literal whose Revision (and UID when it can reach DeleteKVP) is copied from such a pair; a literal without Revision may only reach a write under " +
			"`pair.Revision != \"\"`; Client.Delete's revision is a read pair's Revision; Revision/UID/Key of a pair are never assigned outside a literal; (noapply) Client.Apply (which ignores revisions) is only called with a literal IPAMConfigKey pair; " +
			"(errchk) on the error edge of every datastore write (or, if the error is dropped, on the continuation) no `return …, nil` is reachable without re-executing the read that produced the pair, retrying a write of the same pair, or the error being " +
			"AlreadyExists for Create / DoesNotExist for Delete; (handle) wherever incrementHandle is called, the block write cannot be reached without it when a handle is given, and on the block write's error edge every path to a return or to a " +
			"re-increment passes decrementHandle, and the compensating decrementHandle is called with the same handle id, block CIDR and count (same SSA value, equal constants or the same pure access path) as every incrementHandle that reaches that block write; " +
			"(handledel) every call that hands a pair holding an IPAM handle record (read under IPAMHandleKey / IPAMHandleListOptions, a literal with such a key, or a pair whose Value is asserted to *model.IPAMHandle) to Client.DeleteKVP — directly or through forwarding helpers — is only reachable across the edge of a test that establishes len(handle.Block) == 0 " +
			"(any comparison spelling, or an in-package predicate all of whose returns are such a test, e.g. allocationHandle.empty) for the handle taken from the Value of that very pair, in the function itself, in the helper the pair is handed to, or — when pair and handle are both parameters — at every call site; " +
			"(attreq) every in-package function whose result is stored as the attribute index of an ordinal in AllocationBlock.Allocations and that inspects existing model.AllocationAttribute values (findOrAddAttribute) either compares whole structs (reflect.DeepEqual on AllocationAttribute operands) or reads every field of AllocationAttribute in its static call closure, " +
			"so an entry is never shared between allocations that differ in handle, active/alternate owner attributes or the released-at stamp (a cooling-down entry cannot become the record of a live allocation).",
		NotDecided: "That a field-wise attribute comparison which reads every field also compares it correctly (attreq is a coverage condition); that allocationHandle.decrementBlock removes a block whose count reaches zero (handledel relies on len(Block)); interleavings themselves (that CAS on revision linearises writers is the datastore's contract); the arithmetic inside allocationBlock.autoAssign/assign/release — in particular that an ordinal stored into Allocations is removed from the Unallocated queue wherever it sits (an off-by-one in the guard of assign's removal, e.g. `slices.Index(...) > 0`, is not detected: deciding it needs search-sentinel / loop-exhaustion reasoning about slice contents, one recogniser per coding idiom); that the count passed to incrementHandle equals the number of addresses the block write records (today it is the number requested: the handle may over-count); that callers of exported entry points taking a pair " +
			"(GarbageCollectColdIPs) pass a pair they read; crash windows between the handle write and the block write (handle may over-count); failures of composite clean-ups after a committed block write " +
			"(decrementHandle, ensureConsistentAffinity in the release paths are only logged: the address is already released).",
		Assumptions: []string{
			"go/types + go/ssa (x/tools v0.50.0) model of the current source, CGO_ENABLED=0 build",
			"backend Client.Update/DeleteKVP/Delete compare KVPair.Revision (and UID for KDD deletes); Create fails if the key exists; Apply ignores Revision",
			"pairs supplied by callers of exported IPAM API (GarbageCollectColdIPs) were read from the datastore",
			"logrus Panic*/Fatal* do not return",
		},
		Run: runC19,
		Fixtures: []Fixture{
			{Name: "F7 re-introduced: AssignIP retries a CAS conflict without decrementHandle", File: "libcalico-go/lib/ipam/ipam.go",
				Old: "\t\tif err != nil {\n\t\t\t// The block was not written, so undo the handle increment above; a retry\n\t\t\t// increments it again.\n\t\t\tif args.HandleID != nil {",
				New: "\t\tif err != nil {\n\t\t\tif _, ok := err.(cerrors.ErrorResourceUpdateConflict); ok {\n\t\t\t\tcontinue\n\t\t\t}\n\t\t\tif args.HandleID != nil {", Expect: "C19.handle/ipamClient.AssignIP/rollback"},
			{Name: "cold-IP GC writes block without the read revision", File: "libcalico-go/lib/ipam/ipam.go",
				Old: "\t\t\tRevision: kvp.Revision,\n\t\t\tUID:      kvp.UID,\n", New: "\t\t\tUID:      kvp.UID,\n", Expect: "C19.cas/ipamClient.GarbageCollectColdIPs/updateBlock"},
			{Name: "release affinity writes a fresh pair (no revision)", File: "libcalico-go/lib/ipam/ipam_block_reader_writer.go",
				Old: "\t\tobj.Value = b.AllocationBlock\n\t\t_, err = rw.updateBlock(ctx, obj)", New: "\t\t_, err = rw.updateBlock(ctx, &model.KVPair{Key: obj.Key, Value: b.AllocationBlock})", Expect: "C19.cas/blockReaderWriter.releaseBlockAffinity/updateBlock"},
			{Name: "new-handle literal can reach updateHandle", File: "libcalico-go/lib/ipam/ipam.go",
				Old: "\t\tif obj.Revision != \"\" {\n\t\t\t// This is an existing handle - update it.", New: "\t\tif len(handle.Block) > 1 {\n\t\t\t// This is an existing handle - update it.", Expect: "C19.cas/ipamClient.incrementHandle/updateHandle"},
			{Name: "host delete without revision", File: "libcalico-go/lib/ipam/ipam.go",
				Old: "c.client.Delete(ctx, k, kvp.Revision)", New: "c.client.Delete(ctx, kvp.Key, \"\")", Expect: "C19.cas/ipamClient.RemoveIPAMHost/Delete"},
			{Name: "handle cache holds rebuilt pairs", File: "libcalico-go/lib/ipam/ipam.go",
				Old: "handleMap[sanitizeHandle(h.Key.(model.IPAMHandleKey).HandleID)] = h", New: "handleMap[sanitizeHandle(h.Key.(model.IPAMHandleKey).HandleID)] = &model.KVPair{Key: h.Key, Value: h.Value}", Expect: "C19.cas/ipamClient.releaseIPsFromBlock/decrementHandle"},
			{Name: "revision overwritten on a read pair", File: "libcalico-go/lib/ipam/ipam.go",
				Old: "\tblock.Value = b.AllocationBlock\n\t_, err = c.blockReaderWriter.updateBlock(ctx, block)", New: "\tblock.Value = b.AllocationBlock\n\tblock.Revision = \"\"\n\t_, err = c.blockReaderWriter.updateBlock(ctx, block)", Expect: "C19.cas/identity-store/ipamClient.assignFromExistingBlock"},
			{Name: "handle written with Apply", File: "libcalico-go/lib/ipam/ipam_block_reader_writer.go",
				Old: "return rw.client.Update(ctx, kvp)", New: "return rw.client.Apply(ctx, kvp)", Expect: "C19.noapply/blockReaderWriter.updateHandle"},
			{Name: "failed block write falls through to affinity delete", File: "libcalico-go/lib/ipam/ipam_block_reader_writer.go",
				Old: "\t\t\tlogCtx.WithError(err).Error(\"Failed to remove affinity from block\")\n\t\t\treturn err\n", New: "\t\t\tlogCtx.WithError(err).Error(\"Failed to remove affinity from block\")\n", Expect: "C19.errchk/blockReaderWriter.releaseBlockAffinity/updateBlock"},
			{Name: "release drops the block write error", File: "libcalico-go/lib/ipam/ipam.go",
				Old: "_, updateErr = c.blockReaderWriter.updateBlock(ctx, obj)", New: "_, _ = c.blockReaderWriter.updateBlock(ctx, obj)", Expect: "C19.errchk/ipamClient.releaseIPsFromBlock/updateBlock"},
			{Name: "any handle update error treated as success", File: "libcalico-go/lib/ipam/ipam.go",
				Old: "\t\t\t\t\t// Update conflict - retry.\n\t\t\t\t\tcontinue\n\t\t\t\t}\n\t\t\t\treturn err\n", New: "\t\t\t\t\t// Update conflict - retry.\n\t\t\t\t\tcontinue\n\t\t\t\t}\n", Expect: "C19.errchk/ipamClient.decrementHandle/updateHandle"},
			{Name: "block written before the handle is incremented", File: "libcalico-go/lib/ipam/ipam.go",
				Old: "\tif handleID != nil {\n\t\tlogCtx.Debug(\"Incrementing handle\")", New: "\tif handleID != nil && num > 1 {\n\t\tlogCtx.Debug(\"Incrementing handle\")", Expect: "C19.handle/ipamClient.assignFromExistingBlock/increment-before-write"},
			{Name: "no handle rollback after failed block write", File: "libcalico-go/lib/ipam/ipam.go",
				Old: "\t\tif handleID != nil {\n\t\t\tlogCtx.Debug(\"Decrementing handle since we failed to allocate IP(s)\")", New: "\t\tif handleID != nil && num > 1 {\n\t\t\tlogCtx.Debug(\"Decrementing handle since we failed to allocate IP(s)\")", Expect: "C19.handle/ipamClient.assignFromExistingBlock/rollback"},
			{Name: "handle incremented by the addresses obtained, rolled back by the number requested", File: "libcalico-go/lib/ipam/ipam.go",
				Old: "err := c.incrementHandle(ctx, *handleID, blockCIDR, num, maxAlloc)", New: "err := c.incrementHandle(ctx, *handleID, blockCIDR, len(ips), maxAlloc)", Expect: "C19.handle/ipamClient.assignFromExistingBlock/rollback-mirror"},
			{Name: "rollback subtracts the addresses obtained, increment added the number requested", File: "libcalico-go/lib/ipam/ipam.go",
				Old: "c.decrementHandle(cleanupCtx, *handleID, blockCIDR, num, nil)", New: "c.decrementHandle(cleanupCtx, *handleID, blockCIDR, len(ips), nil)", Expect: "C19.handle/ipamClient.assignFromExistingBlock/rollback-mirror"},
			{Name: "AssignIP rolls the handle back under the address's /32 instead of the block it incremented", File: "libcalico-go/lib/ipam/ipam.go",
				Old: "c.decrementHandle(cleanupCtx, *args.HandleID, blockCIDR, 1, nil)", New: "c.decrementHandle(cleanupCtx, *args.HandleID, *args.IP.Network(), 1, nil)", Expect: "C19.handle/ipamClient.AssignIP/rollback-mirror"},
			{Name: "handle record deleted once it has no IPv4 addresses left (dual-stack handle keeps IPv6 addresses)", File: "libcalico-go/lib/ipam/ipam.go",
				Old: "\t\tif handle.empty() {", New: "\t\tif handle.totalCountByVersion(4) == 0 {", Expect: "C19.handledel/ipamClient.decrementHandle/deleteHandle"},
			{Name: "handle record deleted when the block being decremented drops out of it (other blocks still linked)", File: "libcalico-go/lib/ipam/ipam.go",
				Old: "\t\tif handle.empty() {", New: "\t\tif _, linked := handle.Block[blockCIDR.String()]; !linked {", Expect: "C19.handledel/ipamClient.decrementHandle/deleteHandle"},
			{Name: "attribute de-duplication compares owner fields but not ReleasedAt (cooling-down entry reused for a live allocation)", File: "libcalico-go/lib/ipam/ipam_block.go",
				Old: "if reflect.DeepEqual(attr, existing) {", New: "if reflect.DeepEqual(attr.HandleID, existing.HandleID) && reflect.DeepEqual(attr.ActiveOwnerAttrs, existing.ActiveOwnerAttrs) && len(existing.AlternateOwnerAttrs) == 0 {", Expect: "C19.attreq/allocationBlock.findOrAddAttribute/ReleasedAt"},
			{Name: "attribute de-duplication ignores the handle (address recorded under another handle's entry)", File: "libcalico-go/lib/ipam/ipam_block.go",
				Old: "if reflect.DeepEqual(attr, existing) {", New: "if existing.ReleasedAt == nil && existing.AlternateOwnerAttrs == nil && reflect.DeepEqual(attrs, existing.ActiveOwnerAttrs) {", Expect: "C19.attreq/allocationBlock.findOrAddAttribute/HandleID"},
		},
	})
}

// Exported entry points whose pair parameter is trusted to be a pair the caller read.
var c19TrustedAPIParams = map[string]string{
	"ipamClient.GarbageCollectColdIPs.kvp": "kube-controllers IPAM GC passes the block pair from its datastore cache; conflicts are detected by the CAS on its Revision",
}

// Sites where the error edge of a write may reach `return …, nil` by design.
var c19ToleratedErrEdges = map[string]string{
	"blockReaderWriter.confirmAffinity/updateAffinity": "after a failed confirm the affinity is re-read (queryAffinity) and only returned if another process already confirmed it (C22.pending/reread)",
}

type c19Site struct {
	instr  ssa.CallInstruction
	fn     *ssa.Function
	arg    ssa.Value
	argIdx int
	callee string
	mode   string // pair | rev
	prims  map[string]bool
	leaves []c19Leaf
}

type c19FwdKey struct {
	fn  *ssa.Function
	idx int
}

func c19CalleeName(ci ssa.CallInstruction) string {
	cc := ci.Common()
	if f := calleeOf(cc); f != nil {
		return f.Name()
	}
	if sf := calleeFn(cc); sf != nil {
		return fnName(sf)
	}
	return "<dynamic>"
}

func runC19(c *Ctx) {
	m := c19Load(c)
	c.Rule("C19.cas", "E-FLOW", "every pair reaching Client.Update/DeleteKVP (through any forwarding helper) is a datastore result, nil, or a literal with Revision(/UID) copied from one; Client.Delete's revision comes from a read pair; identity fields of pairs are never reassigned", 51)
	c.Rule("C19.noapply", "E-OWN", "Client.Apply (revision-blind) is only called with a literal pair whose key is not a block/affinity/handle key", 1)
	c.Rule("C19.errchk", "E-ERR", "error edge (or dropped-error continuation) of every datastore write reaches no `return …, nil` without re-read / same-pair retry / AlreadyExists(Create) / DoesNotExist(Delete)", 38)
	c.Rule("C19.handle", "E-ORDER", "incrementHandle precedes the block write when a handle is given; on the block write's error edge decrementHandle precedes every return and every re-increment, and that decrementHandle passes the same handle, block and count as the incrementHandle it undoes", 6)
	c.Rule("C19.handledel", "E-GUARD", "a handle record is deleted from the datastore only on the true edge of a test that the handle held by the very pair being deleted has no blocks left (len(handle.Block) == 0, directly or through a predicate such as allocationHandle.empty)", 3)
	c.Rule("C19.attreq", "E-FIELDS", "a function that yields the attribute index recorded for an allocation shares an existing Attributes entry only if it is equal in every field of model.AllocationAttribute: whole-struct equality, or a comparison that reads every field", 2)
	sites := c19Cas(c, m)
	c19NoApply(c, m)
	c19ErrChk(c, m)
	c19Handle(c, m)
	c19HandleDel(c, m, sites)
	c19AttrEq(c, m)
}

// ------------------------------------------------------------------ C19.cas --

func (m *c19Model) siteLeaves(s *c19Site) []c19Leaf {
	if s.mode == "rev" {
		return m.fieldDerivation(s.arg, m.revField)
	}
	return m.prov(s.arg)
}

func c19Cas(c *Ctx, m *c19Model) []*c19Site {
	p := m.p
	sites := map[ssa.Instruction]map[int]*c19Site{}
	var order []*c19Site
	fwd := map[c19FwdKey]map[string]bool{}
	fwdMode := map[c19FwdKey]string{}
	add := func(ci ssa.CallInstruction, idx int, mode string, prims map[string]bool) *c19Site {
		if sites[ci] == nil {
			sites[ci] = map[int]*c19Site{}
		}
		if s, ok := sites[ci][idx]; ok {
			return s
		}
		args := ci.Common().Args
		if idx >= len(args) {
			return nil
		}
		s := &c19Site{instr: ci, fn: ci.Parent(), arg: args[idx], argIdx: idx, callee: c19CalleeName(ci), mode: mode, prims: prims}
		sites[ci][idx] = s
		order = append(order, s)
		return s
	}
	for _, f := range m.funcs {
		allInstrs(f, false, func(fn *ssa.Function, in ssa.Instruction) {
			ci, ok := in.(ssa.CallInstruction)
			if !ok {
				return
			}
			switch n := c19ClientCall(ci.Common(), "Update", "DeleteKVP", "Delete"); n {
			case "Update", "DeleteKVP":
				add(ci, 1, "pair", map[string]bool{n: true})
			case "Delete":
				add(ci, 2, "rev", map[string]bool{n: true})
			}
		})
	}
	if len(order) == 0 {
		c.Lost("no Client.Update/DeleteKVP/Delete call in %s", c19Pkg)
	}
	// fixpoint: propagate parameter leaves to call sites
	for i := 0; i < len(order); i++ {
		s := order[i]
		s.leaves = m.siteLeaves(s)
		for _, l := range s.leaves {
			if l.Kind != "param" {
				continue
			}
			par := l.V.(*ssa.Parameter)
			k := c19FwdKey{par.Parent(), c19ParamIndex(par)}
			if fwd[k] == nil {
				fwd[k] = map[string]bool{}
				fwdMode[k] = l.Mode
			}
			for _, ci := range m.callSites[k.fn] {
				add(ci, k.idx, l.Mode, fwd[k])
			}
		}
	}
	// propagate primitive kinds along forwarders until stable
	for changed := true; changed; {
		changed = false
		for _, s := range order {
			for _, l := range s.leaves {
				if l.Kind != "param" {
					continue
				}
				par := l.V.(*ssa.Parameter)
				k := c19FwdKey{par.Parent(), c19ParamIndex(par)}
				for pr := range s.prims {
					if !fwd[k][pr] {
						fwd[k][pr] = true
						changed = true
					}
				}
			}
		}
	}
	sort.SliceStable(order, func(i, j int) bool { return order[i].instr.Pos() < order[j].instr.Pos() })
	emptyStr := func(v ssa.Value) bool {
		cv, ok := constOf(v)
		return ok && cv.ExactString() == `""`
	}
	for _, s := range order {
		key := "C19.cas/" + fnName(s.fn) + "/" + s.callee
		site := p.Pos(s.instr.Pos())
		var bad, okWhy []string
		seenWhy := map[string]bool{}
		note := func(w string) {
			if !seenWhy[w] {
				seenWhy[w] = true
				okWhy = append(okWhy, w)
			}
		}
		needUID := s.prims["DeleteKVP"]
		for _, l := range s.leaves {
			if needUID && l.NoUID && l.Kind != "bad" {
				bad = append(bad, fmt.Sprintf("a literal pair that does not copy UID from a read pair can reach DeleteKVP (%s)", p.Pos(l.V.Pos())))
			}
			switch l.Kind {
			case "src":
				note("result of " + l.Why)
			case "nil":
				note("nil")
			case "param":
				par := l.V.(*ssa.Parameter)
				note(fmt.Sprintf("parameter %s (checked at %d call site(s) of %s)", par.Name(), len(m.callSites[par.Parent()]), fnName(par.Parent())))
			case "norev":
				arg := s.arg
				g := guardedCut(s.instr, eqCond(false, func(v ssa.Value) bool {
					u, ok := v.(*ssa.UnOp)
					if !ok || u.Op != token.MUL {
						return false
					}
					fa, ok := u.X.(*ssa.FieldAddr)
					return ok && fa.X == arg && structField(fa.X.Type(), fa.Field) == m.revField
				}, emptyStr))
				if g {
					note("fresh literal excluded by the `Revision != \"\"` guard")
				} else {
					bad = append(bad, fmt.Sprintf("a literal pair without Revision (built at %s) reaches %s: unconditional write, no compare-and-swap", p.Pos(l.V.Pos()), s.callee))
				}
			case "bad":
				bad = append(bad, l.Why+" at "+p.Pos(l.V.Pos()))
			}
		}
		if len(bad) > 0 {
			c.Violate(key, site, "%s in %s: %s", s.callee, fnName(s.fn), strings.Join(bad, "; "))
			continue
		}
		if len(okWhy) == 0 {
			okWhy = append(okWhy, "fresh empty container (the pairs stored into it are checked where they are read back)")
		}
		c.Ok(key, site, "[%s→%s] %s", s.mode, c19SortedSet(s.prims), strings.Join(okWhy, "; "))
	}
	// forwarders: exported entry points and address-taken functions
	var fks []c19FwdKey
	for k := range fwd {
		fks = append(fks, k)
	}
	sort.Slice(fks, func(i, j int) bool {
		if fks[i].fn.Pos() != fks[j].fn.Pos() {
			return fks[i].fn.Pos() < fks[j].fn.Pos()
		}
		return fks[i].idx < fks[j].idx
	})
	for _, k := range fks {
		name := fnName(k.fn) + "." + k.fn.Params[k.idx].Name()
		site := p.Pos(k.fn.Pos())
		if m.valueUse[k.fn] {
			c.Undecided("C19.cas/api/"+name, site, "%s forwards a pair to a CAS write and is used as a function value: its callers cannot be enumerated", fnName(k.fn))
			continue
		}
		if c19Exported(k.fn) {
			if why, ok := c19TrustedAPIParams[name]; ok {
				c.Ok("C19.cas/api/"+name, site, "exported entry point, caller-supplied pair (trusted: %s); %d in-package call site(s) checked", why, len(m.callSites[k.fn]))
			} else {
				c.Undecided("C19.cas/api/"+name, site, "exported %s forwards its parameter %s to %s; callers outside %s are not analysed and the parameter is not in the reviewed list", fnName(k.fn), k.fn.Params[k.idx].Name(), c19SortedSet(fwd[k]), c19Pkg)
			}
		}
	}
	// identity fields of a pair are only ever stored into literals
	nLit := 0
	for _, fv := range []*types.Var{m.revField, m.uidField, m.keyField} {
		_ = fv
	}
	for _, f := range m.funcs {
		allInstrs(f, false, func(fn *ssa.Function, in ssa.Instruction) {
			st, ok := in.(*ssa.Store)
			if !ok {
				return
			}
			fa, ok := st.Addr.(*ssa.FieldAddr)
			if !ok {
				return
			}
			fv := structField(fa.X.Type(), fa.Field)
			if fv != m.revField && fv != m.uidField && fv != m.keyField {
				return
			}
			if _, isAlloc := fa.X.(*ssa.Alloc); isAlloc {
				nLit++
				return
			}
			c.Violate("C19.cas/identity-store/"+fnName(fn), p.Pos(st.Pos()), "%s assigns %s of an existing pair (%s): the pair no longer carries the revision it was read at", fnName(fn), fv.Name(), path(fa.X))
		})
	}
	c.Ok("C19.cas/identity-fields", p.Pos(m.funcs[0].Pos()), "Key/Revision/UID are only stored into pair literals under construction (%d stores)", nLit)
	return order
}

// -------------------------------------------------------------- C19.noapply --

var c19DataKeys = map[string]bool{
	c19ModelPkg + ".BlockKey": true, c19ModelPkg + ".BlockAffinityKey": true, c19ModelPkg + ".IPAMHandleKey": true,
}

func c19NoApply(c *Ctx, m *c19Model) {
	p := m.p
	n := 0
	for _, f := range m.funcs {
		for _, cs := range callsIn(f, false, func(fn *types.Func) bool { return fn.Name() == "Apply" }) {
			if c19ClientCall(cs.Common(), "Apply") == "" {
				continue
			}
			n++
			key := "C19.noapply/" + fnName(f)
			site := p.Pos(cs.Instr.Pos())
			arg := cs.Common().Args[1]
			var bad []string
			var keys []string
			for _, o := range origins(arg, nil) {
				al, ok := o.V.(*ssa.Alloc)
				if !ok || o.Kind != "alloc" {
					bad = append(bad, "argument is "+path(o.V)+" ("+o.Kind+"), not a pair literal: its key cannot be bounded and Apply ignores its revision")
					continue
				}
				fields, copies := c19FieldStores(al, 0)
				if len(copies) > 0 {
					bad = append(bad, "literal is a copy of another pair")
				}
				ks := fields[m.keyField.Name()]
				if len(ks) == 0 {
					bad = append(bad, "literal has no Key")
				}
				for _, kv := range ks {
					mi, ok := kv.(*ssa.MakeInterface)
					if !ok {
						bad = append(bad, "Key is "+path(kv)+", not a statically typed key")
						continue
					}
					q := qualTypeName(mi.X.Type())
					keys = append(keys, q)
					if c19DataKeys[q] {
						bad = append(bad, "Apply of a "+q+" bypasses compare-and-swap")
					}
				}
			}
			if len(bad) > 0 {
				c.Violate(key, site, "Client.Apply in %s: %s", fnName(f), strings.Join(bad, "; "))
			} else {
				c.Ok(key, site, "Client.Apply only with literal key type(s) %v", keys)
			}
		}
	}
	if n == 0 {
		c.Ok("C19.noapply/none", p.Pos(m.funcs[0].Pos()), "no Client.Apply call in %s", c19Pkg)
	}
}

// --------------------------------------------------------------- C19.errchk --

type c19Write struct {
	ci   ssa.CallInstruction
	prim string // Create | Update | Apply | Delete | DeleteKVP
	name string
}

// c19Writes: all call instructions that are a datastore write: Client write
// primitives and thin wrappers (one write call, whose error is what is returned).
func c19Writes(m *c19Model) (writes []c19Write, wrappers map[*ssa.Function]string) {
	wrappers = map[*ssa.Function]string{}
	prim := func(ci ssa.CallInstruction) string {
		if n := c19ClientCall(ci.Common(), "Create", "Update", "Apply", "Delete", "DeleteKVP"); n != "" {
			return n
		}
		if sf := calleeFn(ci.Common()); sf != nil {
			return wrappers[sf]
		}
		return ""
	}
	for changed := true; changed; {
		changed = false
		for _, f := range m.funcs {
			if f.Parent() != nil || wrappers[f] != "" {
				continue
			}
			var ws []ssa.CallInstruction
			other := false
			allInstrs(f, true, func(_ *ssa.Function, in ssa.Instruction) {
				if ci, ok := in.(ssa.CallInstruction); ok {
					if prim(ci) != "" {
						ws = append(ws, ci)
					} else if c19ClientCall(ci.Common()) != "" {
						other = true
					}
				}
			})
			if len(ws) != 1 || other || ws[0].Parent() != f {
				continue
			}
			e := c19ErrValue(ws[0])
			if e == nil {
				continue
			}
			al := c19Aliases(e)
			ok := true
			nret := 0
			for _, r := range returnsOf(f) {
				for _, res := range r.Results {
					if c19IsError(res.Type()) {
						nret++
						if !al[res] {
							ok = false
						}
					}
				}
			}
			if ok && nret > 0 {
				wrappers[f] = prim(ws[0])
				changed = true
			}
		}
	}
	for _, f := range m.funcs {
		allInstrs(f, false, func(_ *ssa.Function, in ssa.Instruction) {
			if ci, ok := in.(ssa.CallInstruction); ok {
				if pr := prim(ci); pr != "" {
					writes = append(writes, c19Write{ci, pr, c19CalleeName(ci)})
				}
			}
		})
	}
	sort.SliceStable(writes, func(i, j int) bool { return writes[i].ci.Pos() < writes[j].ci.Pos() })
	return
}

// c19PairArg: the pair (or revision) argument of a write call.
func c19PairArg(m *c19Model, w c19Write) ssa.Value {
	args := w.ci.Common().Args
	for _, a := range args {
		if m.isPairPtr(a.Type()) {
			return a
		}
	}
	if w.prim == "Delete" && len(args) > 0 {
		return args[len(args)-1]
	}
	return nil
}

func c19ErrChk(c *Ctx, m *c19Model) {
	p := m.p
	writes, wrappers := c19Writes(m)
	if len(wrappers) == 0 {
		c.Lost("no write wrappers (updateBlock, deleteBlock, ...) recognised in %s", c19Pkg)
	}
	isWrite := map[ssa.Instruction]c19Write{}
	for _, w := range writes {
		isWrite[w.ci] = w
	}
	for _, w := range writes {
		fn := w.ci.Parent()
		key := "C19.errchk/" + fnName(fn) + "/" + w.name
		site := p.Pos(w.ci.Pos())
		call, isCall := w.ci.(*ssa.Call)
		if !isCall {
			c.Violate(key, site, "%s is started with go/defer in %s: its error cannot be observed", w.name, fnName(fn))
			continue
		}
		e := c19ErrValue(w.ci)
		var starts []c19Start
		how := ""
		if e != nil {
			var tested, returned bool
			starts, tested, returned = c19ErrorEdges(e)
			if !tested {
				if returned {
					c.Ok(key, site, "error of %s is returned to the caller", w.name)
					continue
				}
				e = nil
			} else {
				how = fmt.Sprintf("%d error edge(s)", len(starts))
			}
		}
		if e == nil {
			// dropped error: everything after the call is the error continuation
			starts = []c19Start{{call.Block(), instrIndex(call) + 1}}
			how = "error dropped: continuation"
		}
		arg := c19PairArg(m, w)
		var argCalls map[ssa.Instruction]bool
		readers := map[*types.Func]bool{} // the functions whose results the pair is built from
		if arg != nil {
			argCalls = m.originCalls(arg)
			for k := range argCalls {
				if f := calleeOf(k.(*ssa.Call).Common()); f != nil {
					readers[f] = true
				}
			}
		}
		stop := func(in ssa.Instruction) bool {
			if argCalls[in] {
				return true
			}
			if cl, ok := in.(*ssa.Call); ok {
				if f := calleeOf(cl.Common()); f != nil && readers[f] {
					return true // the same reader is executed again
				}
			}
			if ow, ok := isWrite[in]; ok {
				if in == w.ci {
					return true // retry of this write
				}
				oa := c19PairArg(m, ow)
				if oa != nil && arg != nil {
					if oa == arg {
						return true
					}
					for k := range m.originCalls(oa) {
						if argCalls[k] {
							return true
						}
					}
				}
			}
			return false
		}
		var cut func(b *ssa.BasicBlock, k int) bool
		tol := ""
		if e != nil {
			switch w.prim {
			case "Create":
				cut, tol = c19TypeAssertCut(e, "ErrorResourceAlreadyExists"), " (AlreadyExists tolerated)"
			case "Delete", "DeleteKVP":
				cut, tol = c19TypeAssertCut(e, "ErrorResourceDoesNotExist"), " (DoesNotExist tolerated)"
			}
		}
		rets, _ := c19Forward(starts, stop, cut, nil)
		var swallowed []string
		for _, r := range rets {
			for _, res := range r.Results {
				if c19IsError(res.Type()) && isNilConst(res) {
					swallowed = append(swallowed, p.Pos(r.Pos()))
				}
			}
		}
		if len(swallowed) > 0 && e != nil && c19Accumulated(e) {
			c.Ok(key, site, "%s; error is appended to an error list that the function reports", how)
			continue
		}
		if len(swallowed) > 0 {
			if why, ok := c19ToleratedErrEdges[fnName(fn)+"/"+w.name]; ok {
				c.Ok(key, site, "%s; tolerated: %s", how, why)
				continue
			}
			c.Violate(key, site, "in %s a failed %s (%s) can reach `return …, nil` at %s without re-reading the pair or retrying the write: the caller is told the datastore was updated", fnName(fn), w.name, how, strings.Join(swallowed, ", "))
			continue
		}
		c.Ok(key, site, "%s%s; no nil-error return reachable without re-read/retry (%d return(s) carry an error)", how, tol, len(rets))
	}
}

// --------------------------------------------------------------- C19.handle --

func c19Handle(c *Ctx, m *c19Model) {
	p := m.p
	inc := p.Func(c19Pkg, "ipamClient.incrementHandle")
	dec := p.Func(c19Pkg, "ipamClient.decrementHandle")
	upd := p.Func(c19Pkg, "blockReaderWriter.updateBlock")
	if inc == nil || dec == nil || upd == nil {
		c.Lost("ipamClient.incrementHandle / decrementHandle / blockReaderWriter.updateBlock")
	}
	callsTo := func(f *ssa.Function, tgt *ssa.Function) []*ssa.Call {
		var out []*ssa.Call
		allInstrs(f, false, func(_ *ssa.Function, in ssa.Instruction) {
			if cl, ok := in.(*ssa.Call); ok && calleeFn(cl.Common()) == tgt {
				out = append(out, cl)
			}
		})
		return out
	}
	// parameters that incrementHandle and decrementHandle share (same name, same type):
	// what a compensating decrement must pass unchanged.  The context is excluded
	// (the rollback legitimately runs under a clean-up context).
	type mirrorParam struct {
		name     string
		inc, dec int
	}
	var mirror []mirrorParam
	var mirrorNames []string
	hasInt := false
	for i, ip := range inc.Params {
		if i == 0 || qualTypeName(ip.Type()) == "context.Context" {
			continue
		}
		for j, dp := range dec.Params {
			if j > 0 && dp.Name() == ip.Name() && types.Identical(dp.Type(), ip.Type()) {
				mirror = append(mirror, mirrorParam{ip.Name(), i, j})
				mirrorNames = append(mirrorNames, ip.Name())
				if b, ok := ip.Type().Underlying().(*types.Basic); ok && b.Info()&types.IsInteger != 0 {
					hasInt = true
				}
			}
		}
	}
	if len(mirror) < 3 || !hasInt {
		c.Lost("incrementHandle/decrementHandle no longer share (handle, block, count) parameters by name and type: found %v", mirrorNames)
	}
	n := 0
	for _, f := range m.funcs {
		incs := callsTo(f, inc)
		if len(incs) == 0 {
			continue
		}
		n++
		site := p.Pos(f.Pos())
		upds := callsTo(f, upd)
		if len(upds) == 0 {
			c.Violate("C19.handle/"+fnName(f)+"/increment-before-write", site, "%s increments a handle but never writes a block", fnName(f))
			continue
		}
		isInc := func(in ssa.Instruction) bool {
			for _, x := range incs {
				if in == x {
					return true
				}
			}
			return false
		}
		isDec := func(in ssa.Instruction) bool {
			cl, ok := in.(*ssa.Call)
			return ok && calleeFn(cl.Common()) == dec
		}
		corr := c19Correlate(incs[0])
		// (1) the block write is unreachable from entry without incrementHandle (when a handle is given)
		for _, u := range upds {
			_, hits := c19Forward([]c19Start{{f.Blocks[0], 0}}, func(in ssa.Instruction) bool { return isInc(in) || in == u }, corr, func(in ssa.Instruction) bool { return in == u })
			c.Check(len(hits) == 0, "C19.handle/"+fnName(f)+"/increment-before-write", p.Pos(u.Pos()),
				"updateBlock is only reachable through incrementHandle when a handle is given (crash between the two leaves the handle over-counting, never an address without a handle record)",
				"in "+fnName(f)+" updateBlock can be reached with a handle but without incrementHandle: an address is recorded in the block with no handle record")
			// (2) rollback on the error edge
			e := c19ErrValue(u)
			if e == nil {
				c.Violate("C19.handle/"+fnName(f)+"/rollback", p.Pos(u.Pos()), "error of updateBlock is dropped after incrementHandle")
				continue
			}
			starts, tested, _ := c19ErrorEdges(e)
			if !tested {
				c.Violate("C19.handle/"+fnName(f)+"/rollback", p.Pos(u.Pos()), "error of updateBlock is not tested after incrementHandle: the handle increment is never rolled back")
				continue
			}
			rets, hits2 := c19Forward(starts, func(in ssa.Instruction) bool { return isDec(in) || isInc(in) }, corr, isInc)
			var bad []string
			for _, r := range rets {
				bad = append(bad, "return at "+p.Pos(r.Pos()))
			}
			for _, h := range hits2 {
				bad = append(bad, "incrementHandle again at "+p.Pos(h.Pos()))
			}
			sort.Strings(bad)
			if len(bad) > 3 {
				bad = append(bad[:3], fmt.Sprintf("… (%d more)", len(bad)-3))
			}
			if len(bad) > 0 {
				c.Violate("C19.handle/"+fnName(f)+"/rollback", p.Pos(u.Pos()), "in %s, after incrementHandle a failed updateBlock reaches %s without decrementHandle: the handle counts an address the block does not hold", fnName(f), strings.Join(bad, "; "))
			} else {
				c.Ok("C19.handle/"+fnName(f)+"/rollback", p.Pos(u.Pos()), "every path from the failed updateBlock to a return or a re-increment passes decrementHandle")
			}
			// (3) the rollback mirrors the increment: every decrementHandle that is the first one
			// reached on the error edge undoes exactly what the incrementHandle(s) that reach
			// this block write did — same handle, same block, same count.
			_, rollbacks := c19Forward(starts, func(in ssa.Instruction) bool { return isDec(in) || isInc(in) }, corr, isDec)
			var mism []string
			npairs := 0
			for _, d := range rollbacks {
				dc := d.(*ssa.Call)
				for _, ic := range incs {
					if !instrReaches(ic, u) {
						continue
					}
					npairs++
					for _, mp := range mirror {
						ia, da := ic.Common().Args[mp.inc], dc.Common().Args[mp.dec]
						if !c19SameValue(ia, da) {
							mism = append(mism, fmt.Sprintf("%s: incrementHandle(%s) at %s but decrementHandle(%s) at %s", mp.name, path(ia), p.Pos(ic.Pos()), path(da), p.Pos(dc.Pos())))
						}
					}
				}
			}
			sort.Strings(mism)
			switch {
			case len(mism) > 0:
				c.Violate("C19.handle/"+fnName(f)+"/rollback-mirror", p.Pos(u.Pos()), "in %s the decrementHandle that compensates a failed updateBlock does not undo what incrementHandle did (%s): after a failed block write the handle's count for the block differs from what it was before the attempt", fnName(f), strings.Join(mism, "; "))
			case npairs == 0:
				// nothing to compare: already reported by (2) as a missing rollback
				c.Ok("C19.handle/"+fnName(f)+"/rollback-mirror", p.Pos(u.Pos()), "no decrementHandle on the error edge to compare (see rollback)")
			default:
				c.Ok("C19.handle/"+fnName(f)+"/rollback-mirror", p.Pos(u.Pos()), "%d increment/rollback pair(s) pass identical %s", npairs, strings.Join(mirrorNames, ", "))
			}
		}
	}
	if n == 0 {
		c.Lost("no caller of incrementHandle")
	}
}

// ------------------------------------------------------------ C19.handledel --

// c19HandleDel: the handle record must agree with the block records, so it may
// only disappear when the handle has no block left.  For every call that hands
// a pair holding an IPAM handle to a DeleteKVP (directly or through forwarding
// helpers), every path to the call crosses the "empty" edge of a test of
// len(handle.Block) for the handle stored in that pair — in the function
// itself, or in the helper the pair is handed to.
func c19HandleDel(c *Ctx, m *c19Model, sites []*c19Site) {
	p := m.p
	h := c19NewHandleModel(c, m)
	byFn := map[*ssa.Function][]*c19Site{}
	for _, s := range sites {
		if s.mode == "pair" && s.prims["DeleteKVP"] {
			byFn[s.fn] = append(byFn[s.fn], s)
		}
	}
	if len(byFn) == 0 {
		c.Lost("no call reaching Client.DeleteKVP in %s", c19Pkg)
	}
	// inner: the delete sites inside the helper called at s that the pair argument is forwarded to
	inner := func(s *c19Site) []*c19Site {
		g := calleeFn(s.instr.Common())
		if g == nil || !m.inPkg(g) || s.argIdx >= len(g.Params) {
			return nil
		}
		par := g.Params[s.argIdx]
		var out []*c19Site
		for _, s2 := range byFn[g] {
			for _, o := range origins(s2.arg, m.through) {
				if o.V == par {
					out = append(out, s2)
					break
				}
			}
		}
		return out
	}
	// guarded: every path to the call establishes emptiness of the handle in the pair
	// argument — in the function itself, or in the helper the pair is handed to.
	var guarded func(s *c19Site, up []ssa.CallInstruction) bool
	guarded = func(s *c19Site, up []ssa.CallInstruction) bool {
		pred := func(cond ssa.Value, pol bool) bool {
			for _, b := range h.emptyBases(cond, pol, 0) {
				if h.relates(b, s.arg, up) {
					return true
				}
			}
			return false
		}
		if guardedCut(s.instr, pred) {
			return true
		}
		if len(up) >= 3 {
			return false
		}
		in := inner(s)
		for _, s2 := range in {
			if !guarded(s2, append(append([]ssa.CallInstruction{}, up...), s.instr)) {
				return false
			}
		}
		return len(in) > 0
	}
	kinds := map[*c19Site]c19RecordKind{}
	var fns []*ssa.Function
	for f, ss := range byFn {
		fns = append(fns, f)
		for _, s := range ss {
			kinds[s] = h.recordKind(s.arg, s.fn, 0)
		}
	}
	sort.Slice(fns, func(i, j int) bool { return fns[i].Pos() < fns[j].Pos() })
	nHandle, nOther := 0, 0
	otherKeys := map[string]bool{}
	for _, f := range fns {
		for _, s := range byFn[f] {
			k := kinds[s]
			key := "C19.handledel/" + fnName(s.fn) + "/" + s.callee
			site := p.Pos(s.instr.Pos())
			switch {
			case k.Handle:
				nHandle++
				if guarded(s, nil) {
					c.Ok(key, site, "every path on which the handle pair reaches DeleteKVP through %s crosses the edge where the handle it holds has no blocks left", s.callee)
					continue
				}
				// the handle under test may be handed in next to the pair: decide per caller
				if cs := m.callSites[s.fn]; len(cs) > 0 && !m.valueUse[s.fn] && !c19Exported(s.fn) {
					all := true
					for _, ci := range cs {
						if !guarded(s, []ssa.CallInstruction{ci}) {
							all = false
						}
					}
					if all {
						c.Ok(key, site, "the handle tested for emptiness before %s is the one held by the pair at each of the %d call site(s) of %s", s.callee, len(cs), fnName(s.fn))
						continue
					}
				}
				// reported once, at the innermost site that knows it deletes a handle
				if in := inner(s); len(in) > 0 {
					deferred := true
					for _, s2 := range in {
						if !kinds[s2].Handle {
							deferred = false
						}
					}
					if deferred {
						c.Ok(key, site, "the pair is handed to %s, whose own delete of the handle is decided there (C19.handledel/%s/…)", s.callee, fnName(in[0].fn))
						continue
					}
				}
				c.Violate(key, site, "in %s a pair holding an IPAM handle can reach %s (→ DeleteKVP) without a test that this handle has no blocks left (len(handle.Block) == 0 / allocationHandle.empty() on the handle stored in that pair): the handle record is deleted while blocks still record addresses allocated to it, so IPsByHandle/ReleaseByHandle no longer find them and the per-handle accounting restarts from zero", fnName(s.fn), s.callee)
			case k.Unknown && len(k.Keys) == 0 && len(k.Params) == 0:
				c.Undecided(key, site, "cannot tell what kind of record the pair handed to %s in %s holds (neither read with a typed key here, nor a literal, nor a parameter)", s.callee, fnName(s.fn))
			default:
				// parameters: decided at the call sites (which are in the list); other key types: not a handle
				nOther++
				for _, kt := range k.Keys {
					otherKeys[kt] = true
				}
			}
		}
	}
	if nHandle == 0 {
		c.Lost("no delete of an IPAM handle record found in %s (decrementHandle used to delete the handle once empty)", c19Pkg)
	}
	c.Ok("C19.handledel/other-records", p.Pos(fns[0].Pos()), "%d other delete site(s) forward a parameter or delete records read under %s (block deletes: C21.blockdel / C22.empty)", nOther, c19SortedSet(otherKeys))
}

// --------------------------------------------------------------- C19.attreq --

// c19AttrEq: Allocations[ordinal] holds an index into Attributes; several
// ordinals may share one entry.  Sharing is only sound between allocations
// whose attribute is equal in every field (owner handle, active and alternate
// owner attributes, and the released-at stamp that marks a cooling-down entry).
func c19AttrEq(c *Ctx, m *c19Model) {
	p := m.p
	lookup := func(name string) *types.Named {
		o := p.LookupExt(c19ModelPkg, name)
		if o == nil {
			c.Lost("model.%s", name)
		}
		n, _ := types.Unalias(o.Type()).(*types.Named)
		if n == nil {
			c.Lost("model.%s is not a named type", name)
		}
		return n
	}
	attrT := lookup("AllocationAttribute")
	blockT := lookup("AllocationBlock")
	var allocsField, attrsField *types.Var
	if st, _ := blockT.Underlying().(*types.Struct); st != nil {
		for i := 0; i < st.NumFields(); i++ {
			switch st.Field(i).Name() {
			case "Allocations":
				allocsField = st.Field(i)
			case "Attributes":
				attrsField = st.Field(i)
			}
		}
	}
	if allocsField == nil || attrsField == nil {
		c.Lost("model.AllocationBlock.Allocations / Attributes")
	}
	if sl, ok := attrsField.Type().Underlying().(*types.Slice); !ok || !types.Identical(types.Unalias(sl.Elem()), attrT) {
		c.Lost("model.AllocationBlock.Attributes is no longer []AllocationAttribute")
	}
	fields := structFieldNames(attrT, false)
	if len(fields) < 4 {
		c.Lost("model.AllocationAttribute: expected ≥4 fields (handle, active/alternate owner attributes, released-at), found %v", fields)
	}
	prods, nStores := c19AttrIndexProducers(m, allocsField)
	if nStores == 0 || len(prods) == 0 {
		c.Lost("no store of a computed attribute index into AllocationBlock.Allocations found in %s (%d stores)", c19Pkg, nStores)
	}
	var fs []*ssa.Function
	for f := range prods {
		fs = append(fs, f)
	}
	sort.Slice(fs, func(i, j int) bool { return fs[i].Pos() < fs[j].Pos() })
	nDedup := 0
	for _, f := range fs {
		reach := reachableFuncs([]*ssa.Function{f}, nil)
		for g := range reach {
			if !m.inPkg(g) {
				delete(reach, g)
			}
		}
		site := p.Pos(f.Pos())
		name := fnName(f)
		read := fieldsRead(reach, attrT)
		whole := c19WholeStructEquality(reach, attrT)
		switch {
		case whole != nil:
			nDedup++
			c.Ok("C19.attreq/"+name, site, "existing entries are matched with a whole-struct equality (%s): every field of AllocationAttribute is distinguished (%d store(s) of its result into Allocations)", p.Pos(whole.Pos()), len(prods[f]))
		case len(read) == 0:
			c.Ok("C19.attreq/"+name, site, "never inspects an existing AllocationAttribute: always yields a fresh entry (%d store(s) of its result into Allocations)", len(prods[f]))
		default:
			nDedup++
			for _, fl := range fields {
				c.Check(len(read[fl]) > 0, "C19.attreq/"+name+"/"+fl, site,
					"AllocationAttribute."+fl+" is read when matching an existing entry",
					name+" yields the attribute index recorded in Allocations and matches existing Attributes entries field by field, but never reads AllocationAttribute."+fl+" (nor does anything it calls) and uses no whole-struct equality: an existing entry that differs from the new allocation's attribute only in "+fl+" is shared with it, so the block records the address with that entry's "+fl+" (another handle / another owner / the released-at stamp of an address that is cooling down) instead of the caller's")
			}
		}
	}
	if nDedup == 0 {
		c.Lost("no attribute-index producer matches existing Attributes entries any more (findOrAddAttribute used to de-duplicate them)")
	}
}
