package main

import (
	"fmt"
	"go/constant"
	"go/types"
	"sort"
	"strings"

	"golang.org/x/tools/go/ssa"
)

func init() {
	register(&Property{
		ID:        "C11",
		Title:     "BPF policy programs reach the same verdict as the policy semantics",
		Technique: "static analysis: SSA value-flow from proto.Rule / polprog.Rules fields to emitter and stage calls, constant operands of those calls, mode-flag guards and dominance/reachability order of emissions, reaching definitions of BPF registers with a bit-width abstraction and interval domains of immediates (go/ssa over felix/bpf/polprog, asm, state, felix/rules)",
		DesignRef: "DESIGN.md §3 C11 (+ additions at the end of DESIGN.md)",
		Explanation: "Decides structural necessary conditions of verdict equality on the Go program that emits the BPF policy program: " +
			"(wiring) every proto.Rule match field reaches its matcher with the right polarity (negate constant true iff Not*), the right leg (legSource for Src*, the caller's dest leg for Dst*), from the IP-version-filtered copy, one kind of field per matcher parameter; " +
			"(cover) every match field of the generated proto.Rule struct, minus a reasoned exclusion list, flows into an emitting matcher call, IpVersion is consumed; " +
			"(verdict/labels) pol_rc is written only by the footer and the splitter, the allow/deny exit sections store the like-named state.Policy* constant and tail-call through their own index and the static jump map, writeProfiles ends with a match-all deny rule; " +
			"(actionlabels) every action the iptables reference renderer accepts has the right jump target in the tier and profile label tables, the end-of-tier action is never empty and defaults to deny, the log sentinel never jumps; " +
			"(fallthrough) the footer is only ever preceded by an unconditional jump or by writeProfiles; " +
			"(split) the trampoline protocol of maybeSplitProgram is paired (index i+1 <-> targets[i], 0 = fall through), pol_rc is stashed last / loaded first, a new block is started, callers reload registers that are live across a split; " +
			"(stages) the stage table of Builder.Instructions, recovered from which polprog.Rules field flows into which writeTiers/writeProfiles call: every Rules field is consumed, each policy field by one stage per path, with the destination leg its semantics require (pre-NAT only for pre-DNAT policy and under ForXDP), conditional only on the mode flags that may switch it, in the order host-before-workload / pre-DNAT first / tiers before profiles, allowing to the right continuation label, with to/from-host traffic skipping exactly the apply-on-forward stage; " +
			"(legflow) the stage's leg is handed down unchanged to writeRule (or fixed consistently where there is no leg parameter) and each matchLeg constant selects its own cali_tc_state address/port field; " +
			"(cmpwidth/cmpdomain) at every immediate compare the builder emits, the jump class (decoded from the opcode the asm.Block method assembles), the width of the value in the compared register (reaching definitions over the emissions of the function; loads and 32-bit ALU ops zero-extend) and the domain of the immediate (interval over the Go value: constants, unsigned Go types, shifts/ors/masks, value-preserving vs reinterpreting conversions) agree: no 32-bit compare of a wider value, no sign-extending 64-bit compare of a zero-extended value with an immediate whose bit 31 carries magnitude, and a memory-loaded value is exactly as wide as the uintN-declared domain it is compared with.",
		NotDecided: "Execution of the emitted program (no interpreter): the internals of each matcher (jump condition chosen under negate, CIDR/port arithmetic, IP-set key layout; width agreement of a compare whose immediate is an opaque signed Go value such as proto.PortRange.First or a loop index - only its jump class is checked against the register), register allocation inside a matcher, trampolines of asm.Block, jump-offset range; that state.Policy* equal the CALI_POL_* enumerators in bpf-gpl; that callers of Instructions put the right tiers into polprog.Rules; the L7 fields (HttpMatch, *ServiceAccountMatch) which no packet dataplane renders.",
		Assumptions: []string{
			"go/types + go/ssa (x/tools v0.50.0) model of the current source, CGO_ENABLED=0 build",
			"asm.Block API register roles follow its parameter names (dst/src/ra/rb/ptrReg); Store*(base, value, off); helper calls clobber R0-R5",
			"skb->cb[0]/cb[1] carry the allow/deny program indices (bpf-gpl jump convention)",
			"logrus Panic*/Fatal* do not return",
			"eBPF semantics: LDX and ALU32 results are zero-extended to 64 bits, BPF_JMP compares 64 bits against the sign-extended imm32, BPF_JMP32 compares the low 32 bits; every asm.Block emitter hands its opcode as a constant to Block.add/addWithOffsetFixup; registers live across maybeSplitProgram are covered by C11.split/caller",
			"the action universe is the set of case constants of switch pRule.Action in felix/rules, minus \"\" (v3 validation requires an action)",
			"stage semantics (c11StageTable, one reasoned row per slice-typed field of polprog.Rules): pre-DNAT policy matches the original destination, apply-on-forward/normal/workload policy the post-DNAT one, XDP (untracked) programs only have the pre-NAT tuple; the Field strings of polprog's asm.FieldOffset variables name the C fields they address",
		},
		Run:      runC11,
		Fixtures: c11Fixtures,
	})
}

func runC11(c *Ctx) {
	p := c.Load(c11PolPkg, c11AsmPkg, c11StatePkg, c11RulesPkg)
	m := c11BuildModel(c, p)

	c.Rule("C11.wiring", "E-FLOW", "at every emitting call in the closure of Builder.writeRule that receives a proto.Rule match field: negate is the constant true iff the field is Not*; leg is legSource for Src*, the caller-supplied dest leg for Dst*; the field is read from the IP-version-filtered rule; each matcher parameter receives one kind of field", 32)
	c.Rule("C11.cover", "E-FIELDS", "every match field of proto.Rule (computed from the generated struct minus a reasoned exclusion list) flows into an emitting matcher call in the closure of Builder.writeRule", 22)

	c.Rule("C11.verdict", "E-OWN/E-CONST", "state->pol_rc is touched only by writeProgramFooter and maybeSplitProgram; each exit section stores the like-named state.Policy* constant before its tail call and PolicyTailCallFailed after it; writeProfiles ends on every path with a match-all rule to the deny section", 4)
	c.Rule("C11.labels", "E-CONST", "between an exit section's label and its tail call the jump index comes only from that section's own <label>Jmp / skb->cb slot and the map is staticJumpMapFD", 2)
	c.Rule("C11.actionlabels", "E-CONST/E-GUARD", "every action the reference renderer accepts has an entry in the tier and the profile label tables with the right target (allow->caller's label, deny->deny section, pass/next-tier->end of tier | deny in profiles, log->no-jump sentinel); labels are looked up by lower-cased rule.Action; end-of-tier rule is match-all, its action never empty, defaulting to deny; the log sentinel never reaches Jump", 18)
	c.Rule("C11.fallthrough", "E-ORDER", "the emission that precedes every writeProgramFooter call is an unconditional jump or writeProfiles (which ends with the match-all deny rule)", 3)
	c.Rule("C11.split", "E-PAIR/E-ORDER", "maybeSplitProgram: main flow stashes 0 and jumps over the footer; landing pad i stashes i+1 for targets[i]; pol_rc is stored last before the tail call through policyJumpMapFD; a new block is started; after the header the index is loaded before pol_rc is reset to PolicyNoMatch and dispatched over the same targets; callers reload registers live across a split", 11)

	c.Rule("C11.stages", "E-TABLE/E-FLOW/E-GUARD/E-ORDER", "the stage table of Builder.Instructions, recovered from which polprog.Rules field flows into which stage call: every Rules field is consumed, every policy field by exactly one stage per path; each stage's destination leg is legDestPreNAT iff the stage is pre-DNAT policy or is rendered under ForXDP, legDest otherwise (a TC+XDP field must select by ForXDP); stages depend only on the mode flags that may switch them (workload stages on !ForHostInterface, only to/from-host stages on !SuppressNormalHostPolicy); host before workload, pre-DNAT first, tiers before profiles; host stages allow to a label placed between host and workload stages, workload stages to the allow exit; to/from-host traffic skips exactly the forwarded-traffic stage and forwarded traffic jumps over the to/from-host stages", 60)
	c.Rule("C11.legflow", "E-FLOW/E-CONST", "(pass) every function between a stage call and writeRule hands its own destination-leg parameter down; a function without one may only fix the leg all stages reaching it expect; (map) each matchLeg constant selects its own cali_tc_state address/port field (source, pre_nat, post_nat)", 12)

	c.Rule("C11.cmpwidth", "E-RANGE/E-FLOW", "every immediate compare emitted by polprog (jump class and operands decoded from the opcode the asm.Block method assembles): the compare is as wide as the value in the compared register (join over the emissions that may have defined it; loads and 32-bit ALU ops zero-extend); a 64-bit compare - which sign-extends its imm32 - of a zero-extended <=32-bit value never takes an immediate whose bit 31 carries magnitude (the int32 reinterpretation of an unsigned >=32-bit Go value, or a negative constant)", 19)
	c.Rule("C11.cmpdomain", "E-RANGE/E-FLOW", "where the immediate of a compare ranges over a domain declared by unsigned Go types (uintN, or uintN values shifted / or-ed together) and the compared register holds a value loaded from memory, the loaded (and possibly masked) value is exactly as many bits wide as that domain: no adjacent field is dragged into the comparison and no part of the criterion is compared with nothing", 8)

	sites := c11Wiring(c, m)
	c11Cover(c, m, sites)
	ft := c11Verdict(c, m)
	c11ActionLabels(c, m, ft)
	c11Fallthrough(c, m, ft)
	c11Split(c, m)
	c11LegFlow(c, m, c11Stages(c, m, ft))
	c11CmpWidth(c, m)
}

// ------------------------------------------------------------------ wiring --

type c11Site struct {
	cs     CallSite
	fields map[string]bool
}

// c11PolFuncs lists the SSA functions (incl. closures) of package polprog.
func (m *c11Model) polFuncs() []*ssa.Function {
	var out []*ssa.Function
	for _, f := range m.p.AllFuncs() {
		top := topFn(f)
		if top.Pkg != nil && strings.TrimPrefix(top.Pkg.Pkg.Path(), calicoPrefix) == c11PolPkg {
			out = append(out, f)
		}
	}
	return out
}

func (m *c11Model) inPol(f *types.Func) bool {
	return f != nil && f.Pkg() != nil && strings.TrimPrefix(f.Pkg().Path(), calicoPrefix) == c11PolPkg
}

// isFiltered: v is (on every path / from every caller) the result of
// rules.FilterRuleToIPVersion.
func (m *c11Model) isFiltered(v ssa.Value, depth int) bool {
	if depth > 4 {
		return false
	}
	switch x := v.(type) {
	case *ssa.Call:
		return isFunc(calleeOf(x.Common()), c11RulesPkg, "FilterRuleToIPVersion")
	case *ssa.Phi:
		for _, e := range x.Edges {
			if !m.isFiltered(e, depth+1) {
				return false
			}
		}
		return len(x.Edges) > 0
	case *ssa.Parameter:
		fn := x.Parent()
		idx := -1
		for i, q := range fn.Params {
			if q == x {
				idx = i
			}
		}
		n := 0
		for _, g := range m.polFuncs() {
			for _, cs := range callsIn(g, false, func(*types.Func) bool { return true }) {
				if calleeFn(cs.Common()) != fn {
					continue
				}
				n++
				if idx >= len(cs.Args()) || !m.isFiltered(cs.Args()[idx], depth+1) {
					return false
				}
			}
		}
		return n > 0
	}
	return false
}

func c11Kind(field string) string {
	_, rest := c11Polarity(field)
	rest = strings.TrimPrefix(strings.TrimPrefix(rest, "Src"), "Dst")
	return rest
}

func c11Wiring(c *Ctx, m *c11Model) []c11Site {
	p := m.p
	writeRule := m.fn(c11PolPkg, "Builder.writeRule")
	legSource := c11PkgConst(c, p, c11PolPkg, "legSource")
	reach := p.closure(writeRule)

	var sites []c11Site
	// kinds received by each (callee, parameter) position
	type ppos struct {
		fn  string
		idx int
	}
	kinds := map[ppos]map[string]bool{}
	kindSite := map[ppos]string{}

	var fns []*ssa.Function
	for f := range reach {
		if f.Blocks != nil && m.inPolFn(f) {
			fns = append(fns, f)
		}
	}
	sort.Slice(fns, func(i, j int) bool { return fns[i].Pos() < fns[j].Pos() })
	for _, f := range fns {
		for _, cs := range callsIn(f, false, m.inPol) {
			sf := calleeFn(cs.Common())
			if sf == nil || !m.emits[sf] {
				continue
			}
			sig := cs.Callee.Type().(*types.Signature)
			off := 0
			if sig.Recv() != nil {
				off = 1
			}
			site := c11Site{cs: cs, fields: map[string]bool{}}
			bases := map[string][]ssa.Value{}
			for i, a := range cs.Args() {
				if i < off {
					continue
				}
				for _, fs := range m.ruleFieldsOf(a) {
					site.fields[fs.Field] = true
					bases[fs.Field] = append(bases[fs.Field], fs.Base)
					pp := ppos{cs.Callee.Name(), i - off}
					if kinds[pp] == nil {
						kinds[pp] = map[string]bool{}
					}
					kinds[pp][c11Kind(fs.Field)] = true
					kindSite[pp] = p.Pos(cs.Instr.Pos())
				}
			}
			if len(site.fields) == 0 {
				continue
			}
			sites = append(sites, site)
			where := p.Pos(cs.Instr.Pos())
			negArgs := c11ArgByType(cs, c11IsBool)
			legArgs := c11ArgByType(cs, c11IsNamed(m.legT))
			for _, field := range sortedKeys(site.fields) {
				key := fmt.Sprintf("C11.wiring/%s/%s", cs.Callee.Name(), field)
				neg, _ := c11Polarity(field)
				dir := c11Direction(field)
				var bad []string
				undecided := ""
				// polarity
				switch len(negArgs) {
				case 0:
					if neg {
						bad = append(bad, fmt.Sprintf("negated field %s is passed to %s, which has no negate parameter (positive-only matcher)", field, cs.Callee.Name()))
					}
				case 1:
					cv, ok := constOf(negArgs[0])
					if !ok {
						bad = append(bad, fmt.Sprintf("negate argument of %s is not a constant (%s)", cs.Callee.Name(), path(negArgs[0])))
					} else if (cv.String() == "true") != neg {
						bad = append(bad, fmt.Sprintf("%s(negate=%s, …%s…): negate must be %v for field %s", cs.Callee.Name(), cv.String(), field, neg, field))
					}
				default:
					undecided = "callee has several bool parameters"
				}
				// leg
				switch {
				case dir == "" && len(legArgs) > 0:
					undecided = fmt.Sprintf("field %s has no direction but %s takes a leg", field, cs.Callee.Name())
				case dir != "" && len(legArgs) != 1:
					undecided = fmt.Sprintf("field %s has a direction but %s takes %d leg parameters", field, cs.Callee.Name(), len(legArgs))
				case dir == "src":
					cv, ok := constOf(legArgs[0])
					if !ok || cv.ExactString() != legSource.ExactString() {
						bad = append(bad, fmt.Sprintf("%s receives source field %s but its leg argument is %s, not legSource", cs.Callee.Name(), field, path(legArgs[0])))
					}
				case dir == "dst":
					os := origins(legArgs[0], nil)
					okLeg := len(os) > 0
					for _, o := range os {
						prm, isParam := o.V.(*ssa.Parameter)
						if !isParam || !types.Identical(types.Unalias(prm.Type()), m.legT) {
							okLeg = false
						}
					}
					if !okLeg {
						bad = append(bad, fmt.Sprintf("%s receives destination field %s but its leg argument is %s, not the caller-supplied destination leg parameter", cs.Callee.Name(), field, path(legArgs[0])))
					}
				}
				// filtered base
				for _, b := range bases[field] {
					if !m.isFiltered(b, 0) {
						bad = append(bad, fmt.Sprintf("field %s is read from %s, not from the result of rules.FilterRuleToIPVersion", field, path(b)))
						break
					}
				}
				switch {
				case len(bad) > 0:
					c.Violate(key, where, "%s", strings.Join(bad, "; "))
				case undecided != "":
					c.Undecided(key, where, "%s", undecided)
				default:
					c.Ok(key, where, "negate=%v, leg=%s, read from the filtered rule", neg, map[string]string{"": "n/a", "src": "legSource", "dst": "dest-leg parameter"}[dir])
				}
			}
		}
	}
	if len(sites) == 0 {
		c.Lost("no call in the closure of Builder.writeRule passes a proto.Rule field to an emitting function")
	}
	// one kind of field per matcher parameter
	var pps []ppos
	for pp := range kinds {
		pps = append(pps, pp)
	}
	sort.Slice(pps, func(i, j int) bool {
		if pps[i].fn != pps[j].fn {
			return pps[i].fn < pps[j].fn
		}
		return pps[i].idx < pps[j].idx
	})
	for _, pp := range pps {
		ks := map[string]bool{}
		for k := range kinds[pp] {
			if k == "IpPortSetIds" {
				// IP+port sets use the same lookup as plain IP sets: the key written by
				// setUpIPSetKey always carries address, port and protocol.
				k = "IpSetIds"
			}
			ks[k] = true
		}
		key := fmt.Sprintf("C11.wiring/kind/%s#%d", pp.fn, pp.idx)
		c.Check(len(ks) == 1, key, kindSite[pp],
			fmt.Sprintf("parameter %d of %s only receives %v fields", pp.idx, pp.fn, sortedKeys(ks)),
			fmt.Sprintf("parameter %d of %s receives different kinds of proto.Rule fields: %v", pp.idx, pp.fn, sortedKeys(ks)))
	}
	return sites
}

func (m *c11Model) inPolFn(f *ssa.Function) bool {
	top := topFn(f)
	return top.Pkg != nil && strings.TrimPrefix(top.Pkg.Pkg.Path(), calicoPrefix) == c11PolPkg
}

// ------------------------------------------------------------------- cover --

// c11Excluded: fields of proto.Rule that are not packet-match criteria of the
// BPF policy program, each with the reason.  Entries ending in * are prefixes.
var c11Excluded = map[string]string{
	"Action":                 "not a match: the action selects the jump label in the callers of writeRule (decided by C11.actionlabels)",
	"Original*":              "pass-through of the v3 selectors/services for the policy-sync API; the calc graph has already compiled them into IP set ids",
	"Metadata":               "annotations only",
	"RuleId":                 "opaque id used in comments/flow logs, not a match",
	"HttpMatch":              "L7 criterion, enforced by the policy-sync (ALP) consumer; no packet dataplane renders it",
	"SrcServiceAccountMatch": "L7/identity criterion passed through for the policy-sync API; no packet dataplane renders it",
	"DstServiceAccountMatch": "L7/identity criterion passed through for the policy-sync API; no packet dataplane renders it",
}

// c11Meta: fields that are not matched by an emitted instruction but must be
// consumed when compiling the rule.
var c11Meta = map[string]string{
	"IpVersion": "decides whether the rule is rendered for this program's IP version at all (rules.FilterRuleToIPVersion)",
}

func c11Cover(c *Ctx, m *c11Model, sites []c11Site) {
	p := m.p
	writeRule := m.fn(c11PolPkg, "Builder.writeRule")
	st, _ := m.ruleT.Underlying().(*types.Struct)
	if st == nil {
		c.Lost("proto.Rule is not a struct")
	}
	excluded := func(name string) (string, bool) {
		for k, why := range c11Excluded {
			if k == name || (strings.HasSuffix(k, "*") && strings.HasPrefix(name, strings.TrimSuffix(k, "*"))) {
				return why, true
			}
		}
		return "", false
	}
	usedExcl := map[string]bool{}
	flows := map[string][]string{}
	for _, s := range sites {
		for f := range s.fields {
			flows[f] = append(flows[f], s.cs.Callee.Name())
		}
	}
	reads := fieldsRead(p.closure(writeRule), m.ruleT)
	where := p.Pos(writeRule.Pos())
	n := 0
	for i := 0; i < st.NumFields(); i++ {
		f := st.Field(i)
		if !f.Exported() {
			continue // protobuf internals (state, unknownFields, sizeCache)
		}
		if _, ok := excluded(f.Name()); ok {
			for k := range c11Excluded {
				if k == f.Name() || (strings.HasSuffix(k, "*") && strings.HasPrefix(f.Name(), strings.TrimSuffix(k, "*"))) {
					usedExcl[k] = true
				}
			}
			if len(flows[f.Name()]) > 0 {
				c.Violate("C11.cover/"+f.Name(), where, "field %s is on the exclusion list but flows into %v: the exclusion table is stale", f.Name(), flows[f.Name()])
			}
			continue
		}
		n++
		key := "C11.cover/" + f.Name()
		if why, ok := c11Meta[f.Name()]; ok {
			c.Check(len(reads[f.Name()]) > 0, key, where,
				"meta field read in the closure of writeRule: "+why,
				"meta field "+f.Name()+" is not read anywhere in the closure of Builder.writeRule ("+why+")")
			continue
		}
		c.Check(len(flows[f.Name()]) > 0, key, where,
			fmt.Sprintf("flows into %v", flows[f.Name()]),
			fmt.Sprintf("match field proto.Rule.%s does not flow into any emitting matcher call in the closure of Builder.writeRule (read %d time(s)): the criterion is silently ignored by the BPF policy program", f.Name(), len(reads[f.Name()])))
	}
	for k := range c11Excluded {
		if !usedExcl[k] {
			c.Lost("exclusion table entry %q matches no field of proto.Rule", k)
		}
	}
	if n == 0 {
		c.Lost("empty match-field universe")
	}
}

// ------------------------------------------------------- verdict / labels --

type c11Footer struct {
	labelOf map[string]string // role ("deny"/"allow") -> label constant of the exit section
}

// c11VerdictName maps a pol_rc immediate to the state.Policy* constant name.
func c11VerdictNames(c *Ctx, p *Prog) map[int64]string {
	out := map[int64]string{}
	for _, n := range []string{"PolicyNoMatch", "PolicyAllow", "PolicyDeny", "PolicyTailCallFailed"} {
		v, ok := constantInt(c11PkgConst(c, p, c11StatePkg, n))
		if !ok {
			c.Lost("state.%s is not an integer constant", n)
		}
		if prev, dup := out[v]; dup {
			c.Lost("state.%s and state.%s have the same value", prev, n)
		}
		out[v] = n
	}
	return out
}

// immOf: the immediate loaded into the source register of a Store emission.
func (m *c11Model) storedImm(ems []c11Emission, st c11Emission) (int64, string, bool) {
	r, ok := m.regOf(st.cs.Args()[2])
	if !ok {
		return 0, "source register of the store is not a constant", false
	}
	src, ok := m.regSourceAt(ems, st, r)
	if !ok {
		return 0, fmt.Sprintf("cannot find a unique emission defining R%d before the store", r), false
	}
	if !strings.HasPrefix(src.name, "MovImm") && !strings.HasPrefix(src.name, "LoadImm") {
		return 0, fmt.Sprintf("R%d is defined by %s, not by an immediate move", r, src.name), false
	}
	v, ok := c11ConstInt(src.cs.Args()[2])
	if !ok {
		return 0, fmt.Sprintf("immediate of %s is not a constant (%s)", src.name, path(src.cs.Args()[2])), false
	}
	return v, "", true
}

func c11Verdict(c *Ctx, m *c11Model) *c11Footer {
	p := m.p
	polRc := m.fieldOffsetGlobal("state->pol_rc")
	names := c11VerdictNames(c, p)
	tailCall, ok := constantInt(c11PkgConst(c, p, c11AsmPkg, "HelperTailCall"))
	if !ok {
		c.Lost("asm.HelperTailCall")
	}
	footer := m.fn(c11PolPkg, "Builder.writeProgramFooter")
	split := m.fn(c11PolPkg, "Builder.maybeSplitProgram")
	ft := &c11Footer{labelOf: map[string]string{}}

	// E-OWN: who touches pol_rc at all.
	owners := map[*ssa.Function]int{}
	for _, f := range m.polFuncs() {
		for _, e := range m.emissionsIn(f) {
			if c11UsesGlobal(e, polRc) {
				owners[f]++
				if f != footer && f != split {
					c.Violate("C11.verdict/owner/"+fnName(f), p.Pos(e.cs.Instr.Pos()), "%s accesses state->pol_rc (%s); only writeProgramFooter (verdicts) and maybeSplitProgram (trampoline index) may", fnName(f), e.name)
				}
			}
		}
	}
	if owners[footer] == 0 || owners[split] == 0 {
		c.Lost("pol_rc accesses: footer=%d split=%d", owners[footer], owners[split])
	}
	c.Ok("C11.verdict/owner", p.Pos(footer.Pos()), "state->pol_rc is accessed only in writeProgramFooter (%d) and maybeSplitProgram (%d)", owners[footer], owners[split])

	// Footer sections.
	ems := m.emissionsIn(footer)
	inSection := map[ssa.Instruction]bool{}
	jmpField := func(role string) string { return role + "Jmp" }
	cbVar := map[string]string{"allow": "skbCb0", "deny": "skbCb1"} // bpf-gpl: cb[0] = allow index, cb[1] = deny index
	for _, role := range []string{"allow", "deny"} {
		if m.p.LookupObj(c11PolPkg, "Builder."+jmpField(role)) == nil {
			c.Lost("Builder.%s", jmpField(role))
		}
		if m.p.LookupObj(c11PolPkg, cbVar[role]) == nil {
			c.Lost("polprog.%s", cbVar[role])
		}
	}
	for _, l := range ems {
		label, ok := l.labelConst()
		if !ok {
			continue
		}
		seg := m.segmentOf(ems, l)
		var tcs []c11Emission
		for _, e := range seg {
			if e.is("Call") {
				if v, ok := c11ConstInt(e.cs.Args()[1]); ok && v == tailCall {
					tcs = append(tcs, e)
				}
			}
		}
		if len(tcs) == 0 {
			continue // not an exit section (e.g. xdp_pass)
		}
		site := p.Pos(l.cs.Instr.Pos())
		if len(tcs) != 1 {
			c.Undecided("C11.labels/"+label+"/tailcall", site, "%d tail calls in section %q", len(tcs), label)
			continue
		}
		tc := tcs[0]
		// which verdict constant carries this label's name?
		want := int64(-1)
		for v, n := range names {
			if strings.EqualFold(n, "Policy"+label) {
				want = v
			}
		}
		if want < 0 {
			c.Undecided("C11.labels/"+label+"/verdict", site, "exit section %q has no like-named state.Policy* constant", label)
			continue
		}
		ft.labelOf[strings.ToLower(label)] = label
		nPre := 0
		var bad []string
		for _, e := range seg {
			inSection[e.cs.Instr] = true
			if !c11UsesGlobal(e, polRc) {
				continue
			}
			if !strings.HasPrefix(e.name, "Store") {
				bad = append(bad, fmt.Sprintf("%s of pol_rc in an exit section", e.name))
				continue
			}
			v, why, ok := m.storedImm(ems, e)
			if !ok {
				bad = append(bad, why)
				continue
			}
			switch {
			case instrDominates(e.cs.Instr, tc.cs.Instr):
				nPre++
				if v != want {
					bad = append(bad, fmt.Sprintf("section %q stores pol_rc=%d (%s) before its tail call; must be state.%s", label, v, names[v], names[want]))
				}
			case instrDominates(tc.cs.Instr, e.cs.Instr):
				if names[v] != "PolicyTailCallFailed" {
					bad = append(bad, fmt.Sprintf("section %q stores pol_rc=%d (%s) after the failed tail call; must be state.PolicyTailCallFailed", label, v, names[v]))
				}
			default:
				bad = append(bad, "pol_rc store neither before nor after the tail call on every path")
			}
		}
		if nPre == 0 {
			bad = append(bad, fmt.Sprintf("section %q does not store state.%s into pol_rc before its tail call", label, names[want]))
		}
		c.Check(len(bad) == 0, "C11.verdict/writeProgramFooter/"+label, site,
			fmt.Sprintf("pol_rc := state.%s before the tail call; only PolicyTailCallFailed after it", names[want]), strings.Join(bad, "; "))

		// jump index / map operands between the label and the tail call
		role := strings.ToLower(label)
		ment := map[string]bool{}
		for _, e := range seg {
			if !instrDominates(tc.cs.Instr, e.cs.Instr) && e.cs.Instr != tc.cs.Instr {
				for _, a := range e.cs.Args()[1:] {
					c11Mentions(a, ment)
				}
			}
		}
		var idx, wrong []string
		for k := range ment {
			switch {
			case k == "field:"+jmpField(role) || k == "var:"+cbVar[role]:
				idx = append(idx, k)
			case strings.HasPrefix(k, "field:") && strings.HasSuffix(k, "Jmp"), strings.HasPrefix(k, "var:skbCb"):
				wrong = append(wrong, k)
			case strings.HasPrefix(k, "field:") && strings.HasSuffix(k, "JumpMapFD") && k != "field:staticJumpMapFD":
				wrong = append(wrong, k)
			}
		}
		sort.Strings(idx)
		sort.Strings(wrong)
		c.Check(len(wrong) == 0 && len(idx) == 2 && ment["field:staticJumpMapFD"], "C11.labels/"+label+"/jumpidx", site,
			fmt.Sprintf("tail call of section %q takes its index from %v and its map from staticJumpMapFD", label, idx),
			fmt.Sprintf("section %q: jump-index operands %v, foreign operands %v, staticJumpMapFD=%v (want exactly %s and %s, map staticJumpMapFD)", label, idx, wrong, ment["field:staticJumpMapFD"], jmpField(role), cbVar[role]))
	}
	for _, role := range []string{"allow", "deny"} {
		if ft.labelOf[role] == "" {
			c.Lost("writeProgramFooter has no %q exit section (label + pol_rc store + tail call)", role)
		}
	}
	// every pol_rc access of the footer lies in one of the exit sections
	for _, e := range ems {
		if c11UsesGlobal(e, polRc) && !inSection[e.cs.Instr] {
			c.Violate("C11.verdict/writeProgramFooter/stray", p.Pos(e.cs.Instr.Pos()), "%s of pol_rc outside the allow/deny exit sections", e.name)
		}
	}

	// The no-match ends: writeProfiles ends, on every path, with a match-all rule to the deny label.
	c11EndRule(c, m, "Builder.writeProfiles", ft)
	return ft
}

func constantInt(v constant.Value) (int64, bool) {
	if v == nil || v.Kind() != constant.Int {
		return 0, false
	}
	return constant.Int64Val(v)
}

// c11IsEmptyRuleArg: v (a polprog.Rule struct value) is a literal whose Rule
// field is a fresh, never-written &proto.Rule{}.
func (m *c11Model) isEmptyRuleArg(v ssa.Value) (bool, string) {
	ld, ok := v.(*ssa.UnOp)
	if !ok {
		return false, "rule argument is not a literal (" + path(v) + ")"
	}
	al, ok := ld.X.(*ssa.Alloc)
	if !ok {
		return false, "rule argument is not a literal (" + path(v) + ")"
	}
	vals := literalFieldStores(al)["Rule"]
	if len(vals) != 1 {
		return false, fmt.Sprintf("%d stores to the Rule field of the literal", len(vals))
	}
	ra, ok := vals[0].(*ssa.Alloc)
	if !ok || !types.Identical(types.Unalias(derefType(ra.Type())), m.ruleT) {
		return false, "Rule field is not a fresh &proto.Rule{} (" + path(vals[0]) + ")"
	}
	for _, r := range *ra.Referrers() {
		if fa, ok := r.(*ssa.FieldAddr); ok {
			return false, "the proto.Rule literal sets field " + fieldName(fa.X.Type(), fa.Field)
		}
	}
	return true, ""
}

func c11EndRule(c *Ctx, m *c11Model, fname string, ft *c11Footer) {
	p := m.p
	fn := m.fn(c11PolPkg, fname)
	writeRule := m.fn(c11PolPkg, "Builder.writeRule")
	ems := m.emissionsIn(fn)
	key := "C11.verdict/end/" + fnName(fn)
	// last emission: one that no other emission follows on any path to a return
	var last []c11Emission
	for _, e := range ems {
		followed := false
		for _, x := range ems {
			if x.cs.Instr != e.cs.Instr && instrReaches(e.cs.Instr, x.cs.Instr) {
				followed = true
			}
		}
		if !followed {
			last = append(last, e)
		}
	}
	if len(last) != 1 {
		c.Violate(key, p.Pos(fn.Pos()), "%s has %d final emissions; want exactly one unconditional match-all deny rule", fnName(fn), len(last))
		return
	}
	e := last[0]
	site := p.Pos(e.cs.Instr.Pos())
	pd := postDominators(fn)
	var bad []string
	if calleeFn(e.cs.Common()) != writeRule {
		bad = append(bad, "the last emission is "+e.name+", not writeRule")
	} else {
		if ok, why := m.isEmptyRuleArg(e.cs.Args()[1]); !ok {
			bad = append(bad, "the final rule is not match-all: "+why)
		}
		if s, ok := c11ConstString(e.cs.Args()[2]); !ok || s != ft.labelOf["deny"] {
			bad = append(bad, fmt.Sprintf("the final rule jumps to %s, not to the deny section %q", path(e.cs.Args()[2]), ft.labelOf["deny"]))
		}
		first := fn.Blocks[0].Instrs[0]
		if !(first.Block() == e.cs.Instr.Block() || pd[first.Block()][e.cs.Instr.Block()]) {
			bad = append(bad, "the final rule is not written on every path")
		}
	}
	c.Check(len(bad) == 0, key, site, fnName(fn)+" ends on every path with a match-all rule to the deny section", fnName(fn)+": "+strings.Join(bad, "; "))
}

// ------------------------------------------------------------ actionlabels --

// c11ActionUniverse: the rule actions the reference (iptables/nftables) renderer
// accepts, computed from the case constants of every `switch <proto.Rule>.Action`
// in felix/rules, minus "" (the v3 API requires an action and
// ruleActionAPIV3ToBackend lower-cases it, so "" never reaches a dataplane).
func c11ActionUniverse(c *Ctx, m *c11Model) []string {
	set := map[string]bool{}
	for _, f := range m.p.AllFuncs() {
		top := topFn(f)
		if top.Pkg == nil || strings.TrimPrefix(top.Pkg.Pkg.Path(), calicoPrefix) != c11RulesPkg {
			continue
		}
		allInstrs(f, false, func(_ *ssa.Function, in ssa.Instruction) {
			bo, ok := in.(*ssa.BinOp)
			if !ok || bo.Op.String() != "==" {
				return
			}
			for _, pair := range [][2]ssa.Value{{bo.X, bo.Y}, {bo.Y, bo.X}} {
				s, isConst := c11ConstString(pair[1])
				if !isConst {
					continue
				}
				for _, fs := range m.ruleFieldsOf(pair[0]) {
					if fs.Field == "Action" {
						set[s] = true
					}
				}
			}
		})
	}
	delete(set, "")
	if len(set) < 4 {
		c.Lost("action universe from felix/rules switch on proto.Rule.Action: %v", sortedKeys(set))
	}
	return sortedKeys(set)
}

// mapSources traces a map-typed value back to the MakeMap instructions it may be.
func (m *c11Model) mapSources(v ssa.Value, depth int, out map[*ssa.MakeMap]bool) bool {
	if depth > 5 {
		return false
	}
	switch x := v.(type) {
	case *ssa.MakeMap:
		out[x] = true
		return true
	case *ssa.Phi:
		for _, e := range x.Edges {
			if !m.mapSources(e, depth+1, out) {
				return false
			}
		}
		return true
	case *ssa.Parameter:
		fn := x.Parent()
		idx := -1
		for i, q := range fn.Params {
			if q == x {
				idx = i
			}
		}
		n := 0
		for _, g := range m.polFuncs() {
			for _, cs := range callsIn(g, false, func(*types.Func) bool { return true }) {
				if calleeFn(cs.Common()) != fn {
					continue
				}
				n++
				if idx >= len(cs.Args()) || !m.mapSources(cs.Args()[idx], depth+1, out) {
					return false
				}
			}
		}
		return n > 0
	}
	return false
}

func c11ActionLabels(c *Ctx, m *c11Model, ft *c11Footer) {
	p := m.p
	writeRule := m.fn(c11PolPkg, "Builder.writeRule")
	endOfRule := m.fn(c11PolPkg, "Builder.writeEndOfRule")
	universe := c11ActionUniverse(c, m)

	// (1) dispatch: every writeRule call whose label is looked up in a map keyed by
	// the (lower-cased) proto.Rule.Action.
	maps := map[*ssa.MakeMap]bool{}
	nDispatch := 0
	type endSite struct {
		cs  CallSite
		lk  *ssa.Lookup
		mm  map[*ssa.MakeMap]bool
		key ssa.Value
	}
	var ends []endSite
	for _, f := range m.polFuncs() {
		for _, cs := range callsIn(f, false, func(*types.Func) bool { return true }) {
			if calleeFn(cs.Common()) != writeRule {
				continue
			}
			lk, ok := cs.Args()[2].(*ssa.Lookup)
			if !ok {
				continue
			}
			k := lk.Index
			for {
				if call, ok := k.(*ssa.Call); ok {
					if f := calleeOf(call.Common()); f != nil && f.Pkg() != nil && f.Pkg().Path() == "strings" && len(call.Call.Args) == 1 {
						k = call.Call.Args[0]
						continue
					}
				}
				break
			}
			fromAction := false
			for _, fs := range m.ruleFieldsOf(k) {
				if fs.Field == "Action" {
					fromAction = true
				}
			}
			srcs := map[*ssa.MakeMap]bool{}
			okSrc := m.mapSources(lk.X, 0, srcs)
			site := p.Pos(cs.Instr.Pos())
			if !fromAction {
				ends = append(ends, endSite{cs, lk, srcs, lk.Index})
				continue
			}
			nDispatch++
			lower := false
			if call, ok := lk.Index.(*ssa.Call); ok {
				lower = isFuncExt(calleeOf(call.Common()), "strings", "ToLower")
			}
			c.Check(okSrc && len(srcs) > 0 && lower, "C11.actionlabels/dispatch/"+fnName(f), site,
				fmt.Sprintf("label = actionLabels[strings.ToLower(rule.Action)] over %d label table(s)", len(srcs)),
				fmt.Sprintf("label lookup keyed by rule.Action: tables resolved=%v (%d), lower-cased=%v", okSrc, len(srcs), lower))
			for mm := range srcs {
				maps[mm] = true
			}
		}
	}
	if nDispatch == 0 {
		c.Lost("no writeRule call whose label is looked up by proto.Rule.Action")
	}

	// the "log" sentinel: writeEndOfRule must not jump for it
	var logSentinel string
	// (2) per table, per action
	var mms []*ssa.MakeMap
	for mm := range maps {
		mms = append(mms, mm)
	}
	sort.Slice(mms, func(i, j int) bool { return mms[i].Pos() < mms[j].Pos() })
	type table struct {
		fn      *ssa.Function
		entries map[string][]ssa.Value
	}
	var tables []table
	for _, mm := range mms {
		t := table{fn: mm.Parent(), entries: map[string][]ssa.Value{}}
		for _, r := range *mm.Referrers() {
			if mu, ok := r.(*ssa.MapUpdate); ok && mu.Map == mm {
				k, isConst := c11ConstString(mu.Key)
				if !isConst {
					c.Undecided("C11.actionlabels/"+fnName(t.fn)+"/keys", p.Pos(mu.Pos()), "non-constant key stored into the action label table")
					continue
				}
				t.entries[k] = append(t.entries[k], mu.Value)
			}
		}
		tables = append(tables, t)
	}
	// the tier table is the one whose function labels the next instruction with the
	// pass value (end of tier); profile tables have no continuation.
	isTier := func(t table) (ssa.Value, bool) {
		for _, k := range sortedKeys(t.entries) {
			for _, v := range t.entries[k] {
				if _, isConst := c11ConstString(v); isConst {
					continue
				}
				for _, e := range m.emissionsIn(t.fn) {
					if e.is("LabelNextInsn") && e.cs.Args()[1] == v {
						return v, true
					}
				}
			}
		}
		return nil, false
	}
	// the log sentinel: the constant writeEndOfRule compares its label parameter with
	var lblParam *ssa.Parameter
	for _, q := range endOfRule.Params {
		if c11IsString(q.Type()) {
			lblParam = q
		}
	}
	if lblParam == nil {
		c.Lost("writeEndOfRule has no string (label) parameter")
	}
	allInstrs(endOfRule, false, func(_ *ssa.Function, in ssa.Instruction) {
		bo, ok := in.(*ssa.BinOp)
		if !ok || (bo.Op.String() != "==" && bo.Op.String() != "!=") {
			return
		}
		for _, pr := range [][2]ssa.Value{{bo.X, bo.Y}, {bo.Y, bo.X}} {
			if pr[0] == ssa.Value(lblParam) {
				if s, ok := c11ConstString(pr[1]); ok {
					logSentinel = s
				}
			}
		}
	})
	for _, t := range tables {
		fname := fnName(t.fn)
		contV, tier := isTier(t)
		var strParams []*ssa.Parameter
		for _, q := range t.fn.Params {
			if c11IsString(q.Type()) {
				strParams = append(strParams, q)
			}
		}
		for _, a := range universe {
			key := "C11.actionlabels/" + fname + "/" + a
			site := p.Pos(t.fn.Pos())
			vals := t.entries[a]
			if len(vals) == 0 {
				c.Violate(key, site, "the action label table of %s has no entry for action %q: a rule with this action reaches writeRule with an empty label and the builder panics (\"empty action label\")", fname, a)
				continue
			}
			var bad []string
			for _, v := range vals {
				s, isConst := c11ConstString(v)
				switch a {
				case "allow":
					if len(strParams) != 1 || v != ssa.Value(strParams[0]) {
						bad = append(bad, fmt.Sprintf("allow maps to %s, not to the caller-supplied allow label", path(v)))
					}
				case "deny":
					if !isConst || s != ft.labelOf["deny"] {
						bad = append(bad, fmt.Sprintf("deny maps to %s, not to the deny section %q", path(v), ft.labelOf["deny"]))
					}
				case "log":
					if !isConst || s != logSentinel || logSentinel == "" {
						bad = append(bad, fmt.Sprintf("log maps to %s, not to the no-jump sentinel %q of writeEndOfRule", path(v), logSentinel))
					}
				case "pass", "next-tier":
					if tier {
						if v != contV {
							bad = append(bad, fmt.Sprintf("%s maps to %s, not to the end-of-tier label that %s places after the end-of-tier rule", a, path(v), fname))
						}
					} else if !isConst || s != ft.labelOf["deny"] {
						bad = append(bad, fmt.Sprintf("%s in a profile maps to %s; there is no next tier after profiles, it must go to the deny section %q", a, path(v), ft.labelOf["deny"]))
					}
				default:
					bad = append(bad, fmt.Sprintf("action %q is accepted by the reference renderer but C11 has no expected target for it (extend the rule)", a))
				}
			}
			kind := "profile"
			if tier {
				kind = "tier"
			}
			c.Check(len(bad) == 0, key, site, fmt.Sprintf("%s table: %s -> %s", kind, a, path(vals[0])), strings.Join(bad, "; "))
		}
	}
	if len(tables) < 2 {
		c.Lost("expected a tier and a profile action label table, found %d", len(tables))
	}

	// (3) log sentinel never jumps: in writeEndOfRule every Jump to the label
	// parameter is guarded by label != sentinel.
	if logSentinel == "" {
		c.Lost("writeEndOfRule does not compare its label with a constant (log sentinel)")
	}
	nJ := 0
	for _, e := range m.emissionsIn(endOfRule) {
		uses := false
		for _, a := range e.cs.Args()[1:] {
			if a == ssa.Value(lblParam) {
				uses = true
			}
		}
		if !uses {
			continue
		}
		nJ++
		g := guardedCut(e.cs.Instr, eqCond(false,
			func(v ssa.Value) bool { return v == ssa.Value(lblParam) },
			func(v ssa.Value) bool { s, ok := c11ConstString(v); return ok && s == logSentinel }))
		c.Check(g, "C11.actionlabels/log-nojump/"+e.name, p.Pos(e.cs.Instr.Pos()),
			fmt.Sprintf("%s(actionLabel) only when actionLabel != %q", e.name, logSentinel),
			fmt.Sprintf("writeEndOfRule passes the label to %s without excluding the log sentinel %q: a log rule would jump to a label that does not exist / terminate evaluation", e.name, logSentinel))
	}
	if nJ == 0 {
		c.Lost("writeEndOfRule does not use its label parameter in an emission")
	}

	// (4) end-of-tier rule: label looked up by the tier end action, which is never "".
	nEnd := 0
	for _, es := range ends {
		f := es.cs.Fn
		site := p.Pos(es.cs.Instr.Pos())
		fname := fnName(f)
		nEnd++
		if ok, why := m.isEmptyRuleArg(es.cs.Args()[1]); !ok {
			c.Violate("C11.actionlabels/"+fname+"/end/match-all", site, "end-of-tier rule is not match-all: %s", why)
		} else {
			c.Ok("C11.actionlabels/"+fname+"/end/match-all", site, "end-of-tier rule is an empty proto.Rule")
		}
		// the key's possible values
		var bad []string
		var consts []string
		nField := 0
		var visit func(v ssa.Value, depth int)
		visit = func(v ssa.Value, depth int) {
			switch x := v.(type) {
			case *ssa.ChangeType:
				visit(x.X, depth)
			case *ssa.Convert:
				visit(x.X, depth)
			case *ssa.Const:
				s, _ := c11ConstString(x)
				consts = append(consts, s)
			case *ssa.Phi:
				if depth > 3 {
					bad = append(bad, "nested phi")
					return
				}
				for i, e := range x.Edges {
					if _, isConst := e.(*ssa.Const); isConst {
						visit(e, depth+1)
						continue
					}
					// non-constant edge: must arrive only when e != ""
					pred := x.Block().Preds[i]
					if !c11EdgeNonEmpty(pred, x.Block(), e) {
						bad = append(bad, fmt.Sprintf("the end action %s can reach the lookup while empty (no default for the undefined end action)", path(e)))
					}
					nField++
				}
			default:
				bad = append(bad, fmt.Sprintf("end action %s may be empty: not defaulted", path(v)))
			}
		}
		visit(es.key, 0)
		// every constant default must be a key of every tier table
		for _, s := range consts {
			for mm := range es.mm {
				found := false
				for _, r := range *mm.Referrers() {
					if mu, ok := r.(*ssa.MapUpdate); ok {
						if k, ok := c11ConstString(mu.Key); ok && k == s {
							found = true
						}
					}
				}
				if !found {
					bad = append(bad, fmt.Sprintf("default end action %q has no entry in the label table", s))
				}
			}
			if s != ft.labelOf["deny"] && s != "deny" {
				bad = append(bad, fmt.Sprintf("undefined end action defaults to %q, not to deny", s))
			}
		}
		c.Check(len(bad) == 0 && len(consts) > 0, "C11.actionlabels/"+fname+"/end/default", site,
			fmt.Sprintf("undefined tier end action defaults to %v; the lookup key is never empty", consts), strings.Join(append(bad, fmt.Sprintf("defaults=%v", consts)), "; "))
		// declared end actions resolve
		sc := p.Pkg(c11PolPkg).Types.Scope()
		for _, n := range sc.Names() {
			k, ok := sc.Lookup(n).(*types.Const)
			if !ok || namedTypeName(k.Type()) != "TierEndAction" {
				continue
			}
			s := constant.StringVal(k.Val())
			if s == "" {
				continue
			}
			for mm := range es.mm {
				found := false
				for _, r := range *mm.Referrers() {
					if mu, ok := r.(*ssa.MapUpdate); ok {
						if kk, ok := c11ConstString(mu.Key); ok && kk == s {
							found = true
						}
					}
				}
				c.Check(found, "C11.actionlabels/"+fname+"/end/"+n, site, fmt.Sprintf("%s=%q has a label", n, s), fmt.Sprintf("tier end action %s=%q has no entry in the action label table: writeRule panics", n, s))
			}
		}
		// the end-of-tier label is placed right after the end-of-tier rule
		ems := m.emissionsIn(f)
		var next []c11Emission
		for _, e := range ems {
			if e.cs.Instr == es.cs.Instr {
				continue
			}
			for _, pr := range c11ImmediatePreds(ems, e) {
				if pr.cs.Instr == es.cs.Instr {
					next = append(next, e)
				}
			}
		}
		okNext := len(next) == 1 && next[0].is("LabelNextInsn")
		if okNext {
			okNext = false
			for mm := range es.mm {
				for _, r := range *mm.Referrers() {
					if mu, ok := r.(*ssa.MapUpdate); ok {
						if kk, _ := c11ConstString(mu.Key); kk == "pass" && mu.Value == next[0].cs.Args()[1] {
							okNext = true
						}
					}
				}
			}
		}
		c.Check(okNext, "C11.actionlabels/"+fname+"/end/pass-label", site, "the pass/next-tier label is placed immediately after the end-of-tier rule",
			"the emission following the end-of-tier rule is not LabelNextInsn(<pass label>): pass would not skip exactly the end-of-tier rule")
	}
	if nEnd == 0 {
		c.Lost("no end-of-tier writeRule call (label looked up by something other than rule.Action)")
	}
}

func isFuncExt(f *types.Func, pkg, name string) bool {
	return f != nil && f.Pkg() != nil && f.Pkg().Path() == pkg && f.Name() == name
}

// c11EdgeNonEmpty: on the CFG edge pred->succ the string value v is known to be
// different from "".
func c11EdgeNonEmpty(pred, succ *ssa.BasicBlock, v ssa.Value) bool {
	isEmpty := func(x ssa.Value) bool { s, ok := c11ConstString(x); return ok && s == "" }
	test := func(cond ssa.Value, pol bool) bool {
		cond, pol = stripNot(cond, pol)
		bo, ok := cond.(*ssa.BinOp)
		if !ok {
			return false
		}
		if !((bo.X == v && isEmpty(bo.Y)) || (bo.Y == v && isEmpty(bo.X))) {
			return false
		}
		switch bo.Op.String() {
		case "==":
			return !pol
		case "!=":
			return pol
		}
		return false
	}
	if ifi, ok := pred.Instrs[len(pred.Instrs)-1].(*ssa.If); ok && len(pred.Succs) == 2 && pred.Succs[0] != pred.Succs[1] {
		for k, s := range pred.Succs {
			if s == succ && test(ifi.Cond, k == 0) {
				return true
			}
		}
	}
	for _, g := range guardsOfBlock(pred) {
		if test(g.Cond, g.True) {
			return true
		}
	}
	return false
}

// ------------------------------------------------------------- fallthrough --

func c11Fallthrough(c *Ctx, m *c11Model, ft *c11Footer) {
	p := m.p
	footer := m.fn(c11PolPkg, "Builder.writeProgramFooter")
	profiles := m.fn(c11PolPkg, "Builder.writeProfiles")
	n := 0
	for _, f := range m.polFuncs() {
		ems := m.emissionsIn(f)
		for _, e := range ems {
			if calleeFn(e.cs.Common()) != footer {
				continue
			}
			preds := c11ImmediatePreds(ems, e)
			if len(preds) == 0 {
				c.Violate("C11.fallthrough/"+fnName(f), p.Pos(e.cs.Instr.Pos()), "writeProgramFooter is the first emission of %s", fnName(f))
				continue
			}
			for _, pr := range preds {
				n++
				key := "C11.fallthrough/" + fnName(f) + "/" + pr.name
				site := p.Pos(pr.cs.Instr.Pos())
				switch {
				case pr.is("Jump"):
					c.Ok(key, site, "the footer is preceded by an unconditional jump: nothing falls into the deny section by accident")
				case calleeFn(pr.cs.Common()) == profiles:
					c.Ok(key, site, "the footer directly follows writeProfiles, which ends with the match-all deny rule (C11.verdict/end)")
				default:
					c.Violate(key, site, "in %s the emission preceding writeProgramFooter is %s: whatever it leaves unmatched falls into the %q section without the profiles / no-match rule having been evaluated", fnName(f), pr.name, ft.labelOf["deny"])
				}
			}
		}
	}
	if n == 0 {
		c.Lost("no call of writeProgramFooter")
	}
}

// ------------------------------------------------------------------- split --

func c11Split(c *Ctx, m *c11Model) {
	p := m.p
	split := m.fn(c11PolPkg, "Builder.maybeSplitProgram")
	header := m.fn(c11PolPkg, "Builder.writeProgramHeader")
	footer := m.fn(c11PolPkg, "Builder.writeProgramFooter")
	polRc := m.fieldOffsetGlobal("state->pol_rc")
	tailCall, _ := constantInt(c11PkgConst(c, p, c11AsmPkg, "HelperTailCall"))
	ems := m.emissionsIn(split)
	site := p.Pos(split.Pos())

	var tc, hdr, ftr *c11Emission
	var stores, loads []c11Emission
	for i := range ems {
		e := ems[i]
		switch {
		case e.is("Call"):
			if v, ok := c11ConstInt(e.cs.Args()[1]); ok && v == tailCall {
				if tc != nil {
					c.Undecided("C11.split/tailcall", site, "several tail calls in maybeSplitProgram")
					return
				}
				tc = &ems[i]
			}
		case calleeFn(e.cs.Common()) == header:
			hdr = &ems[i]
		case calleeFn(e.cs.Common()) == footer:
			ftr = &ems[i]
		}
		if c11UsesGlobal(e, polRc) {
			if strings.HasPrefix(e.name, "Store") {
				stores = append(stores, e)
			} else if strings.HasPrefix(e.name, "Load") {
				loads = append(loads, e)
			} else {
				c.Violate("C11.split/polrc-use", p.Pos(e.cs.Instr.Pos()), "unexpected %s of pol_rc in maybeSplitProgram", e.name)
			}
		}
	}
	if tc == nil || hdr == nil || ftr == nil {
		c.Lost("maybeSplitProgram: tail call %v, writeProgramHeader %v, writeProgramFooter %v", tc != nil, hdr != nil, ftr != nil)
	}
	// the new block: the store to Builder.b that lies between the tail call and the header
	var newBlock *ssa.Store
	for _, st := range storesToField(split, false, "Builder", "b") {
		if instrDominates(tc.cs.Instr, st) && instrDominates(st, hdr.cs.Instr) {
			newBlock = st
		}
	}
	if newBlock == nil {
		c.Violate("C11.split/new-block", site, "no `p.b = <new block>` between the tail call and writeProgramHeader: the continuation is written into the program that has already tail-called away")
		return
	}
	c.Ok("C11.split/new-block", p.Pos(newBlock.Pos()), "p.b is replaced between the tail call and the new program's header")

	// stash: exactly one pol_rc store in the old program, after every landing pad, before the tail call
	var stash, restoreLd, reset *c11Emission
	for i := range stores {
		if instrDominates(stores[i].cs.Instr, tc.cs.Instr) {
			if stash != nil {
				c.Violate("C11.split/stash", p.Pos(stores[i].cs.Instr.Pos()), "several pol_rc stores before the tail call")
				return
			}
			stash = &stores[i]
		} else if instrDominates(hdr.cs.Instr, stores[i].cs.Instr) {
			reset = &stores[i]
		} else {
			c.Violate("C11.split/stash", p.Pos(stores[i].cs.Instr.Pos()), "pol_rc store that is neither before the tail call nor after the new header")
		}
	}
	for i := range loads {
		if instrDominates(hdr.cs.Instr, loads[i].cs.Instr) {
			restoreLd = &loads[i]
		} else {
			c.Violate("C11.split/restore", p.Pos(loads[i].cs.Instr.Pos()), "pol_rc is loaded before the new program's header has set up R9")
		}
	}
	if stash == nil {
		c.Violate("C11.split/stash", site, "the trampoline index is not stored into pol_rc before the tail call to the next program")
		return
	}
	if restoreLd == nil {
		c.Violate("C11.split/restore", site, "the next program does not load the trampoline index from pol_rc after its header")
		return
	}
	stReg, _ := m.regOf(stash.cs.Args()[2])
	ldReg, _ := m.regOf(restoreLd.cs.Args()[1])
	// landing pads: label T[i]; R := i+k   |  dispatch: if R == i+k goto T[i]
	type padInfo struct {
		e     c11Emission
		slice ssa.Value
		idx   ssa.Value
		off   int64
		label ssa.Value
	}
	idxPlus := func(v ssa.Value) (ssa.Value, int64, bool) {
		for {
			if cv, ok := v.(*ssa.Convert); ok {
				v = cv.X
				continue
			}
			break
		}
		bo, ok := v.(*ssa.BinOp)
		if !ok || bo.Op.String() != "+" {
			return nil, 0, false
		}
		k, ok := c11ConstInt(bo.Y)
		return bo.X, k, ok
	}
	elemOf := func(v ssa.Value) (ssa.Value, ssa.Value, bool) {
		ld, ok := v.(*ssa.UnOp)
		if !ok {
			return nil, nil, false
		}
		ia, ok := ld.X.(*ssa.IndexAddr)
		if !ok {
			return nil, nil, false
		}
		return ia.X, ia.Index, true
	}
	var pads, disp []padInfo
	for _, e := range ems {
		switch {
		case strings.HasPrefix(e.name, "MovImm") && instrDominates(ftr.cs.Instr, e.cs.Instr) && instrReaches(e.cs.Instr, stash.cs.Instr):
			if r, ok := m.regOf(e.cs.Args()[1]); !ok || r != stReg {
				continue
			}
			if _, isConst := c11ConstInt(e.cs.Args()[2]); isConst {
				continue
			}
			i, k, ok := idxPlus(e.cs.Args()[2])
			if !ok {
				c.Undecided("C11.split/pads", p.Pos(e.cs.Instr.Pos()), "landing pad index %s is not <loop index>+const", path(e.cs.Args()[2]))
				return
			}
			// the label placed just before in the same block
			var lbl *c11Emission
			for j := range ems {
				if ems[j].is("LabelNextInsn") && ems[j].cs.Instr.Block() == e.cs.Instr.Block() && instrDominates(ems[j].cs.Instr, e.cs.Instr) {
					lbl = &ems[j]
				}
			}
			if lbl == nil {
				c.Violate("C11.split/pads", p.Pos(e.cs.Instr.Pos()), "landing pad sets R%d without labelling the dangling target", stReg)
				return
			}
			sl, ix, ok := elemOf(lbl.cs.Args()[1])
			if !ok || ix != i {
				c.Violate("C11.split/pads", p.Pos(e.cs.Instr.Pos()), "landing pad labels %s but sets R%d from index %s", path(lbl.cs.Args()[1]), stReg, path(i))
				return
			}
			pads = append(pads, padInfo{e, sl, i, k, lbl.cs.Args()[1]})
		case strings.HasPrefix(e.name, "JumpEq") && instrDominates(restoreLd.cs.Instr, e.cs.Instr):
			args := e.cs.Args()
			if r, ok := m.regOf(args[1]); !ok || r != ldReg {
				continue
			}
			i, k, ok := idxPlus(args[2])
			sl, ix, ok2 := elemOf(args[len(args)-1])
			if !ok || !ok2 || ix != i {
				c.Violate("C11.split/dispatch", p.Pos(e.cs.Instr.Pos()), "dispatch compares R%d with %s but jumps to %s", ldReg, path(args[2]), path(args[len(args)-1]))
				return
			}
			disp = append(disp, padInfo{e, sl, i, k, args[len(args)-1]})
		}
	}
	if len(pads) != 1 || len(disp) != 1 {
		c.Violate("C11.split/pairs", site, "expected one landing-pad loop and one dispatch loop, found %d and %d", len(pads), len(disp))
		return
	}
	c.Check(pads[0].slice == disp[0].slice && pads[0].off == disp[0].off && pads[0].off >= 1, "C11.split/pairs", p.Pos(disp[0].e.cs.Instr.Pos()),
		fmt.Sprintf("landing pad i sets R%d=i+%d for targets[i]; the next program jumps to targets[i] when R%d==i+%d, over the same slice; 0 is the fall-through", stReg, pads[0].off, ldReg, disp[0].off),
		fmt.Sprintf("landing pads (slice %s, offset %d) and dispatch (slice %s, offset %d) disagree, or offset 0 collides with the fall-through value", path(pads[0].slice), pads[0].off, path(disp[0].slice), disp[0].off))

	// fall-through value: the main flow sets the stash register to a constant that no pad uses, then jumps over the footer
	preds := c11ImmediatePreds(ems, *ftr)
	okJump := len(preds) == 1 && preds[0].is("Jump")
	var nextLabel string
	var nextLabelEm *c11Emission
	if okJump {
		nextLabel, okJump = c11ConstString(preds[0].cs.Args()[1])
	}
	if okJump {
		// that label must be the one placed right before the stash
		okJump = false
		for i, e := range ems {
			if l, ok := e.labelConst(); ok && l == nextLabel && instrDominates(e.cs.Instr, stash.cs.Instr) {
				seg := m.segmentOf(ems, e)
				for _, s := range seg {
					if s.cs.Instr == stash.cs.Instr {
						okJump = true
						nextLabelEm = &ems[i]
					}
				}
			}
		}
	}
	c.Check(okJump, "C11.split/footer-after-jump", p.Pos(ftr.cs.Instr.Pos()),
		fmt.Sprintf("the main flow jumps to %q (where the index is stashed) immediately before the footer is written", nextLabel),
		"in maybeSplitProgram writeProgramFooter is not immediately preceded by an unconditional jump to the label of the stash/tail-call sequence: the main flow would fall into the deny section")
	main0 := false
	if src, ok := m.regSourceAt(ems, preds[0], stReg); ok && strings.HasPrefix(src.name, "MovImm") {
		if v, ok := c11ConstInt(src.cs.Args()[2]); ok && v == 0 && pads[0].off >= 1 {
			main0 = true
		}
	}
	c.Check(main0, "C11.split/fallthrough-index", p.Pos(preds[0].cs.Instr.Pos()),
		fmt.Sprintf("the main flow stashes R%d=0, which no landing pad uses", stReg),
		fmt.Sprintf("the main flow does not load the constant 0 into R%d before jumping to the stash: the next program would resume at a landing-pad target or at garbage", stReg))

	// stash is the last thing written to pol_rc before the tail call, from the pad register
	// stash: stores the pad register, unmodified since the common label, before the tail call
	clobber := ""
	if nextLabelEm == nil {
		clobber = "the stash does not follow the label that the main flow and the landing pads jump to"
	} else {
		for _, w := range ems {
			if wr, _ := m.writesReg(w, stReg); wr && instrDominates(nextLabelEm.cs.Instr, w.cs.Instr) && instrDominates(w.cs.Instr, stash.cs.Instr) {
				clobber = fmt.Sprintf("%s overwrites R%d between the %q label and the stash", w.name, stReg, nextLabel)
			}
		}
	}
	c.Check(clobber == "", "C11.split/stash", p.Pos(stash.cs.Instr.Pos()),
		fmt.Sprintf("pol_rc := R%d right after the common %q label, before the tail call", stReg, nextLabel), clobber)
	// restore: load dominates the reset store and every dispatch jump; reset stores PolicyNoMatch
	var bad []string
	if reset != nil {
		if !instrDominates(restoreLd.cs.Instr, reset.cs.Instr) {
			bad = append(bad, "pol_rc is reset before the trampoline index has been loaded from it")
		}
		v, why, ok := m.storedImm(ems, *reset)
		noMatch, _ := constantInt(c11PkgConst(c, p, c11StatePkg, "PolicyNoMatch"))
		if !ok {
			bad = append(bad, why)
		} else if v != noMatch {
			bad = append(bad, fmt.Sprintf("pol_rc is reset to %d, not to state.PolicyNoMatch", v))
		}
		if r, ok := m.regOf(reset.cs.Args()[2]); ok && r == ldReg {
			bad = append(bad, fmt.Sprintf("the reset clobbers R%d, which holds the trampoline index", ldReg))
		}
	}
	if !instrDominates(restoreLd.cs.Instr, disp[0].e.cs.Instr) {
		bad = append(bad, "dispatch jumps are not dominated by the load of the trampoline index")
	}
	// nothing between load and dispatch may overwrite the index register
	if src, ok := m.regSourceAt(ems, disp[0].e, ldReg); !ok || src.cs.Instr != restoreLd.cs.Instr {
		bad = append(bad, fmt.Sprintf("R%d is overwritten between the load of the trampoline index and the dispatch jumps", ldReg))
	}
	c.Check(len(bad) == 0, "C11.split/restore", p.Pos(restoreLd.cs.Instr.Pos()),
		fmt.Sprintf("the next program loads R%d from pol_rc after its header, then resets pol_rc to PolicyNoMatch, then dispatches on R%d", ldReg, ldReg), strings.Join(bad, "; "))

	// the tail call targets the policy jump map, never the static (allow/deny) one
	ment := map[string]bool{}
	for _, e := range ems {
		if instrDominates(stash.cs.Instr, e.cs.Instr) && instrDominates(e.cs.Instr, tc.cs.Instr) {
			for _, a := range e.cs.Args()[1:] {
				c11Mentions(a, ment)
			}
		}
	}
	c.Check(ment["field:policyJumpMapFD"] && !ment["field:staticJumpMapFD"], "C11.split/jumpmap", p.Pos(tc.cs.Instr.Pos()),
		"the split tail call uses policyJumpMapFD", "the split tail call does not take its map from policyJumpMapFD (or mentions staticJumpMapFD)")

	// callers that keep a register across a possible split must reload it when split
	c11SplitCallers(c, m, split)
}

// c11SplitCallers: maybeSplitProgram invalidates every register except those
// set by writeProgramHeader.  At every call site inside a loop, registers that
// the loop body reads without (re)defining them after the call must be reloaded
// under the `if split` result.
func c11SplitCallers(c *Ctx, m *c11Model, split *ssa.Function) {
	p := m.p
	n := 0
	for _, f := range m.polFuncs() {
		if f == split {
			continue
		}
		ems := m.emissionsIn(f)
		for _, e := range ems {
			if calleeFn(e.cs.Common()) != split {
				continue
			}
			n++
			key := "C11.split/caller/" + fnName(f)
			site := p.Pos(e.cs.Instr.Pos())
			// registers read by a later direct emission whose defining emission precedes the call
			stale := map[int64]string{}
			for _, x := range ems {
				if !x.block || x.cs.Instr == e.cs.Instr || !instrReaches(e.cs.Instr, x.cs.Instr) {
					continue
				}
				for _, r := range m.readsRegs(x) {
					if r >= 6 {
						continue // R6/R9 set by writeProgramHeader, R10 frame pointer
					}
					// is there a writer of r on every path from the call to x?
					if !c11RedefinedBetween(m, ems, e, x, r) {
						stale[r] = x.name
					}
				}
			}
			if len(stale) == 0 {
				c.Ok(key, site, "no register other than R6/R9/R10 is live across the possible split")
				continue
			}
			// allowed only if the call's result guards a reload of each stale register
			call, _ := e.cs.Instr.(*ssa.Call)
			var bad []string
			for r, user := range stale {
				reloaded := false
				for _, w := range ems {
					if wr, exact := m.writesReg(w, r); !wr || !exact {
						continue
					}
					if call != nil && guardedBy(w.cs.Instr, true, func(v ssa.Value) bool { return v == ssa.Value(call) }) && instrDominates(e.cs.Instr, w.cs.Instr) {
						reloaded = true
					}
				}
				if !reloaded {
					bad = append(bad, fmt.Sprintf("R%d (read by %s) is live across maybeSplitProgram and is not reloaded when the program was split", r, user))
				}
			}
			sort.Strings(bad)
			c.Check(len(bad) == 0, key, site, fmt.Sprintf("registers %v live across the split are reloaded under `if maybeSplitProgram()`", sortedInts(stale)), strings.Join(bad, "; "))
		}
	}
	if n == 0 {
		c.Lost("no caller of maybeSplitProgram")
	}
}

func sortedInts(m map[int64]string) []int64 {
	var out []int64
	for k := range m {
		out = append(out, k)
	}
	sort.Slice(out, func(i, j int) bool { return out[i] < out[j] })
	return out
}

// readsRegs: registers whose value a direct asm.Block emission reads.  Derived
// from the parameter names of the asm API: src/ra/rb/ptrReg are read; dst is
// read by read-modify-write ALU ops (And/Or/Add/Shift/FromBE) and by Store*
// (memory base); Call reads R1-R5 (unknown arity: not tracked); Exit reads R0.
func (m *c11Model) readsRegs(e c11Emission) []int64 {
	var out []int64
	if !e.block {
		return nil
	}
	sig := e.cs.Callee.Type().(*types.Signature)
	args := e.cs.Args()
	for i := 0; i < sig.Params().Len() && i+1 < len(args); i++ {
		prm := sig.Params().At(i)
		if !types.Identical(types.Unalias(prm.Type()), m.regT) {
			continue
		}
		r, ok := m.regOf(args[i+1])
		if !ok {
			continue
		}
		switch prm.Name() {
		case "src", "ra", "rb", "ptrReg":
			out = append(out, r)
		case "dst":
			if strings.HasPrefix(e.name, "Store") || !(strings.HasPrefix(e.name, "Mov") || strings.HasPrefix(e.name, "Load")) {
				out = append(out, r)
			}
		}
	}
	return out
}

// c11RedefinedBetween: every path from emission `from` to emission `to` passes an
// emission that (re)defines r.
func c11RedefinedBetween(m *c11Model, ems []c11Emission, from, to c11Emission, r int64) bool {
	writer := map[ssa.Instruction]bool{}
	for _, w := range ems {
		if w.cs.Instr == from.cs.Instr || w.cs.Instr == to.cs.Instr {
			continue
		}
		if wr, exact := m.writesReg(w, r); wr && (exact || w.is("Call")) {
			writer[w.cs.Instr] = true
		}
	}
	return !c11PathAvoiding(from.cs.Instr, to.cs.Instr, func(in ssa.Instruction) bool { return writer[in] })
}

// ----------------------------------------------------- cmpwidth / cmpdomain --

// c11CmpWidth decides, for every immediate compare a polprog function emits,
// that the jump class, the width of the value in the compared register and the
// domain of the immediate agree (see engine_C11cmp.go for the three models).
func c11CmpWidth(c *Ctx, m *c11Model) {
	p := m.p
	ops := m.c11DecodeAsm()
	split := m.fn(c11PolPkg, "Builder.maybeSplitProgram")
	domFns := m.polFuncs()
	if sp := p.SSAPkg(c11PolPkg); sp != nil && sp.Func("init") != nil {
		domFns = append(domFns, sp.Func("init"))
	} else {
		c.Lost("polprog.init")
	}
	dc := c11NewDomCtx(domFns)
	nCmp := 0
	for _, f := range m.polFuncs() {
		ems := m.emissionsIn(f)
		st := &c11RegState{m: m, ops: ops, split: split, ems: ems, dom: dc, busy: map[string]bool{}}
		for _, e := range ems {
			o := st.opOf(e)
			if !o.isImmCompare() {
				continue
			}
			nCmp++
			args := e.cs.Args()
			site := p.Pos(e.cs.Instr.Pos())
			r, okReg := m.regOf(args[o.dstArg])
			if !okReg {
				c.Undecided(fmt.Sprintf("C11.cmpwidth/%s/%s", fnName(f), e.name), site, "compared register of %s is not a constant (%s)", e.name, path(args[o.dstArg]))
				continue
			}
			key := fmt.Sprintf("C11.cmpwidth/%s/%s(R%d)", fnName(f), e.name, r)
			w := st.widthAt(e, r)
			d := dc.of(args[o.immArg])
			cb := o.cmpBits()
			bit31 := d.ok && d.neg // reinterpreted unsigned value or negative constant
			switch {
			case !w.known:
				c.Undecided(key, site, "cannot bound the value of R%d at %s: %s", r, e.name, w.why)
			case cb < w.bits && w.tight:
				c.Violate(key, site, "%s in %s is a %d-bit compare but R%d holds a %d-bit value (%s): bits %d..%d of the value are ignored", e.name, fnName(f), cb, r, w.bits, w.why, cb, w.bits-1)
			case cb < w.bits:
				c.Undecided(key, site, "%s is a %d-bit compare; R%d can only be bounded to %d bits (%s): cannot establish that no bit above bit %d is set", e.name, cb, r, w.bits, w.why, cb-1)
			case cb == 64 && bit31 && !o.signedCmp() && w.bits <= 32:
				c.Violate(key, site, "%s in %s is a 64-bit compare, which sign-extends its imm32, but R%d holds a zero-extended %d-bit value (%s) and the immediate is the %s: whenever bit 31 of the immediate is set the two can never be equal (the compare must use the 32-bit jump class)", e.name, fnName(f), r, w.bits, w.why, d)
			case cb == 64 && bit31 && !o.signedCmp():
				c.Undecided(key, site, "%s compares a %d-bit value with the %s: cannot establish that the register is sign-extended the same way", e.name, w.bits, d)
			default:
				c.Ok(key, site, "%d-bit compare of a %d-bit value (%s) with %s", cb, w.bits, w.why, d)
			}

			// declared domain of the immediate vs width of the loaded value
			if !w.known || !w.fromLoad || !d.ok || d.declared == 0 {
				continue
			}
			dkey := fmt.Sprintf("C11.cmpdomain/%s/%s(R%d)", fnName(f), e.name, r)
			switch {
			case w.bits > d.declared && !w.tight:
				c.Undecided(dkey, site, "%s compares a loaded value that can only be bounded to %d bits (%s) with a %d-bit domain (%s)", e.name, w.bits, w.why, d.declared, d)
			case w.bits > d.declared:
				c.Violate(dkey, site, "%s in %s compares a %d-bit loaded value (%s) with an immediate that ranges over a %d-bit domain (%s): bits %d..%d of the loaded value belong to something the criterion does not describe (an adjacent field), so the comparison depends on unrelated data", e.name, fnName(f), w.bits, w.why, d.declared, d, d.declared, w.bits-1)
			case w.bits < d.declared:
				c.Violate(dkey, site, "%s in %s compares a %d-bit loaded value (%s) with an immediate that ranges over a %d-bit domain (%s): bits %d..%d of the criterion are compared with zero, criteria using them can never match", e.name, fnName(f), w.bits, w.why, d.declared, d, w.bits, d.declared-1)
			default:
				c.Ok(dkey, site, "%d-bit loaded value (%s) compared with a %d-bit declared domain", w.bits, w.why, d.declared)
			}
		}
	}
	if nCmp == 0 {
		c.Lost("no immediate compare emitted by package polprog")
	}
}

const c11File = "felix/bpf/polprog/pol_prog_builder.go"

var c11Fixtures = []Fixture{
	// wiring
	{Name: "NotSrcNet rendered as a positive match", File: c11File,
		Old: "p.writeCIDRSMatch(true, legSource, rule.NotSrcNet)", New: "p.writeCIDRSMatch(false, legSource, rule.NotSrcNet)", Expect: "C11.wiring/writeCIDRSMatch/NotSrcNet"},
	{Name: "DstNet matched against the source address", File: c11File,
		Old: "p.writeCIDRSMatch(false, destLeg, rule.DstNet)", New: "p.writeCIDRSMatch(false, legSource, rule.DstNet)", Expect: "C11.wiring/writeCIDRSMatch/DstNet"},
	{Name: "NotDstIpSetIds always matched post-NAT (pre-DNAT policy broken)", File: c11File,
		Old: "p.writeIPSetMatch(true, destLeg, rule.NotDstIpSetIds)", New: "p.writeIPSetMatch(true, legDest, rule.NotDstIpSetIds)", Expect: "C11.wiring/writeIPSetMatch/NotDstIpSetIds"},
	{Name: "SrcNet read from the unfiltered rule (v6 CIDR in a v4 program panics)", File: c11File,
		Old: "p.writeCIDRSMatch(false, legSource, rule.SrcNet)", New: "p.writeCIDRSMatch(false, legSource, r.SrcNet)", Expect: "C11.wiring/writeCIDRSMatch/SrcNet"},
	{Name: "negated ICMP type rendered as positive", File: c11File,
		Old: "p.writeICMPTypeMatch(true, uint8(icmp.NotIcmpType))", New: "p.writeICMPTypeMatch(false, uint8(icmp.NotIcmpType))", Expect: "C11.wiring/writeICMPTypeMatch/NotIcmp"},
	{Name: "IP set ids handed to the CIDR matcher", File: c11File,
		Old: "p.writeCIDRSMatch(true, destLeg, rule.NotDstNet)", New: "p.writeCIDRSMatch(true, destLeg, rule.NotDstIpSetIds)", Expect: "C11.wiring/kind/writeCIDRSMatch"},
	// cover
	{Name: "DstIpPortSetIds guard kept but matcher call dropped", File: c11File,
		Old: "\t\tp.writeIPSetMatch(false, destLeg, rule.DstIpPortSetIds)\n", New: "", Expect: "C11.cover/DstIpPortSetIds"},
	{Name: "rule IP version ignored", File: "felix/rules/policy.go",
		Old: "if pRule.IpVersion != 0 && pRule.IpVersion != proto.IPVersion(ipVersion) {", New: "if false {", Expect: "C11.cover/IpVersion"},
	// verdict / labels
	{Name: "deny section reports PolicyAllow", File: c11File,
		Old: "p.b.MovImm32(asm.R1, int32(state.PolicyDeny))", New: "p.b.MovImm32(asm.R1, int32(state.PolicyAllow))", Expect: "C11.verdict/writeProgramFooter/deny"},
	{Name: "allow section never stores its verdict", File: c11File,
		Old: "\t\tp.b.MovImm32(asm.R1, int32(state.PolicyAllow))\n\t\tp.b.Store32(asm.R9, asm.R1, stateOffPolResult)\n", New: "", Expect: "C11.verdict/writeProgramFooter/allow"},
	{Name: "end-of-profiles rule allows", File: c11File,
		Old: "}, \"deny\", legDest)", New: "}, \"allow\", legDest)", Expect: "C11.verdict/end/Builder.writeProfiles"},
	{Name: "a matcher scribbles on pol_rc", File: c11File,
		Old: "\tp.b.Load8(asm.R1, asm.R9, stateOffIPProto)\n\tprotoNum := protocolToNumber(protocol)", New: "\tp.b.Load8(asm.R1, asm.R9, stateOffPolResult)\n\tprotoNum := protocolToNumber(protocol)", Expect: "C11.verdict/owner/Builder.writeProtoMatch"},
	{Name: "deny section tail-calls the allow program", File: c11File,
		Old: "p.b.MovImm32(asm.R3, int32(p.denyJmp))", New: "p.b.MovImm32(asm.R3, int32(p.allowJmp))", Expect: "C11.labels/deny/jumpidx"},
	{Name: "allow section takes the deny slot of skb->cb", File: c11File,
		Old: "p.b.Load32(asm.R3, asm.R6, skbCb0)", New: "p.b.Load32(asm.R3, asm.R6, skbCb1)", Expect: "C11.labels/allow/jumpidx"},
	// actionlabels
	{Name: "pass inside a tier denies", File: c11File,
		Old: "actionLabels[\"pass\"] = endOfTierLabel", New: "actionLabels[\"pass\"] = \"deny\"", Expect: "C11.actionlabels/Builder.writeTiers/pass"},
	{Name: "deny inside a tier skips to the end of the tier", File: c11File,
		Old: "\t\tactionLabels[\"pass\"] = endOfTierLabel\n", New: "\t\tactionLabels[\"pass\"] = endOfTierLabel\n\t\tactionLabels[\"deny\"] = endOfTierLabel\n", Expect: "C11.actionlabels/Builder.writeTiers/deny"},
	{Name: "next-tier in a profile allows", File: c11File,
		Old: "\"next-tier\": \"deny\",", New: "\"next-tier\": allowLabel,", Expect: "C11.actionlabels/Builder.writeProfile/next-tier"},
	{Name: "profile table loses the log action (builder panics on a Profile with a Log rule; was finding 6ea7293)", File: c11File,
		Old: "\t\t\"next-tier\": \"deny\",\n\t\t\"log\":       \"log\",\n\t}\n\tlog.Debugf(\"Start of profile", New: "\t\t\"next-tier\": \"deny\",\n\t}\n\tlog.Debugf(\"Start of profile", Expect: "C11.actionlabels/Builder.writeProfile/log"},
	{Name: "tier table loses the log action", File: c11File,
		Old: "\t\t\"log\":   \"log\",\n", New: "", Expect: "C11.actionlabels/Builder.writeTiers/log"},
	{Name: "undefined tier end action no longer defaults to deny (builder panics)", File: c11File,
		Old: "\t\tif action == TierEndUndef {\n\t\t\taction = TierEndDeny\n\t\t}\n", New: "", Expect: "C11.actionlabels/Builder.writeTiers/end/default"},
	{Name: "undefined tier end action defaults to pass", File: c11File,
		Old: "\t\t\taction = TierEndDeny\n", New: "\t\t\taction = TierEndPass\n", Expect: "C11.actionlabels/Builder.writeTiers/end/default"},
	{Name: "log rules jump to a label", File: c11File,
		Old: "if actionLabel == \"log\" {", New: "if actionLabel == \"LOG\" {", Expect: "C11.actionlabels/"},
	{Name: "end-of-tier label placed before the end-of-tier rule", File: c11File,
		Old: "\t\t}, actionLabels[string(action)], destLeg)\n\t\tp.b.LabelNextInsn(endOfTierLabel)\n", New: "\t\t}, actionLabels[string(action)], destLeg)\n\t\tp.b.NoOp()\n\t\tp.b.LabelNextInsn(endOfTierLabel)\n", Expect: "C11.actionlabels/Builder.writeTiers/end/pass-label"},
	// fallthrough
	{Name: "workload profiles not written", File: c11File,
		Old: "\t\tp.writeProfiles(rules.Profiles, rules.NoProfileMatchID, \"allow\")\n", New: "", Expect: "C11.fallthrough/Builder.Instructions/writeTiers"},
	{Name: "split: main flow falls into the deny section", File: c11File,
		Old: "\tp.b.Jump(\"next-program\")\n\n\t// Program footer", New: "\n\t// Program footer", Expect: "C11.fallthrough/Builder.maybeSplitProgram"},
	// split
	{Name: "dispatch index off by one", File: c11File,
		Old: "p.b.JumpEqImm64(asm.R0, int32(i+1), t)", New: "p.b.JumpEqImm64(asm.R0, int32(i+2), t)", Expect: "C11.split/pairs"},
	{Name: "pol_rc reset before the trampoline index is loaded", File: c11File,
		Old: "\tp.b.Load32(asm.R0, asm.R9, stateOffPolResult)\n\t// Reset the policy result field to its default value.\n\tp.b.MovImm32(asm.R1, 0)\n\tp.b.Store32(asm.R9, asm.R1, stateOffPolResult)\n",
		New: "\tp.b.MovImm32(asm.R1, 0)\n\tp.b.Store32(asm.R9, asm.R1, stateOffPolResult)\n\tp.b.Load32(asm.R0, asm.R9, stateOffPolResult)\n", Expect: "C11.split/restore"},
	{Name: "trampoline index not stashed", File: c11File,
		Old: "\tp.b.Store32(asm.R9, asm.R0, stateOffPolResult)\n\t// Calculate the index", New: "\t// Calculate the index", Expect: "C11.split/stash"},
	{Name: "split tail call through the static jump map", File: c11File,
		Old: "p.b.LoadMapFD(asm.R2, uint32(p.policyJumpMapFD))", New: "p.b.LoadMapFD(asm.R2, uint32(p.staticJumpMapFD))", Expect: "C11.split/jumpmap"},
	{Name: "continuation written into the old program", File: c11File,
		Old: "\tp.b = asm.NewBlock(p.policyDebugEnabled)\n\tp.b.SetTrampolineStride(p.trampolineStride)\n\tp.blocks = append(p.blocks, p.b)\n\t// Header initialises", New: "\t// Header initialises", Expect: "C11.split/new-block"},
	{Name: "ports loop keeps R1 across a split without reloading", File: c11File,
		Old: "\t\tif p.maybeSplitProgram() {\n\t\t\t// Program was split so the next instruction goes in the new program.\n\t\t\t// Need to reload our register(s).\n\t\t\tp.b.Load16(asm.R1, asm.R9, leg.offsetToStatePortField())\n\t\t}\n",
		New: "\t\tp.maybeSplitProgram()\n", Expect: "C11.split/caller/Builder.writePortsMatch"},
	{Name: "split inside the CIDR section loop loses R2", File: c11File,
		Old: "\t\t\tlastAddr = addr\n", New: "\t\t\tlastAddr = addr\n\t\t\tp.maybeSplitProgram()\n", Expect: "C11.split/caller/Builder.writeCIDRSMatch"},
	// stages
	{Name: "apply-on-forward tiers matched on the pre-DNAT destination (copy/paste of the pre-DNAT line)", File: c11File,
		Old: "p.writeTiers(rules.HostForwardTiers, legDest, \"allowed_by_host_policy\")", New: "p.writeTiers(rules.HostForwardTiers, legDestPreNAT, \"allowed_by_host_policy\")", Expect: "C11.stages/leg/HostForwardTiers"},
	{Name: "pre-DNAT tiers matched on the post-DNAT destination", File: c11File,
		Old: "p.writeTiers(rules.HostPreDnatTiers, legDestPreNAT, \"allowed_by_host_policy\")", New: "p.writeTiers(rules.HostPreDnatTiers, legDest, \"allowed_by_host_policy\")", Expect: "C11.stages/leg/HostPreDnatTiers"},
	{Name: "XDP untracked policy matched on post-NAT fields that XDP never fills in", File: c11File,
		Old: "p.writeTiers(rules.HostNormalTiers, legDestPreNAT, \"allowed_by_host_policy\")", New: "p.writeTiers(rules.HostNormalTiers, legDest, \"allowed_by_host_policy\")", Expect: "C11.stages/leg/HostNormalTiers/xdp"},
	{Name: "workload tiers matched on the pre-DNAT destination", File: c11File,
		Old: "p.writeTiers(rules.Tiers, legDest, \"allow\")", New: "p.writeTiers(rules.Tiers, legDestPreNAT, \"allow\")", Expect: "C11.stages/leg/Tiers"},
	{Name: "apply-on-forward stage renders the pre-DNAT tiers again; HostForwardTiers never enforced", File: c11File,
		Old: "p.writeTiers(rules.HostForwardTiers, legDest,", New: "p.writeTiers(rules.HostPreDnatTiers, legDest,", Expect: "C11.stages/consume/HostForwardTiers"},
	{Name: "host stage renders the workload profiles; HostProfiles never enforced", File: c11File,
		Old: "p.writeProfiles(rules.HostProfiles, rules.NoProfileMatchID,", New: "p.writeProfiles(rules.Profiles, rules.NoProfileMatchID,", Expect: "C11.stages/consume/HostProfiles"},
	{Name: "pre-DNAT tiers rendered a second time behind the to/from-host jump", File: c11File,
		Old: "\tp.writeTiers(rules.HostForwardTiers, legDest, \"allowed_by_host_policy\")\n", New: "\tp.writeTiers(rules.HostPreDnatTiers, legDestPreNAT, \"allowed_by_host_policy\")\n\tp.writeTiers(rules.HostForwardTiers, legDest, \"allowed_by_host_policy\")\n", Expect: "C11.stages/once/HostPreDnatTiers"},
	{Name: "host profiles (with their deny-all) rendered before the normal host tiers", File: c11File,
		Old: "\t\t\tp.writeTiers(rules.HostNormalTiers, legDest, \"allowed_by_host_policy\")\n\t\t\tp.writeProfiles(rules.HostProfiles, rules.NoProfileMatchID, \"allowed_by_host_policy\")\n",
		New: "\t\t\tp.writeProfiles(rules.HostProfiles, rules.NoProfileMatchID, \"allowed_by_host_policy\")\n\t\t\tp.writeTiers(rules.HostNormalTiers, legDest, \"allowed_by_host_policy\")\n", Expect: "C11.stages/order/HostNormalTiers<HostProfiles"},
	{Name: "apply-on-forward allow bypasses workload policy", File: c11File,
		Old: "p.writeTiers(rules.HostForwardTiers, legDest, \"allowed_by_host_policy\")", New: "p.writeTiers(rules.HostForwardTiers, legDest, \"allow\")", Expect: "C11.stages/allow-label/HostForwardTiers"},
	{Name: "workload profiles allow to the host-policy continuation", File: c11File,
		Old: "p.writeProfiles(rules.Profiles, rules.NoProfileMatchID, \"allow\")", New: "p.writeProfiles(rules.Profiles, rules.NoProfileMatchID, \"allowed_by_host_policy\")", Expect: "C11.stages/allow-label/Profiles"},
	{Name: "SuppressNormalHostPolicy also suppresses apply-on-forward policy", File: c11File,
		Old: "\tp.writeTiers(rules.HostForwardTiers, legDest, \"allowed_by_host_policy\")\n", New: "\tif !rules.SuppressNormalHostPolicy {\n\t\tp.writeTiers(rules.HostForwardTiers, legDest, \"allowed_by_host_policy\")\n\t}\n", Expect: "C11.stages/guards/HostForwardTiers"},
	{Name: "forwarded traffic falls through into normal host policy", File: c11File,
		Old: "\tp.b.Jump(\"allowed_by_host_policy\")\n\nnormalPolicy:", New: "\nnormalPolicy:", Expect: "C11.stages/host-skip/exit/HostForwardTiers"},
	{Name: "to/from-host traffic lands behind the normal host tiers", File: c11File,
		Old: "\t\t\tp.writeTiers(rules.HostNormalTiers, legDest, \"allowed_by_host_policy\")\n", New: "\t\t\tp.writeTiers(rules.HostNormalTiers, legDest, \"allowed_by_host_policy\")\n\t\t\tp.b.LabelNextInsn(\"to_or_from_host\")\n", Expect: "C11.stages/host-skip/to_or_from_host/HostNormalTiers"},
	// cmpwidth
	{Name: "IPv6 CIDR per-word early-out uses the sign-extending 64-bit compare: words with bit 31 set never match (seed C11-3)", File: c11File,
		Old: "p.b.JumpNEImm32(asm.R2, int32(addr), p.endOfcidrV6Match(cidrIndex))", New: "p.b.JumpNEImm64(asm.R2, int32(addr), p.endOfcidrV6Match(cidrIndex))", Expect: "C11.cmpwidth/Builder.writeCIDRSMatch/JumpNEImm64(R2)"},
	{Name: "final CIDR word compared with the 64-bit jump: IPv4 CIDRs whose last in-prefix octet is >= 0x80 never match", File: c11File,
		Old: "p.b.JumpEqImm32(asm.R2, int32(lastAddr), onMatchLabel)", New: "p.b.JumpEqImm64(asm.R2, int32(lastAddr), onMatchLabel)", Expect: "C11.cmpwidth/Builder.writeCIDRSMatch/JumpEqImm64(R2)"},
	{Name: "IP set lookup result (a 64-bit map-value pointer) tested with a 32-bit compare: a hit whose address has zero low bits reads as a miss", File: c11File,
		Old: "p.b.JumpEqImm64(asm.R0, 0, p.endOfRuleLabel())", New: "p.b.JumpEqImm32(asm.R0, 0, p.endOfRuleLabel())", Expect: "C11.cmpwidth/Builder.writeIPSetMatch/JumpEqImm32(R0)"},
	// cmpdomain
	{Name: "ICMP type-only match loads type and code as one 16-bit value: only code 0 matches (seed C11-4)", File: c11File,
		Old: "p.b.Load8(asm.R1, asm.R9, stateOffICMPType)", New: "p.b.Load16(asm.R1, asm.R9, stateOffICMPType)", Expect: "C11.cmpdomain/Builder.writeICMPTypeMatch/"},
	{Name: "ICMP type+code match loads only the type byte: rules with a non-zero code never match", File: c11File,
		Old: "p.b.Load16(asm.R1, asm.R9, stateOffICMPType)", New: "p.b.Load8(asm.R1, asm.R9, stateOffICMPType)", Expect: "C11.cmpdomain/Builder.writeICMPTypeCodeMatch/"},
	{Name: "ICMP code shifted past the loaded halfword in the positive type+code match", File: c11File,
		Old: "p.b.JumpNEImm64(asm.R1, (int32(icmpCode)<<8)|int32(icmpType), p.endOfRuleLabel())", New: "p.b.JumpNEImm64(asm.R1, (int32(icmpCode)<<16)|int32(icmpType), p.endOfRuleLabel())", Expect: "C11.cmpdomain/Builder.writeICMPTypeCodeMatch/JumpNEImm64"},
	{Name: "CIDR match loads only half of each address word", File: c11File,
		Old: "p.b.Load32(asm.R1, asm.R9, offset)", New: "p.b.Load16(asm.R1, asm.R9, offset)", Expect: "C11.cmpdomain/Builder.writeCIDRSMatch/"},
	// legflow
	{Name: "writeTiers renders its policies post-DNAT whatever the stage asked for", File: c11File,
		Old: "p.writePolicy(pol, actionLabels, destLeg)", New: "p.writePolicy(pol, actionLabels, legDest)", Expect: "C11.legflow/pass/Builder.writeTiers/writePolicy"},
	{Name: "end-of-tier rule ignores the stage's leg", File: c11File,
		Old: "}, actionLabels[string(action)], destLeg)", New: "}, actionLabels[string(action)], legDestPreNAT)", Expect: "C11.legflow/pass/Builder.writeTiers/writeRule"},
	{Name: "profiles matched on the pre-DNAT destination", File: c11File,
		Old: "p.writePolicyRules(profile, actionLabels, legDest)", New: "p.writePolicyRules(profile, actionLabels, legDestPreNAT)", Expect: "C11.legflow/pass/Builder.writeProfile/writePolicyRules"},
	{Name: "pre-NAT leg reads the post-NAT port", File: c11File,
		Old: "portOffset = stateOffPreNATDstPort", New: "portOffset = stateOffPostNATDstPort", Expect: "C11.legflow/map/matchLeg.offsetToStatePortField/legDestPreNAT"},
	{Name: "post-NAT leg reads the pre-NAT address", File: c11File,
		Old: "offset = stateOffPostNATIPDst", New: "offset = stateOffPreNATIPDst", Expect: "C11.legflow/map/matchLeg.offsetToStateIPAddressField/legDest"},
}

// ------------------------------------------------------------------ stages --

// c11StageSpec is the reference semantics of one policy field of
// polprog.Rules: which packets the stage applies to and which destination it is
// matched on.  The universe (slice-typed fields of Rules) is computed; a field
// without an entry, or an entry without a field, breaks the check.
type c11StageSpec struct {
	host    bool   // host-endpoint policy: an allow continues to the workload policy (if any)
	preDNAT bool   // matched on the packet as it arrived, before DNAT
	xdp     bool   // also rendered into XDP programs (untracked policy), where only the pre-NAT tuple exists
	traffic string // "forwarded" | "local" (to/from this host) | "" (all traffic)
	why     string
}

var c11StageTable = map[string]c11StageSpec{
	"HostPreDnatTiers": {host: true, preDNAT: true,
		why: "pre-DNAT host policy (iptables: mangle/raw PREROUTING, before the service DNAT) sees the original destination of all traffic"},
	"HostForwardTiers": {host: true, traffic: "forwarded",
		why: "apply-on-forward host policy (iptables: filter FORWARD) sees the post-DNAT destination of forwarded traffic only"},
	"HostNormalTiers": {host: true, xdp: true, traffic: "local",
		why: "normal host policy (iptables: filter INPUT/OUTPUT) sees the post-DNAT destination of traffic to/from this host; in an XDP program the same field carries untracked policy, which runs before conntrack/NAT"},
	"HostProfiles": {host: true, traffic: "local",
		why: "host endpoint profiles follow the normal host tiers"},
	"Tiers":    {why: "workload policy sees the post-DNAT destination"},
	"Profiles": {why: "workload profiles follow the workload tiers"},
}

type c11StageSite struct {
	cs     CallSite
	field  string
	spec   c11StageSpec
	tiers  bool
	xdp    int // +1: only when ForXDP, -1: only when !ForXDP, 0: not decided by ForXDP
	id     string
	guards map[string]bool // "<Rules bool field>=<value>" fixed at the site
}

// c11StageBefore: must stage a be emitted (= evaluated) before stage b?
func c11StageBefore(a, b *c11StageSite) (bool, string) {
	switch {
	case a.spec.host && !b.spec.host:
		return true, "host-endpoint policy is evaluated before workload policy (its allow continues into the workload policy)"
	case a.spec.host == b.spec.host && a.spec.preDNAT && !b.spec.preDNAT:
		return true, "pre-DNAT policy is evaluated before every other host policy"
	case a.spec.host == b.spec.host && a.tiers && !b.tiers && !a.spec.preDNAT && a.spec.traffic == b.spec.traffic:
		return true, "profiles are only consulted when no tier made a decision, and end with a deny-all"
	}
	return false, ""
}

func c11Stages(c *Ctx, m *c11Model, ft *c11Footer) map[ssa.Instruction]*c11StageSite {
	p := m.p
	rulesT := c11NamedOf(c, p.LookupObj(c11PolPkg, "Rules"), "polprog.Rules")
	st, _ := rulesT.Underlying().(*types.Struct)
	if st == nil {
		c.Lost("polprog.Rules is not a struct")
	}
	entry := m.fn(c11PolPkg, "Builder.Instructions")
	legName := func(v ssa.Value) (string, bool) {
		cv, ok := constOf(v)
		if !ok || !types.Identical(types.Unalias(v.Type()), m.legT) {
			return path(v), false
		}
		for _, n := range m.legConstNames() {
			if c11PkgConst(c, p, c11PolPkg, n).ExactString() == cv.ExactString() {
				return n, true
			}
		}
		return cv.ExactString(), false
	}

	// universe: slice-typed fields are the policy stages, bool fields the mode flags
	policyField := map[string]bool{}
	tiersField := map[string]bool{}
	boolVars := map[string]*types.Var{}
	for i := 0; i < st.NumFields(); i++ {
		f := st.Field(i)
		switch u := f.Type().Underlying().(type) {
		case *types.Slice:
			policyField[f.Name()] = true
			tiersField[f.Name()] = namedTypeName(u.Elem()) == "Tier"
			if _, ok := c11StageTable[f.Name()]; !ok {
				c.Lost("polprog.Rules.%s is a policy field without an entry in the C11 stage table: say which traffic it applies to and on which destination it matches", f.Name())
			}
		case *types.Basic:
			if u.Kind() == types.Bool {
				boolVars[f.Name()] = f
			}
		}
	}
	for n := range c11StageTable {
		if !policyField[n] {
			c.Lost("C11 stage table entry %s is not a slice-typed field of polprog.Rules", n)
		}
	}
	for _, n := range []string{"ForXDP", "ForHostInterface", "SuppressNormalHostPolicy"} {
		if boolVars[n] == nil {
			c.Lost("polprog.Rules.%s (bool)", n)
		}
	}

	// Builder fields that only ever hold a copy of Rules.ForXDP are aliases of it.
	xdpAlias := map[*types.Var]bool{}
	notAlias := map[*types.Var]bool{}
	for _, f := range m.polFuncs() {
		allInstrs(f, false, func(_ *ssa.Function, in ssa.Instruction) {
			s, ok := in.(*ssa.Store)
			if !ok {
				return
			}
			fa, ok := s.Addr.(*ssa.FieldAddr)
			if !ok || !types.Identical(types.Unalias(derefType(fa.X.Type())), m.builderT) {
				return
			}
			fv := structField(fa.X.Type(), fa.Field)
			if _, isLoad := s.Val.(*ssa.UnOp); isLoad && fieldVar(s.Val) == boolVars["ForXDP"] {
				xdpAlias[fv] = true
			} else {
				notAlias[fv] = true
			}
		})
	}
	isAlias := func(v ssa.Value) bool {
		fv := fieldVar(v)
		return fv != nil && xdpAlias[fv] && !notAlias[fv]
	}
	boolPred := func(name string) func(bool) EdgePred {
		return func(want bool) EdgePred {
			if name == "ForXDP" {
				return c11BoolFieldPred(boolVars[name], want, isAlias)
			}
			return c11BoolFieldPred(boolVars[name], want, nil)
		}
	}
	guardsAt := func(in ssa.Instruction) map[string]bool {
		g := map[string]bool{}
		for _, n := range sortedKeys(boolVars) {
			switch c11TriState(in, boolPred(n)) {
			case +1:
				g[n+"=true"] = true
			case -1:
				g[n+"=false"] = true
			}
		}
		return g
	}
	contradict := func(a, b map[string]bool) bool {
		for n := range boolVars {
			if (a[n+"=true"] && b[n+"=false"]) || (a[n+"=false"] && b[n+"=true"]) {
				return true
			}
		}
		return false
	}

	// ---- stage sites: calls (in the closure of Instructions) that receive a policy field
	reach := p.closure(entry)
	var fns []*ssa.Function
	for f := range reach {
		if f.Blocks != nil && m.inPolFn(f) {
			fns = append(fns, f)
		}
	}
	sort.Slice(fns, func(i, j int) bool { return fns[i].Pos() < fns[j].Pos() })
	var sites []*c11StageSite
	byInstr := map[ssa.Instruction]*c11StageSite{}
	handed := map[ssa.Value]bool{}
	for _, f := range fns {
		for _, cs := range callsIn(f, false, m.inPol) {
			for i, a := range cs.Args() {
				var flds []c11FieldSrc
				for _, fs := range c11FieldsOfType(a, rulesT) {
					if policyField[fs.Field] {
						flds = append(flds, fs)
					}
				}
				if len(flds) == 0 {
					continue
				}
				where := p.Pos(cs.Instr.Pos())
				if len(flds) > 1 || byInstr[cs.Instr] != nil {
					c.Undecided("C11.stages/source/"+fnName(f)+"/"+cs.Callee.Name(), where, "argument %d of %s mixes several policy fields of polprog.Rules: a stage must render exactly one field", i, cs.Callee.Name())
					continue
				}
				handed[flds[0].Acc] = true
				s := &c11StageSite{cs: cs, field: flds[0].Field, spec: c11StageTable[flds[0].Field], tiers: tiersField[flds[0].Field]}
				s.xdp = c11TriState(cs.Instr, boolPred("ForXDP"))
				s.guards = guardsAt(cs.Instr)
				s.id = s.field
				if s.xdp > 0 {
					s.id += "/xdp"
				}
				sites = append(sites, s)
				byInstr[cs.Instr] = s
			}
		}
	}
	if len(sites) == 0 {
		c.Lost("no call in the closure of Builder.Instructions receives a policy field of polprog.Rules")
	}
	sitesOf := map[string][]*c11StageSite{}
	for _, s := range sites {
		sitesOf[s.field] = append(sitesOf[s.field], s)
	}

	// ---- consume: every field of Rules is used; policy fields only by being handed to a stage
	reads := fieldsRead(reach, rulesT)
	for i := 0; i < st.NumFields(); i++ {
		f := st.Field(i)
		key := "C11.stages/consume/" + f.Name()
		where := p.Pos(entry.Pos())
		if !policyField[f.Name()] {
			c.Check(len(reads[f.Name()]) > 0, key, where, "read while building the program",
				"polprog.Rules."+f.Name()+" is never read in the closure of Builder.Instructions: the dataplane sets it but the program ignores it")
			continue
		}
		var stray []string
		for _, in := range reads[f.Name()] {
			if v, ok := in.(ssa.Value); ok && !handed[v] {
				stray = append(stray, p.Pos(in.Pos()))
			}
		}
		switch {
		case len(sitesOf[f.Name()]) == 0:
			c.Violate(key, where, "policy field polprog.Rules.%s is not handed to any stage (writeTiers/writeProfiles) in the closure of Builder.Instructions: that policy is silently not enforced (%s)", f.Name(), c11StageTable[f.Name()].why)
		case len(stray) > 0:
			c.Undecided(key, stray[0], "polprog.Rules.%s is also read without being handed directly to a stage function; the stage table cannot follow it", f.Name())
		default:
			var callees []string
			for _, s := range sitesOf[f.Name()] {
				callees = append(callees, s.cs.Callee.Name())
			}
			c.Ok(key, p.Pos(sitesOf[f.Name()][0].cs.Instr.Pos()), "rendered by %v", callees)
		}
	}

	// ---- once: a field is rendered at most once on any path
	for _, n := range sortedKeys(sitesOf) {
		ss := sitesOf[n]
		bad := ""
		for i, a := range ss {
			for _, b := range ss[i+1:] {
				if a.cs.Fn != b.cs.Fn {
					bad = "rendered in two different functions (" + fnName(a.cs.Fn) + ", " + fnName(b.cs.Fn) + ")"
				} else if instrReaches(a.cs.Instr, b.cs.Instr) || instrReaches(b.cs.Instr, a.cs.Instr) {
					bad = "rendered twice on one path (" + p.Pos(a.cs.Instr.Pos()) + " and " + p.Pos(b.cs.Instr.Pos()) + ")"
				}
			}
		}
		c.Check(bad == "", "C11.stages/once/"+n, p.Pos(ss[0].cs.Instr.Pos()),
			fmt.Sprintf("%d site(s), mutually exclusive", len(ss)), "polprog.Rules."+n+" is "+bad+": its tiers would be evaluated twice, with the second copy seeing only what the first passed")
	}

	// ---- leg: the destination each stage matches on
	for _, s := range sites {
		where := p.Pos(s.cs.Instr.Pos())
		legArgs := c11ArgByType(s.cs, c11IsNamed(m.legT))
		if len(legArgs) == 0 {
			// the callee fixes the leg itself: decided by C11.legflow for the functions it reaches
			continue
		}
		if len(legArgs) > 1 {
			c.Undecided("C11.stages/leg/"+s.id, where, "%s takes %d leg parameters", s.cs.Callee.Name(), len(legArgs))
			continue
		}
		for _, vc := range c11CasesOf(legArgs[0]) {
			state := s.xdp
			if vc.Pred != nil {
				state = c11EdgeTriState(vc.Pred, vc.Succ, boolPred("ForXDP"))
			}
			key := "C11.stages/leg/" + s.field
			switch {
			case state > 0:
				key += "/xdp"
			case state < 0 || !s.spec.xdp:
				key += "/tc"
			default:
				key += "/any"
			}
			got, ok := legName(vc.V)
			if !ok {
				c.Undecided(key, where, "the leg argument of %s for polprog.Rules.%s is %s, not one of the matchLeg constants", s.cs.Callee.Name(), s.field, got)
				continue
			}
			want, because := "", ""
			switch {
			case s.spec.preDNAT:
				want, because = "legDestPreNAT", s.spec.why
			case state > 0:
				want, because = "legDestPreNAT", "an XDP program runs before conntrack/NAT: only the pre-NAT destination exists"
			case state < 0 || !s.spec.xdp:
				want, because = "legDest", s.spec.why
			default:
				c.Violate(key, where, "%s(rules.%s, %s, …) is emitted for TC and XDP programs alike, but the field is matched post-DNAT in TC programs and pre-NAT in XDP programs: the leg must be selected by ForXDP (%s)", s.cs.Callee.Name(), s.field, got, s.spec.why)
				continue
			}
			c.Check(got == want, key, where,
				fmt.Sprintf("%s(rules.%s, %s, …)", s.cs.Callee.Name(), s.field, got),
				fmt.Sprintf("%s(rules.%s, %s, …): this stage must match destinations with %s, not %s — %s", s.cs.Callee.Name(), s.field, got, want, got, because))
		}
	}

	// ---- guards: which mode flags may decide whether a stage is rendered
	for _, s := range sites {
		where := p.Pos(s.cs.Instr.Pos())
		var bad []string
		undecided := ""
		for _, g := range sortedKeys(s.guards) {
			switch g {
			case "ForXDP=false":
			case "ForXDP=true":
				if !s.spec.xdp {
					bad = append(bad, "rendered only for XDP programs, where this field is unused; TC programs lose the policy")
				}
			case "ForHostInterface=false":
				if s.spec.host {
					bad = append(bad, "host-endpoint policy is skipped on host interfaces")
				}
			case "ForHostInterface=true":
				if s.spec.host {
					bad = append(bad, "host-endpoint policy (host-*) is skipped on workload interfaces")
				} else {
					bad = append(bad, "workload policy is rendered only for host interfaces")
				}
			case "SuppressNormalHostPolicy=false":
				if s.spec.traffic != "local" {
					bad = append(bad, "SuppressNormalHostPolicy also suppresses this stage; it may only suppress normal (to/from-host) host policy")
				}
			case "SuppressNormalHostPolicy=true":
				bad = append(bad, "rendered only when SuppressNormalHostPolicy is set")
			default:
				undecided = "stage is conditional on " + g + ", a mode flag the C11 stage table does not know"
			}
		}
		if !s.spec.host && !s.guards["ForHostInterface=false"] {
			bad = append(bad, "workload policy (with its default deny) is not conditional on !ForHostInterface: a host interface, which has no workload policy, would deny everything its host policy allowed")
		}
		key := "C11.stages/guards/" + s.id
		switch {
		case len(bad) > 0:
			c.Violate(key, where, "stage %s(rules.%s) under %v: %s", s.cs.Callee.Name(), s.field, sortedKeys(s.guards), strings.Join(bad, "; "))
		case undecided != "":
			c.Undecided(key, where, "%s", undecided)
		default:
			c.Ok(key, where, "rendered under %v", sortedKeys(s.guards))
		}
	}

	// ---- order
	for _, a := range sites {
		for _, b := range sites {
			must, why := c11StageBefore(a, b)
			if !must {
				continue
			}
			key := "C11.stages/order/" + a.id + "<" + b.id
			where := p.Pos(b.cs.Instr.Pos())
			if a.cs.Fn != b.cs.Fn {
				c.Undecided(key, where, "stages are rendered by different functions (%s, %s)", fnName(a.cs.Fn), fnName(b.cs.Fn))
				continue
			}
			c.Check(!instrReaches(b.cs.Instr, a.cs.Instr), key, where, "never emitted in the opposite order",
				fmt.Sprintf("rules.%s is rendered before rules.%s on some path: %s", b.field, a.field, why))
		}
	}

	// ---- allow label: host stages continue to the workload policy, workload stages exit with allow
	emsOf := map[*ssa.Function][]c11Emission{}
	ems := func(f *ssa.Function) []c11Emission {
		if _, ok := emsOf[f]; !ok {
			emsOf[f] = m.emissionsIn(f)
		}
		return emsOf[f]
	}
	labelEms := func(f *ssa.Function, l string) []c11Emission {
		var out []c11Emission
		for _, e := range ems(f) {
			if s, ok := e.labelConst(); ok && s == l {
				out = append(out, e)
			}
		}
		return out
	}
	exitLabel := map[string]bool{}
	for _, l := range ft.labelOf {
		exitLabel[l] = true
	}
	for _, s := range sites {
		where := p.Pos(s.cs.Instr.Pos())
		key := "C11.stages/allow-label/" + s.id
		strArgs := c11ArgByType(s.cs, c11IsString)
		if len(strArgs) != 1 {
			c.Undecided(key, where, "%s takes %d string parameters; cannot tell which is the allow label", s.cs.Callee.Name(), len(strArgs))
			continue
		}
		l, ok := c11ConstString(strArgs[0])
		if !ok {
			c.Undecided(key, where, "allow label of stage %s is not a constant (%s)", s.id, path(strArgs[0]))
			continue
		}
		if !s.spec.host {
			c.Check(l == ft.labelOf["allow"], key, where, fmt.Sprintf("workload stage allows to the %q exit section", l),
				fmt.Sprintf("workload stage %s(rules.%s) sends allowed packets to %q, not to the allow exit section %q", s.cs.Callee.Name(), s.field, l, ft.labelOf["allow"]))
			continue
		}
		var bad []string
		if exitLabel[l] {
			bad = append(bad, fmt.Sprintf("host stage sends allowed packets straight to the %q exit section: the workload policy that follows is bypassed", l))
		} else {
			ls := labelEms(s.cs.Fn, l)
			if len(ls) == 0 {
				bad = append(bad, fmt.Sprintf("label %q is not placed in %s", l, fnName(s.cs.Fn)))
			}
			for _, le := range ls {
				for _, o := range sites {
					if o.cs.Fn != s.cs.Fn {
						continue
					}
					if o.spec.host && instrReaches(le.cs.Instr, o.cs.Instr) {
						bad = append(bad, fmt.Sprintf("label %q is placed before host stage rules.%s: an allow would re-enter host policy", l, o.field))
					}
					if !o.spec.host && instrReaches(o.cs.Instr, le.cs.Instr) {
						bad = append(bad, fmt.Sprintf("label %q is placed after workload stage rules.%s: an allow by host policy skips workload policy", l, o.field))
					}
				}
			}
		}
		c.Check(len(bad) == 0, key, where, fmt.Sprintf("host stage allows to %q, placed after all host stages and before the workload stages", l), strings.Join(bad, "; "))
	}

	// ---- host-skip: to/from-host traffic skips exactly the forwarded-traffic stages
	skip := m.fn(c11PolPkg, "Builder.writeJumpIfToOrFromHost")
	stageFns := map[*ssa.Function]bool{}
	for _, s := range sites {
		stageFns[s.cs.Fn] = true
	}
	nSkip := 0
	for _, f := range fns {
		if !stageFns[f] {
			continue
		}
		for _, j := range ems(f) {
			if calleeFn(j.cs.Common()) != skip {
				continue
			}
			nSkip++
			where := p.Pos(j.cs.Instr.Pos())
			strArgs := c11ArgByType(j.cs, c11IsString)
			l, ok := "", false
			if len(strArgs) == 1 {
				l, ok = c11ConstString(strArgs[0])
			}
			if !ok {
				c.Undecided("C11.stages/host-skip/"+fnName(f), where, "target label of writeJumpIfToOrFromHost is not a constant")
				continue
			}
			jg := guardsAt(j.cs.Instr)
			ls := labelEms(f, l)
			for _, s := range sites {
				if s.cs.Fn != f || !s.spec.host || contradict(jg, s.guards) {
					continue
				}
				key := "C11.stages/host-skip/" + l + "/" + s.id
				switch {
				case s.spec.traffic == "":
					c.Check(!instrReaches(j.cs.Instr, s.cs.Instr), key, where,
						"rendered before the to/from-host jump: applies to all traffic",
						fmt.Sprintf("rules.%s is rendered after writeJumpIfToOrFromHost(%q): traffic to/from the host skips it, but it applies to all traffic (%s)", s.field, l, s.spec.why))
				case s.spec.traffic == "forwarded":
					okBetween := instrReaches(j.cs.Instr, s.cs.Instr) && len(ls) > 0
					for _, le := range ls {
						if !instrReaches(s.cs.Instr, le.cs.Instr) || instrReaches(le.cs.Instr, s.cs.Instr) {
							okBetween = false
						}
					}
					c.Check(okBetween, key, where,
						fmt.Sprintf("rendered between the to/from-host jump and its target %q", l),
						fmt.Sprintf("rules.%s is not rendered between writeJumpIfToOrFromHost(%q) and the label %q: traffic to/from the host would be subjected to apply-on-forward policy (or forwarded traffic would miss it)", s.field, l, l))
				case s.spec.traffic == "local":
					okAfter := len(ls) > 0
					for _, le := range ls {
						if instrReaches(s.cs.Instr, le.cs.Instr) || !instrReaches(le.cs.Instr, s.cs.Instr) {
							okAfter = false
						}
					}
					c.Check(okAfter, key, where,
						fmt.Sprintf("rendered after the to/from-host target %q", l),
						fmt.Sprintf("rules.%s is not rendered after the label %q that writeJumpIfToOrFromHost jumps to: traffic to/from the host skips (part of) its normal host policy", s.field, l))
				}
			}
		}
	}
	// forwarded traffic never falls through into the to/from-host stages
	for _, a := range sites {
		if a.spec.traffic != "forwarded" {
			continue
		}
		if nSkip == 0 {
			c.Violate("C11.stages/host-skip/"+a.id, p.Pos(a.cs.Instr.Pos()), "rules.%s applies to forwarded traffic only, but no writeJumpIfToOrFromHost is emitted in %s", a.field, fnName(a.cs.Fn))
		}
		isJump := map[ssa.Instruction]bool{}
		for _, e := range ems(a.cs.Fn) {
			if e.is("Jump") {
				isJump[e.cs.Instr] = true
			}
		}
		for _, b := range sites {
			if b.spec.traffic != "local" || b.cs.Fn != a.cs.Fn || contradict(a.guards, b.guards) {
				continue
			}
			falls := c11PathAvoiding(a.cs.Instr, b.cs.Instr, func(in ssa.Instruction) bool { return isJump[in] })
			c.Check(!falls, "C11.stages/host-skip/exit/"+a.id+">"+b.id, p.Pos(a.cs.Instr.Pos()),
				"an unconditional jump is emitted between the forwarded-traffic stage and the to/from-host stage",
				fmt.Sprintf("no unconditional Jump is emitted on some path from rules.%s to rules.%s: forwarded traffic that apply-on-forward policy passes (or that has none) falls into the normal host policy and its default deny", a.field, b.field))
		}
	}
	return byInstr
}

func (m *c11Model) legConstNames() []string {
	var out []string
	sc := m.p.Pkg(c11PolPkg).Types.Scope()
	for _, n := range sc.Names() {
		if k, ok := sc.Lookup(n).(*types.Const); ok && types.Identical(types.Unalias(k.Type()), m.legT) {
			out = append(out, n)
		}
	}
	if len(out) < 3 {
		m.c.Lost("matchLeg constants: %v", out)
	}
	return out
}

// ----------------------------------------------------------------- legflow --

// c11LegFlow: (pass) between the stage call and writeRule the destination leg
// is handed down unchanged; a function without a leg parameter may only fix the
// leg that every stage reaching it expects.  (map) each matchLeg constant
// selects its own cali_tc_state field.
func c11LegFlow(c *Ctx, m *c11Model, stageSites map[ssa.Instruction]*c11StageSite) {
	p := m.p
	writeRule := m.fn(c11PolPkg, "Builder.writeRule")
	legParams := func(f *ssa.Function) []*ssa.Parameter {
		var out []*ssa.Parameter
		for _, q := range f.Params {
			if types.Identical(types.Unalias(q.Type()), m.legT) {
				out = append(out, q)
			}
		}
		return out
	}
	closures := map[*ssa.Function]map[*ssa.Function]bool{}
	closureOf := func(f *ssa.Function) map[*ssa.Function]bool {
		if closures[f] == nil {
			closures[f] = p.closure(f)
		}
		return closures[f]
	}
	isChain := func(f *ssa.Function) bool {
		return f != nil && f.Blocks != nil && m.inPolFn(f) && len(legParams(f)) > 0 && (f == writeRule || closureOf(f)[writeRule])
	}
	legConstName := func(v ssa.Value) string {
		cv, ok := constOf(v)
		if !ok {
			return ""
		}
		for _, n := range m.legConstNames() {
			if c11PkgConst(c, p, c11PolPkg, n).ExactString() == cv.ExactString() {
				return n
			}
		}
		return ""
	}
	n := 0
	for _, f := range m.polFuncs() {
		for _, cs := range callsIn(f, false, m.inPol) {
			g := calleeFn(cs.Common())
			if !isChain(g) || stageSites[cs.Instr] != nil {
				continue
			}
			n++
			key := "C11.legflow/pass/" + fnName(f) + "/" + cs.Callee.Name()
			where := p.Pos(cs.Instr.Pos())
			legArgs := c11ArgByType(cs, c11IsNamed(m.legT))
			if len(legArgs) != 1 || len(legParams(f)) > 1 {
				c.Undecided(key, where, "%d leg arguments, caller has %d leg parameters", len(legArgs), len(legParams(f)))
				continue
			}
			os := origins(legArgs[0], nil)
			if own := legParams(f); len(own) == 1 {
				ok := len(os) > 0
				for _, o := range os {
					if o.V != ssa.Value(own[0]) {
						ok = false
					}
				}
				c.Check(ok, key, where, "passes its own destination-leg parameter on",
					fmt.Sprintf("%s calls %s with leg %s instead of its own %s parameter: the stage's choice of pre-/post-DNAT destination is lost on the way to writeRule", fnName(f), cs.Callee.Name(), path(legArgs[0]), own[0].Name()))
				continue
			}
			// caller fixes the leg: what do the stages that reach it expect?
			want := map[string][]string{}
			for _, s := range stageSites {
				sf := calleeFn(s.cs.Common())
				if sf == nil || !(sf == f || closureOf(sf)[f]) {
					continue
				}
				if s.spec.preDNAT || s.spec.xdp {
					want["legDestPreNAT"] = append(want["legDestPreNAT"], s.field)
				}
				if !s.spec.preDNAT {
					want["legDest"] = append(want["legDest"], s.field)
				}
			}
			for k := range want {
				sort.Strings(want[k])
			}
			got := ""
			if len(os) == 1 {
				got = legConstName(os[0].V)
			}
			switch {
			case len(want) == 0:
				c.Undecided(key, where, "%s fixes the destination leg but is not reached from any stage of Builder.Instructions", fnName(f))
			case got == "":
				c.Violate(key, where, "%s has no leg parameter and calls %s with leg %s, which is not a single matchLeg constant", fnName(f), cs.Callee.Name(), path(legArgs[0]))
			case len(want) > 1:
				c.Violate(key, where, "%s hard-codes %s but renders stages with different destinations (%v): it needs a leg parameter", fnName(f), got, want)
			default:
				c.Check(len(want[got]) > 0, key, where,
					fmt.Sprintf("fixes %s, the destination of every stage that reaches it (%v)", got, want[got]),
					fmt.Sprintf("%s calls %s with %s, but the stages it renders (%v) match on %v", fnName(f), cs.Callee.Name(), got, want, sortedKeys(want)))
			}
		}
	}
	if n == 0 {
		c.Lost("no call hands a destination leg down towards Builder.writeRule")
	}

	// (map) leg constant -> cali_tc_state field
	rows := map[string]map[string]string{
		"address": {"legSource": "state->ip_src", "legDestPreNAT": "state->pre_nat_ip_dst", "legDest": "state->post_nat_ip_dst"},
		"port":    {"legSource": "state->sport", "legDestPreNAT": "state->pre_nat_dport", "legDest": "state->post_nat_dport"},
	}
	offs := m.fieldOffsetStrings()
	legs := m.legConstNames()
	legVal := map[string]string{}
	for _, l := range legs {
		legVal[constant.StringVal(c11PkgConst(c, p, c11PolPkg, l))] = l
		for r := range rows {
			if rows[r][l] == "" {
				c.Lost("matchLeg constant %s has no expected state field in the C11 leg table", l)
			}
		}
	}
	seenRow := map[string]bool{}
	for _, f := range p.methodsOf(c11PolPkg, "matchLeg") {
		res := f.Signature.Results()
		if res.Len() != 1 || namedTypeName(res.At(0).Type()) != "FieldOffset" {
			continue
		}
		where := p.Pos(f.Pos())
		recv := ssa.Value(f.Params[0])
		sel := map[string]map[string]bool{}
		undecided := ""
		for _, r := range returnsOf(f) {
			for _, vc := range c11CasesOf(r.Results[0]) {
				g := c11GlobalOf(vc.V)
				if g == nil || offs[g] == "" {
					undecided = "returns " + path(vc.V) + ", not a package-level asm.FieldOffset with a Field string"
					continue
				}
				pred, succ := vc.Pred, vc.Succ
				if pred == nil {
					pred = r.Block()
				}
				is, not := c11EqFacts(pred, succ, recv)
				var which []string
				if len(is) > 0 {
					for _, s := range is {
						which = append(which, legVal[s])
					}
				} else {
					excl := map[string]bool{}
					for _, s := range not {
						excl[legVal[s]] = true
					}
					for _, l := range legs {
						if !excl[l] {
							which = append(which, l)
						}
					}
				}
				for _, l := range which {
					if sel[l] == nil {
						sel[l] = map[string]bool{}
					}
					sel[l][offs[g]] = true
				}
			}
		}
		row := ""
		for r, exp := range rows {
			if sel["legSource"][exp["legSource"]] {
				row = r
			}
		}
		if undecided != "" || row == "" {
			if undecided == "" {
				undecided = fmt.Sprintf("legSource selects %v, which is neither the source address nor the source port", sortedKeys(sel["legSource"]))
			}
			c.Undecided("C11.legflow/map/"+fnName(f), where, "%s", undecided)
			continue
		}
		seenRow[row] = true
		for _, l := range legs {
			got := sortedKeys(sel[l])
			c.Check(len(got) == 1 && got[0] == rows[row][l], "C11.legflow/map/"+fnName(f)+"/"+l, where,
				fmt.Sprintf("%s -> %s", l, rows[row][l]),
				fmt.Sprintf("%s: %s selects %v; the %s of that leg is %s", fnName(f), l, got, row, rows[row][l]))
		}
	}
	for _, r := range sortedKeys(rows) {
		if !seenRow[r] {
			c.Lost("no method of matchLeg maps the leg to the %s field of cali_tc_state", r)
		}
	}
}
