package main

import (
	"fmt"
	"go/constant"
	"go/token"
	"go/types"
	"reflect"
	"sort"
	"strconv"
	"strings"

	"golang.org/x/tools/go/ssa"
)

const (
	c28ConfdPkg = "confd/pkg/backends/calico"
	c28DpPkg    = "felix/dataplane/linux"
	c28DrvPkg   = "felix/dataplane"
	c28EncapPkg = "libcalico-go/lib/backend/encap"
	c28OwnPkg   = "felix/routetable/ownershippol"
)

func init() {
	const bp = "confd/pkg/backends/calico/bgp_processor.go"
	const cp = "felix/config/config_params.go"
	const rm = "felix/dataplane/linux/route_mgr.go"
	const cl = "confd/pkg/backends/calico/client.go"
	register(&Property{
		ID:        "C28",
		Title:     "Exactly one component programs each IP pool's cluster routes",
		Technique: "static analysis: finite evaluation (partial evaluator over go/ast + go/types) of both components' decision functions over the whole setting x pool-mode space, plus SSA guard/dominance analysis of the wiring sites, of the route manager's retract-before-file discipline and of the revision tag of confd's config cache, deletion-specialised CFG reachability of the cached BGPConfiguration's store",
		DesignRef: "DESIGN.md §3 C28",
		Explanation: "Decides the property on the finite configuration space by evaluating the source of the decision functions symbolically, never running them: " +
			"(tables) Config.ProgramIPIPClusterRoutes/ProgramNoEncapClusterRoutes over every value Felix's resolver can yield for ProgramClusterRoutes (the oneof options of the struct tag; the tag default for absent and, the parameter not being die-on-fail, for unrecognised) and clusterRoutePolicyFromBGPConfig over {nil config, nil field, the four values, one symbolic unrecognised value} equal the documented meaning of each value and the documented defaults, and both sides recognise exactly the same four spellings; " +
			"(pair) for the four supported pairings and for every absent/unrecognised combination Felix XOR BIRD holds per pool class; " +
			"(pool) clusterRoutePolicy.programsPool and the kernel-filter action chosen by processIPPool (accept = BIRD programs) over {Never,Always,CrossSubnet}^2 pool modes x all policies x DisableBGPExport x IP version: VXLAN pools are never BIRD's, IPIP pools follow policy.ipip, unencapsulated pools policy.noEncap; " +
			"(exactlyone) combining the two: for each supported pairing and pool class, BIRD's kernel filter accepts iff Felix's accessor for the class is false, and VXLAN is always rejected; " +
			"(wiring) Felix hands the two accessors unswapped to the dataplane config, creates noEncap managers, feeds the IPIP route manager and reports NoEncapNeeded only under the matching flag, and confd adds tunl0 to the iBGP tunnel-route reject only when BIRD does not own IPIP; the calculation graph always builds the L3 route resolver when Felix owns IPIP routes of an IPIP-enabled cluster or NoEncapNeeded holds; Felix claims BIRD's routes through the IPIP device (OwnBIRDIPIPRoutes) only under ProgramIPIPClusterRoutes; every processIPPool call gets the policy computed by clusterRoutePolicyFromBGPConfig from a (non-constant) BGPConfiguration; " +
			"(retract) run-time change of a pool's class: the route manager shared by the IPIP, VXLAN and no-encap managers handles a RouteUpdate/RouteRemove by first forgetting what it held for the destination - the retraction deletes from every map the handler files routes in, dominates every insert, and is reached under conditions that read nothing of the message but Dst (so not the pool type of the NEW route); " +
			"(revision) the revision stored with confd's cached BIRD config is a GetCurrentRevision() reading that dominates every other use of the client in the computing function, so a result computed from older inputs is never cached under a newer revision. " +
			"(cache) the BGPConfiguration that clusterRoutePolicyFromBGPConfig receives is followed back (fields, getters, parameters) to the client field that caches it; every syncer callback that reads KVPair.Value and can store into that field must still be able to reach the store when the update is a deletion - the CFG is specialised to Value == nil / failed type assertions of the value / UpdateType == UpdateTypeKVDeleted, nil-ness is propagated into callee parameters - so 'the resource is absent' is seen by BIRD's side as the default and not as the last value; " +
			"(value) Felix's half of 'unrecognised = default' inside Config.resolve (C27's value family armed under C28): the value written after a failed, non-fatal Parse is Metadata.Default. " +
			"Anything outside the evaluator's fragment is reported undecided (exit 2), never as a pass.",
		NotDecided: "That the value stored into the cached BGPConfiguration on the deletion path is nil or an empty resource (only that the store is reachable); other confd state derived from the BGPConfiguration (v1 key/value pairs, mesh password, service advertisement); staleness of the IP pool entries of the generic key/value cache; that Felix's calculation graph and route managers, given the flags, program exactly the pools of the class (L3RouteResolver, noEncapManager, ipipManager internals, beyond the retract-first discipline of routeManager.OnUpdate); that the calculation graph re-emits a RouteUpdate for every destination of a pool whose mode changed; atomicity of confd's cache reads against concurrent syncer updates beyond the order of the revision sample; the BIRD template that renders the filter statements; 'none' as a raw Felix value (zero value \"\" = Disabled semantics); inconsistent (unsupported) pairings, which the product does not reject.",
		Assumptions: []string{
			"go/types + go/ast model of the current source; the evaluator's fragment semantics (if/switch/return, == != && || !, constants, struct literals, inlined calls)",
			"C27: Felix resolves an absent value to the tag default and a valid oneof value to the canonical option spelling (OneofListParam.Parse); that an invalid non-fatal value gets the tag default is decided here (C28.value) up to C27's precedence rules",
			"a deletion reaches confd's syncer callback as an api.Update with KVPair.Value == nil and UpdateType == UpdateTypeKVDeleted (syncer API contract)",
			"the meaning table of DESIGN.md (design/cluster-route-programming) §1: Disabled=-/-, EnabledIPIPOnly=ipip, EnabledNoEncapOnly=noEncap, Enabled=both; defaults Felix EnabledIPIPOnly, BGP EnabledNoEncapOnly",
			"emitFilterStatementForIPPools' third argument is the BIRD action (accept: BIRD installs the route; reject: it does not)",
			"logrus calls have no effect",
		},
		Run: runC28,
		Fixtures: []Fixture{
			{Name: "BIRD default flipped to own everything (pre-v3.33 default) while Felix default stays", File: bp,
				Old: "defaultPolicy := clusterRoutePolicy{ipip: false, noEncap: true}", New: "defaultPolicy := clusterRoutePolicy{ipip: true, noEncap: true}",
				Expect: "C28.pair/felix=absent+bird=absent"},
			{Name: "BIRD treats an unrecognised value as Disabled instead of the default", File: bp,
				Old: "\t\t\t*cfg.Spec.ProgramClusterRoutes)\n\t\treturn defaultPolicy\n", New: "\t\t\t*cfg.Spec.ProgramClusterRoutes)\n\t\treturn clusterRoutePolicy{}\n",
				Expect: "C28.tables/bird/unrecognised"},
			{Name: "BIRD swaps the meaning of the two single-class values", File: bp,
				Old: "\tcase v3.EnabledIPIPOnly:\n\t\treturn clusterRoutePolicy{ipip: true, noEncap: false}", New: "\tcase v3.EnabledIPIPOnly:\n\t\treturn clusterRoutePolicy{ipip: false, noEncap: true}",
				Expect: "C28.tables/bird/EnabledIPIPOnly"},
			{Name: "Felix accessor forgets the single-class value", File: cp,
				Old: "return config.ProgramClusterRoutes == v3.Enabled || config.ProgramClusterRoutes == v3.EnabledNoEncapOnly", New: "return config.ProgramClusterRoutes == v3.Enabled",
				Expect: "C28.tables/felix/EnabledNoEncapOnly"},
			{Name: "Felix option spelt differently from the API constant", File: cp,
				Old: "oneof(Enabled,Disabled,EnabledIPIPOnly,EnabledNoEncapOnly);EnabledIPIPOnly", New: "oneof(Enabled,Disabled,EnabledIpipOnly,EnabledNoEncapOnly);EnabledIpipOnly",
				Expect: "C28.tables/values"},
			{Name: "Felix dies on an unrecognised value", File: cp,
				Old: "oneof(Enabled,Disabled,EnabledIPIPOnly,EnabledNoEncapOnly);EnabledIPIPOnly\"", New: "oneof(Enabled,Disabled,EnabledIPIPOnly,EnabledNoEncapOnly);EnabledIPIPOnly;die-on-fail\"",
				Expect: "C28.tables/felix/unrecognised"},
			{Name: "programsPool lets BIRD program VXLAN pools", File: bp,
				Old: "\tif poolUsesVXLAN(ippool) {\n\t\treturn false\n\t}\n\tif poolUsesIPIP(ippool) {", New: "\tif poolUsesIPIP(ippool) {",
				Expect: "C28.pool/programsPool"},
			{Name: "kernel filter accepts VXLAN pools", File: bp,
				Old: "return emitFilterStatementForIPPools(cidr, \"\", \"reject\", filterAction, \"VXLAN routes are handled by Felix.\")", New: "return emitFilterStatementForIPPools(cidr, \"\", \"accept\", filterAction, \"VXLAN routes are handled by Felix.\")",
				Expect: "C28.pool/kernel-filter"},
			{Name: "kernel filter ignores the policy", File: bp,
				Old: "\tif policy.programsPool(ippool) {\n\t\tvar extraStatement string", New: "\tif policy.programsPool(ippool) || forProgrammingKernel {\n\t\tvar extraStatement string",
				Expect: "C28.exactlyone"},
			{Name: "tunl0 export reject added when BIRD owns IPIP", File: bp,
				Old: "\tif !policy.ipip {\n\t\t// Felix is programming remote IPIP routes.", New: "\tif policy.ipip {\n\t\t// Felix is programming remote IPIP routes.",
				Expect: "C28.wiring/confd/tunl0"},
			{Name: "driver swaps the two flags", File: "felix/dataplane/driver.go",
				Old: "ProgramIPIPClusterRoutes:       configParams.ProgramIPIPClusterRoutes(),", New: "ProgramIPIPClusterRoutes:       configParams.ProgramNoEncapClusterRoutes(),",
				Expect: "C28.wiring/driver/ProgramIPIPClusterRoutes"},
			{Name: "noEncap manager started regardless of ownership", File: "felix/dataplane/linux/int_dataplane.go",
				Old: "if config.ProgramNoEncapClusterRoutes && config.NoEncapNeeded {", New: "if config.NoEncapNeeded {",
				Expect: "C28.wiring/dataplane/newNoEncapManager"},
			{Name: "IPIP manager programs routes regardless of ownership", File: "felix/dataplane/linux/ipip_mgr.go",
				Old: "\tif m.dpConfig.ProgramIPIPClusterRoutes {\n\t\treturn m.routeMgr.CompleteDeferredWork()\n\t}\n\treturn nil", New: "\treturn m.routeMgr.CompleteDeferredWork()",
				Expect: "C28.wiring/dataplane/ipipManager"},
			{Name: "L3 route resolver not built for a Felix-owned IPIP-only cluster", File: "felix/calc/calc_graph.go",
				Old: "conf.Encapsulation.NoEncapNeeded ||\n\t\t(conf.Encapsulation.IPIPEnabled && conf.ProgramIPIPClusterRoutes()) {", New: "conf.Encapsulation.NoEncapNeeded {",
				Expect: "C28.wiring/calc/L3RouteResolver/ipip"},
			{Name: "L3 route resolver not built for Felix-owned unencapsulated pools", File: "felix/calc/calc_graph.go",
				Old: "conf.WireguardEnabled || conf.WireguardEnabledV6 || conf.Encapsulation.NoEncapNeeded ||", New: "conf.WireguardEnabled || conf.WireguardEnabledV6 ||",
				Expect: "C28.wiring/calc/L3RouteResolver/noencap"},
			{Name: "Felix always claims BIRD's routes through tunl0", File: "felix/dataplane/linux/int_dataplane.go",
				Old: "\t\t\tconfig.RemoveExternalRoutes,\n\t\t\tconfig.ProgramIPIPClusterRoutes,\n", New: "\t\t\tconfig.RemoveExternalRoutes,\n\t\t\ttrue,\n",
				Expect: "C28.wiring/dataplane/OwnBIRDIPIPRoutes"},
			{Name: "confd ignores the BGPConfiguration when computing the policy", File: bp,
				Old: "policy := clusterRoutePolicyFromBGPConfig(pc.globalBGPConfig, logCtx)", New: "policy := clusterRoutePolicyFromBGPConfig(nil, logCtx)",
				Expect: "C28.wiring/confd/policy-source"},
			{Name: "NoEncapNeeded no longer folds ownership in", File: "felix/calc/encapsulation_resolver.go",
				Old: "if c.config == nil || !c.config.ProgramNoEncapClusterRoutes() {", New: "if c.config == nil {",
				Expect: "C28.wiring/calc/NoEncapNeeded"},
			{Name: "route manager only retracts the old entry when the new route is of its own pool type", File: rm,
				Old: "\t\tm.deleteRoute(msg.Dst)\n\n\t\t// Process remote IPAM blocks.", New: "\t\tif msg.IpPoolType == m.ippoolType {\n\t\t\tm.deleteRoute(msg.Dst)\n\t\t}\n\n\t\t// Process remote IPAM blocks.",
				Expect: "C28.retract/routeManager.OnUpdate/RouteUpdate/keyed-by-destination"},
			{Name: "route manager returns early for route types it does not program, before retracting", File: rm,
				Old: "\t\tm.deleteRoute(msg.Dst)\n\n\t\t// Process remote IPAM blocks.", New: "\t\tif !isType(msg, proto.RouteType_REMOTE_WORKLOAD) && !m.routeIsLocalBlock(msg) {\n\t\t\treturn\n\t\t}\n\t\tm.deleteRoute(msg.Dst)\n\n\t\t// Process remote IPAM blocks.",
				Expect: "C28.retract/routeManager.OnUpdate/RouteUpdate/keyed-by-destination"},
			{Name: "route manager no longer retracts on update", File: rm,
				Old: "\t\tm.deleteRoute(msg.Dst)\n\n\t\t// Process remote IPAM blocks.", New: "\t\t// Process remote IPAM blocks.",
				Expect: "C28.retract/routeManager.OnUpdate/RouteUpdate/retracts"},
			{Name: "deleteRoute forgets the local-block (blackhole) map", File: rm,
				Old: "delete(m.localIPAMBlocks, dst)", New: "delete(m.routesByDest, dst)",
				Expect: "C28.retract/routeManager.OnUpdate/RouteRemove/forgets/localIPAMBlocks"},
			{Name: "cached BIRD config tagged with the revision read at store time", File: bp,
				Old: "\t\trevision: currentRevision,\n", New: "\t\trevision: c.GetCurrentRevision(),\n",
				Expect: "C28.revision/client.GetBirdBGPConfig/sampled-before-inputs"},
			{Name: "revision re-sampled after the BGPConfiguration was read", File: bp,
				Old: "\tpc := c.getBGPProcessorContext()\n", New: "\tpc := c.getBGPProcessorContext()\n\tcurrentRevision = c.GetCurrentRevision()\n",
				Expect: "C28.revision/client.GetBirdBGPConfig/sampled-before-inputs"},
			{Name: "BGPConfiguration cache only refreshed when the update's value type-asserts (a deletion carries nil)", File: cl,
				Old:    "\t\t\tv3res, _ := u.Value.(*apiv3.BGPConfiguration)\n\t\t\tc.updateBGPConfigCache(v3key.Name, v3res, &needServiceAdvertisementUpdates, &needUpdatePeersV1, &needUpdatePeersReasons)\n",
				New:    "\t\t\tif v3res, ok := u.Value.(*apiv3.BGPConfiguration); ok {\n\t\t\t\tc.updateBGPConfigCache(v3key.Name, v3res, &needServiceAdvertisementUpdates, &needUpdatePeersV1, &needUpdatePeersReasons)\n\t\t\t}\n",
				Expect: "C28.cache/client.onUpdates/globalBGPConfig/reset-on-delete"},
			{Name: "cached BGPConfiguration kept when the resource is deleted (writer skips nil)", File: cl,
				Old:    "\t\tc.globalBGPConfig = v3res\n",
				New:    "\t\tif v3res != nil {\n\t\t\tc.globalBGPConfig = v3res\n\t\t}\n",
				Expect: "C28.cache/client.onUpdates/globalBGPConfig/reset-on-delete"},
			{Name: "BGPConfiguration deletions filtered out by update type before the cache update", File: cl,
				Old:    "ok && v3key.Kind == apiv3.KindBGPConfiguration {",
				New:    "ok && v3key.Kind == apiv3.KindBGPConfiguration && u.UpdateType != api.UpdateTypeKVDeleted {",
				Expect: "C28.cache/client.onUpdates/globalBGPConfig/reset-on-delete"},
			{Name: "Felix skips an unparsable value instead of substituting the default (a lower-priority source then wins)", File: cp,
				Old:    "\t\t\t\t\t\tvalue = metadata.Default\n\t\t\t\t\t\terr = nil\n",
				New:    "\t\t\t\t\t\terr = nil\n\t\t\t\t\t\tcontinue valueLoop\n",
				Expect: "C28.value/resolve/default"},
			{Name: "Felix replaces an unparsable value by the zero value (programClusterRoutes \"\" = Disabled) instead of the default", File: cp,
				Old:    "\t\t\t\t\t\tvalue = metadata.Default\n",
				New:    "\t\t\t\t\t\tvalue = metadata.ZeroValue\n",
				Expect: "C28.value/resolve/default"},
		},
	})
}

type c28Pol struct{ ipip, noEncap bool }

func (p c28Pol) String() string { return fmt.Sprintf("{ipip:%v noEncap:%v}", p.ipip, p.noEncap) }

// The documented meaning of each value (design/cluster-route-programming/DESIGN.md §1):
// the set of classes the component holding that value programs.
var c28Spec = map[string]c28Pol{
	"Disabled":           {false, false},
	"EnabledIPIPOnly":    {true, false},
	"EnabledNoEncapOnly": {false, true},
	"Enabled":            {true, true},
}

const (
	c28FelixDefault = "EnabledIPIPOnly"
	c28BirdDefault  = "EnabledNoEncapOnly"
)

// supported pairings (Felix value, BGP value)
var c28Pairs = [][2]string{
	{"EnabledIPIPOnly", "EnabledNoEncapOnly"},
	{"Enabled", "Disabled"},
	{"Disabled", "Enabled"},
	{"EnabledNoEncapOnly", "EnabledIPIPOnly"},
}

type c28Model struct {
	c  *Ctx
	p  *Prog
	ev *c28Eval

	// Felix
	cfgT            types.Type
	fIPIP, fNoEncap *types.Func
	options         []string // canonical oneof options of the tag
	tagDefault      string
	tagFlags        string
	fieldSite       string
	// BIRD
	fromBGP, programsPool, processIPPool, emit *types.Func
	polT                                       types.Type
}

func runC28(c *Ctx) {
	c.Rule("C28.tables", "E-TABLE", "truth tables of Felix's accessors and confd's clusterRoutePolicyFromBGPConfig equal the documented meaning of every value, the documented defaults for absent/unrecognised, and both sides recognise the same four spellings", 14)
	c.Rule("C28.pair", "E-TABLE", "for the four supported pairings and every absent/unrecognised combination: Felix XOR BIRD per pool class", 10)
	c.Rule("C28.pool", "E-TABLE", "programsPool and processIPPool's kernel-filter action over all pool modes x policies: VXLAN never BIRD, IPIP by policy.ipip, unencapsulated by policy.noEncap", 18)
	c.Rule("C28.exactlyone", "E-TABLE", "supported pairing x pool class: BIRD's kernel filter accepts iff Felix's flag for the class is false; VXLAN always rejected", 15)
	c.Rule("C28.wiring", "E-GUARD/E-CONST", "the flags reach the components unswapped and gate exactly the route-programming sites", 16)
	c.Rule("C28.retract", "E-GUARD/E-ORDER", "the shared route manager (IPIP, VXLAN, no-encap) first forgets whatever it held for the destination of a RouteUpdate/RouteRemove: the retraction covers every map the handler fills, precedes every insert, and whether it happens depends on the destination only - never on the pool type or any other attribute of the new route", 7)
	c.Rule("C28.revision", "E-ORDER", "the revision stored with a cached BIRD config is a GetCurrentRevision() reading that dominates every other use of the client in the computing function (sampled before the inputs were read)", 1)
	c.Rule("C28.cache", "E-GUARD/E-PAIR", "the client field BIRD's policy is computed from (the cached BGPConfiguration, found by following clusterRoutePolicyFromBGPConfig's argument back to the client) is refreshed on the deletion path too: in every syncer callback that can store into it, the store stays reachable when KVPair.Value is nil / UpdateType is deleted (branches on value==nil, on type assertions of the value and on the update type resolved, nil propagated into callees)", 1)
	c.Rule("C28.value", "E-FLOW", "Felix's half of 'an unrecognised value is the default': in Config.resolve the value written for a parameter whose Parse failed (and that is not die-on-fail) is Metadata.Default, written in the same iteration that records the source (c27Value, shared with C27)", 4)

	p := c.Load(c27Pkg, c28ConfdPkg, "felix/calc", c28DrvPkg, c28DpPkg, c28OwnPkg)
	m := &c28Model{c: c, p: p, ev: newC28Eval(p)}
	m.resolveAnchors()

	felix := m.felixTable()
	bird := m.birdTable()
	m.checkTables(felix, bird)
	m.checkPairs(felix, bird)
	pool := m.checkPool()
	m.checkExactlyOne(felix, bird, pool)
	c28Wiring(c, p)
	c28Retract(c, p)
	c28Revision(c, p)
	c28CacheRule(c, p, m.fromBGP, m.processIPPool)
	// Shared discipline implemented in C27's file, armed here under C28's id: the
	// "unrecognised" rows of Felix's table above are computed from the struct tag on
	// the premise that Config.resolve substitutes the tag default for a value that
	// fails to parse.  If resolve skipped the value instead, a lower-priority source
	// would win and Felix would no longer default the way confd (single source) does.
	c.Alias("C27.value", "C28.value", func() { c27Value(c, c27Build(c, p)) })
}

func (m *c28Model) fn(pkg, name string) *types.Func {
	f, _ := m.p.LookupObj(pkg, name).(*types.Func)
	if f == nil {
		m.c.Lost("%s.%s", pkg, name)
	}
	return f
}

func (m *c28Model) resolveAnchors() {
	c, p := m.c, m.p
	tn, _ := p.LookupObj(c27Pkg, "Config").(*types.TypeName)
	if tn == nil {
		c.Lost("type %s.Config", c27Pkg)
	}
	m.cfgT = tn.Type()
	m.fIPIP = m.fn(c27Pkg, "Config.ProgramIPIPClusterRoutes")
	m.fNoEncap = m.fn(c27Pkg, "Config.ProgramNoEncapClusterRoutes")
	st := m.cfgT.Underlying().(*types.Struct)
	re := c27TagRegexp(c, p)
	found := false
	for i := 0; i < st.NumFields(); i++ {
		if st.Field(i).Name() != "ProgramClusterRoutes" {
			continue
		}
		tag := reflect.StructTag(st.Tag(i)).Get("config")
		cap := re.FindStringSubmatch(tag)
		if cap == nil || cap[1] != "oneof" {
			c.Lost("Config.ProgramClusterRoutes is not a oneof(...) parameter (tag %q)", tag)
		}
		m.options = strings.Split(cap[2], ",")
		m.tagDefault, m.tagFlags = cap[3], cap[4]
		m.fieldSite = p.Pos(st.Field(i).Pos())
		found = true
	}
	if !found {
		c.Lost("field Config.ProgramClusterRoutes")
	}
	m.fromBGP = m.fn(c28ConfdPkg, "clusterRoutePolicyFromBGPConfig")
	m.programsPool = m.fn(c28ConfdPkg, "clusterRoutePolicy.programsPool")
	m.processIPPool = m.fn(c28ConfdPkg, "client.processIPPool")
	m.emit = m.fn(c28ConfdPkg, "emitFilterStatementForIPPools")
	ptn, _ := p.LookupObj(c28ConfdPkg, "clusterRoutePolicy").(*types.TypeName)
	if ptn == nil {
		c.Lost("type clusterRoutePolicy")
	}
	m.polT = ptn.Type()
	for _, f := range []string{"ipip", "noEncap"} {
		if p.LookupObj(c28ConfdPkg, "clusterRoutePolicy."+f) == nil {
			c.Lost("field clusterRoutePolicy.%s", f)
		}
	}
}

type c28Row struct {
	pol c28Pol
	err error
}

func (m *c28Model) felixEval(v *tval) c28Row {
	get := func(f *types.Func) (bool, error) {
		recv := tvPtrTo(tvStructOf(m.cfgT, map[string]*tval{"ProgramClusterRoutes": v}))
		r, err := m.ev.callFunc(f, []*tval{recv}, 0)
		if err != nil {
			return false, err
		}
		b, ok := r.asBool()
		if !ok {
			return false, fmt.Errorf("%s evaluates to %s, not a boolean", f.Name(), r)
		}
		return b, nil
	}
	a, err := get(m.fIPIP)
	if err != nil {
		return c28Row{err: err}
	}
	b, err := get(m.fNoEncap)
	return c28Row{pol: c28Pol{a, b}, err: err}
}

// felixTable: rows keyed by the *setting* (value name, "absent", "unrecognised").
func (m *c28Model) felixTable() map[string]c28Row {
	out := map[string]c28Row{}
	for _, o := range m.options {
		out[o] = m.felixEval(tvString(o)) // OneofListParam.Parse yields the canonical option
	}
	// absent -> applyDefaults -> Parse(default) -> canonical spelling of the default
	def := ""
	for _, o := range m.options {
		if strings.EqualFold(o, m.tagDefault) {
			def = o
		}
	}
	if def == "" {
		out["absent"] = c28Row{err: fmt.Errorf("tag default %q is not among the options %v", m.tagDefault, m.options)}
	} else {
		out["absent"] = m.felixEval(tvString(def))
	}
	// unrecognised -> Parse fails -> default unless die-on-fail
	die := false
	for _, fl := range strings.Split(m.tagFlags, ",") {
		if fl == "die-on-fail" {
			die = true
		}
	}
	if die {
		out["unrecognised"] = c28Row{err: fmt.Errorf("parameter is die-on-fail: an unrecognised value stops Felix instead of falling back to the default")}
	} else {
		out["unrecognised"] = out["absent"]
	}
	// symbolic run: which constants do the accessors compare with?
	out["<symbolic>"] = m.felixEval(tvSymbol("felix-unrecognised"))
	return out
}

func (m *c28Model) bgpConfig(field *tval) *tval {
	sig := m.fromBGP.Type().(*types.Signature)
	cfgT := sig.Params().At(0).Type().(*types.Pointer).Elem()
	specF, _, _ := types.LookupFieldOrMethod(cfgT, true, nil, "Spec")
	if specF == nil {
		m.c.Lost("BGPConfiguration.Spec")
	}
	spec := tvStructOf(specF.Type(), map[string]*tval{"ProgramClusterRoutes": field})
	return tvPtrTo(tvStructOf(cfgT, map[string]*tval{"Spec": spec}))
}

func (m *c28Model) birdEval(cfg *tval) (c28Row, *tval) {
	r, err := m.ev.callFunc(m.fromBGP, []*tval{cfg, tvOpaqueOf("logCtx")}, 0)
	if err != nil {
		return c28Row{err: err}, nil
	}
	if r.kind != tvStruct {
		return c28Row{err: fmt.Errorf("clusterRoutePolicyFromBGPConfig evaluates to %s, not a struct", r)}, nil
	}
	r.typ = m.polT
	a, ok1 := r.field("ipip").asBool()
	b, ok2 := r.field("noEncap").asBool()
	if !ok1 || !ok2 {
		return c28Row{err: fmt.Errorf("policy fields not boolean constants: %s", r)}, nil
	}
	return c28Row{pol: c28Pol{a, b}}, r
}

func (m *c28Model) birdTable() map[string]c28Row {
	out := map[string]c28Row{}
	for _, n := range sortedKeys(c28Spec) {
		out[n], _ = m.birdEval(m.bgpConfig(tvPtrTo(tvString(n))))
	}
	out["absent"], _ = m.birdEval(m.bgpConfig(tvNilVal()))
	out["nil-config"], _ = m.birdEval(tvNilVal())
	out["unrecognised"], _ = m.birdEval(m.bgpConfig(tvPtrTo(tvSymbol("bird-unrecognised"))))
	return out
}

func c28Consts(set map[string]bool) []string {
	var out []string
	for k := range set {
		if u, err := strconv.Unquote(k); err == nil {
			k = u
		}
		out = append(out, k)
	}
	sort.Strings(out)
	return out
}

func (m *c28Model) checkTables(felix, bird map[string]c28Row) {
	c := m.c
	fsite := m.p.Pos(m.fIPIP.Pos())
	bsite := m.p.Pos(m.fromBGP.Pos())
	row := func(key, site string, r c28Row, want c28Pol, what string) {
		if r.err != nil {
			if _, outside := r.err.(c28Outside); outside {
				c.Undecided(key, site, "outside the evaluator's fragment: %v", r.err)
			} else {
				c.Violate(key, site, "%s: %v", what, r.err)
			}
			return
		}
		c.Check(r.pol == want, key, site, fmt.Sprintf("%s programs %s", what, r.pol), fmt.Sprintf("%s programs %s, documented meaning is %s", what, r.pol, want))
	}
	// (i) same spellings on both sides = the four documented values.  Felix's
	// parser yields exactly the tag's options; that BIRD and Felix's accessors
	// compare with the same spellings follows from the per-value rows below.
	want := sortedKeys(c28Spec)
	opts := append([]string{}, m.options...)
	sort.Strings(opts)
	if r := felix["<symbolic>"]; r.err != nil {
		c.Undecided("C28.tables/values", fsite, "symbolic evaluation of Felix's accessors failed: %v", r.err)
	} else {
		c.Check(reflect.DeepEqual(opts, want), "C28.tables/values", m.fieldSite,
			fmt.Sprintf("Felix's oneof options are exactly the documented values %v", want),
			fmt.Sprintf("Felix's oneof options %v are not the four documented values %v that the API enum and confd use", opts, want))
	}
	// any further constant confd compares the setting with is one more
	// "unrecognised" spelling: it must get the default too
	for _, k := range c28Consts(m.ev.symCmp["bird-unrecognised"]) {
		if _, ok := c28Spec[k]; ok {
			continue
		}
		r, _ := m.birdEval(m.bgpConfig(tvPtrTo(tvString(k))))
		row("C28.tables/bird/unrecognised:"+k, bsite, r, c28Spec[c28BirdDefault], fmt.Sprintf("BIRD with programClusterRoutes=%q (not an API value)", k))
	}
	for _, n := range want {
		fr, ok := felix[n]
		if !ok {
			fr = c28Row{err: fmt.Errorf("value %s is not a oneof option of Felix's parameter %v", n, m.options)}
		}
		row("C28.tables/felix/"+n, fsite, fr, c28Spec[n], "Felix with ProgramClusterRoutes="+n)
		row("C28.tables/bird/"+n, bsite, bird[n], c28Spec[n], "BIRD with programClusterRoutes="+n)
	}
	row("C28.tables/felix/absent", m.fieldSite, felix["absent"], c28Spec[c28FelixDefault], "Felix with the setting absent")
	row("C28.tables/felix/unrecognised", m.fieldSite, felix["unrecognised"], c28Spec[c28FelixDefault], "Felix with an unrecognised value")
	row("C28.tables/bird/absent", bsite, bird["absent"], c28Spec[c28BirdDefault], "BIRD with the field absent")
	row("C28.tables/bird/nil-config", bsite, bird["nil-config"], c28Spec[c28BirdDefault], "BIRD with no default BGPConfiguration")
	row("C28.tables/bird/unrecognised", bsite, bird["unrecognised"], c28Spec[c28BirdDefault], "BIRD with an unrecognised value")
}

func (m *c28Model) checkPairs(felix, bird map[string]c28Row) {
	c := m.c
	site := m.p.Pos(m.fromBGP.Pos())
	check := func(fk, bk string) {
		key := "C28.pair/felix=" + fk + "+bird=" + bk
		f, b := felix[fk], bird[bk]
		for _, r := range []c28Row{f, b} {
			if r.err != nil {
				if _, outside := r.err.(c28Outside); outside {
					c.Undecided(key, site, "%v", r.err)
				} else {
					c.Violate(key, site, "%v", r.err)
				}
				return
			}
		}
		ok := f.pol.ipip != b.pol.ipip && f.pol.noEncap != b.pol.noEncap
		c.Check(ok, key, site,
			fmt.Sprintf("Felix %s, BIRD %s: each class has exactly one programmer", f.pol, b.pol),
			fmt.Sprintf("Felix programs %s and BIRD programs %s: IPIP pools have %s, unencapsulated pools have %s", f.pol, b.pol, c28Count(f.pol.ipip, b.pol.ipip), c28Count(f.pol.noEncap, b.pol.noEncap)))
	}
	for _, pr := range c28Pairs {
		check(pr[0], pr[1])
	}
	for _, fk := range []string{"absent", "unrecognised"} {
		for _, bk := range []string{"absent", "nil-config", "unrecognised"} {
			check(fk, bk)
		}
	}
}

func c28Count(a, b bool) string {
	switch {
	case a && b:
		return "two programmers"
	case !a && !b:
		return "no programmer"
	}
	return "one programmer"
}

type c28PoolKey struct {
	ipip, vxlan string
	pol         c28Pol
}

// checkPool evaluates programsPool and processIPPool(forProgrammingKernel=true)
// and returns, per (pool modes, policy), whether BIRD's kernel filter accepts.
func (m *c28Model) checkPool() map[c28PoolKey]bool {
	c, p := m.c, m.p
	modes := map[string]string{}
	for _, n := range []string{"Never", "Always", "CrossSubnet"} {
		k, _ := p.LookupExt(c28EncapPkg, n).(*types.Const)
		if k == nil || k.Val().Kind() != constant.String {
			c.Lost("constant %s.%s", c28EncapPkg, n)
		}
		modes[n] = constant.StringVal(k.Val())
	}
	names := []string{"Never", "Always", "CrossSubnet"}
	sig := m.programsPool.Type().(*types.Signature)
	poolT := sig.Params().At(0).Type().(*types.Pointer).Elem()
	for _, f := range []string{"IPIPMode", "VXLANMode", "DisableBGPExport"} {
		if o, _, _ := types.LookupFieldOrMethod(poolT, true, nil, f); o == nil {
			c.Lost("model.IPPool.%s", f)
		}
	}
	mkPool := func(ipip, vxlan string, noExport bool) *tval {
		return tvPtrTo(tvStructOf(poolT, map[string]*tval{
			"IPIPMode": tvString(modes[ipip]), "VXLANMode": tvString(modes[vxlan]), "DisableBGPExport": tvBool(noExport)}))
	}
	mkPol := func(pl c28Pol) *tval {
		return tvStructOf(m.polT, map[string]*tval{"ipip": tvBool(pl.ipip), "noEncap": tvBool(pl.noEncap)})
	}
	want := func(ipip, vxlan string, pl c28Pol) bool {
		switch {
		case vxlan != "Never":
			return false
		case ipip != "Never":
			return pl.ipip
		}
		return pl.noEncap
	}
	var pols []c28Pol
	for _, a := range []bool{false, true} {
		for _, b := range []bool{false, true} {
			pols = append(pols, c28Pol{a, b})
		}
	}
	ev := newC28Eval(p)
	ev.stub = func(f *types.Func) bool { return f == m.emit }
	accepts := map[c28PoolKey]bool{}
	psite := p.Pos(m.programsPool.Pos())
	ksite := p.Pos(m.processIPPool.Pos())
	for _, ipip := range names {
		for _, vxlan := range names {
			combo := "ipip=" + ipip + ",vxlan=" + vxlan
			// programsPool
			var bad []string
			var outside error
			for _, pl := range pols {
				r, err := ev.callFunc(m.programsPool, []*tval{mkPol(pl), mkPool(ipip, vxlan, false)}, 0)
				if err != nil {
					outside = err
					break
				}
				b, ok := r.asBool()
				if !ok {
					outside = fmt.Errorf("programsPool evaluates to %s", r)
					break
				}
				if b != want(ipip, vxlan, pl) {
					bad = append(bad, fmt.Sprintf("policy %s -> %v (want %v)", pl, b, want(ipip, vxlan, pl)))
				}
			}
			key := "C28.pool/programsPool/" + combo
			if outside != nil {
				c.Undecided(key, psite, "outside the evaluator's fragment: %v", outside)
			} else {
				c.Check(len(bad) == 0, key, psite, "BIRD's responsibility matches the pool class for all 4 policies", "programsPool for a pool with "+combo+": "+strings.Join(bad, "; "))
			}
			// kernel filter
			bad, outside = nil, nil
		loop:
			for _, pl := range pols {
				var first *bool
				for _, noExport := range []bool{false, true} {
					for _, ver := range []int64{4, 6} {
						args := []*tval{tvOpaqueOf("client"), mkPool(ipip, vxlan, noExport), mkPol(pl), tvBool(true),
							tvOpaqueOf("filterAction"), tvOpaqueOf("localSubnet"), tvConstOf(constant.MakeInt64(ver))}
						r, err := ev.callFunc(m.processIPPool, args, 0)
						if err != nil {
							outside = err
							break loop
						}
						if r.kind != tvOpaque || r.name != m.emit.Name() || len(r.args) != 5 {
							outside = fmt.Errorf("processIPPool does not return a call of %s: %s", m.emit.Name(), r)
							break loop
						}
						act, ok := r.args[2].asString()
						if !ok || (act != "accept" && act != "reject") {
							outside = fmt.Errorf("action argument of %s is %s", m.emit.Name(), r.args[2])
							break loop
						}
						acc := act == "accept"
						if first == nil {
							first = &acc
						}
						if acc != want(ipip, vxlan, pl) {
							bad = append(bad, fmt.Sprintf("policy %s disableBGPExport=%v IPv%d -> %s (want %s)", pl, noExport, ver, act, map[bool]string{true: "accept", false: "reject"}[want(ipip, vxlan, pl)]))
						}
					}
				}
				accepts[c28PoolKey{ipip, vxlan, pl}] = first != nil && *first
			}
			key = "C28.pool/kernel-filter/" + combo
			if outside != nil {
				c.Undecided(key, ksite, "outside the evaluator's fragment: %v", outside)
				for _, pl := range pols {
					delete(accepts, c28PoolKey{ipip, vxlan, pl})
				}
			} else {
				c.Check(len(bad) == 0, key, ksite, "kernel-programming filter accepts exactly when BIRD owns the class (4 policies x disableBGPExport x IPv4/6)",
					"processIPPool(forProgrammingKernel) for a pool with "+combo+": "+strings.Join(bad, "; "))
			}
		}
	}
	return accepts
}

func (m *c28Model) checkExactlyOne(felix, bird map[string]c28Row, accepts map[c28PoolKey]bool) {
	c := m.c
	site := m.p.Pos(m.processIPPool.Pos())
	classes := []struct{ name, ipip, vxlan string }{
		{"vxlan", "Never", "Always"}, {"ipip", "Always", "Never"}, {"noencap", "Never", "Never"},
	}
	pairs := append([][2]string{{"absent", "absent"}}, c28Pairs...)
	for _, pr := range pairs {
		f, b := felix[pr[0]], bird[pr[1]]
		for _, cl := range classes {
			key := "C28.exactlyone/felix=" + pr[0] + "+bird=" + pr[1] + "/" + cl.name
			if f.err != nil || b.err != nil {
				c.Undecided(key, site, "setting tables not available: %v %v", f.err, b.err)
				continue
			}
			acc, ok := accepts[c28PoolKey{cl.ipip, cl.vxlan, b.pol}]
			if !ok {
				c.Undecided(key, site, "kernel-filter decision not available for this pool class")
				continue
			}
			felixPrograms := true // VXLAN: always Felix
			switch cl.name {
			case "ipip":
				felixPrograms = f.pol.ipip
			case "noencap":
				felixPrograms = f.pol.noEncap
			}
			c.Check(acc != felixPrograms, key, site,
				fmt.Sprintf("BIRD kernel filter %s, Felix programs=%v", map[bool]string{true: "accepts", false: "rejects"}[acc], felixPrograms),
				fmt.Sprintf("%s pools: BIRD's kernel filter %s while Felix's flag for the class is %v: %s", cl.name, map[bool]string{true: "accepts", false: "rejects"}[acc], felixPrograms, c28Count(acc, felixPrograms)))
		}
	}
}

// ----------------------------------------------------------------- wiring --

// c28PkgFuncs lists the functions, methods and closures declared in one root package.
func c28PkgFuncs(c *Ctx, p *Prog, pkg string) []*ssa.Function {
	sp := p.SSAPkg(pkg)
	if sp == nil {
		c.Lost("package %s not loaded", pkg)
	}
	var out []*ssa.Function
	var names []string
	for n := range sp.Members {
		names = append(names, n)
	}
	sort.Strings(names)
	for _, n := range names {
		switch m := sp.Members[n].(type) {
		case *ssa.Function:
			if m.Blocks != nil {
				out = append(out, m)
			}
		case *ssa.Type:
			out = append(out, p.methodsOf(pkg, m.Name())...)
		}
	}
	return withClosures(out)
}

func c28Wiring(c *Ctx, p *Prog) {
	field := func(pkg, name string) *types.Var {
		v, _ := p.LookupObj(pkg, name).(*types.Var)
		if v == nil {
			c.Lost("field %s.%s", pkg, name)
		}
		return v
	}
	dpIPIP := field(c28DpPkg, "Config.ProgramIPIPClusterRoutes")
	dpNoEncap := field(c28DpPkg, "Config.ProgramNoEncapClusterRoutes")

	// (a) driver: every literal of intdataplane.Config fills each flag from the like-named accessor
	accessor := map[*types.Var]string{dpIPIP: "ProgramIPIPClusterRoutes", dpNoEncap: "ProgramNoEncapClusterRoutes"}
	nLit := 0
	for _, f := range c28PkgFuncs(c, p, c28DrvPkg) {
		allInstrs(f, false, func(fn *ssa.Function, in ssa.Instruction) {
			st, ok := in.(*ssa.Store)
			if !ok {
				return
			}
			fv := fieldVar(st.Addr)
			want := ""
			for k, w := range accessor {
				if fv != nil && fv.Name() == k.Name() && fv.Pkg() != nil && fv.Pkg().Path() == k.Pkg().Path() {
					want = w
				}
			}
			if want == "" {
				return
			}
			nLit++
			key := "C28.wiring/driver/" + fv.Name()
			good := false
			if call, ok := st.Val.(*ssa.Call); ok {
				if cf := calleeOf(call.Common()); cf != nil && isFunc(cf, c27Pkg, "Config."+want) {
					good = true
				}
			}
			c.Check(good, key, p.Pos(st.Pos()), "filled from Config."+want+"()",
				fmt.Sprintf("dataplane Config.%s is filled in %s from %s, not from Config.%s()", fv.Name(), fnName(fn), path(st.Val), want))
		})
	}
	if nLit < 2 {
		c.Lost("stores into intdataplane.Config.Program*ClusterRoutes in %s (found %d)", c28DrvPkg, nLit)
	}

	// (b) noEncap managers are created only under ProgramNoEncapClusterRoutes
	nMgr := 0
	for _, f := range c28PkgFuncs(c, p, c28DpPkg) {
		for _, cs := range callsIn(f, false, func(cf *types.Func) bool { return isFunc(cf, c28DpPkg, "newNoEncapManager") }) {
			nMgr++
			c.Check(guardedCut(cs.Instr, c27FieldCond(true, dpNoEncap)), "C28.wiring/dataplane/newNoEncapManager", p.Pos(cs.Instr.Pos()),
				"created only when ProgramNoEncapClusterRoutes", "newNoEncapManager in "+fnName(f)+" is reachable without ProgramNoEncapClusterRoutes being true: Felix and BIRD would both program unencapsulated pools")
		}
	}
	if nMgr == 0 {
		c.Lost("call sites of %s.newNoEncapManager", c28DpPkg)
	}

	// (c) the IPIP manager drives its route manager only under ProgramIPIPClusterRoutes
	rm := field(c28DpPkg, "ipipManager.routeMgr")
	gated := map[string]bool{"OnUpdate": true, "triggerRouteUpdate": true, "CompleteDeferredWork": true}
	nRM := 0
	for _, f := range withClosures(p.methodsOf(c28DpPkg, "ipipManager")) {
		for _, cs := range callsIn(f, false, func(cf *types.Func) bool { return gated[cf.Name()] }) {
			if len(cs.Args()) == 0 || fieldVar(cs.Args()[0]) != rm {
				continue
			}
			nRM++
			c.Check(guardedCut(cs.Instr, c27FieldCond(true, dpIPIP)), "C28.wiring/dataplane/ipipManager/"+fnName(f)+"/"+cs.Callee.Name(), p.Pos(cs.Instr.Pos()),
				"route manager driven only when ProgramIPIPClusterRoutes", "ipipManager."+fnName(f)+" calls routeMgr."+cs.Callee.Name()+" without ProgramIPIPClusterRoutes being true: Felix would program IPIP cluster routes that BIRD owns")
		}
	}
	if nRM == 0 {
		c.Lost("calls of ipipManager.routeMgr.{OnUpdate,triggerRouteUpdate,CompleteDeferredWork}")
	}

	// (d) NoEncapNeeded can only be true under ProgramNoEncapClusterRoutes()
	nen := p.Func("felix/calc", "EncapsulationCalculator.NoEncapNeeded")
	if nen == nil {
		c.Lost("felix/calc.EncapsulationCalculator.NoEncapNeeded")
	}
	okAll := true
	for _, r := range returnsOf(nen) {
		if cv, ok := constOf(r.Results[0]); ok && cv.Kind() == constant.Bool && !constant.BoolVal(cv) {
			continue
		}
		if !guardedCut(r, callCond(true, func(cs CallSite) bool { return isFunc(cs.Callee, c27Pkg, "Config.ProgramNoEncapClusterRoutes") })) {
			okAll = false
		}
	}
	c.Check(okAll, "C28.wiring/calc/NoEncapNeeded", p.Pos(nen.Pos()), "every non-false return requires Config.ProgramNoEncapClusterRoutes()",
		"EncapsulationCalculator.NoEncapNeeded can return true without Config.ProgramNoEncapClusterRoutes(): the calc graph and dataplane would route unencapsulated pools that BIRD owns")

	// (e) confd: tunl0 joins the iBGP tunnel-route reject only when BIRD does not own IPIP
	polIPIP := field(c28ConfdPkg, "clusterRoutePolicy.ipip")
	pips := p.Func(c28ConfdPkg, "client.processIPPools")
	if pips == nil {
		c.Lost("%s.client.processIPPools", c28ConfdPkg)
	}
	nT := 0
	allInstrs(pips, false, func(fn *ssa.Function, in ssa.Instruction) {
		st, ok := in.(*ssa.Store)
		if !ok {
			return
		}
		cv, ok := constOf(st.Val)
		if !ok || cv.Kind() != constant.String || constant.StringVal(cv) != "tunl0" {
			return
		}
		nT++
		c.Check(guardedCut(st, c27FieldCond(false, polIPIP)), "C28.wiring/confd/tunl0", p.Pos(st.Pos()),
			"tunl0 pattern added only when !policy.ipip", "processIPPools adds the tunl0 pattern to the iBGP tunnel-route reject without !policy.ipip: BIRD-owned IPIP routes would not be exported / Felix-owned ones re-advertised")
	})
	if nT == 0 {
		c.Lost("the \"tunl0\" interface pattern in processIPPools")
	}

	// (f) confd: every processIPPool call is handed the policy computed from a BGPConfiguration
	fromBGP, _ := p.LookupObj(c28ConfdPkg, "clusterRoutePolicyFromBGPConfig").(*types.Func)
	pip, _ := p.LookupObj(c28ConfdPkg, "client.processIPPool").(*types.Func)
	polTN, _ := p.LookupObj(c28ConfdPkg, "clusterRoutePolicy").(*types.TypeName)
	if fromBGP == nil || pip == nil || polTN == nil {
		c.Lost("%s: clusterRoutePolicyFromBGPConfig / client.processIPPool / clusterRoutePolicy", c28ConfdPkg)
	}
	nP := 0
	for _, f := range c28PkgFuncs(c, p, c28ConfdPkg) {
		for _, cs := range callsIn(f, false, func(cf *types.Func) bool { return cf == pip }) {
			var pol ssa.Value
			for _, a := range cs.Args() {
				if types.Identical(a.Type(), polTN.Type()) {
					pol = a
				}
			}
			if pol == nil {
				c.Lost("the clusterRoutePolicy argument of processIPPool in %s", fnName(f))
			}
			nP++
			var bad []string
			os := origins(pol, nil)
			for _, o := range os {
				call, ok := o.V.(*ssa.Call)
				if !ok || calleeOf(call.Common()) != fromBGP {
					bad = append(bad, "policy comes from "+path(o.V)+" ("+o.Kind+")")
					continue
				}
				cfgs := origins(call.Common().Args[0], nil)
				for _, co := range cfgs {
					if co.Kind == "const" {
						bad = append(bad, "the BGPConfiguration handed to clusterRoutePolicyFromBGPConfig is the constant "+path(co.V))
					}
				}
				if len(cfgs) == 0 {
					bad = append(bad, "no origin for the BGPConfiguration argument")
				}
			}
			if len(os) == 0 {
				bad = append(bad, "no origin for the policy argument")
			}
			c.Check(len(bad) == 0, "C28.wiring/confd/policy-source", p.Pos(cs.Instr.Pos()),
				"policy = clusterRoutePolicyFromBGPConfig(<the BGPConfiguration read from the datastore>)",
				"processIPPool call in "+fnName(f)+": "+strings.Join(bad, "; ")+": BIRD's filters would not follow BGPConfiguration.programClusterRoutes")
		}
	}
	if nP == 0 {
		c.Lost("call sites of client.processIPPool")
	}

	// (g) calc graph: the L3 route resolver (the only source of Felix's cluster
	// routes) is always built when Felix owns a class that is in use
	ncg := p.Func("felix/calc", "NewCalculationGraph")
	if ncg == nil {
		c.Lost("felix/calc.NewCalculationGraph")
	}
	l3 := callsIn(ncg, false, func(cf *types.Func) bool { return isFunc(cf, "felix/calc", "NewL3RouteResolver") })
	if len(l3) != 1 {
		c.Lost("exactly one NewL3RouteResolver call in NewCalculationGraph (found %d)", len(l3))
	}
	encIPIP := field(c27Pkg, "Encapsulation.IPIPEnabled")
	encNoEncap := field(c27Pkg, "Encapsulation.NoEncapNeeded")
	for _, t := range []struct {
		name, what string
		truth      func(ssa.Value) bool
	}{
		{"ipip", "Encapsulation.IPIPEnabled && Config.ProgramIPIPClusterRoutes()", func(v ssa.Value) bool {
			if fieldVar(v) == encIPIP {
				return true
			}
			cs, ok := condCall(v)
			return ok && isFunc(cs.Callee, c27Pkg, "Config.ProgramIPIPClusterRoutes")
		}},
		{"noencap", "Encapsulation.NoEncapNeeded", func(v ssa.Value) bool { return fieldVar(v) == encNoEncap }},
	} {
		c.Check(c28Inevitable(l3[0].Instr, t.truth), "C28.wiring/calc/L3RouteResolver/"+t.name, p.Pos(l3[0].Instr.Pos()),
			"whenever "+t.what+" holds, every path through NewCalculationGraph builds the L3 route resolver",
			"NewCalculationGraph can complete without NewL3RouteResolver although "+t.what+" holds: Felix owns these cluster routes but never computes them, and BIRD rejects them: no programmer")
	}

	// (h) Felix claims BIRD's routes through the IPIP device only when it owns the IPIP cluster routes
	own := field(c28OwnPkg, "MainTableOwnershipPolicy.OwnBIRDIPIPRoutes")
	nmt := p.Func(c28OwnPkg, "NewMainTable")
	if nmt == nil {
		c.Lost("%s.NewMainTable", c28OwnPkg)
	}
	ownParam := -1
	allInstrs(nmt, false, func(_ *ssa.Function, in ssa.Instruction) {
		if st, ok := in.(*ssa.Store); ok && fieldVar(st.Addr) == own {
			for i, pa := range nmt.Params {
				if st.Val == ssa.Value(pa) {
					ownParam = i
				}
			}
		}
	})
	if ownParam < 0 {
		c.Lost("NewMainTable: the parameter stored into MainTableOwnershipPolicy.OwnBIRDIPIPRoutes")
	}
	nOwn := 0
	for _, f := range c28PkgFuncs(c, p, c28DpPkg) {
		for _, cs := range callsIn(f, false, func(cf *types.Func) bool { return isFunc(cf, c28OwnPkg, "NewMainTable") }) {
			nOwn++
			var bad []string
			os := origins(cs.Args()[ownParam], nil)
			for _, o := range os {
				if cv, ok := constOf(o.V); ok && cv.Kind() == constant.Bool && !constant.BoolVal(cv) {
					continue
				}
				if fieldVar(o.V) == dpIPIP {
					continue
				}
				bad = append(bad, path(o.V))
			}
			c.Check(len(bad) == 0 && len(os) > 0, "C28.wiring/dataplane/OwnBIRDIPIPRoutes", p.Pos(cs.Instr.Pos()),
				"OwnBIRDIPIPRoutes is false or Config.ProgramIPIPClusterRoutes",
				"NewMainTable in "+fnName(f)+" gets OwnBIRDIPIPRoutes from "+strings.Join(bad, ", ")+", not from Config.ProgramIPIPClusterRoutes: when BIRD owns the IPIP cluster routes Felix's reconciliation deletes them")
		}
	}
	if nOwn == 0 {
		c.Lost("call sites of ownershippol.NewMainTable in %s", c28DpPkg)
	}
}

// c28Inevitable: assuming every branch condition accepted by holds is true, no
// path from the function's entry reaches a normal return without executing
// target.  Path-sensitive in the boolean phis it passes (so `need := a || b;
// if need {...}` is the same as `if a || b {...}`); any other condition is
// unknown and both successors are explored.
func c28Inevitable(target ssa.Instruction, holds func(ssa.Value) bool) bool {
	fn := target.Parent()
	type item struct {
		b, pred *ssa.BasicBlock
		env     map[*ssa.Phi]bool
	}
	envKey := func(env map[*ssa.Phi]bool) string {
		var ks []string
		for ph, v := range env {
			ks = append(ks, fmt.Sprintf("%s=%v", ph.Name(), v))
		}
		sort.Strings(ks)
		return strings.Join(ks, ",")
	}
	known := func(v ssa.Value, env map[*ssa.Phi]bool) (bool, bool) {
		v, pol := stripNot(v, true)
		if cv, ok := constOf(v); ok && cv.Kind() == constant.Bool {
			return constant.BoolVal(cv) == pol, true
		}
		if ph, ok := v.(*ssa.Phi); ok {
			if val, ok := env[ph]; ok {
				return val == pol, true
			}
			return false, false
		}
		if holds(v) {
			return pol, true
		}
		return false, false
	}
	seen := map[string]bool{}
	st := []item{{fn.Blocks[0], nil, map[*ssa.Phi]bool{}}}
	for len(st) > 0 {
		it := st[len(st)-1]
		st = st[:len(st)-1]
		b := it.b
		if b == target.Block() || isPanicBlock(b) {
			continue
		}
		env := map[*ssa.Phi]bool{}
		for k, v := range it.env {
			env[k] = v
		}
		for _, in := range b.Instrs {
			ph, ok := in.(*ssa.Phi)
			if !ok {
				break
			}
			delete(env, ph)
			for i, pr := range b.Preds {
				if pr == it.pred {
					if val, ok := known(ph.Edges[i], it.env); ok {
						env[ph] = val
					}
					break
				}
			}
		}
		key := fmt.Sprintf("%d|%s", b.Index, envKey(env))
		if seen[key] {
			continue
		}
		seen[key] = true
		last := b.Instrs[len(b.Instrs)-1]
		if _, ok := last.(*ssa.Return); ok {
			return false
		}
		if ifi, ok := last.(*ssa.If); ok && len(b.Succs) == 2 {
			if val, ok := known(ifi.Cond, env); ok {
				if val {
					st = append(st, item{b.Succs[0], b, env})
				} else {
					st = append(st, item{b.Succs[1], b, env})
				}
				continue
			}
		}
		for _, s := range b.Succs {
			st = append(st, item{s, b, env})
		}
	}
	return true
}

// ---------------------------------------------------------------- retract --

// c28MsgDeps: the fields of message type msgT that condition v is computed
// from (through arithmetic, loads, calls - including the fields read by called
// functions that receive the message).  opaque lists calls that receive the
// whole message but whose bodies are not loaded.
func c28MsgDeps(p *Prog, v ssa.Value, msgT types.Type) (fields map[string]bool, opaque []string) {
	fields = map[string]bool{}
	seen := map[ssa.Value]bool{}
	isMsg := func(t types.Type) bool { return types.Identical(derefType(t), msgT) }
	var walk func(v ssa.Value)
	walk = func(v ssa.Value) {
		if v == nil || seen[v] {
			return
		}
		seen[v] = true
		switch x := v.(type) {
		case *ssa.BinOp:
			walk(x.X)
			walk(x.Y)
		case *ssa.UnOp:
			walk(x.X)
		case *ssa.FieldAddr:
			if isMsg(x.X.Type()) {
				fields[fieldName(x.X.Type(), x.Field)] = true
				return
			}
			walk(x.X)
		case *ssa.Field:
			if isMsg(x.X.Type()) {
				fields[fieldName(x.X.Type(), x.Field)] = true
				return
			}
			walk(x.X)
		case *ssa.Phi:
			for _, e := range x.Edges {
				walk(e)
			}
		case *ssa.Extract:
			walk(x.Tuple)
		case *ssa.Convert:
			walk(x.X)
		case *ssa.ChangeType:
			walk(x.X)
		case *ssa.MakeInterface:
			walk(x.X)
		case *ssa.Lookup:
			walk(x.X)
			walk(x.Index)
		case *ssa.IndexAddr:
			walk(x.X)
			walk(x.Index)
		case *ssa.Index:
			walk(x.X)
			walk(x.Index)
		case *ssa.TypeAssert:
			// a type test reads no field
		case *ssa.Call:
			args := x.Call.Args
			if x.Call.IsInvoke() {
				args = append([]ssa.Value{x.Call.Value}, args...)
			}
			for _, a := range args {
				if !isMsg(a.Type()) {
					walk(a)
					continue
				}
				if _, isPtr := a.Type().Underlying().(*types.Pointer); !isPtr {
					walk(a)
					continue
				}
				// the message itself is handed to the callee
				f := calleeOf(x.Common())
				fn := calleeFn(x.Common())
				switch {
				case fn != nil && fn.Blocks != nil:
					for n := range fieldsRead(p.closure(fn), msgT) {
						fields[n] = true
					}
				case f != nil && strings.HasPrefix(f.Name(), "Get") && f.Type().(*types.Signature).Recv() != nil:
					fields[strings.TrimPrefix(f.Name(), "Get")] = true
				default:
					opaque = append(opaque, path(x))
				}
			}
		}
	}
	walk(v)
	return
}

// c28DecidingConds: the branch conditions that decide whether target executes:
// the transitive control dependences of its block (Y depends on branch B iff Y
// post-dominates one successor of B but not B itself; panic blocks do not
// count as exits), plus the dominance guards.  Handles early returns, nested
// ifs, && / || chains and switches alike.
func c28DecidingConds(target ssa.Instruction) []ssa.Value {
	fn := target.Parent()
	pd := postDominators(fn)
	seenCond := map[ssa.Value]bool{}
	var out []ssa.Value
	add := func(v ssa.Value) {
		v, _ = stripNot(v, true)
		if !seenCond[v] {
			seenCond[v] = true
			out = append(out, v)
		}
	}
	for _, g := range guardsOf(target) {
		add(g.Cond)
	}
	seenBlk := map[*ssa.BasicBlock]bool{target.Block(): true}
	work := []*ssa.BasicBlock{target.Block()}
	for len(work) > 0 {
		y := work[len(work)-1]
		work = work[:len(work)-1]
		for _, b := range fn.Blocks {
			if len(b.Instrs) == 0 || len(b.Succs) != 2 || b.Succs[0] == b.Succs[1] {
				continue
			}
			ifi, ok := b.Instrs[len(b.Instrs)-1].(*ssa.If)
			if !ok || (b != y && pd[b][y]) {
				continue
			}
			dep := false
			for _, s := range b.Succs {
				dep = dep || pd[s][y]
			}
			if !dep {
				continue
			}
			add(ifi.Cond)
			if !seenBlk[b] {
				seenBlk[b] = true
				work = append(work, b)
			}
		}
	}
	return out
}

func c28Retract(c *Ctx, p *Prog) {
	const mgr = "routeManager"
	on := p.Func(c28DpPkg, mgr+".OnUpdate")
	if on == nil {
		c.Lost("%s.%s.OnUpdate", c28DpPkg, mgr)
	}
	msgT := map[string]types.Type{}
	for _, n := range []string{"RouteUpdate", "RouteRemove"} {
		tn, _ := p.LookupExt("felix/proto", n).(*types.TypeName)
		if tn == nil {
			c.Lost("proto.%s", n)
		}
		if o, _, _ := types.LookupFieldOrMethod(tn.Type(), true, tn.Pkg(), "Dst"); o == nil {
			c.Lost("proto.%s.Dst", n)
		}
		msgT[n] = tn.Type()
	}
	mapField := func(m ssa.Value) *types.Var {
		u, ok := m.(*ssa.UnOp)
		if !ok {
			return nil
		}
		fa, ok := u.X.(*ssa.FieldAddr)
		if !ok || namedTypeName(derefType(fa.X.Type())) != mgr {
			return nil
		}
		return fieldVar(fa)
	}
	// the handler: OnUpdate and the manager's own methods it reaches (so that
	// extracting a per-message helper keeps the rule working)
	handler := []*ssa.Function{on}
	for f := range p.closure(on) {
		if f != on && f.Parent() == nil && f.Signature.Recv() != nil && namedTypeName(derefType(f.Signature.Recv().Type())) == mgr {
			handler = append(handler, f)
		}
	}
	sort.Slice(handler[1:], func(i, j int) bool { return fnName(handler[1+i]) < fnName(handler[1+j]) })
	// H: the maps of the manager the handler files RouteUpdates under
	held := map[*types.Var][]*ssa.MapUpdate{}
	for _, hf := range handler {
		allInstrs(hf, false, func(_ *ssa.Function, in ssa.Instruction) {
			mu, ok := in.(*ssa.MapUpdate)
			if !ok {
				return
			}
			if fv := mapField(mu.Map); fv != nil && types.Identical(derefType(mu.Value.Type()), msgT["RouteUpdate"]) {
				held[fv] = append(held[fv], mu)
			}
		})
	}
	if len(held) < 2 {
		c.Lost("%s.OnUpdate files RouteUpdates in %d map field(s) of the manager (expected routesByDest and localIPAMBlocks)", mgr, len(held))
	}
	// what a callee forgets: builtin delete on a manager map, keyed by one of its parameters
	forgets := func(fn *ssa.Function) map[*types.Var]bool {
		out := map[*types.Var]bool{}
		for f := range p.closure(fn) {
			allInstrs(f, false, func(_ *ssa.Function, in ssa.Instruction) {
				cc, ok := isBuiltinCall(in, "delete")
				if !ok {
					return
				}
				fv := mapField(cc.Args[0])
				if fv == nil {
					return
				}
				for _, o := range origins(cc.Args[1], nil) {
					if o.Kind == "param" {
						out[fv] = true
					}
				}
			})
		}
		return out
	}
	// retraction calls in the handler: manager methods that forget at least one held map
	type retraction struct {
		cs   CallSite
		fn   *ssa.Function
		gone map[*types.Var]bool
	}
	var retr []retraction
	for _, hf := range handler {
		for _, cs := range callsIn(hf, false, func(f *types.Func) bool { return recvTypeName(f) == mgr }) {
			fn := calleeFn(cs.Common())
			if fn == nil || fn.Blocks == nil {
				continue
			}
			gone := forgets(fn)
			any := false
			for fv := range held {
				any = any || gone[fv]
			}
			if any {
				retr = append(retr, retraction{cs, fn, gone})
			}
		}
	}
	// which message's Dst does a retraction call name?
	dstOf := func(r retraction) string {
		for _, a := range r.cs.Common().Args {
			u, ok := a.(*ssa.UnOp)
			if !ok {
				continue
			}
			fa, ok := u.X.(*ssa.FieldAddr)
			if !ok || fieldName(fa.X.Type(), fa.Field) != "Dst" {
				continue
			}
			for n, t := range msgT {
				if types.Identical(derefType(fa.X.Type()), t) {
					return n
				}
			}
		}
		return ""
	}
	var heldNames []string
	byName := map[string]*types.Var{}
	for fv := range held {
		heldNames = append(heldNames, fv.Name())
		byName[fv.Name()] = fv
	}
	sort.Strings(heldNames)
	for _, n := range []string{"RouteUpdate", "RouteRemove"} {
		base := "C28.retract/" + mgr + ".OnUpdate/" + n
		var mine []retraction
		for _, r := range retr {
			if dstOf(r) == n {
				mine = append(mine, r)
			}
		}
		if len(mine) == 0 {
			c.Violate(base+"/retracts", p.Pos(on.Pos()), "the %s case of %s.OnUpdate never calls a method that forgets the entry held for msg.Dst (delete from %v): a route that changed owner or went away keeps being programmed by this manager as well", n, mgr, heldNames)
			continue
		}
		// (1) between them the retractions of this case cover every held map
		for _, hn := range heldNames {
			covered := false
			for _, r := range mine {
				covered = covered || r.gone[byName[hn]]
			}
			c.Check(covered, base+"/forgets/"+hn, p.Pos(mine[0].cs.Instr.Pos()),
				fmt.Sprintf("%s forgets %s.%s[dst]", fnName(mine[0].fn), mgr, hn),
				fmt.Sprintf("handling a %s for a destination does not delete the destination from %s.%s, which the RouteUpdate case fills: the stale entry keeps being programmed", n, mgr, hn))
		}
		// (2) whether the retraction happens depends on the destination only
		var bad, unknown []string
		for _, r := range mine {
			for _, cond := range c28DecidingConds(r.cs.Instr) {
				fields, opaque := c28MsgDeps(p, cond, msgT[n])
				for f := range fields {
					if f != "Dst" {
						bad = append(bad, fmt.Sprintf("%s.%s (condition at %s)", n, f, p.Pos(cond.Pos())))
					}
				}
				unknown = append(unknown, opaque...)
			}
		}
		sort.Strings(bad)
		key := base + "/keyed-by-destination"
		site := p.Pos(mine[0].cs.Instr.Pos())
		switch {
		case len(bad) > 0:
			c.Violate(key, site, "whether %s.OnUpdate forgets the entry it holds for msg.Dst depends on %v, an attribute of the NEW route: when a pool's encapsulation changes at run time (same destination re-emitted with another pool type) the old manager keeps its stale route, so Felix keeps programming a pool that BIRD (or another manager) now owns", mgr, bad)
		case len(unknown) > 0:
			c.Undecided(key, site, "the retraction is guarded by calls that receive the whole message and have no loaded body: %v", unknown)
		default:
			c.Ok(key, site, "reaching the retraction depends on nothing of the message but Dst")
		}
		// (3) RouteUpdate: retract first, then file the new route
		if n == "RouteUpdate" {
			var late, apart []string
			for _, hn := range heldNames {
				for _, mu := range held[byName[hn]] {
					ok, sameFn := false, false
					for _, r := range mine {
						if r.cs.Instr.Parent() != mu.Parent() {
							continue
						}
						sameFn = true
						ok = ok || (r.gone[byName[hn]] && instrDominates(r.cs.Instr, mu))
					}
					switch {
					case !sameFn:
						apart = append(apart, fmt.Sprintf("%s in %s", hn, fnName(mu.Parent())))
					case !ok:
						late = append(late, fmt.Sprintf("%s at %s", hn, p.Pos(mu.Pos())))
					}
				}
			}
			switch {
			case len(late) > 0:
				c.Violate(base+"/before-insert", site, "inserts not preceded on every path by the retraction of the old entry: %v", late)
			case len(apart) > 0:
				c.Undecided(base+"/before-insert", site, "inserts and retraction are in different functions, order not decided: %v", apart)
			default:
				c.Ok(base+"/before-insert", site, "every insert into %s is dominated by the retraction", strings.Join(heldNames, "/"))
			}
		}
	}
}

// --------------------------------------------------------------- revision --

// c28RevSources follows v backwards (origins; a load of a struct field is a
// leaf) and, for parameters, into the arguments of every static call of the
// enclosing function in the root packages.
func c28RevSources(p *Prog, v ssa.Value, depth int) []ssa.Value {
	var out []ssa.Value
	var fieldLoads []ssa.Value
	stopAtFieldLoad := func(v ssa.Value) []ssa.Value {
		if u, ok := v.(*ssa.UnOp); ok && u.Op == token.MUL {
			if _, isFA := u.X.(*ssa.FieldAddr); isFA {
				fieldLoads = append(fieldLoads, v)
				return []ssa.Value{}
			}
		}
		return nil
	}
	os := origins(v, stopAtFieldLoad)
	out = append(out, fieldLoads...)
	for _, o := range os {
		prm, ok := o.V.(*ssa.Parameter)
		if !ok || depth == 0 {
			out = append(out, o.V)
			continue
		}
		fn := prm.Parent()
		idx := -1
		for i, q := range fn.Params {
			if q == prm {
				idx = i
			}
		}
		n := 0
		for _, caller := range p.AllFuncs() {
			allInstrs(caller, false, func(_ *ssa.Function, in ssa.Instruction) {
				ci, ok := in.(ssa.CallInstruction)
				if !ok || ci.Common().IsInvoke() || calleeFn(ci.Common()) != fn {
					return
				}
				n++
				out = append(out, c28RevSources(p, ci.Common().Args[idx], depth-1)...)
			})
		}
		if n == 0 {
			out = append(out, o.V)
		}
	}
	return out
}

func c28Revision(c *Ctx, p *Prog) {
	rev, _ := p.LookupObj(c28ConfdPkg, "bgpConfigCache.revision").(*types.Var)
	getter, _ := p.LookupObj(c28ConfdPkg, "client.GetCurrentRevision").(*types.Func)
	if rev == nil || getter == nil {
		c.Lost("%s: bgpConfigCache.revision / client.GetCurrentRevision", c28ConfdPkg)
	}
	// the client field the getter returns: a direct load of it is a reading too
	var revSrc *types.Var
	gfn := p.Func(c28ConfdPkg, "client.GetCurrentRevision")
	if gfn == nil {
		c.Lost("%s.client.GetCurrentRevision has no body", c28ConfdPkg)
	}
	cands := map[*types.Var]bool{}
	allInstrs(gfn, false, func(_ *ssa.Function, in ssa.Instruction) {
		if u, ok := in.(*ssa.UnOp); ok && u.Op == token.MUL {
			if fa, isFA := u.X.(*ssa.FieldAddr); isFA && types.Identical(u.Type(), gfn.Signature.Results().At(0).Type()) {
				cands[fieldVar(fa)] = true
			}
		}
	})
	if len(cands) == 1 {
		for fv := range cands {
			revSrc = fv
		}
	}
	// reading: (instruction, client value) if src reads the cache revision
	reading := func(src ssa.Value) (ssa.Instruction, ssa.Value, bool) {
		switch x := src.(type) {
		case *ssa.Call:
			if calleeOf(x.Common()) == getter && len(x.Call.Args) > 0 {
				return x, x.Call.Args[0], true
			}
		case *ssa.UnOp:
			if fa, ok := x.X.(*ssa.FieldAddr); ok && x.Op == token.MUL && revSrc != nil && fieldVar(fa) == revSrc {
				return x, fa.X, true
			}
		}
		return nil, nil, false
	}
	n := 0
	for _, fn := range c28PkgFuncs(c, p, c28ConfdPkg) {
		allInstrs(fn, false, func(f *ssa.Function, in ssa.Instruction) {
			st, ok := in.(*ssa.Store)
			if !ok {
				return
			}
			if _, isFA := st.Addr.(*ssa.FieldAddr); !isFA || fieldVar(st.Addr) != rev {
				return
			}
			n++
			key := "C28.revision/" + fnName(f) + "/sampled-before-inputs"
			site := p.Pos(st.Pos())
			var bad []string
			srcs := c28RevSources(p, st.Val, 2)
			for _, src := range srcs {
				call, recv, ok := reading(src)
				if !ok {
					bad = append(bad, "the tag is "+path(src)+", not a reading of client.GetCurrentRevision()")
					continue
				}
				var late []string
				allInstrs(call.Parent(), false, func(_ *ssa.Function, other ssa.Instruction) {
					ci, ok := other.(ssa.CallInstruction)
					if !ok || other == call {
						return
					}
					cc := ci.Common()
					if calleeOf(cc) == getter {
						return
					}
					uses := cc.IsInvoke() && cc.Value == recv
					for _, a := range cc.Args {
						uses = uses || a == recv
					}
					if uses && !instrDominates(call, other) {
						nm := path(cc.Value)
						if cf := calleeOf(cc); cf != nil {
							nm = cf.Name()
						}
						late = append(late, nm)
					}
				})
				if len(late) > 0 {
					sort.Strings(late)
					bad = append(bad, fmt.Sprintf("the revision reading at %s does not precede the client's %v", p.Pos(call.Pos()), late))
				}
			}
			if len(srcs) == 0 {
				bad = append(bad, "no origin for the stored revision")
			}
			c.Check(len(bad) == 0, key, site,
				"the revision stored in "+fnName(f)+" is read before the client is used for anything else by the computing function",
				"the revision stored with the cached BIRD config in "+fnName(f)+" is not the one sampled before the inputs were read: "+strings.Join(bad, "; ")+" - a datastore update (e.g. BGPConfiguration.programClusterRoutes) landing in between is cached under the new revision, so BIRD keeps the stale route-ownership filters until some unrelated update")
		})
	}
	if n == 0 {
		c.Lost("no store into bgpConfigCache.revision in %s", c28ConfdPkg)
	}
}
