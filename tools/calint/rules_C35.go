package main

import (
	"fmt"
	"go/token"
	"go/types"
	"sort"
	"strings"

	"golang.org/x/tools/go/ssa"
)

const (
	c35Pkg    = "felix/markbits"
	c35File   = "felix/markbits/mark_bits.go"
	c35DpPkg  = "felix/dataplane"
	c35DpFile = "felix/dataplane/driver.go"
	c35Rules  = "felix/rules"
)

func init() {
	register(&Property{
		ID:        "C35",
		Title:     "Mark-bit allocation is collision-free and reversible",
		Technique: "static analysis: lock/advance pairing on the allocator (E-LOCK/E-PAIR), guard analysis of the bit arithmetic (E-GUARD), provenance of the marks handed to rules.Config (E-FLOW), per-iteration path enumeration of the mask-walking loops (E-TWIN) on go/ssa",
		DesignRef: "DESIGN.md §3 C35",
		Explanation: "Structural clauses only (the mask arithmetic itself is not decided): (advance) NextSingleBitMark takes the manager's mutex before it reads the allocation counter and releases it by defer; the mark it returns is nthMark(counter); every return of a mark is preceded by counter+1, and a failed allocation returns mark 0. " +
			"(inmask) every non-zero value nthMark returns is `1<<shift` and is only returned under `mask & value > 0`; every bit MapNumberToMark ORs into its result is `1<<shift` under the same mask test; MapMarkToNumber only succeeds under `mark & mask == mark`. " +
			"(sites) in StartDataplaneDriver every single-bit mark stored into rules.Config (accept, pass, drop, scratch0, scratch1, wireguard) is the result of its own NextSingleBitMark call on one manager (or the zero default for the optional wireguard mark), MarkEndpoint comes from NextBlockBitsMark on the same manager, and the Config literal is only reached when a mark allocated at or after each required mark has been tested non-zero (allocation fails monotonically, so a later success implies the earlier ones). " +
			"(maskonly) MapNumberToMark, MapMarkToNumber and nthMark, and everything they call in the package, load no field of the manager that is mutated outside the constructor literal (the allocation counters): the mapping is a function of the mask alone, hence the same after any allocation sequence. " +
			"(rank) in every loop of the package that tests `mask & (1<<shift)` (constructor count, nthMark, MapNumberToMark, MapMarkToNumber) the loop-carried rank counter starts at 0 and, on every path through one iteration, advances by exactly one iff that path established `mask & bit != 0` — so its advance is control-dependent on the mask test only, never on the number/mark being converted, and the encoder and the decoder give each mask bit the same rank.",
		NotDecided: "That the n-th set bit is computed correctly, that numbers round-trip through MapNumberToMark/MapMarkToNumber (arithmetic over run-time values; only the shared rank discipline of the two walks is decided, not the weight 1<<rank each applies); exhaustion behaviour of NextBlockBitsMark beyond what NextSingleBitMark gives it; marks used by the BPF dataplane.",
		Assumptions: []string{
			"go/types + go/ssa (x/tools v0.50.0) model of the current source, CGO_ENABLED=0 build",
			"logrus Panic* does not return",
			"a failed NextSingleBitMark stays failed (counter only grows), so testing the last-allocated required mark covers the earlier ones",
		},
		Run: runC35,
		Fixtures: []Fixture{
			{Name: "allocation counter not advanced: same bit handed out twice", File: c35File,
				Old: "\tmc.numBitsAllocated++\n", New: "", Expect: "C35.advance/MarkBitsManager.NextSingleBitMark/counter"},
			{Name: "allocator no longer serialised", File: c35File,
				Old: "\tmc.mutex.Lock()\n\tdefer mc.mutex.Unlock()\n\n\tmark, err := mc.nthMark(mc.numBitsAllocated)", New: "\tmark, err := mc.nthMark(mc.numBitsAllocated)", Expect: "C35.advance/MarkBitsManager.NextSingleBitMark/lock"},
			{Name: "next mark indexed by the free-bit count, which is not advanced", File: c35File,
				Old: "mc.nthMark(mc.numBitsAllocated)", New: "mc.nthMark(mc.numFreeBits)", Expect: "C35.advance/MarkBitsManager.NextSingleBitMark/counter"},
			{Name: "always the first bit of the mask", File: c35File,
				Old: "mc.nthMark(mc.numBitsAllocated)", New: "mc.nthMark(0)", Expect: "C35.advance/MarkBitsManager.NextSingleBitMark/source"},
			{Name: "nthMark ignores the mask", File: c35File,
				Old: "\t\tcandidate := uint32(1) << shift\n\t\tif mc.mask&candidate > 0 {\n\t\t\tif numBitsFound == n {", New: "\t\tcandidate := uint32(1) << shift\n\t\tif candidate > 0 {\n\t\t\tif numBitsFound == n {", Expect: "C35.inmask/MarkBitsManager.nthMark"},
			{Name: "MapMarkToNumber accepts marks outside the mask", File: c35File,
				Old: "\tif mark&mc.mask != mark {\n", New: "\tif mark == 0 {\n", Expect: "C35.inmask/MarkBitsManager.MapMarkToNumber"},
			{Name: "MapNumberToMark sets bits outside the mask", File: c35File,
				Old: "\t\tcandidate := uint32(1) << shift\n\t\tif mc.mask&candidate > 0 {\n\t\t\tvalue := number", New: "\t\tcandidate := uint32(1) << shift\n\t\tif candidate > 0 {\n\t\t\tvalue := number", Expect: "C35.inmask/MarkBitsManager.MapNumberToMark"},
			{Name: "MapNumberToMark tests the number against the free-position count instead of the mask", File: c35File,
				Old: "\tnumber := uint32(n)\n\tmark := uint32(0)\n", New: "\tif n > 0 && n >= mc.CurrentFreeNumberOfMark() {\n\t\treturn 0, errors.New(\"not enough mark bits available\")\n\t}\n\tnumber := uint32(n)\n\tmark := uint32(0)\n", Expect: "C35.maskonly/MarkBitsManager.MapNumberToMark"},
			{Name: "MapMarkToNumber refuses every mark once the mask is exhausted", File: c35File,
				Old: "\tif mark&mc.mask != mark {\n", New: "\tif mark&mc.mask != mark || mc.numFreeBits == 0 {\n", Expect: "C35.maskonly/MarkBitsManager.MapMarkToNumber"},
			{Name: "MapMarkToNumber advances the rank only for bits set in the mark", File: c35File,
				Old: "\t\tif mc.mask&bit > 0 {\n\t\t\tif bit&mark > 0 {\n\t\t\t\tnumber += int(uint32(1) << numBitsFound)\n\t\t\t}\n\t\t\tnumBitsFound++\n\t\t}\n", New: "\t\tif mc.mask&bit > 0 && bit&mark > 0 {\n\t\t\tnumber += int(uint32(1) << numBitsFound)\n\t\t\tnumBitsFound++\n\t\t}\n", Expect: "C35.rank/MarkBitsManager.MapMarkToNumber"},
			{Name: "MapNumberToMark advances the rank only for bits set in the number", File: c35File,
				Old: "\t\t\t\tnumber -= value\n\t\t\t}\n\t\t\tnumBitsFound++\n", New: "\t\t\t\tnumber -= value\n\t\t\t\tnumBitsFound++\n\t\t\t}\n", Expect: "C35.rank/MarkBitsManager.MapNumberToMark"},
			{Name: "nthMark counts every bit position, not only the mask's", File: c35File,
				Old: "\t\t\t\treturn candidate, nil\n\t\t\t}\n\t\t\tnumBitsFound++\n\t\t}\n", New: "\t\t\t\treturn candidate, nil\n\t\t\t}\n\t\t}\n\t\tnumBitsFound++\n", Expect: "C35.rank/MarkBitsManager.nthMark"},
			{Name: "drop mark reuses the pass mark's allocation", File: c35DpFile,
				Old: "\t\tmarkDrop, _ := markBitsManager.NextSingleBitMark()\n", New: "\t\tmarkDrop := markPass\n", Expect: "C35.sites/MarkDrop"},
			{Name: "exhaustion check no longer covers the last scratch bit", File: c35DpFile,
				Old: "if markAccept == 0 || markScratch0 == 0 || markPass == 0 || markScratch1 == 0 {", New: "if markAccept == 0 || markScratch0 == 0 || markPass == 0 {", Expect: "C35.sites/MarkScratch1"},
		},
	})
}

func runC35(c *Ctx) {
	p := c.Load(c35Pkg, c35DpPkg)
	c.Rule("C35.advance", "E-LOCK/E-PAIR/E-FLOW", "NextSingleBitMark: mutex held over the counter, mark = nthMark(counter), counter+1 before every return of a mark, 0 returned on failure", 4)
	c.Rule("C35.inmask", "E-GUARD", "bits produced by nthMark/MapNumberToMark are 1<<shift under `mask & bit > 0`; MapMarkToNumber succeeds only under mark&mask==mark", 3)
	c.Rule("C35.sites", "E-FLOW/E-GUARD", "each mark in rules.Config comes from its own allocation call on one manager; the Config literal is reached only after a covering non-zero test", 7)

	c.Rule("C35.maskonly", "E-EFFECT", "the number<->mark mapping functions (and nthMark) are functions of the mask alone: neither they nor anything they call reads a field of the manager that the allocator mutates", 3)

	c.Rule("C35.rank", "E-TWIN/E-PATH", "every loop that ranks the bits of the mask (constructor count, nthMark, MapNumberToMark, MapMarkToNumber) starts its rank counter at 0 and advances it by exactly one on every iteration whose shift position is in the mask and on no other — independent of the number/mark being converted — so encoder and decoder give the same mask bit the same rank", 4)

	c35Advance(c, p)
	c35InMask(c, p)
	c35Sites(c, p)
	c35MaskOnly(c, p)
	c35Rank(c, p)
}

// c35Rank: MapNumberToMark and MapMarkToNumber are inverse only because both
// give the i-th set bit of the mask the weight 1<<i, and NextSingleBitMark hands
// out distinct bits only because nthMark numbers the mask's bits 0,1,2,….  All of
// them (and the constructor's count of available bits) keep that rank in a
// loop-carried counter next to the shift position.  Necessary for any of this:
// over one iteration of the loop the counter moves by exactly one if the shift
// position is a mask bit and not at all otherwise.  In particular the advance
// must not additionally depend on the value being encoded/decoded (a counter
// that only advances for bits set in the mark ranks the mark's bits, not the
// mask's) nor happen for positions outside the mask.
//
// Decided per loop by enumerating the (few) paths through one iteration and
// resolving, along each path, what the counter's header phi receives on the back
// edge.  A counter is any loop-carried integer, other than the shift position,
// that every iteration leaves unchanged or advances by constant 1s.
func c35Rank(c *Ctx, p *Prog) {
	next := p.Func(c35Pkg, "MarkBitsManager.NextSingleBitMark")
	nth := p.Func(c35Pkg, "MarkBitsManager.nthMark")
	if next == nil || nth == nil {
		c.Lost("MarkBitsManager.NextSingleBitMark / nthMark")
	}
	m := c35Fields(c, p, next, nth)
	sp := p.SSAPkg(c35Pkg)
	if sp == nil {
		c.Lost("ssa package %s", c35Pkg)
	}
	var fns []*ssa.Function
	for _, fn := range p.AllFuncs() {
		if fn.Pkg == sp && fn.Blocks != nil {
			fns = append(fns, fn)
		}
	}
	sort.Slice(fns, func(i, j int) bool { return fnName(fns[i]) < fnName(fns[j]) })
	found := map[string]int{}
	for _, fn := range fns {
		// the mask as seen by fn: the manager's field, or (constructor) the parameter stored into it
		maskParams := map[ssa.Value]bool{}
		for _, b := range fn.Blocks {
			for _, in := range b.Instrs {
				if st, ok := in.(*ssa.Store); ok {
					if _, isFA := st.Addr.(*ssa.FieldAddr); isFA && fieldVar(st.Addr) == m.mask {
						if par, ok := st.Val.(*ssa.Parameter); ok {
							maskParams[par] = true
						}
					}
				}
			}
		}
		isMask := func(v ssa.Value) bool { return fieldVar(v) == m.mask || maskParams[v] }
		// loops that test mask & (1<<shift): keyed by the shift's header phi
		var shifts []*ssa.Phi
		seen := map[*ssa.Phi]bool{}
		for _, b := range fn.Blocks {
			ifi, ok := b.Instrs[len(b.Instrs)-1].(*ssa.If)
			if !ok {
				continue
			}
			for _, pol := range []bool{true, false} {
				cnd, pl := stripNot(ifi.Cond, pol)
				if s := c35MaskBitEdge(isMask, cnd, pl); s != nil && !seen[s] {
					seen[s] = true
					shifts = append(shifts, s)
				}
			}
		}
		name := fnName(fn)
		for _, shift := range shifts {
			header := shift.Block()
			cycles, nested, overflow := c35Cycles(header, 512)
			if nested || overflow || len(cycles) == 0 {
				c.Undecided("C35.rank/"+name, p.Pos(shift.Pos()), "the loop over the mask's bit positions has an inner loop or too many paths (%d) to enumerate", len(cycles))
				found[name]++
				continue
			}
			inMask := func(cond ssa.Value, pol bool) bool { return c35MaskBitEdge(isMask, cond, pol) == shift }
			latches := map[*ssa.BasicBlock]bool{}
			for _, cy := range cycles {
				latches[cy[len(cy)-1]] = true
			}
			for _, in := range header.Instrs {
				h, ok := in.(*ssa.Phi)
				if !ok {
					break
				}
				if h == shift {
					continue
				}
				if b, ok := h.Type().Underlying().(*types.Basic); !ok || b.Info()&types.IsInteger == 0 {
					continue
				}
				// a counter: every iteration leaves it alone or adds constant 1s, and some iteration adds
				counter, moves := true, false
				ks := make([]int, len(cycles))
				for i, cy := range cycles {
					k, ok := cy.steps(h)
					if !ok {
						counter = false
						break
					}
					ks[i] = k
					moves = moves || k > 0
				}
				if !counter || !moves {
					continue
				}
				found[name]++
				key := "C35.rank/" + name
				if found[name] > 1 {
					key = fmt.Sprintf("%s/#%d", key, found[name])
				}
				var bad []string
				for i, cy := range cycles {
					want := 0
					if cy.crosses(inMask) {
						want = 1
					}
					if ks[i] == want {
						continue
					}
					via := p.Pos(cy[len(cy)-1].Instrs[0].Pos())
					switch {
					case want == 1 && ks[i] == 0:
						bad = append(bad, fmt.Sprintf("an iteration whose position is in the mask can reach the next one (via %s) without advancing the rank counter: its advance depends on more than `%s & bit != 0`, so later mask bits get the rank of earlier ones", via, m.mask.Name()))
					case want == 0:
						bad = append(bad, fmt.Sprintf("the rank counter advances by %d on an iteration (via %s) that did not establish `%s & bit != 0`: positions outside the mask are ranked", ks[i], via, m.mask.Name()))
					default:
						bad = append(bad, fmt.Sprintf("the rank counter advances by %d in one iteration (via %s)", ks[i], via))
					}
				}
				for i, pr := range header.Preds {
					if !latches[pr] && !c35IsZero(h.Edges[i]) {
						bad = append(bad, fmt.Sprintf("the rank counter starts at %s, not 0", path(h.Edges[i])))
					}
				}
				sort.Strings(bad)
				detail := ""
				if len(bad) > 0 {
					detail = name + ": " + bad[0]
					if len(bad) > 1 {
						detail += fmt.Sprintf(" (+%d more path(s))", len(bad)-1)
					}
					detail += "; the sibling loops rank every mask bit, so number->mark->number is no longer the identity / allocated bits are no longer the mask's bits in order"
				}
				c.Check(len(bad) == 0, key, p.Pos(h.Pos()), fmt.Sprintf("rank counter starts at 0 and moves by exactly 1 on the %d of %d iteration paths that pass the mask test, by 0 on the others", c35CountCross(cycles, inMask), len(cycles)), detail)
			}
		}
	}
	// the three rank-based functions must have been recognised (a loop without a counter is a
	// constant rank: SSA folds an unadvanced counter away)
	for _, n := range []string{"MarkBitsManager.nthMark", "MarkBitsManager.MapNumberToMark", "MarkBitsManager.MapMarkToNumber"} {
		fn := p.Func(c35Pkg, n)
		if fn == nil {
			c.Lost("%s", n)
		}
		if found[fnName(fn)] == 0 {
			c.Violate("C35.rank/"+fnName(fn), p.Pos(fn.Pos()), "%s has no loop over the mask's bit positions with a rank counter that advances per mask bit (counter never advanced, or the function no longer walks the mask like its siblings)", fnName(fn))
		}
	}
}

func c35CountCross(cycles []c35Cycle, pred EdgePred) int {
	n := 0
	for _, cy := range cycles {
		if cy.crosses(pred) {
			n++
		}
	}
	return n
}

// c35MaskOnly: "every number that fits the mask maps to a mark and back" is
// quantified over all allocation sequences, so the mapping must not depend on how
// many bits have been handed out.  Allocation state = the fields of
// MarkBitsManager that are stored to anywhere outside a fresh composite literal
// (today numBitsAllocated, numFreeBits).  MapNumberToMark, MapMarkToNumber and
// nthMark (whose index comes in as a parameter) and everything they reach through
// static calls in the package must not load such a field.
func c35MaskOnly(c *Ctx, p *Prog) {
	tn, _ := p.LookupObj(c35Pkg, "MarkBitsManager").(*types.TypeName)
	if tn == nil {
		c.Lost("type MarkBitsManager")
	}
	isMgr := func(t types.Type) bool { return types.Identical(derefType(t), tn.Type()) }
	sp := p.SSAPkg(c35Pkg)
	if sp == nil {
		c.Lost("ssa package %s", c35Pkg)
	}
	// mutable fields: stored through anything but a local literal
	mutable := map[*types.Var]string{}
	for _, fn := range p.AllFuncs() {
		if fn.Pkg != sp {
			continue
		}
		allInstrs(fn, false, func(f *ssa.Function, in ssa.Instruction) {
			st, ok := in.(*ssa.Store)
			if !ok {
				return
			}
			fa, ok := st.Addr.(*ssa.FieldAddr)
			if !ok || !isMgr(fa.X.Type()) {
				return
			}
			if _, lit := fa.X.(*ssa.Alloc); lit {
				return
			}
			if fv := fieldVar(fa); fv != nil {
				mutable[fv] = fnName(f)
			}
		})
	}
	if len(mutable) == 0 {
		c.Lost("no field of MarkBitsManager is mutated by the allocator (allocation state not found)")
	}
	for _, name := range []string{"MarkBitsManager.MapNumberToMark", "MarkBitsManager.MapMarkToNumber", "MarkBitsManager.nthMark"} {
		fn := p.Func(c35Pkg, name)
		if fn == nil {
			c.Lost("%s", name)
		}
		var bad []string
		funcs := p.closure(fn)
		var fl []*ssa.Function
		for f := range funcs {
			if f.Pkg == sp {
				fl = append(fl, f)
			}
		}
		sort.Slice(fl, func(i, j int) bool { return fnName(fl[i]) < fnName(fl[j]) })
		for _, f := range fl {
			allInstrs(f, true, func(g *ssa.Function, in ssa.Instruction) {
				var fv *types.Var
				switch x := in.(type) {
				case *ssa.FieldAddr:
					if isMgr(x.X.Type()) && addrIsRead(x) {
						fv = fieldVar(x)
					}
				case *ssa.Field:
					if isMgr(x.X.Type()) {
						fv = structField(x.X.Type(), x.Field)
					}
				}
				if fv == nil {
					return
				}
				if by, ok := mutable[fv]; ok {
					via := ""
					if topFn(g) != fn {
						via = " (via " + fnName(topFn(g)) + ")"
					}
					bad = append(bad, fmt.Sprintf("reads %s%s at %s, which %s changes with every allocation", fv.Name(), via, p.Pos(in.Pos()), by))
				}
			})
		}
		detail := ""
		if len(bad) > 0 {
			detail = fnName(fn) + " " + strings.Join(bad, "; ") + ": its result for a given mask depends on how many bits have been handed out"
		}
		c.Check(len(bad) == 0, "C35.maskonly/"+fnName(fn), p.Pos(fn.Pos()), fmt.Sprintf("reads no allocator-mutated field (%d function(s) inspected)", len(fl)), detail)
	}
}

type c35M struct {
	mask, counter, mutex *types.Var
}

func c35Fields(c *Ctx, p *Prog, next *ssa.Function, nth *ssa.Function) c35M {
	var m c35M
	tn, _ := p.LookupObj(c35Pkg, "MarkBitsManager").(*types.TypeName)
	if tn == nil {
		c.Lost("type MarkBitsManager")
	}
	st := tn.Type().Underlying().(*types.Struct)
	for i := 0; i < st.NumFields(); i++ {
		f := st.Field(i)
		if qualTypeName(f.Type()) == "sync.Mutex" {
			m.mutex = f
		}
		if b, ok := f.Type().Underlying().(*types.Basic); ok && b.Kind() == types.Uint32 {
			if m.mask != nil {
				c.Lost("MarkBitsManager has more than one uint32 field")
			}
			m.mask = f
		}
	}
	// the counter: the field whose value is passed to nthMark by NextSingleBitMark
	for _, cs := range callsIn(next, false, func(f *types.Func) bool { return f == nth.Object() }) {
		if len(cs.Args()) == 2 {
			m.counter = fieldVar(cs.Args()[1])
		}
	}
	if m.mask == nil || m.mutex == nil {
		c.Lost("MarkBitsManager mask (uint32) / mutex (sync.Mutex) fields")
	}
	return m
}

func c35Advance(c *Ctx, p *Prog) {
	next := p.Func(c35Pkg, "MarkBitsManager.NextSingleBitMark")
	nth := p.Func(c35Pkg, "MarkBitsManager.nthMark")
	if next == nil || nth == nil {
		c.Lost("MarkBitsManager.NextSingleBitMark / nthMark")
	}
	m := c35Fields(c, p, next, nth)
	name := fnName(next)
	site := p.Pos(next.Pos())

	// source: every returned non-constant mark is result #0 of nthMark(<a field of the manager>)
	bad := ""
	nMark := 0
	var markReturns []*ssa.Return
	for _, r := range c35Returns(next) {
		if len(r.Vals) != 2 {
			c.Lost("%s does not return (mark, error)", name)
		}
		if cv, ok := constOf(r.Vals[0]); ok {
			if cv.String() != "0" {
				bad = "returns the constant mark " + cv.String()
			}
			continue
		}
		nMark++
		markReturns = append(markReturns, r.Return)
		for _, o := range origins(r.Vals[0], nil) {
			call, ok := o.V.(*ssa.Call)
			if !ok || calleeFn(call.Common()) != nth {
				bad = fmt.Sprintf("mark returned at %s comes from %s, not from nthMark", p.Pos(r.Pos()), path(o.V))
				continue
			}
			if m.counter == nil || fieldVar(call.Call.Args[1]) != m.counter {
				bad = fmt.Sprintf("nthMark is called with %s, not with the allocation counter", path(call.Call.Args[1]))
			}
		}
	}
	if m.counter == nil && bad == "" {
		bad = "nthMark is not called with a field of the manager"
	}
	// the counter is the field that is incremented (checked below); the index passed must be that same field
	var incs []*ssa.Store
	allInstrs(next, false, func(_ *ssa.Function, in ssa.Instruction) {
		st, ok := in.(*ssa.Store)
		if !ok {
			return
		}
		bo, ok := st.Val.(*ssa.BinOp)
		if !ok || bo.Op != token.ADD {
			return
		}
		if cv, ok := constOf(bo.Y); !ok || cv.String() != "1" {
			return
		}
		if fv := fieldVar(st.Addr); fv != nil && fieldVar(bo.X) == fv {
			incs = append(incs, st)
		}
	})
	if nMark == 0 {
		c.Lost("%s never returns a computed mark", name)
	}
	c.Check(bad == "", "C35.advance/"+name+"/source", site, "returned mark is nthMark(<allocation counter>)", bad)

	// counter advanced before every return of a mark
	bad = ""
	for _, r := range markReturns {
		dom := false
		for _, st := range incs {
			if m.counter != nil && fieldVar(st.Addr) == m.counter && instrDominates(st, r) {
				dom = true
			}
		}
		if !dom {
			cn := "the counter passed to nthMark"
			if m.counter != nil {
				cn = m.counter.Name()
			}
			bad = fmt.Sprintf("the return of a mark at %s is not dominated by %s+1: the next call hands out the same bit again", p.Pos(r.Pos()), cn)
		}
	}
	c.Check(bad == "", "C35.advance/"+name+"/counter", site, "every return of a mark is dominated by counter+1", bad)

	// failure returns mark 0: every return with a non-nil error has a constant 0 mark
	bad = ""
	for _, r := range c35Returns(next) {
		if isNilConst(r.Vals[1]) {
			continue
		}
		if cv, ok := constOf(r.Vals[0]); !ok || cv.String() != "0" {
			bad = fmt.Sprintf("return at %s yields an error together with a non-zero mark (callers test mark==0 for exhaustion)", p.Pos(r.Pos()))
		}
	}
	c.Check(bad == "", "C35.advance/"+name+"/zero-on-failure", site, "an error is returned only with mark 0", bad)

	// lock: Lock on the mutex field dominates every access to the counter; Unlock is deferred after Lock
	var lock, unlock ssa.Instruction
	allInstrs(next, false, func(_ *ssa.Function, in ssa.Instruction) {
		ci, ok := in.(ssa.CallInstruction)
		if !ok {
			return
		}
		f := calleeOf(ci.Common())
		if f == nil || f.Pkg() == nil || f.Pkg().Path() != "sync" || len(ci.Common().Args) == 0 || fieldVar(ci.Common().Args[0]) != m.mutex {
			return
		}
		if _, isCall := in.(*ssa.Call); isCall && f.Name() == "Lock" {
			lock = in
		}
		if _, isDefer := in.(*ssa.Defer); isDefer && f.Name() == "Unlock" {
			unlock = in
		}
	})
	bad = ""
	switch {
	case lock == nil:
		bad = "no Lock of the manager's mutex: concurrent callers can read the same counter value and receive the same bit"
	case unlock == nil || !instrDominates(lock, unlock):
		bad = "the mutex is not released by a deferred Unlock after the Lock"
	default:
		allInstrs(next, false, func(_ *ssa.Function, in ssa.Instruction) {
			var addr ssa.Value
			switch x := in.(type) {
			case *ssa.UnOp:
				if x.Op == token.MUL {
					addr = x.X
				}
			case *ssa.Store:
				addr = x.Addr
			}
			if addr == nil || m.counter == nil || fieldVar(addr) != m.counter {
				return
			}
			if _, isFA := addr.(*ssa.FieldAddr); isFA && !instrDominates(lock, in) {
				bad = fmt.Sprintf("access to %s at %s is not dominated by the Lock", m.counter.Name(), p.Pos(in.Pos()))
			}
		})
	}
	c.Check(bad == "", "C35.advance/"+name+"/lock", site, "Lock dominates every access to the counter; Unlock deferred", bad)
}

// c35Ret is a return with its result values resolved through the result
// variables go/ssa introduces for functions with defers (the value stored last in
// the returning block); the synthetic recover block is skipped.
type c35Ret struct {
	*ssa.Return
	Vals []ssa.Value
}

func c35Returns(fn *ssa.Function) []c35Ret {
	var out []c35Ret
	for _, r := range returnsOf(fn) {
		if fn.Recover != nil && r.Block() == fn.Recover {
			continue
		}
		cr := c35Ret{Return: r}
		for _, v := range r.Results {
			if ld, ok := v.(*ssa.UnOp); ok && ld.Op == token.MUL {
				if al, ok := ld.X.(*ssa.Alloc); ok {
					instrs := r.Block().Instrs
					for i := instrIndex(ld) - 1; i >= 0; i-- {
						if st, ok := instrs[i].(*ssa.Store); ok && st.Addr == ssa.Value(al) {
							v = st.Val
							break
						}
					}
				}
			}
			cr.Vals = append(cr.Vals, v)
		}
		out = append(out, cr)
	}
	return out
}

// c35CutFrom: every CFG path from just after `from` to target crosses an If edge
// accepted by pred (or ends in a panic block).
func c35CutFrom(from, target ssa.Instruction, pred EdgePred) bool {
	if from.Parent() != target.Parent() {
		return false
	}
	if from.Block() == target.Block() && instrIndex(from) < instrIndex(target) {
		return false
	}
	seen := map[*ssa.BasicBlock]bool{}
	var st []*ssa.BasicBlock
	push := func(b *ssa.BasicBlock) {
		if isPanicBlock(b) && b != from.Block() {
			// still need to look at it as a target holder
		}
		if ifi, ok := b.Instrs[len(b.Instrs)-1].(*ssa.If); ok && len(b.Succs) == 2 {
			for k, s := range b.Succs {
				cnd, pol := stripNot(ifi.Cond, k == 0)
				if b.Succs[0] != b.Succs[1] && pred(cnd, pol) {
					continue
				}
				st = append(st, s)
			}
			return
		}
		st = append(st, b.Succs...)
	}
	push(from.Block())
	for len(st) > 0 {
		b := st[len(st)-1]
		st = st[:len(st)-1]
		if seen[b] {
			continue
		}
		seen[b] = true
		if b == target.Block() {
			return false
		}
		if isPanicBlock(b) {
			continue
		}
		push(b)
	}
	return true
}

// c35IsOneShl: v is `1 << x` (possibly converted).
func c35IsOneShl(v ssa.Value) bool {
	for {
		switch x := v.(type) {
		case *ssa.Convert:
			v = x.X
			continue
		case *ssa.BinOp:
			if x.Op != token.SHL {
				return false
			}
			cv, ok := constOf(x.X)
			return ok && cv.String() == "1"
		}
		return false
	}
}

// c35MaskTest: edge predicate `mask & bit > 0` (or != 0) true, for the given bit value.
func c35MaskTest(mask *types.Var, bit ssa.Value) EdgePred {
	return func(cond ssa.Value, pol bool) bool {
		bo, ok := cond.(*ssa.BinOp)
		if !ok {
			return false
		}
		var and ssa.Value
		switch {
		case bo.Op == token.GTR && c35IsZero(bo.Y) && pol:
			and = bo.X
		case bo.Op == token.NEQ && c35IsZero(bo.Y) && pol:
			and = bo.X
		case bo.Op == token.EQL && c35IsZero(bo.Y) && !pol:
			and = bo.X
		default:
			return false
		}
		ab, ok := and.(*ssa.BinOp)
		if !ok || ab.Op != token.AND {
			return false
		}
		return (fieldVar(ab.X) == mask && ab.Y == bit) || (fieldVar(ab.Y) == mask && ab.X == bit)
	}
}

func c35IsZero(v ssa.Value) bool {
	cv, ok := constOf(v)
	return ok && cv.String() == "0"
}

func c35InMask(c *Ctx, p *Prog) {
	next := p.Func(c35Pkg, "MarkBitsManager.NextSingleBitMark")
	nth := p.Func(c35Pkg, "MarkBitsManager.nthMark")
	m := c35Fields(c, p, next, nth)

	// nthMark
	bad := ""
	n := 0
	for _, r := range c35Returns(nth) {
		if c35IsZero(r.Vals[0]) {
			continue
		}
		for _, o := range origins(r.Vals[0], nil) {
			n++
			if !c35IsOneShl(o.V) {
				bad = fmt.Sprintf("value %s returned at %s is not of the form 1<<shift (not a single bit by construction)", path(o.V), p.Pos(r.Pos()))
				continue
			}
			if !guardedCut(r.Return, c35MaskTest(m.mask, o.V)) {
				bad = fmt.Sprintf("bit returned at %s is not guarded by `%s & bit > 0`: bits outside the configured mask can be handed out", p.Pos(r.Pos()), m.mask.Name())
			}
		}
	}
	if n == 0 {
		c.Lost("nthMark returns no computed bit")
	}
	c.Check(bad == "", "C35.inmask/"+fnName(nth), p.Pos(nth.Pos()), "returned bits are 1<<shift under the mask test", bad)

	// MapNumberToMark: every OR into the result takes a 1<<shift operand under the mask test
	n2m := p.Func(c35Pkg, "MarkBitsManager.MapNumberToMark")
	m2n := p.Func(c35Pkg, "MarkBitsManager.MapMarkToNumber")
	if n2m == nil || m2n == nil {
		c.Lost("MapNumberToMark / MapMarkToNumber")
	}
	bad = ""
	n = 0
	for _, r := range c35Returns(n2m) {
		if c35IsZero(r.Vals[0]) {
			continue
		}
		// walk the accumulation: phi / OR
		seen := map[ssa.Value]bool{}
		var walk func(v ssa.Value)
		walk = func(v ssa.Value) {
			if seen[v] {
				return
			}
			seen[v] = true
			switch x := v.(type) {
			case *ssa.Phi:
				for _, e := range x.Edges {
					walk(e)
				}
			case *ssa.BinOp:
				if x.Op != token.OR {
					bad = fmt.Sprintf("result built with %s at %s", x.Op, p.Pos(x.Pos()))
					return
				}
				for _, side := range []ssa.Value{x.X, x.Y} {
					if c35IsOneShl(side) {
						n++
						if !guardedCut(x, c35MaskTest(m.mask, side)) {
							bad = fmt.Sprintf("bit ORed into the mark at %s is not guarded by `%s & bit > 0`", p.Pos(x.Pos()), m.mask.Name())
						}
					} else {
						walk(side)
					}
				}
			case *ssa.Const:
				if !c35IsZero(x) {
					bad = "constant non-zero bits in the mark"
				}
			default:
				bad = fmt.Sprintf("mark derives from %s (not an OR of guarded single bits)", path(v))
			}
		}
		walk(r.Vals[0])
	}
	if n == 0 && bad == "" {
		bad = "no bit is ORed into the result"
	}
	c.Check(bad == "", "C35.inmask/"+fnName(n2m), p.Pos(n2m.Pos()), fmt.Sprintf("%d OR site(s), each a 1<<shift under the mask test", n), bad)

	// MapMarkToNumber: success only under mark&mask == mark
	bad = ""
	n = 0
	if len(m2n.Params) < 2 {
		c.Lost("MapMarkToNumber parameters")
	}
	markP := m2n.Params[1]
	inMask := func(cond ssa.Value, pol bool) bool {
		bo, ok := cond.(*ssa.BinOp)
		if !ok || (bo.Op != token.EQL && bo.Op != token.NEQ) {
			return false
		}
		if (bo.Op == token.EQL) != pol {
			return false
		}
		for _, pr := range [][2]ssa.Value{{bo.X, bo.Y}, {bo.Y, bo.X}} {
			ab, ok := pr[0].(*ssa.BinOp)
			if ok && ab.Op == token.AND && pr[1] == ssa.Value(markP) &&
				((ab.X == ssa.Value(markP) && fieldVar(ab.Y) == m.mask) || (ab.Y == ssa.Value(markP) && fieldVar(ab.X) == m.mask)) {
				return true
			}
		}
		return false
	}
	for _, r := range c35Returns(m2n) {
		if !isNilConst(r.Vals[1]) {
			continue
		}
		n++
		if !guardedCut(r.Return, inMask) {
			bad = fmt.Sprintf("successful return at %s is reachable for a mark with bits outside %s (the number does not map back to that mark)", p.Pos(r.Pos()), m.mask.Name())
		}
	}
	if n == 0 {
		c.Lost("MapMarkToNumber has no successful return")
	}
	c.Check(bad == "", "C35.inmask/"+fnName(m2n), p.Pos(m2n.Pos()), "success only under mark&mask == mark", bad)
}

func c35Sites(c *Ctx, p *Prog) {
	drv := p.Func(c35DpPkg, "StartDataplaneDriver")
	if drv == nil {
		c.Lost("felix/dataplane.StartDataplaneDriver")
	}
	single, _ := p.LookupExt(c35Pkg, "MarkBitsManager.NextSingleBitMark").(*types.Func)
	block, _ := p.LookupExt(c35Pkg, "MarkBitsManager.NextBlockBitsMark").(*types.Func)
	if single == nil || block == nil {
		c.Lost("markbits allocation methods")
	}
	// the rules.Config literal(s)
	var lits []*ssa.Alloc
	allInstrs(drv, true, func(_ *ssa.Function, in ssa.Instruction) {
		if al, ok := in.(*ssa.Alloc); ok && qualTypeName(al.Type()) == c35Rules+".Config" {
			if len(literalFieldStores(al)) > 0 {
				lits = append(lits, al)
			}
		}
	})
	if len(lits) != 1 {
		c.Lost("expected one rules.Config literal in StartDataplaneDriver, found %d", len(lits))
	}
	lit := lits[0]
	fs := literalFieldStores(lit)
	required := []string{"MarkAccept", "MarkPass", "MarkDrop", "MarkScratch0", "MarkScratch1"}
	optional := []string{"WireguardMark"}
	type src struct {
		call *ssa.Call
		zero bool
	}
	srcs := map[string][]src{}
	usedBy := map[*ssa.Call][]string{}
	var mgrs []ssa.Value
	resolve := func(field string, want *types.Func) (bad string) {
		vals := fs[field]
		if len(vals) != 1 {
			return fmt.Sprintf("rules.Config.%s is stored %d times in the literal", field, len(vals))
		}
		for _, o := range origins(vals[0], nil) {
			if call, ok := o.V.(*ssa.Call); ok && calleeOf(call.Common()) == want {
				srcs[field] = append(srcs[field], src{call: call})
				usedBy[call] = append(usedBy[call], field)
				mgrs = append(mgrs, call.Call.Args[0])
				// must be result #0
				continue
			}
			if c35IsZero(o.V) {
				srcs[field] = append(srcs[field], src{zero: true})
				continue
			}
			return fmt.Sprintf("rules.Config.%s can take the value %s, which is not a result of %s", field, path(o.V), want.Name())
		}
		return ""
	}
	results := map[string]string{}
	for _, f := range append(append([]string{}, required...), optional...) {
		results[f] = resolve(f, single)
	}
	results["MarkEndpoint"] = resolve("MarkEndpoint", block)
	// distinct calls, one manager
	for call, fields := range usedBy {
		if len(fields) > 1 {
			sort.Strings(fields)
			for _, f := range fields {
				if results[f] == "" {
					results[f] = fmt.Sprintf("%v share the allocation call at %s: they are the same bit", fields, p.Pos(call.Pos()))
				}
			}
		}
	}
	mgrPath := ""
	for _, mv := range mgrs {
		if mgrPath == "" {
			mgrPath = c35PathOrigin(mv)
		} else if c35PathOrigin(mv) != mgrPath {
			for f := range results {
				if results[f] == "" {
					results[f] = "marks are allocated from different managers (" + mgrPath + " / " + c35PathOrigin(mv) + "): bits can collide"
				}
			}
		}
	}
	// required marks: no zero source; literal guarded by a non-zero test of a mark allocated at/after it
	isResultOf := func(v ssa.Value, call *ssa.Call) bool {
		for _, o := range origins(v, nil) {
			if o.V != ssa.Value(call) {
				return false
			}
		}
		return true
	}
	covered := func(call *ssa.Call) bool {
		return c35CutFrom(call, lit, func(cond ssa.Value, pol bool) bool {
			bo, ok := cond.(*ssa.BinOp)
			if !ok || (bo.Op != token.EQL && bo.Op != token.NEQ) {
				return false
			}
			if (bo.Op == token.NEQ) != pol { // want: tested value != 0 on this edge
				return false
			}
			var tested ssa.Value
			switch {
			case c35IsZero(bo.Y):
				tested = bo.X
			case c35IsZero(bo.X):
				tested = bo.Y
			default:
				return false
			}
			for _, o := range origins(tested, nil) {
				later, ok := o.V.(*ssa.Call)
				if !ok || calleeOf(later.Common()) != single {
					return false
				}
				if !(later == call || instrDominates(call, later)) {
					return false
				}
			}
			return true
		})
	}
	_ = isResultOf
	for _, f := range required {
		if results[f] != "" {
			continue
		}
		for _, s := range srcs[f] {
			if s.zero {
				results[f] = "rules.Config." + f + " can be the zero default (mark never allocated)"
			} else if !covered(s.call) {
				results[f] = fmt.Sprintf("the rules.Config literal is reachable although neither %s nor a mark allocated after it (%s) has been tested non-zero: an exhausted mask yields mark 0, which matches every packet", f, p.Pos(s.call.Pos()))
			}
		}
		if len(srcs[f]) == 0 {
			results[f] = "no source"
		}
	}
	for _, f := range optional {
		if results[f] != "" {
			continue
		}
		for _, s := range srcs[f] {
			if !s.zero && !covered(s.call) {
				results[f] = fmt.Sprintf("%s is allocated at %s but never tested non-zero before the rules.Config literal", f, p.Pos(s.call.Pos()))
			}
		}
	}
	site := p.Pos(lit.Pos())
	keys := sortedKeys(results)
	for _, f := range keys {
		c.Check(results[f] == "", "C35.sites/"+f, site, "own allocation call on the shared manager"+c35Suffix(f, required), results[f])
	}
}

func c35Suffix(f string, required []string) string {
	for _, r := range required {
		if r == f {
			return ", covered by a non-zero test before use"
		}
	}
	return ""
}

// c35PathOrigin renders the origin of a value (through local variables) for comparison.
func c35PathOrigin(v ssa.Value) string {
	var parts []string
	for _, o := range origins(v, nil) {
		parts = append(parts, fmt.Sprintf("%s@%d", path(o.V), o.V.Pos()))
	}
	sort.Strings(parts)
	return strings.Join(parts, "|")
}
