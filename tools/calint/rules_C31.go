package main

import (
	"fmt"
	"go/token"
	"go/types"
	"sort"
	"strings"

	"golang.org/x/tools/go/ssa"
)

const c31Pkg = "felix/policysync"

func init() {
	register(&Property{
		ID:        "C31",
		Title:     "Per-workload policy sync streams are complete, minimal and ordered",
		Technique: "static analysis: emission summaries over channel sends (payload type provenance, returned-closure resolution), dominance ordering, interprocedural liveness of the output channel, pairing (go/ssa over felix/policysync)",
		DesignRef: "DESIGN.md §3 C31",
		Explanation: "Decides on felix/policysync.Processor: (order) in every function that obtains the IP-set add/remove closures from getIPSetsSync (maybeSyncEndpoint and the per-policy/per-profile update closures) " +
			"the sites emitting a referenced message type dominate, and are not reachable from, the sites emitting its referrer (IP sets < policies/profiles < endpoint < policy/profile removes < IP-set removes), " +
			"and the function that sends WorkloadEndpointUpdate has an emitting site for every other type of the chain; no function emits a referrer before its reference within one pass; " +
			"(live) every send on an EndpointInfo.output channel happens where that endpoint's output is known non-nil: guarded in place, right after the join stored it, for an element of updateableEndpoints() " +
			"(which appends only under output != nil), or in a helper/closure all of whose callers satisfy this for the endpoint they pass; every close(ei.output) is followed on every path by " +
			"a store to ei.output or removal of the endpoint from endpointsByID; the leave path clears output only under the join-UID match; (own) the endpoint update sent on ei.output is ei.endpointUpd; " +
			"(synced) each ActivePolicyUpdate/ActiveProfileUpdate send is paired with marking the id in the same endpoint's syncedPolicies/syncedProfiles, removes are sent for ids ranged from the previous synced map; " +
			"(rejoin) a store of a new output channel comes with fresh syncedPolicies/Profiles/IPSets maps before anything is sent; " +
			"(cache) the caches follow the dataplane feed independently of clients: for every message kind K, the function the type-switch dispatcher hands a *proto.<K>Remove to deletes from the Processor map " +
			"that the <K>Update handler fills on every normally returning path (in place, via a callee or a deferred function; only a comma-ok 'absent' branch of that same map is exempt), " +
			"and every kind whose Update handler fills a Processor map has a Remove handler; " +
			"(drain) the function that registers a per-connection queue with the Processor (stores a channel it made into JoinRequest.C: Server.Sync) returns, on every path after the registration, only after a receive " +
			"reported that queue closed (directly, via the exit of a range loop, or in a deferred drain closure whose every return is cut by ok == false of a receive / select case on it, or by the channel " +
			"variable being nil where nil is only ever stored after such an observation) – the Processor's sends are blocking, so an undrained queue stalls every other workload's stream; " +
			"(replace) elements of a repeated field of a full <K>Update feed message (one that has a <K>DeltaUpdate sibling: IPSetUpdate) are added to a collection stored in a policysync struct field only where that " +
			"collection was replaced by a new one or cleared on every path (in the function, or at every static caller for the object passed): only delta messages are merged into the stored copy that late joiners are synced from.",
		NotDecided: "That the calculation graph sends referenced objects first and removes references before objects (trusted by the Processor); contents of messages (latest version); that getIPSetsSync's " +
			"set difference is right; server-side forwarding order (gRPC stream); InSync handling; that the drain loop cannot block on something other than the queue (deadlock freedom of the select itself).",
		Assumptions: []string{
			"go/types + go/ssa (x/tools v0.50.0) model of the current source, CGO_ENABLED=0 build",
			"the Processor handles one event at a time on one goroutine, so a non-nil test of ei.output stays true for the rest of the handler unless the handler itself stores to it",
			"logrus Panic*/Fatal* do not return",
		},
		Run: runC31,
		Fixtures: []Fixture{
			{Name: "endpoint update sent before its policies", File: "felix/policysync/processor.go",
				Old: "\tp.syncAddedPolicies(ei)\n\tp.syncAddedProfiles(ei)\n\tei.output <- &proto.ToDataplane{\n\t\tPayload: &proto.ToDataplane_WorkloadEndpointUpdate{WorkloadEndpointUpdate: ei.endpointUpd},\n\t}\n",
				New: "\tei.output <- &proto.ToDataplane{\n\t\tPayload: &proto.ToDataplane_WorkloadEndpointUpdate{WorkloadEndpointUpdate: ei.endpointUpd},\n\t}\n\tp.syncAddedPolicies(ei)\n\tp.syncAddedProfiles(ei)\n",
				Expect: "C31.order/Processor.maybeSyncEndpoint/ActivePolicyUpdate<WorkloadEndpointUpdate"},
			{Name: "IP sets removed before the policies that use them", File: "felix/policysync/processor.go",
				Old: "\tp.syncRemovedPolicies(ei)\n\tp.syncRemovedProfiles(ei)\n\tdoDel()\n", New: "\tdoDel()\n\tp.syncRemovedPolicies(ei)\n\tp.syncRemovedProfiles(ei)\n",
				Expect: "C31.order/Processor.maybeSyncEndpoint/ActivePolicyRemove<IpsetRemove"},
			{Name: "policies never sent with the endpoint", File: "felix/policysync/processor.go",
				Old: "\tdoAdd()\n\tp.syncAddedPolicies(ei)\n\tp.syncAddedProfiles(ei)\n", New: "\tdoAdd()\n\tp.syncAddedProfiles(ei)\n",
				Expect: "C31.order/Processor.maybeSyncEndpoint/ActivePolicyUpdate<WorkloadEndpointUpdate"},
			{Name: "policy update sent before its new IP sets", File: "felix/policysync/processor.go",
				Old: "\t\t\t\tdoAdd()\n\t\t\t\tei.output <- &proto.ToDataplane{Payload: &proto.ToDataplane_ActivePolicyUpdate{ActivePolicyUpdate: update}}\n\t\t\t\tei.syncedPolicies[pId] = true\n\t\t\t\tdoDel()\n",
				New: "\t\t\t\tei.output <- &proto.ToDataplane{Payload: &proto.ToDataplane_ActivePolicyUpdate{ActivePolicyUpdate: update}}\n\t\t\t\tei.syncedPolicies[pId] = true\n\t\t\t\tdoAdd()\n\t\t\t\tdoDel()\n",
				Expect: "C31.order/Processor.handleActivePolicyUpdate$1/IpsetUpdate<ActivePolicyUpdate"},
			{Name: "sync to endpoints without a client", File: "felix/policysync/processor.go",
				Old: "\tif ei.output == nil {\n\t\tlog.Debug(\"Skipping sync: endpoint has no listening client\")\n\t\treturn\n\t}\n", New: "",
				Expect: "C31.live/send"},
			{Name: "updateable endpoints include left ones", File: "felix/policysync/processor.go",
				Old: "\t\tif ei.output != nil {\n\t\t\tout = append(out, ei)\n\t\t}\n", New: "\t\tout = append(out, ei)\n",
				Expect: "C31.live/updateable"},
			{Name: "service account update to every known endpoint", File: "felix/policysync/processor.go",
				Old: "\tfor _, ei := range p.updateableEndpoints() {\n\t\tei.output <- &proto.ToDataplane{Payload: &proto.ToDataplane_ServiceAccountUpdate{ServiceAccountUpdate: update}}\n\t}",
				New: "\tfor _, ei := range p.endpointsByID {\n\t\tei.output <- &proto.ToDataplane{Payload: &proto.ToDataplane_ServiceAccountUpdate{ServiceAccountUpdate: update}}\n\t}",
				Expect: "C31.live/send/Processor.handleServiceAccountUpdate"},
			{Name: "leave closes the channel but keeps it as output", File: "felix/policysync/processor.go",
				Old: "\tclose(ei.output)\n\tei.output = nil\n\tei.currentJoinUID = 0\n", New: "\tclose(ei.output)\n\tei.currentJoinUID = 0\n",
				Expect: "C31.live/close/Processor.handleLeave"},
			{Name: "stale leave request tears down the new connection", File: "felix/policysync/processor.go",
				Old: "\tif ei.currentJoinUID != leaveReq.JoinUID {\n\t\tlogCxt.Info(\"Leave request doesn't match active connection, ignoring\")\n\t\treturn\n\t}\n", New: "",
				Expect: "C31.live/leave-uid"},
			{Name: "endpoint removal keeps the closed channel registered", File: "felix/policysync/processor.go",
				Old: "\t\tclose(ei.output)\n\t}\n\tdelete(p.endpointsByID, epID)\n", New: "\t\tclose(ei.output)\n\t}\n",
				Expect: "C31.live/close/Processor.handleWorkloadEndpointRemove"},
			{Name: "endpoint dropped from the cache only when a client is joined", File: "felix/policysync/processor.go",
				Old: "\t\tclose(ei.output)\n\t}\n\tdelete(p.endpointsByID, epID)\n", New: "\t\tclose(ei.output)\n\t\tdelete(p.endpointsByID, epID)\n\t}\n",
				Expect: "C31.cache/WorkloadEndpointRemove/endpointsByID"},
			{Name: "service account dropped from the cache once per joined client", File: "felix/policysync/processor.go",
				Old: "ServiceAccountRemove: update}}\n\t}\n\tdelete(p.serviceAccountByID, id)\n", New: "ServiceAccountRemove: update}}\n\t\tdelete(p.serviceAccountByID, id)\n\t}\n",
				Expect: "C31.cache/ServiceAccountRemove/serviceAccountByID"},
			{Name: "namespace remove returns early when nobody listens", File: "felix/policysync/processor.go",
				Old: "\tlog.WithField(\"NamespaceID\", id).Debug(\"Processing NamespaceRemove\")\n", New: "\tlog.WithField(\"NamespaceID\", id).Debug(\"Processing NamespaceRemove\")\n\tif len(p.updateableEndpoints()) == 0 {\n\t\treturn\n\t}\n",
				Expect: "C31.cache/NamespaceRemove/namespaceByID"},
			{Name: "another endpoint's update sent", File: "felix/policysync/processor.go",
				Old: "Payload: &proto.ToDataplane_WorkloadEndpointUpdate{WorkloadEndpointUpdate: ei.endpointUpd},", New: "Payload: &proto.ToDataplane_WorkloadEndpointUpdate{WorkloadEndpointUpdate: &proto.WorkloadEndpointUpdate{}},",
				Expect: "C31.own/Processor.maybeSyncEndpoint"},
			{Name: "policy sent on update but not recorded as synced", File: "felix/policysync/processor.go",
				Old: "\t\t\t\tei.output <- &proto.ToDataplane{Payload: &proto.ToDataplane_ActivePolicyUpdate{ActivePolicyUpdate: update}}\n\t\t\t\tei.syncedPolicies[pId] = true\n",
				New: "\t\t\t\tei.output <- &proto.ToDataplane{Payload: &proto.ToDataplane_ActivePolicyUpdate{ActivePolicyUpdate: update}}\n",
				Expect: "C31.synced/ActivePolicyUpdate/Processor.handleActivePolicyUpdate$1"},
			{Name: "profile sent on sync but not recorded", File: "felix/policysync/processor.go",
				Old: "\t\t\t}}\n\t\t\tei.syncedProfiles[pId] = true\n\t\t}\n\t\treturn false\n", New: "\t\t\t}}\n\t\t}\n\t\treturn false\n",
				Expect: "C31.synced/ActiveProfileUpdate/Processor.syncAddedProfiles$1"},
			{Name: "re-join keeps the previous connection's synced policies", File: "felix/policysync/processor.go",
				Old: "\tei.output = joinReq.C\n\tei.syncedPolicies = map[types.PolicyID]bool{}\n", New: "\tei.output = joinReq.C\n",
				Expect: "C31.rejoin/Processor.handleJoin/syncedPolicies"},
			{Name: "re-join keeps the previous connection's IP sets", File: "felix/policysync/processor.go",
				Old: "\tei.syncedIPSets = map[string]bool{}\n\n\tp.maybeSyncEndpoint(ei)\n", New: "\n\tp.maybeSyncEndpoint(ei)\n\tei.syncedIPSets = map[string]bool{}\n",
				Expect: "C31.rejoin/Processor.handleJoin/syncedIPSets"},
			{Name: "connection shutdown stops draining once the leave request is queued", File: "felix/policysync/server.go",
				Old: "\t\tfor updates != nil || joinsCopy != nil {\n", New: "\t\tfor joinsCopy != nil {\n",
				Expect: "C31.drain/Server.Sync/exit"},
			{Name: "connection shutdown stops draining after the first discarded message", File: "felix/policysync/server.go",
				Old: "\t\t\t\t\tlogCxt.Info(\"Shutting down: updates channel was closed by processor.\")\n\t\t\t\t\tupdates = nil\n\t\t\t\t}\n",
				New: "\t\t\t\t\tlogCxt.Info(\"Shutting down: updates channel was closed by processor.\")\n\t\t\t\t}\n\t\t\t\tupdates = nil\n",
				Expect: "C31.drain/Server.Sync/clear/Server.Sync$1"},
			{Name: "full IP set update merged into the stored members", File: "felix/policysync/ipset.go",
				Old: "\ts.replaceMembers(update)\n\treturn s\n}\n\nfunc (s *ipSetInfo) replaceMembers(update *proto.IPSetUpdate) {\n\ts.members = set.New[ipsets.IPSetMember]()\n",
				New: "\ts.members = set.New[ipsets.IPSetMember]()\n\ts.replaceMembers(update)\n\treturn s\n}\n\nfunc (s *ipSetInfo) replaceMembers(update *proto.IPSetUpdate) {\n",
				Expect: "C31.replace/ipSetInfo.members/ipSetInfo.replaceMembers"},
			{Name: "stored members only allocated when missing", File: "felix/policysync/ipset.go",
				Old: "\ts.members = set.New[ipsets.IPSetMember]()\n", New: "\tif s.members == nil {\n\t\ts.members = set.New[ipsets.IPSetMember]()\n\t}\n",
				Expect: "C31.replace/ipSetInfo.members/ipSetInfo.replaceMembers"},
		},
	})
}

// A<B: A must have been emitted before B within one pass.
var c31Pairs = [][2]string{
	{"IpsetUpdate", "ActivePolicyUpdate"},
	{"IpsetUpdate", "ActiveProfileUpdate"},
	{"IpsetDeltaUpdate", "ActivePolicyUpdate"},
	{"IpsetDeltaUpdate", "ActiveProfileUpdate"},
	{"ActivePolicyUpdate", "WorkloadEndpointUpdate"},
	{"ActiveProfileUpdate", "WorkloadEndpointUpdate"},
	{"WorkloadEndpointUpdate", "ActivePolicyRemove"},
	{"WorkloadEndpointUpdate", "ActiveProfileRemove"},
	{"ActivePolicyRemove", "IpsetRemove"},
	{"ActiveProfileRemove", "IpsetRemove"},
	{"ActivePolicyUpdate", "IpsetRemove"},
	{"ActiveProfileUpdate", "IpsetRemove"},
}

type c31Send struct {
	In    *ssa.Send
	Fn    *ssa.Function
	EI    ssa.Value // base of the .output field the channel was loaded from (nil if not an EndpointInfo.output)
	Types []string  // payload wrapper types (without the ToDataplane_ prefix); "?" if unknown
}

type c31Model struct {
	c       *Ctx
	p       *Prog
	funcs   []*ssa.Function
	fOutput *types.Var
	fEpUpd  *types.Var
	sends   []c31Send
	emitsM  map[*ssa.Function]map[string]bool
	consM   map[*ssa.Function]map[string]bool
}

func runC31(c *Ctx) {
	p := c.Load(c31Pkg)
	m := &c31Model{c: c, p: p, emitsM: map[*ssa.Function]map[string]bool{}, consM: map[*ssa.Function]map[string]bool{}}
	m.fOutput = c23FieldObj(c, p, c31Pkg, "EndpointInfo.output")
	m.fEpUpd = c23FieldObj(c, p, c31Pkg, "EndpointInfo.endpointUpd")
	for _, f := range p.AllFuncs() {
		top := topFn(f)
		if recvTypeName2(top) == "Processor" || recvTypeName2(top) == "EndpointInfo" {
			m.funcs = append(m.funcs, f)
		}
	}
	if len(m.funcs) == 0 {
		c.Lost("methods of policysync.Processor")
	}

	c.Rule("C31.order", "E-ORDER", "referenced message types are emitted before their referrers (dominance in the functions that sequence IP-set adds/removes; no reverse order anywhere)", 16)
	c.Rule("C31.live", "E-GUARD/E-OWN/E-PAIR", "every send on EndpointInfo.output happens where output is known non-nil for that endpoint; close(output) is followed by clearing/replacing it or dropping the endpoint; leave is UID-matched", 24)
	c.Rule("C31.own", "E-FLOW", "the WorkloadEndpointUpdate sent on ei.output is ei.endpointUpd", 1)
	c.Rule("C31.synced", "E-PAIR", "policy/profile sends are recorded in the endpoint's synced maps; removes are sent for ids of the previous synced map", 6)
	c.Rule("C31.cache", "E-PAIR/E-PATH", "each <Kind>Remove feed handler deletes from the Processor cache that the <Kind>Update handler fills, on every returning path (not only when a client is joined)", 6)
	c.Rule("C31.rejoin", "E-PAIR", "a newly stored output channel starts from empty syncedPolicies/syncedProfiles/syncedIPSets before anything is sent", 3)

	m.collectSends()
	c31Order(m)
	c31Live(m)
	c31Own(m)
	c31Synced(m)
	c31Rejoin(m)
	c31Cache(m)

	c.Rule("C31.drain", "E-GUARD (channel protocol)", "the function that registers a per-connection queue with the Processor (JoinRequest.C) returns only after it has observed the queue closed; the channel variable is cleared only where the close was observed", 1)
	c31Drain(m)
	c.Rule("C31.replace", "E-PAIR/E-FLOW", "elements of a full <K>Update message (one with a <K>DeltaUpdate sibling) are added to a stored collection only after that collection was replaced or cleared on every path", 1)
	c31Replace(m)
}

func recvTypeName2(f *ssa.Function) string {
	if o, ok := f.Object().(*types.Func); ok {
		return recvTypeName(o)
	}
	return ""
}

// ------------------------------------------------------------- emissions --

func c31PayloadName(t types.Type) string {
	n := namedTypeName(t)
	if strings.HasPrefix(n, "ToDataplane_") {
		return strings.TrimPrefix(n, "ToDataplane_")
	}
	return ""
}

// constructs: payload wrapper types allocated in fn or anything it statically reaches.
func (m *c31Model) constructs(fn *ssa.Function) map[string]bool {
	if r, ok := m.consM[fn]; ok {
		return r
	}
	out := map[string]bool{}
	m.consM[fn] = out
	for f := range reachableFuncs([]*ssa.Function{fn}, nil) {
		if f.Blocks == nil {
			continue
		}
		allInstrs(f, false, func(_ *ssa.Function, in ssa.Instruction) {
			if al, ok := in.(*ssa.Alloc); ok {
				if n := c31PayloadName(al.Type()); n != "" {
					out[n] = true
				}
			}
		})
	}
	return out
}

// typesOf: payload types a sent *proto.ToDataplane value may carry.
func (m *c31Model) typesOf(v ssa.Value) []string {
	set := map[string]bool{}
	seen := map[ssa.Value]bool{}
	var walk func(v ssa.Value)
	walk = func(v ssa.Value) {
		if v == nil || seen[v] {
			return
		}
		seen[v] = true
		switch x := v.(type) {
		case *ssa.Alloc:
			n := 0
			for _, vals := range literalFieldStores(x) {
				for _, sv := range vals {
					if mi, ok := sv.(*ssa.MakeInterface); ok {
						if pn := c31PayloadName(mi.X.Type()); pn != "" {
							set[pn] = true
							n++
						}
					}
				}
			}
			if n == 0 {
				set["?"] = true
			}
		case *ssa.Phi:
			for _, e := range x.Edges {
				walk(e)
			}
		case *ssa.UnOp:
			if x.Op == token.MUL {
				walk(x.X)
				return
			}
			set["?"] = true
		case *ssa.IndexAddr:
			walk(x.X)
		case *ssa.Slice:
			walk(x.X)
		case *ssa.Call:
			if sf := calleeFn(x.Common()); sf != nil && sf.Blocks != nil {
				cs := m.constructs(sf)
				if len(cs) == 0 {
					set["?"] = true
				}
				for k := range cs {
					set[k] = true
				}
				return
			}
			set["?"] = true
		default:
			set["?"] = true
		}
	}
	walk(v)
	return sortedKeys(set)
}

func (m *c31Model) collectSends() {
	for _, f := range m.funcs {
		allInstrs(f, false, func(fn *ssa.Function, in ssa.Instruction) {
			s, ok := in.(*ssa.Send)
			if !ok {
				return
			}
			cs := c31Send{In: s, Fn: fn, Types: m.typesOf(s.X)}
			if fieldVar(s.Chan) == m.fOutput {
				_, _, base, _ := fieldOf(s.Chan)
				cs.EI = base
			}
			m.sends = append(m.sends, cs)
		})
	}
	if len(m.sends) < 15 {
		m.c.Lost("expected >= 15 channel sends in the Processor, found %d", len(m.sends))
	}
	for _, s := range m.sends {
		for _, t := range s.Types {
			if t == "?" {
				m.c.Undecided("C31.order/payload/"+fnName(s.Fn), m.p.Pos(s.In.Pos()), "cannot determine the payload type of the message sent (%s)", path(s.In.X))
			}
		}
	}
}

// targets: functions a call instruction may run: static callee, closures and
// functions passed as arguments, and for calls of a function value extracted
// from the result tuple of a static call, the closures that callee returns.
func (m *c31Model) targets(ci ssa.CallInstruction) []*ssa.Function {
	var out []*ssa.Function
	cc := ci.Common()
	if sf := calleeFn(cc); sf != nil {
		out = append(out, sf)
	} else if !cc.IsInvoke() {
		out = append(out, m.funcValues(cc.Value)...)
	}
	for _, a := range cc.Args {
		out = append(out, m.funcValues(a)...)
	}
	return out
}

func (m *c31Model) funcValues(v ssa.Value) []*ssa.Function {
	return m.funcValuesRec(v, map[ssa.Value]bool{})
}

func (m *c31Model) funcValuesRec(v ssa.Value, seen map[ssa.Value]bool) []*ssa.Function {
	if v == nil || seen[v] {
		return nil
	}
	seen[v] = true
	switch x := v.(type) {
	case *ssa.MakeClosure:
		return []*ssa.Function{x.Fn.(*ssa.Function)}
	case *ssa.Function:
		return []*ssa.Function{x}
	case *ssa.Extract:
		call, ok := x.Tuple.(*ssa.Call)
		if !ok {
			return nil
		}
		g := calleeFn(call.Common())
		if g == nil || g.Blocks == nil {
			return nil
		}
		var out []*ssa.Function
		for _, r := range returnsOf(g) {
			if x.Index < len(r.Results) {
				out = append(out, m.funcValuesRec(r.Results[x.Index], seen)...)
			}
		}
		return out
	case *ssa.Phi:
		var out []*ssa.Function
		for _, e := range x.Edges {
			out = append(out, m.funcValuesRec(e, seen)...)
		}
		return out
	}
	return nil
}

func (m *c31Model) emits(fn *ssa.Function) map[string]bool {
	if r, ok := m.emitsM[fn]; ok {
		return r
	}
	out := map[string]bool{}
	m.emitsM[fn] = out
	if fn.Blocks == nil {
		return out
	}
	for _, s := range m.sends {
		if s.Fn == fn {
			for _, t := range s.Types {
				out[t] = true
			}
		}
	}
	allInstrs(fn, false, func(_ *ssa.Function, in ssa.Instruction) {
		if ci, ok := in.(ssa.CallInstruction); ok {
			for _, t := range m.targets(ci) {
				for k := range m.emits(t) {
					out[k] = true
				}
			}
		}
	})
	return out
}

func (m *c31Model) sites(fn *ssa.Function, msg string) []ssa.Instruction {
	var out []ssa.Instruction
	for _, s := range m.sends {
		if s.Fn == fn {
			for _, t := range s.Types {
				if t == msg {
					out = append(out, s.In)
				}
			}
		}
	}
	allInstrs(fn, false, func(_ *ssa.Function, in ssa.Instruction) {
		if ci, ok := in.(ssa.CallInstruction); ok {
			if _, isDefer := in.(*ssa.Defer); isDefer {
				return
			}
			for _, t := range m.targets(ci) {
				if m.emits(t)[msg] {
					out = append(out, in)
					return
				}
			}
		}
	})
	return out
}

// c31ForwardReach: b can execute after a within one pass (loop back edges ignored).
func c31ForwardReach(a, b ssa.Instruction) bool {
	if a.Block() == b.Block() {
		return instrIndex(a) < instrIndex(b)
	}
	seen := map[*ssa.BasicBlock]bool{}
	st := []*ssa.BasicBlock{a.Block()}
	for len(st) > 0 {
		x := st[len(st)-1]
		st = st[:len(st)-1]
		for _, s := range x.Succs {
			if s.Dominates(x) || seen[s] {
				continue // back edge
			}
			if s == b.Block() {
				return true
			}
			seen[s] = true
			st = append(st, s)
		}
	}
	return false
}

func c31Order(m *c31Model) {
	c, p := m.c, m.p
	getSync := c23Func(c, p, c31Pkg, "Processor.getIPSetsSync")
	nAnchors := 0
	for _, f := range m.funcs {
		isAnchor := len(callsIn(f, false, func(fn *types.Func) bool { return isFunc(fn, c31Pkg, "Processor.getIPSetsSync") })) > 0
		sendsWEP := false
		for _, s := range m.sends {
			if s.Fn == f && len(s.Types) == 1 && s.Types[0] == "WorkloadEndpointUpdate" {
				sendsWEP = true
			}
		}
		if isAnchor {
			nAnchors++
		}
		for _, pr := range c31Pairs {
			a, b := pr[0], pr[1]
			key := "C31.order/" + fnName(f) + "/" + a + "<" + b
			as, bs := m.sites(f, a), m.sites(f, b)
			if sendsWEP && (len(as) == 0 || len(bs) == 0) && a != "IpsetDeltaUpdate" {
				c.Violate(key, p.Pos(f.Pos()), "%s sends WorkloadEndpointUpdate but has no site emitting %s (%d) / %s (%d): the stream would reference objects never sent, or never retire them", fnName(f), a, len(as), b, len(bs))
				continue
			}
			if len(as) == 0 || len(bs) == 0 {
				continue
			}
			bad := ""
			distinct := 0
			for _, x := range as {
				for _, y := range bs {
					if x == y {
						continue // one call emits both: decided inside the callee
					}
					distinct++
					if c31ForwardReach(y, x) {
						bad = fmt.Sprintf("%s emitted at %s can be followed by %s at %s in the same pass", b, p.Pos(y.Pos()), a, p.Pos(x.Pos()))
					} else if isAnchor && !instrDominates(x, y) {
						bad = fmt.Sprintf("emission of %s at %s is not preceded on every path by the emission of %s at %s", b, p.Pos(y.Pos()), a, p.Pos(x.Pos()))
					}
				}
			}
			if distinct == 0 {
				continue
			}
			if !isAnchor && bad == "" {
				continue // only report non-anchor functions when they are wrong (no floor noise)
			}
			c.Check(bad == "", key, p.Pos(f.Pos()), fmt.Sprintf("%d site(s) of %s precede %d site(s) of %s", len(as), a, len(bs), b), "in "+fnName(f)+": "+bad)
		}
	}
	if nAnchors < 3 {
		c.Lost("expected >= 3 functions sequencing %s, found %d", fnName(getSync), nAnchors)
	}
}

// ------------------------------------------------------------------ live --

// c31Cell resolves loads of captured/escaping locals to the values stored in them.
func (m *c31Model) resolve(v ssa.Value, depth int) []ssa.Value {
	if depth > 6 {
		return []ssa.Value{v}
	}
	switch x := v.(type) {
	case *ssa.UnOp:
		if x.Op != token.MUL {
			break
		}
		switch cell := x.X.(type) {
		case *ssa.Alloc:
			var out []ssa.Value
			for _, r := range *cell.Referrers() {
				if st, ok := r.(*ssa.Store); ok && st.Addr == cell {
					out = append(out, m.resolve(st.Val, depth+1)...)
				}
			}
			if len(out) > 0 {
				return out
			}
		case *ssa.FreeVar:
			fn := cell.Parent()
			idx := -1
			for i, fv := range fn.FreeVars {
				if fv == cell {
					idx = i
				}
			}
			var out []ssa.Value
			if par := fn.Parent(); par != nil && idx >= 0 {
				allInstrs(par, false, func(_ *ssa.Function, in ssa.Instruction) {
					if mc, ok := in.(*ssa.MakeClosure); ok && mc.Fn == fn && idx < len(mc.Bindings) {
						if al, ok := mc.Bindings[idx].(*ssa.Alloc); ok {
							for _, r := range *al.Referrers() {
								if st, ok := r.(*ssa.Store); ok && st.Addr == al {
									out = append(out, m.resolve(st.Val, depth+1)...)
								}
							}
						}
					}
				})
			}
			if len(out) > 0 {
				return out
			}
		}
	case *ssa.Phi:
		var out []ssa.Value
		for _, e := range x.Edges {
			out = append(out, m.resolve(e, depth+1)...)
		}
		return out
	}
	return []ssa.Value{v}
}

// fromUpdateable: v is an element of the slice returned by updateableEndpoints().
func (m *c31Model) fromUpdateable(v ssa.Value) bool {
	u, ok := v.(*ssa.UnOp)
	if !ok || u.Op != token.MUL {
		return false
	}
	ia, ok := u.X.(*ssa.IndexAddr)
	if !ok {
		return false
	}
	call, ok := ia.X.(*ssa.Call)
	return ok && isFunc(calleeOf(call.Common()), c31Pkg, "Processor.updateableEndpoints")
}

func (m *c31Model) outputOf(ei ssa.Value) func(ssa.Value) bool {
	return func(v ssa.Value) bool {
		if fieldVar(v) != m.fOutput {
			return false
		}
		_, _, base, ok := fieldOf(v)
		return ok && c23Same(base, ei)
	}
}

// liveAt: at instruction `at`, the EndpointInfo value ei has a non-nil output.
func (m *c31Model) liveAt(at ssa.Instruction, ei ssa.Value, seen map[string]bool) (bool, string) {
	fn := at.Parent()
	if guardedCut(at, c23NilCond(false, m.outputOf(ei))) {
		return true, "guarded by output != nil"
	}
	for _, st := range storesToField(fn, false, "EndpointInfo", "output") {
		fa := st.Addr.(*ssa.FieldAddr)
		if c23Same(fa.X, ei) && !isNilConst(st.Val) && instrDominates(st, at) {
			return true, "after the join stored output"
		}
	}
	key := fnName(fn) + "|" + path(ei)
	if seen[key] {
		return false, "recursive"
	}
	seen[key] = true
	why := ""
	for _, o := range m.resolve(ei, 0) {
		switch x := o.(type) {
		case *ssa.Parameter:
			f := x.Parent()
			idx := -1
			for i, pp := range f.Params {
				if pp == x {
					idx = i
				}
			}
			n := 0
			for _, g := range m.funcs {
				for _, cs := range callsIn(g, false, func(fo *types.Func) bool { return fo == f.Object() }) {
					n++
					ok, w := m.liveAt(cs.Instr, cs.Common().Args[idx], seen)
					if !ok {
						return false, fmt.Sprintf("caller %s passes an endpoint not known to have a client (%s)", fnName(g), w)
					}
				}
			}
			if n == 0 {
				return false, "no static caller of " + fnName(f)
			}
			why = fmt.Sprintf("all %d caller(s) of %s pass a live endpoint", n, fnName(f))
		default:
			if m.fromUpdateable(o) {
				why = "element of updateableEndpoints()"
				continue
			}
			return false, "endpoint " + path(o) + " is not known to have a client here"
		}
	}
	return why != "", why
}

func c31Live(m *c31Model) {
	c, p := m.c, m.p
	n := 0
	for _, s := range m.sends {
		if s.EI == nil {
			if namedTypeName(s.In.Chan.Type().Underlying().(*types.Chan).Elem()) == "ToDataplane" {
				c.Violate("C31.live/send/"+fnName(s.Fn), p.Pos(s.In.Pos()), "send of a ToDataplane message on a channel that is not loaded from EndpointInfo.output (%s)", path(s.In.Chan))
			}
			continue
		}
		n++
		ok, why := m.liveAt(s.In, s.EI, map[string]bool{})
		c.Check(ok, "C31.live/send/"+fnName(s.Fn), p.Pos(s.In.Pos()), "send on "+path(s.EI)+".output: "+why,
			"send on "+path(s.EI)+".output in "+fnName(s.Fn)+" may happen for an endpoint without a joined client (after leave the channel is closed/nil): "+why)
	}
	if n == 0 {
		c.Lost("no sends on EndpointInfo.output")
	}
	// updateableEndpoints appends only endpoints with output != nil
	ue := c23Func(c, p, c31Pkg, "Processor.updateableEndpoints")
	for _, r := range returnsOf(ue) {
		if r.Block() == ue.Recover {
			continue
		}
		elems := c23Appended(r.Results[0], nil)
		if len(elems) == 0 {
			c.Lost("updateableEndpoints: no append feeding the result")
		}
		for _, e := range elems {
			c.Check(guardedCut(e.App, c23NilCond(false, m.outputOf(e.Elem))), "C31.live/updateable/append", p.Pos(e.App.Pos()),
				"updateableEndpoints appends an endpoint only under output != nil", "updateableEndpoints appends "+path(e.Elem)+" without testing its output != nil: updates would be sent to workloads that left")
		}
	}
	// close(ei.output) is followed by a store to ei.output or delete from endpointsByID
	fByID := c23FieldObj(c, p, c31Pkg, "Processor.endpointsByID")
	nClose := 0
	for _, f := range m.funcs {
		allInstrs(f, false, func(fn *ssa.Function, in ssa.Instruction) {
			cc, ok := isBuiltinCall(in, "close")
			if !ok || fieldVar(cc.Args[0]) != m.fOutput {
				return
			}
			nClose++
			_, _, ei, _ := fieldOf(cc.Args[0])
			escape := c23ReachAvoiding(in, func(i2 ssa.Instruction) bool {
				if st, ok := i2.(*ssa.Store); ok {
					if fa, ok := st.Addr.(*ssa.FieldAddr); ok && fieldVar(fa) == m.fOutput && c23Same(fa.X, ei) {
						return true
					}
				}
				if d, ok := isBuiltinCall(i2, "delete"); ok && fieldVar(d.Args[0]) == fByID {
					return true
				}
				// a helper that drops the endpoint on every path
				if ci, ok := i2.(*ssa.Call); ok {
					if g := calleeFn(ci.Common()); g != nil && g.Blocks != nil && g.Pkg == fn.Pkg && c31MapDeletesField(g, fByID) {
						return m.dropsOnEveryPath(g, fByID, map[*ssa.Function]bool{}) == nil
					}
				}
				return false
			}, nil, func(i2 ssa.Instruction) bool {
				if _, isRet := i2.(*ssa.Return); isRet && c31DeferredDrop(m, fn, in, fByID) {
					return false
				}
				_, isRet := i2.(*ssa.Return)
				return isRet && i2.Block() != fn.Recover
			})
			c.Check(escape == nil, "C31.live/close/"+fnName(fn), p.Pos(in.Pos()),
				"close("+path(ei)+".output) is always followed by replacing/clearing output or deleting the endpoint",
				"after close("+path(ei)+".output) the function can return with the closed channel still registered as output: the next update is sent to a workload that left (panic on closed channel)")
		})
	}
	if nClose < 3 {
		c.Lost("expected >= 3 close(ei.output) sites, found %d", nClose)
	}
	// leave: nil stores to output only under the join UID match
	fUID := c23FieldObj(c, p, c31Pkg, "EndpointInfo.currentJoinUID")
	fReqUID := c23FieldObj(c, p, c31Pkg, "JoinMetadata.JoinUID")
	nNil := 0
	for _, f := range m.funcs {
		for _, st := range storesToField(f, false, "EndpointInfo", "output") {
			if !isNilConst(st.Val) {
				continue
			}
			nNil++
			fa := st.Addr.(*ssa.FieldAddr)
			ok := guardedCut(st, eqCond(true,
				func(v ssa.Value) bool {
					_, _, base, okf := fieldOf(v)
					return okf && fieldVar(v) == fUID && c23Same(base, fa.X)
				},
				func(v ssa.Value) bool { return fieldVar(v) == fReqUID }))
			c.Check(ok, "C31.live/leave-uid/"+fnName(f), p.Pos(st.Pos()),
				"output is cleared only when the request's JoinUID equals the endpoint's currentJoinUID",
				"output of "+path(fa.X)+" is cleared without comparing currentJoinUID with the leave request's JoinUID: a late leave of an old connection cuts off the new one")
		}
	}
	if nNil == 0 {
		c.Violate("C31.live/leave-uid/none", p.Pos(m.funcs[0].Pos()), "no function clears EndpointInfo.output: a workload that left keeps receiving updates")
	}
}

// ------------------------------------------------------------------- own --

func c31Own(m *c31Model) {
	c, p := m.c, m.p
	n := 0
	for _, s := range m.sends {
		if len(s.Types) != 1 || s.Types[0] != "WorkloadEndpointUpdate" || s.EI == nil {
			continue
		}
		n++
		ok := false
		desc := "?"
		if al, isAlloc := s.In.X.(*ssa.Alloc); isAlloc {
			for _, vals := range literalFieldStores(al) {
				for _, sv := range vals {
					mi, isMI := sv.(*ssa.MakeInterface)
					if !isMI {
						continue
					}
					for _, inner := range literalFieldStores(mi.X) {
						for _, iv := range inner {
							desc = path(iv)
							_, _, base, okf := fieldOf(iv)
							if okf && fieldVar(iv) == m.fEpUpd && c23Same(base, s.EI) {
								ok = true
							}
						}
					}
				}
			}
		}
		c.Check(ok, "C31.own/"+fnName(s.Fn), p.Pos(s.In.Pos()), "the endpoint update sent on "+path(s.EI)+".output is "+path(s.EI)+".endpointUpd",
			"WorkloadEndpointUpdate sent on "+path(s.EI)+".output carries "+desc+", not that endpoint's own endpointUpd")
	}
	if n == 0 {
		c.Lost("no send of WorkloadEndpointUpdate")
	}
}

// ---------------------------------------------------------------- synced --

func c31Synced(m *c31Model) {
	c, p := m.c, m.p
	for _, kind := range []struct{ msg, rem, field string }{
		{"ActivePolicyUpdate", "ActivePolicyRemove", "syncedPolicies"},
		{"ActiveProfileUpdate", "ActiveProfileRemove", "syncedProfiles"},
	} {
		fld := c23FieldObj(c, p, c31Pkg, "EndpointInfo."+kind.field)
		nUp, nRem := 0, 0
		for _, s := range m.sends {
			if len(s.Types) != 1 || s.EI == nil {
				continue
			}
			switch s.Types[0] {
			case kind.msg:
				nUp++
				pd := postDominators(s.Fn)
				ok := false
				for _, mu := range mapUpdatesOfField(s.Fn, false, "EndpointInfo", kind.field) {
					_, _, base, _ := fieldOf(mu.Map)
					cv, isConst := constOf(mu.Value)
					if fieldVar(mu.Map) == fld && c23Same(base, s.EI) && isConst && cv.String() == "true" &&
						(instrPostDominates(pd, mu, s.In) || instrDominates(mu, s.In) && mu.Block() == s.In.Block()) {
						ok = true
					}
				}
				c.Check(ok, "C31.synced/"+kind.msg+"/"+fnName(s.Fn), p.Pos(s.In.Pos()),
					"send of "+kind.msg+" is paired with "+kind.field+"[id] = true on the same endpoint",
					"send of "+kind.msg+" on "+path(s.EI)+".output is not followed by "+path(s.EI)+"."+kind.field+"[id] = true: the object is re-sent, or never retired with a Remove")
			case kind.rem:
				nRem++
				// the send is inside a range over a map that was loaded from ei.<field>
				ok := false
				for b := s.In.Block(); b != nil && !ok; b = b.Idom() {
					for _, in := range b.Instrs {
						nx, isNext := in.(*ssa.Next)
						if !isNext {
							continue
						}
						rg, _ := nx.Iter.(*ssa.Range)
						if rg == nil {
							continue
						}
						for _, o := range m.resolve(rg.X, 0) {
							if fieldVar(o) == fld {
								if _, _, base, okf := fieldOf(o); okf && c23Same(base, s.EI) {
									ok = true
								}
							}
						}
					}
				}
				fresh := false
				for _, st := range storesToField(topFn(s.Fn), true, "EndpointInfo", kind.field) {
					if _, isMake := st.Val.(*ssa.MakeMap); isMake {
						fresh = true
					}
				}
				c.Check(ok && fresh, "C31.synced/"+kind.rem+"/"+fnName(s.Fn), p.Pos(s.In.Pos()),
					kind.rem+" is sent for ids ranged from the endpoint's previous "+kind.field+" map, which is replaced by a fresh one",
					fmt.Sprintf("%s is not sent from a range over the previous %s of the same endpoint (ranged=%v, replaced=%v)", kind.rem, kind.field, ok, fresh))
			}
		}
		if nUp < 2 || nRem < 1 {
			c.Lost("expected >= 2 sends of %s and >= 1 of %s, found %d/%d", kind.msg, kind.rem, nUp, nRem)
		}
	}
}

// ---------------------------------------------------------------- rejoin --

func c31Rejoin(m *c31Model) {
	c, p := m.c, m.p
	n := 0
	for _, f := range m.funcs {
		for _, st := range storesToField(f, false, "EndpointInfo", "output") {
			if isNilConst(st.Val) {
				continue
			}
			n++
			fa := st.Addr.(*ssa.FieldAddr)
			// emission sites after the store
			var after []ssa.Instruction
			for _, msg := range sortedKeys(m.emits(f)) {
				for _, s := range m.sites(f, msg) {
					if instrReaches(st, s) {
						after = append(after, s)
					}
				}
			}
			sort.Slice(after, func(i, j int) bool { return after[i].Pos() < after[j].Pos() })
			for _, fld := range []string{"syncedPolicies", "syncedProfiles", "syncedIPSets"} {
				ok := false
				for _, ms := range storesToField(f, false, "EndpointInfo", fld) {
					mfa := ms.Addr.(*ssa.FieldAddr)
					if _, isMake := ms.Val.(*ssa.MakeMap); !isMake || !c23Same(mfa.X, fa.X) {
						continue
					}
					all := true
					for _, s := range after {
						if !instrDominates(ms, s) {
							all = false
						}
					}
					if all && (instrDominates(ms, st) || instrDominates(st, ms)) {
						ok = true
					}
				}
				c.Check(ok, "C31.rejoin/"+fnName(f)+"/"+fld, p.Pos(st.Pos()),
					"a new output channel comes with a fresh "+fld+" map before anything is sent",
					"output of "+path(fa.X)+" is replaced but "+fld+" is not reset to an empty map before the first send: the new stream would omit objects the previous connection had received")
			}
		}
	}
	if n == 0 {
		c.Lost("no store of a new channel to EndpointInfo.output")
	}
}

// ----------------------------------------------------------------- cache --

// c31FeedKind: t is *proto.<Kind><suffix> (a dataplane-feed message of
// felix/proto); returns Kind.
func c31FeedKind(t types.Type, suffix string) string {
	pt, ok := t.(*types.Pointer)
	if !ok {
		return ""
	}
	nt, ok := pt.Elem().(*types.Named)
	if !ok || nt.Obj().Pkg() == nil || !strings.HasSuffix(nt.Obj().Pkg().Path(), "/felix/proto") {
		return ""
	}
	n := nt.Obj().Name()
	if !strings.HasSuffix(n, suffix) || n == suffix {
		return ""
	}
	return strings.TrimSuffix(n, suffix)
}

// c31Asserted: v is the value of a type assertion / type-switch case.
func c31Asserted(v ssa.Value) (types.Type, bool) {
	if ex, ok := v.(*ssa.Extract); ok && ex.Index == 0 {
		v = ex.Tuple
	}
	if ta, ok := v.(*ssa.TypeAssert); ok {
		return ta.AssertedType, true
	}
	return nil, false
}

// feedHandlers: the functions to which a dispatcher hands a feed message it
// obtained by type assertion, by Kind, for messages named <Kind><suffix>.
func (m *c31Model) feedHandlers(suffix string) map[string][]*ssa.Function {
	out := map[string][]*ssa.Function{}
	for _, f := range m.funcs {
		allInstrs(f, false, func(_ *ssa.Function, in ssa.Instruction) {
			ci, ok := in.(ssa.CallInstruction)
			if !ok {
				return
			}
			g := calleeFn(ci.Common())
			if g == nil || g.Blocks == nil {
				return
			}
			for _, a := range ci.Common().Args {
				if t, ok := c31Asserted(a); ok {
					if k := c31FeedKind(t, suffix); k != "" {
						dup := false
						for _, h := range out[k] {
							dup = dup || h == g
						}
						if !dup {
							out[k] = append(out[k], g)
						}
					}
				}
			}
		})
	}
	return out
}

// cacheFieldsWritten: map-typed fields of Processor that fn (or a Processor
// method it statically reaches) inserts into.
func (m *c31Model) cacheFieldsWritten(fn *ssa.Function, caches map[*types.Var]bool) map[*types.Var]bool {
	out := map[*types.Var]bool{}
	for f := range reachableFuncs([]*ssa.Function{fn}, nil) {
		if f.Blocks == nil || f.Pkg != fn.Pkg {
			continue
		}
		allInstrs(f, false, func(_ *ssa.Function, in ssa.Instruction) {
			if mu, ok := in.(*ssa.MapUpdate); ok {
				if fv := fieldVar(mu.Map); fv != nil && caches[fv] {
					out[fv] = true
				}
			}
		})
	}
	return out
}

// dropsOnEveryPath: every normally returning path through fn executes
// delete(<Processor>.fld, …) — in place, in a function it calls or in a deferred
// function, each of which must itself drop on every path — except paths on
// which a comma-ok lookup of that same map reported the key absent.  Returns
// the return instruction reached without a delete, or nil.
func (m *c31Model) dropsOnEveryPath(fn *ssa.Function, fld *types.Var, seen map[*ssa.Function]bool) ssa.Instruction {
	if fn == nil || fn.Blocks == nil || len(fn.Blocks[0].Instrs) == 0 {
		return nil
	}
	if seen[fn] {
		return fn.Blocks[0].Instrs[0] // recursion: not a drop
	}
	seen[fn] = true
	defer delete(seen, fn)
	drops := func(in ssa.Instruction) bool {
		if d, ok := isBuiltinCall(in, "delete"); ok {
			return fieldVar(d.Args[0]) == fld
		}
		ci, ok := in.(ssa.CallInstruction)
		if !ok {
			return false
		}
		if _, isGo := in.(*ssa.Go); isGo {
			return false
		}
		cc := ci.Common()
		var g *ssa.Function
		if sf := calleeFn(cc); sf != nil {
			g = sf
		} else if mc, ok := cc.Value.(*ssa.MakeClosure); ok && !cc.IsInvoke() {
			g, _ = mc.Fn.(*ssa.Function)
		}
		if g == nil || g.Blocks == nil || g.Pkg != fn.Pkg {
			return false
		}
		return m.dropsOnEveryPath(g, fld, seen) == nil
	}
	first := fn.Blocks[0].Instrs[0]
	if drops(first) {
		return nil
	}
	absent := lookupOkCond(false, func(v ssa.Value) bool { return fieldVar(v) == fld })
	return c23ReachAvoiding(first, drops, absent, func(in ssa.Instruction) bool {
		_, isRet := in.(*ssa.Return)
		return isRet && in.Block() != fn.Recover
	})
}

// c31Cache: the Processor's caches follow the dataplane feed, not the clients.
// For every feed message kind K with a <K>Remove message: the function the
// dispatcher hands a *proto.<K>Remove to must delete from the Processor map
// that the <K>Update handler fills, on every normally returning path (it may
// send to joined clients first, but the delete may not depend on a client
// being joined); and every kind whose Update handler fills a Processor map has
// a Remove handler.
func c31Cache(m *c31Model) {
	c, p := m.c, m.p
	tn, _ := p.LookupObj(c31Pkg, "Processor").(*types.TypeName)
	if tn == nil {
		c.Lost("type %s.Processor", c31Pkg)
	}
	st, _ := tn.Type().Underlying().(*types.Struct)
	if st == nil {
		c.Lost("%s.Processor is not a struct", c31Pkg)
	}
	caches := map[*types.Var]bool{}
	for i := 0; i < st.NumFields(); i++ {
		if _, isMap := st.Field(i).Type().Underlying().(*types.Map); isMap {
			caches[st.Field(i)] = true
		}
	}
	if len(caches) < 6 {
		c.Lost("expected >= 6 map-typed cache fields in Processor, found %d", len(caches))
	}
	upd, rem := m.feedHandlers("Update"), m.feedHandlers("Remove")
	if len(upd) < 6 || len(rem) < 6 {
		c.Lost("expected >= 6 Update and >= 6 Remove feed handlers reached from a type-switch dispatcher, found %d/%d", len(upd), len(rem))
	}
	covered := map[*types.Var]bool{}
	for _, kind := range sortedKeys(upd) {
		flds := map[*types.Var]bool{}
		for _, h := range upd[kind] {
			for fv := range m.cacheFieldsWritten(h, caches) {
				flds[fv] = true
			}
		}
		if len(flds) == 0 {
			continue // e.g. delta updates modify a cached object in place
		}
		var names []string
		byName := map[string]*types.Var{}
		for fv := range flds {
			names = append(names, fv.Name())
			byName[fv.Name()] = fv
		}
		sort.Strings(names)
		for _, fname := range names {
			fld := byName[fname]
			covered[fld] = true
			key := "C31.cache/" + kind + "Remove/" + fname
			hs := rem[kind]
			if len(hs) == 0 {
				c.Violate(key, p.Pos(upd[kind][0].Pos()), "%s caches %sUpdate messages in Processor.%s but the dispatcher has no handler for %sRemove: removed objects would be replayed to every later client", fnName(upd[kind][0]), kind, fname, kind)
				continue
			}
			for _, h := range hs {
				esc := m.dropsOnEveryPath(h, fld, map[*ssa.Function]bool{})
				site := p.Pos(h.Pos())
				bad := ""
				if esc != nil {
					site = p.Pos(esc.Pos())
					bad = fmt.Sprintf("%s can return (at %s) without delete(p.%s, …): the removed %s stays cached when that path is taken (e.g. no client joined) and is replayed to the next client that joins", fnName(h), p.Pos(esc.Pos()), fname, kind)
				}
				c.Check(esc == nil, key, site, fmt.Sprintf("%s deletes from Processor.%s on every returning path, independent of joined clients", fnName(h), fname), bad)
			}
		}
	}
	for fv := range caches {
		if !covered[fv] {
			c.Undecided("C31.cache/field/"+fv.Name(), p.Pos(fv.Pos()), "Processor.%s is a map that no <Kind>Update feed handler fills: cannot pair it with a Remove handler", fv.Name())
		}
	}
}

// c31MapDeletesField: fn (or a same-package function it statically calls) contains delete(x.fld, …).
func c31MapDeletesField(fn *ssa.Function, fld *types.Var) bool {
	for g := range reachableFuncs([]*ssa.Function{fn}, nil) {
		if g.Blocks == nil || g.Pkg != fn.Pkg {
			continue
		}
		for _, d := range c23MapDeletes(g) {
			if fieldVar(d.Args[0]) == fld {
				return true
			}
		}
	}
	return false
}

// c31DeferredDrop: a `defer g(…)` that was executed before `at` (dominates it)
// runs, at every return, a function that deletes from fld on every path.
func c31DeferredDrop(m *c31Model, fn *ssa.Function, at ssa.Instruction, fld *types.Var) bool {
	found := false
	allInstrs(fn, false, func(_ *ssa.Function, in ssa.Instruction) {
		d, ok := in.(*ssa.Defer)
		if !ok || found || !instrDominates(d, at) {
			return
		}
		var g *ssa.Function
		if sf := calleeFn(d.Common()); sf != nil {
			g = sf
		} else if mc, ok := d.Common().Value.(*ssa.MakeClosure); ok {
			g, _ = mc.Fn.(*ssa.Function)
		}
		if g != nil && g.Blocks != nil && g.Pkg == fn.Pkg && m.dropsOnEveryPath(g, fld, map[*ssa.Function]bool{}) == nil {
			found = true
		}
	})
	return found
}
