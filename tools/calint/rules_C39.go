package main

import (
	"fmt"
	"go/constant"
	"go/token"
	"go/types"
	"sort"
	"strings"

	"golang.org/x/tools/go/ssa"
)

const c39Pkg = "kube-controllers/pkg/controllers/ippool"

func init() {
	register(&Property{
		ID:        "C39",
		Title:     "Overlapping IP pools resolve to one allocatable pool per address",
		Technique: "static analysis: provenance of the Allocatable=True set, cut-set guards with map-membership blocking, comparator shape and category table, finalizer-removal guards, error-branch independence of the finalizer pass, sibling agreement of the trie descent bit (go/ssa over kube-controllers/pkg/controllers/ippool and felix/ip)",
		DesignRef: "DESIGN.md §3 C39",
		Explanation: "Decides on the pool controller: (single) Allocatable=True is written only for pools ranged from one map; a pool is stored into that map only where, for the trie of its family and the CIDR parsed " +
			"from its own Spec.CIDR, Intersects and Covers both returned false, it is not Spec.Disabled and has no DeletionTimestamp, and the same step inserts it into that trie; (keep) the pools are sorted " +
			"with poolSortFunc before the overlap loop, poolSortFunc decides by category first (aCat-bCat), category(already allocatable, not deleting) < category(terminating) < every other category, and ties " +
			"end in a name comparison (total order); (mask) a terminating, not disabled pool is inserted into the trie; (finalizer) every persisted removal of the pool finalizer below reconcile (recognised by what it does: Finalizers with the finalizer constant filtered out, stored into an object handed to a clientset write, directly or through helpers) is guarded by blocksInPool()==false for the " +
			"pool's own CIDR or by the pool being Allocatable=False and not deleting — facts established in the hosting function or lifted to every call site leading to it; a live pool gets the finalizer appended; blocksInPool returns true where a block's address is contained; (indep) no branch on the error of a call that performs a clientset " +
			"write decides, within one iteration of the overlap loop, whether trie.Update is reached while the pass continues to further writes; (synced) every informer-typed field of IPPoolController read in the closure of " +
			"reconcile has its HasSynced among the arguments of a cache.WaitFor(Named)CacheSync call whose true result guards every statement of Run that starts something reaching reconcile; " +
			"(finpass) in reconcile no branch on the error of an earlier API-writing call (the conditions pass) decides whether the finalizer pass is reached: pools that the pass has just written Allocatable=True get their finalizer even when another pool's status write failed; " +
			"(overlap-bit) the felix/ip.CIDRTrie routines the controller's overlap test calls (Get/Intersects/Covers/Update) all select a node's child by the address bit at position len(node prefix)+1 (C36.position armed for their call closure).",
		NotDecided: "Correctness of felix/ip.CIDRTrie beyond the agreed descent bit (Covers/Intersects containment arithmetic; see C36), informer cache staleness after the initial sync, that kube-controllers actually starts both informers, API write failures inside the finalizer pass itself (a failed finalizer write is retried by the requeue), and IPAM's own use of the condition.",
		Assumptions: []string{
			"go/types + go/ssa (x/tools v0.50.0) model of the current source, CGO_ENABLED=0 build",
			"CIDRTrie.Covers(c) / Intersects(c) report an entry containing / contained in c (equal CIDRs satisfy both)",
			"slices.SortFunc sorts ascending by the comparator",
		},
		Run: runC39,
		Fixtures: []Fixture{
			{Name: "covering pool not treated as overlap", File: "kube-controllers/pkg/controllers/ippool/pool_controller.go",
				Old: "if e := t.Get(cidr); e != nil || t.Intersects(cidr) || t.Covers(cidr) {", New: "if e := t.Get(cidr); e != nil || t.Intersects(cidr) {", Expect: "C39.single/no-overlap/Covers"},
			{Name: "contained pool not treated as overlap", File: "kube-controllers/pkg/controllers/ippool/pool_controller.go",
				Old: "if e := t.Get(cidr); e != nil || t.Intersects(cidr) || t.Covers(cidr) {", New: "if e := t.Get(cidr); e != nil || t.Covers(cidr) {", Expect: "C39.single/no-overlap/Intersects"},
			{Name: "active pool not entered into the trie", File: "kube-controllers/pkg/controllers/ippool/pool_controller.go",
				Old: "\t\t\tactive[pool.Name] = pool\n\t\t\tt.Update(cidr, pool)\n", New: "\t\t\tactive[pool.Name] = pool\n", Expect: "C39.single/in-trie"},
			{Name: "terminating pool may become active", File: "kube-controllers/pkg/controllers/ippool/pool_controller.go",
				Old: "\t\tif pool.DeletionTimestamp != nil {\n\t\t\tcond := metav1.Condition{", New: "\t\tif false {\n\t\t\tcond := metav1.Condition{", Expect: "C39.single/not-terminating"},
			{Name: "pools not sorted before overlap resolution", File: "kube-controllers/pkg/controllers/ippool/pool_controller.go",
				Old: "\tslices.SortFunc(pools, poolSortFunc)\n", New: "", Expect: "C39.keep/sorted"},
			{Name: "comparator prefers the higher category", File: "kube-controllers/pkg/controllers/ippool/pool_controller.go",
				Old: "\t\treturn aCat - bCat\n", New: "\t\treturn bCat - aCat\n", Expect: "C39.keep/category-first"},
			{Name: "terminating pools sorted after new pools", File: "kube-controllers/pkg/controllers/ippool/pool_controller.go",
				Old: "\tif p.DeletionTimestamp != nil {\n\t\treturn 1\n\t}\n\tif hasCondition(p, v3.IPPoolConditionAllocatable, metav1.ConditionFalse) {\n\t\treturn 2\n\t}\n\treturn 3\n",
				New: "\tif p.DeletionTimestamp != nil {\n\t\treturn 3\n\t}\n\tif hasCondition(p, v3.IPPoolConditionAllocatable, metav1.ConditionFalse) {\n\t\treturn 2\n\t}\n\treturn 1\n", Expect: "C39.keep/category-order"},
			{Name: "allocatable pools no longer sorted first", File: "kube-controllers/pkg/controllers/ippool/pool_controller.go",
				Old: "\tif hasCondition(p, v3.IPPoolConditionAllocatable, metav1.ConditionTrue) && p.DeletionTimestamp == nil {\n\t\treturn 0\n\t}", New: "\tif hasCondition(p, v3.IPPoolConditionAllocatable, metav1.ConditionTrue) && p.DeletionTimestamp == nil {\n\t\treturn 4\n\t}", Expect: "C39.keep/category-order"},
			{Name: "ties left unordered", File: "kube-controllers/pkg/controllers/ippool/pool_controller.go",
				Old: "\treturn strings.Compare(poolA.Name, poolB.Name)\n", New: "\t_ = strings.Compare\n\treturn 0\n", Expect: "C39.keep/total"},
			{Name: "terminating pool stops masking", File: "kube-controllers/pkg/controllers/ippool/pool_controller.go",
				Old: "\t\t\tt.Update(cidr, pool)\n\t\t\tcontinue\n", New: "\t\t\tcontinue\n", Expect: "C39.mask/terminating-in-trie"},
			{Name: "failed Terminating status write skips the trie insertion", File: "kube-controllers/pkg/controllers/ippool/pool_controller.go",
				Old: "\t\t\t\terrs = append(errs, err)\n\t\t\t}\n\t\t\t// If the pool is being deleted, we still want", New: "\t\t\t\terrs = append(errs, err)\n\t\t\t\tcontinue\n\t\t\t}\n\t\t\t// If the pool is being deleted, we still want", Expect: "C39.indep/terminating"},
			{Name: "active pool enters the trie only if its Allocatable=True write succeeded", File: "kube-controllers/pkg/controllers/ippool/pool_controller.go",
				Old: "\t\t\tactive[pool.Name] = pool\n\t\t\tt.Update(cidr, pool)\n", New: "\t\t\tactive[pool.Name] = pool\n\t\t\tif err := updateCondition(ctx, c.cli, pool, metav1.Condition{Type: v3.IPPoolConditionAllocatable, Status: metav1.ConditionTrue, Reason: v3.IPPoolReasonOK}); err == nil {\n\t\t\t\tt.Update(cidr, pool)\n\t\t\t} else {\n\t\t\t\terrs = append(errs, err)\n\t\t\t}\n", Expect: "C39.indep/active"},
			{Name: "Run no longer waits for the block informer", File: "kube-controllers/pkg/controllers/ippool/pool_controller.go",
				Old: "c.poolInformer.HasSynced, c.blockInformer.HasSynced)", New: "c.poolInformer.HasSynced)", Expect: "C39.synced/blockInformer"},
			{Name: "Run no longer waits for the pool informer", File: "kube-controllers/pkg/controllers/ippool/pool_controller.go",
				Old: "c.poolInformer.HasSynced, c.blockInformer.HasSynced)", New: "c.blockInformer.HasSynced)", Expect: "C39.synced/poolInformer"},
			{Name: "finalizer removed while blocks remain", File: "kube-controllers/pkg/controllers/ippool/pool_controller.go",
				Old: "\tif c.blocksInPool(*parsedNet) {\n\t\tlogCtx.Info(\"IPAM blocks still exist in pool, not removing finalizer\")\n\t\treturn nil\n\t}\n", New: "", Expect: "C39.finalizer/remove"},
			{Name: "finalizer removed from any live pool", File: "kube-controllers/pkg/controllers/ippool/pool_controller.go",
				Old: "\t\tif hasCondition(p, v3.IPPoolConditionAllocatable, metav1.ConditionFalse) {\n\t\t\t// If this pool is disabled", New: "\t\tif !hasCondition(p, v3.IPPoolConditionAllocatable, metav1.ConditionFalse) {\n\t\t\t// If this pool is disabled", Expect: "C39.finalizer/remove"},
			{Name: "conditions-pass error returned before the finalizer pass", File: "kube-controllers/pkg/controllers/ippool/pool_controller.go",
				Old: "\tif err != nil {\n\t\terrs = append(errs, err)\n\t}\n\n\tfor _, p := range pools {", New: "\tif err != nil {\n\t\treturn err\n\t}\n\n\tfor _, p := range pools {", Expect: "C39.finpass/IPPoolController.reconcile"},
			{Name: "finalizer pass abandoned when the conditions pass reported an error", File: "kube-controllers/pkg/controllers/ippool/pool_controller.go",
				Old: "\tfor _, p := range pools {\n\t\tlogCtx := logrus.WithFields(logrus.Fields{", New: "\tfor _, p := range pools {\n\t\tif err != nil {\n\t\t\tbreak\n\t\t}\n\t\tlogCtx := logrus.WithFields(logrus.Fields{", Expect: "C39.finpass/IPPoolController.reconcile"},
			{Name: "Intersects descends by the last bit of the node's own prefix", File: "felix/ip/trie.go",
				Old: "\tchildIdx := cidr.Addr().NthBit(uint(n.cidr.Prefix() + 1))\n\tchild := n.children[childIdx]\n\treturn child.intersects(cidr)",
				New: "\tchildIdx := cidr.Addr().NthBit(uint(common.Prefix()))\n\tchild := n.children[childIdx]\n\treturn child.intersects(cidr)", Expect: "C39.overlap-bit/CIDRNode.intersects"},
			{Name: "Covers descends two bits below the node's prefix", File: "felix/ip/trie.go",
				Old: "\tchildIdx := cidr.Addr().NthBit(uint(n.cidr.Prefix() + 1))\n\tchild := n.children[childIdx]\n\treturn child.covers(cidr)",
				New: "\tchildIdx := cidr.Addr().NthBit(uint(n.cidr.Prefix() + 2))\n\tchild := n.children[childIdx]\n\treturn child.covers(cidr)", Expect: "C39.overlap-bit/CIDRNode.covers"},
			{Name: "blocksInPool ignores matching blocks", File: "kube-controllers/pkg/controllers/ippool/pool_controller.go",
				Old: "Debug(\"Found IPAMBlock in pool\")\n\t\t\treturn true\n", New: "Debug(\"Found IPAMBlock in pool\")\n\t\t\tcontinue\n", Expect: "C39.finalizer/blocksInPool"},
		},
	})
}

// c39CutBlocked is guardedCut with an additional set of blocks that no path may
// traverse (used for "the overlapping[key] store was executed, so the later
// !ok lookup of the same key is infeasible").
func c39CutBlocked(target ssa.Instruction, pred EdgePred, blocked func(*ssa.BasicBlock) bool) bool {
	fn := target.Parent()
	tb := target.Block()
	seen := map[*ssa.BasicBlock]bool{}
	st := []*ssa.BasicBlock{fn.Blocks[0]}
	for len(st) > 0 {
		b := st[len(st)-1]
		st = st[:len(st)-1]
		if seen[b] {
			continue
		}
		seen[b] = true
		if b == tb {
			return false
		}
		if isPanicBlock(b) || (blocked != nil && blocked(b)) {
			continue
		}
		if ifi, ok := b.Instrs[len(b.Instrs)-1].(*ssa.If); ok && len(b.Succs) == 2 {
			for k, s := range b.Succs {
				c, pol := stripNot(ifi.Cond, k == 0)
				if b.Succs[0] != b.Succs[1] && pred(c, pol) {
					continue
				}
				st = append(st, s)
			}
			continue
		}
		st = append(st, b.Succs...)
	}
	return true
}

func c39IsTrie(f *types.Func, name string) bool {
	return f != nil && isFunc(f, "felix/ip", "CIDRTrie."+name)
}

func c39ConstStr(v ssa.Value) string {
	if cv, ok := constOf(v); ok && cv.Kind() == constant.String {
		return constant.StringVal(cv)
	}
	return ""
}

func runC39(c *Ctx) {
	p := c.Load(c39Pkg)
	c.Rule("C39.single", "E-FLOW/E-GUARD/E-PAIR", "Allocatable=True only for pools of the active map; entry into it requires !Intersects && !Covers on the pool's own CIDR, not disabled, not terminating, and insertion into the same trie", 7)
	c.Rule("C39.keep", "E-ORDER/E-TABLE", "pools are sorted by poolSortFunc before overlap resolution; category decides first; allocatable < terminating < rest; ties end in a name comparison", 4)
	c.Rule("C39.mask", "E-GUARD", "a terminating, not disabled pool is still inserted into the overlap trie", 1)
	c.Rule("C39.finalizer", "E-GUARD/E-FLOW", "every persisted removal of the pool finalizer (found by what it does, anywhere below reconcile) happens only under !blocksInPool(own CIDR) or for a not-deleting Allocatable=False pool, the facts holding in the function or at every call site leading to it; blocksInPool reports contained blocks", 4)
	c.Rule("C39.indep", "E-CTRL", "whether a pool is inserted into the overlap trie does not depend on the outcome of an API write: no branch on the error of a status/finalizer write skips trie.Update while the pass goes on to write further conditions", 2)
	c.Rule("C39.synced", "E-DOM/E-FIELDS", "every informer field the reconcile closure reads has its HasSynced in a cache.WaitFor(Named)CacheSync call whose success guards every start of the worker in Run", 2)
	c.Rule("C39.finpass", "E-CTRL", "in reconcile the finalizer pass over the pools returned by the conditions pass is reached on both outcomes (or neither) of every branch on the error of an earlier call that performs API writes: a pool the pass has just made Allocatable=True is never left without its finalizer because another pool's status write failed (errors are aggregated and returned at the end)", 1)

	delTS := func(pool ssa.Value) func(ssa.Value) bool {
		return func(v ssa.Value) bool {
			fv := fieldVar(v)
			if fv == nil || fv.Name() != "DeletionTimestamp" {
				return false
			}
			return pool == nil || c39RootIs(v, pool)
		}
	}
	// Each family resolves its own anchors; a lost anchor breaks the check but
	// only silences the family that needs it.
	var lost []string
	var rc *ssa.Function
	c23Guarded(&lost, func() { rc = c23Func(c, p, c39Pkg, "IPPoolController.reconcileConditions") })
	if rc != nil {
		c23Guarded(&lost, func() { c39Single(c, p, rc, delTS) })
		c23Guarded(&lost, func() { c39Mask(c, p, rc, delTS) })
		c23Guarded(&lost, func() { c39Indep(c, p, rc, delTS) })
	}
	c23Guarded(&lost, func() { c39Keep(c, p, delTS) })
	c23Guarded(&lost, func() { c39Finalizer(c, p, delTS) })
	c23Guarded(&lost, func() { c39Synced(c, p) })
	c23Guarded(&lost, func() { c39OverlapBit(c, p) })
	if len(lost) > 0 {
		c.Lost("%s", strings.Join(lost, " | "))
	}
}

type c39DelTS = func(ssa.Value) func(ssa.Value) bool

// c39Single: the Allocatable=True set, and that the slice it is drawn from was
// sorted with poolSortFunc first.
func c39Single(c *Ctx, p *Prog, rc *ssa.Function, delTS c39DelTS) {
	// ---- single: the Allocatable=True set
	var active ssa.Value
	nTrue := 0
	for _, cs := range callsIn(rc, false, func(f *types.Func) bool { return isFunc(f, c39Pkg, "updateCondition") }) {
		args := cs.Args()
		status, typ := "", ""
		if ld, ok := args[3].(*ssa.UnOp); ok {
			if al, ok := ld.X.(*ssa.Alloc); ok {
				fs := literalFieldStores(al)
				for _, v := range fs["Status"] {
					status = c39ConstStr(v)
				}
				for _, v := range fs["Type"] {
					typ = c39ConstStr(v)
				}
			}
		}
		if status == "" || typ == "" {
			c.Undecided("C39.single/true-source", p.Pos(cs.Instr.Pos()), "condition passed to updateCondition is not a local literal with constant Type/Status")
			continue
		}
		if status != "True" {
			continue
		}
		nTrue++
		rng := c23RangeOf(args[2], 2)
		_, isMap := rng.(*ssa.MakeMap)
		if isMap {
			active = rng
		}
		c.Check(isMap, "C39.single/true-source", p.Pos(cs.Instr.Pos()), typ+"=True is written for pools ranged from one local map", typ+"=True is written for "+path(args[2])+", which is not an element of the active-set map")
	}
	if nTrue == 0 || active == nil {
		c.Lost("no updateCondition(…Status: True) over a local map in reconcileConditions")
	}
	nStores := 0
	var sortedSlice ssa.Value
	var sortTarget ssa.Instruction
	allInstrs(rc, false, func(_ *ssa.Function, in ssa.Instruction) {
		mu, ok := in.(*ssa.MapUpdate)
		if !ok || mu.Map != active {
			return
		}
		nStores++
		site := p.Pos(mu.Pos())
		pool := mu.Value
		// membership blocking: the store is under !ok of a lookup in another local map with the same key
		var overlapping ssa.Value
		guardedCut(mu, func(cond ssa.Value, pol bool) bool {
			if ex, ok := cond.(*ssa.Extract); ok && ex.Index == 1 && !pol {
				if lk, ok := ex.Tuple.(*ssa.Lookup); ok && lk.CommaOk {
					if _, isMk := lk.X.(*ssa.MakeMap); isMk && c23Same(lk.Index, mu.Key) {
						overlapping = lk.X
					}
				}
			}
			return false
		})
		blocked := func(b *ssa.BasicBlock) bool {
			if overlapping == nil {
				return false
			}
			for _, i2 := range b.Instrs {
				if m2, ok := i2.(*ssa.MapUpdate); ok && m2.Map == overlapping && c23Same(m2.Key, mu.Key) {
					return true
				}
			}
			return false
		}
		// trie tests
		var trie, cidr ssa.Value
		for _, name := range []string{"Intersects", "Covers"} {
			name := name
			ok := c39CutBlocked(mu, callCond(false, func(g CallSite) bool {
				if !c39IsTrie(g.Callee, name) {
					return false
				}
				if trie == nil {
					trie, cidr = g.Args()[0], g.Args()[1]
				}
				return g.Args()[0] == trie && g.Args()[1] == cidr
			}), blocked)
			c.Check(ok, "C39.single/no-overlap/"+name, site,
				"pool enters the active set only where trie."+name+"(cidr) returned false",
				"a pool can enter the active (Allocatable=True) set without trie."+name+"(cidr)==false: two overlapping pools can both become allocatable")
		}
		// the tested CIDR is the pool's own
		own := false
		if cidr != nil {
			c23Back(cidr, func(v ssa.Value) bool { _, ok := v.(*ssa.Call); return ok }, func(v ssa.Value) {
				if call, ok := v.(*ssa.Call); ok && isFunc(calleeOf(call.Common()), "felix/ip", "CIDRFromString") {
					a := call.Call.Args[0]
					if fv := fieldVar(a); fv != nil && fv.Name() == "CIDR" && c39RootIs(a, pool) {
						own = true
					}
				}
			})
		}
		c.Check(own, "C39.single/own-cidr", site, "the CIDR tested against the trie is parsed from the stored pool's Spec.CIDR", "the CIDR tested against the trie ("+path(cidr)+") is not parsed from the Spec.CIDR of the pool that becomes active")
		c.Check(guardedCut(mu, func(cond ssa.Value, pol bool) bool {
			fv := fieldVar(cond)
			return !pol && fv != nil && fv.Name() == "Disabled" && c39RootIs(cond, pool)
		}), "C39.single/not-disabled", site, "only pools with Spec.Disabled == false enter the active set", "a Spec.Disabled pool can enter the active set")
		c.Check(guardedCut(mu, c23NilCond(true, delTS(pool))), "C39.single/not-terminating", site,
			"only pools with DeletionTimestamp == nil enter the active set", "a terminating pool (DeletionTimestamp != nil) can enter the active set and be marked Allocatable=True")
		// insertion into the same trie
		pd := postDominators(rc)
		inTrie := false
		for _, u := range callsIn(rc, false, func(f *types.Func) bool { return c39IsTrie(f, "Update") }) {
			a := u.Args()
			mi, _ := a[2].(*ssa.MakeInterface)
			if mi != nil && mi.X == pool && a[0] == trie && a[1] == cidr &&
				(instrPostDominates(pd, u.Instr, mu) || (u.Instr.Block() == mu.Block())) {
				inTrie = true
			}
		}
		c.Check(inTrie, "C39.single/in-trie", site, "a pool entering the active set is inserted into the same trie with the same CIDR",
			"a pool entering the active set is not inserted into the overlap trie: later overlapping pools would also become allocatable")
		// for keep/sorted
		if ld, ok := pool.(*ssa.UnOp); ok {
			if ia, ok := ld.X.(*ssa.IndexAddr); ok {
				sortedSlice, sortTarget = ia.X, mu
			}
		}
	})
	if nStores == 0 {
		c.Lost("no store into the active-set map")
	}

	// ---- keep
	sortFn := c23Func(c, p, c39Pkg, "poolSortFunc")
	sorted := false
	if sortTarget != nil {
		for _, cs := range callsIn(rc, false, func(f *types.Func) bool {
			return f.Pkg() != nil && f.Pkg().Path() == "slices" && f.Name() == "SortFunc"
		}) {
			a := cs.Args()
			if len(a) == 2 && a[0] == sortedSlice && a[1] == ssa.Value(sortFn) && instrDominates(cs.Instr, sortTarget) {
				sorted = true
			}
		}
	}
	c.Check(sorted, "C39.keep/sorted", p.Pos(rc.Pos()), "slices.SortFunc(pools, poolSortFunc) dominates the overlap loop over the same slice",
		"the slice of pools fed to overlap resolution is not sorted with poolSortFunc first: a newer pool can take the CIDR of an already allocatable one")
}

// c39Keep: comparator shape and category table.
func c39Keep(c *Ctx, p *Prog, delTS c39DelTS) {
	sortFn := c23Func(c, p, c39Pkg, "poolSortFunc")
	catFn := c23Func(c, p, c39Pkg, "poolSortCategory")
	// comparator: category first
	isCat := func(idx int) func(ssa.Value) bool {
		return func(v ssa.Value) bool {
			call, ok := v.(*ssa.Call)
			return ok && calleeFn(call.Common()) == catFn && call.Call.Args[0] == ssa.Value(sortFn.Params[idx])
		}
	}
	anyCat := func(v ssa.Value) bool { return isCat(0)(v) || isCat(1)(v) }
	catFirst, hasDiff, hasName := true, false, false
	why := ""
	for _, r := range returnsOf(sortFn) {
		res := r.Results[0]
		if bo, ok := res.(*ssa.BinOp); ok && bo.Op == token.SUB && anyCat(bo.X) && anyCat(bo.Y) {
			if isCat(0)(bo.X) && isCat(1)(bo.Y) {
				hasDiff = true
			} else {
				catFirst, why = false, "category difference is returned with the operands swapped (descending order)"
			}
			continue
		}
		if !guardedCut(r, eqCond(true, isCat(0), isCat(1))) {
			catFirst, why = false, "a result other than aCat-bCat is returned without the categories being equal"
		}
		if call, ok := res.(*ssa.Call); ok {
			if f := calleeOf(call.Common()); f != nil && f.Pkg() != nil && f.Pkg().Path() == "strings" && f.Name() == "Compare" {
				a0, a1 := call.Call.Args[0], call.Call.Args[1]
				f0, f1 := fieldVar(a0), fieldVar(a1)
				if f0 != nil && f1 != nil && f0.Name() == "Name" && f1.Name() == "Name" && c39RootIs(a0, sortFn.Params[0]) && c39RootIs(a1, sortFn.Params[1]) {
					hasName = true
				}
			}
		}
	}
	if !hasDiff && why == "" {
		why = "no return of poolSortCategory(poolA) - poolSortCategory(poolB)"
	}
	c.Check(catFirst && hasDiff, "C39.keep/category-first", p.Pos(sortFn.Pos()), "poolSortFunc returns aCat-bCat when the categories differ and everything else only when they are equal", "poolSortFunc: "+why)
	c.Check(hasName, "C39.keep/total", p.Pos(sortFn.Pos()), "poolSortFunc ends in strings.Compare(poolA.Name, poolB.Name)", "poolSortFunc has no final comparison of the two pools' names: equal-aged pools are ordered nondeterministically, so the winner of an overlap can change between reconciles")
	// category table
	isAllocTrue := callCond(true, func(g CallSite) bool {
		return g.Callee != nil && isFunc(g.Callee, c39Pkg, "hasCondition") && c39ConstStr(g.Args()[1]) == "Allocatable" && c39ConstStr(g.Args()[2]) == "True"
	})
	var aVals, tVals, oVals []int64
	undec := false
	for _, r := range returnsOf(catFn) {
		cv, ok := constOf(r.Results[0])
		if !ok {
			undec = true
			continue
		}
		v, _ := constant.Int64Val(cv)
		switch {
		case guardedCut(r, isAllocTrue) && guardedCut(r, c23NilCond(true, delTS(nil))):
			aVals = append(aVals, v)
		case guardedCut(r, c23NilCond(false, delTS(nil))):
			tVals = append(tVals, v)
		default:
			oVals = append(oVals, v)
		}
	}
	if undec {
		c.Undecided("C39.keep/category-order", p.Pos(catFn.Pos()), "poolSortCategory returns a non-constant")
	} else {
		ok := len(aVals) > 0 && len(tVals) > 0 && len(oVals) > 0
		for _, a := range aVals {
			for _, t := range tVals {
				ok = ok && a < t
			}
			for _, o := range oVals {
				ok = ok && a < o
			}
		}
		for _, t := range tVals {
			for _, o := range oVals {
				ok = ok && t < o
			}
		}
		c.Check(ok, "C39.keep/category-order", p.Pos(catFn.Pos()),
			fmt.Sprintf("category(allocatable, not deleting)=%v < category(terminating)=%v < others=%v", aVals, tVals, oVals),
			fmt.Sprintf("poolSortCategory does not order allocatable=%v < terminating=%v < others=%v: an existing allocatable pool can be displaced, or a terminating pool stops masking", aVals, tVals, oVals))
	}

}

func c39Mask(c *Ctx, p *Prog, rc *ssa.Function, delTS c39DelTS) {
	// ---- mask
	masked := false
	for _, u := range callsIn(rc, false, func(f *types.Func) bool { return c39IsTrie(f, "Update") }) {
		a := u.Args()
		mi, _ := a[2].(*ssa.MakeInterface)
		if mi == nil {
			continue
		}
		if guardedCut(u.Instr, c23NilCond(false, delTS(mi.X))) {
			masked = true
		}
	}
	c.Check(masked, "C39.mask/terminating-in-trie", p.Pos(rc.Pos()), "a pool with DeletionTimestamp != nil is inserted into the overlap trie",
		"no trie.Update for pools with DeletionTimestamp != nil: a terminating pool stops masking overlapping pools while its blocks still exist")

}

// ------------------------------------------------------------- finalizer --
//
// The sites are found by what they do, not by the name of the function that
// hosts them: a value that is the pool's ObjectMeta.Finalizers with the pool
// finalizer constant filtered out (removal) or appended (addition) — computed
// in place or by a helper whose every return is such a value — reaches a store
// into the Finalizers of an object that the same function hands to a clientset
// write, directly or through a helper that persists its parameter.  All of this
// is looked for in every function of the package reachable from reconcile.
//
// The guards of a site are facts about the pool (its parameter in the hosting
// function).  A fact holds if an If edge establishes it on every path to the
// site, or — guard lifting — if the site's function is only ever called where it
// holds for the argument bound to that parameter: a callee reached only under
// `p.DeletionTimestamp == nil` of a dispatcher inherits that fact.

type c39Fin struct {
	c     *Ctx
	p     *Prog
	fin   string // value of the finalizer constant
	entry *ssa.Function
	delTS c39DelTS
	sp    *ssa.Package
	all   []*ssa.Function // every function of the package
}

type c39FinSite struct {
	instr ssa.Instruction
	kind  string    // "remove" | "add"
	src   ssa.Value // the Finalizers field access the new value was computed from
}

func (m *c39Fin) inPkg(f *ssa.Function) bool {
	return f != nil && f.Blocks != nil && topFn(f).Pkg != nil && topFn(f).Pkg == m.sp
}

func c39IsFinalizersField(v ssa.Value) bool {
	fv := fieldVar(v)
	return fv != nil && fv.Name() == "Finalizers" && fv.Pkg() != nil && fv.Pkg().Path() == "k8s.io/apimachinery/pkg/apis/meta/v1"
}

func c39SlicesCall(v ssa.Value, name string) *ssa.Call {
	call, ok := v.(*ssa.Call)
	if !ok {
		return nil
	}
	f := calleeOf(call.Common())
	if f == nil || f.Pkg() == nil || f.Pkg().Path() != "slices" || f.Name() != name {
		return nil
	}
	return call
}

// finBase: v is (a clone / re-slice / copy of) some object's Finalizers; returns
// that field access.
func (m *c39Fin) finBase(v ssa.Value) ssa.Value {
	var out ssa.Value
	n := 0
	var walk func(v ssa.Value, depth int)
	walk = func(v ssa.Value, depth int) {
		c23Back(v, func(x ssa.Value) bool { _, ok := x.(*ssa.Call); return ok }, func(leaf ssa.Value) {
			n++
			if cl := c39SlicesCall(leaf, "Clone"); cl != nil && depth < 3 {
				n--
				walk(cl.Call.Args[0], depth+1)
				return
			}
			if c39IsFinalizersField(leaf) {
				out = leaf
			}
		})
	}
	walk(v, 0)
	if n != 1 {
		return nil // several sources: not simply "the pool's finalizers"
	}
	return out
}

// isFinPredicate: fn is `func(s string) bool { return s == <finalizer> }`.
func (m *c39Fin) isFinPredicate(v ssa.Value) bool {
	var fn *ssa.Function
	switch x := v.(type) {
	case *ssa.MakeClosure:
		fn, _ = x.Fn.(*ssa.Function)
	case *ssa.Function:
		fn = x
	}
	if fn == nil || fn.Blocks == nil || len(fn.Params) != 1 {
		return false
	}
	rets := returnsOf(fn)
	if len(rets) == 0 {
		return false
	}
	for _, r := range rets {
		if len(r.Results) != 1 {
			return false
		}
		bo, ok := r.Results[0].(*ssa.BinOp)
		if !ok || bo.Op != token.EQL {
			return false
		}
		x, y := bo.X, bo.Y
		if c39ConstStr(x) == m.fin {
			x, y = y, x
		}
		if x != ssa.Value(fn.Params[0]) || c39ConstStr(y) != m.fin {
			return false
		}
	}
	return true
}

// classify: v is a new finalizer list derived from some object's Finalizers by
// removing ("remove") or appending ("add") the pool finalizer.  src is that
// object's Finalizers access, expressed in the function v lives in.
func (m *c39Fin) classify(v ssa.Value, depth int) (kind string, src ssa.Value) {
	call, ok := v.(*ssa.Call)
	if !ok {
		return "", nil
	}
	if df := c39SlicesCall(v, "DeleteFunc"); df != nil && len(df.Call.Args) == 2 {
		if m.isFinPredicate(df.Call.Args[1]) {
			if b := m.finBase(df.Call.Args[0]); b != nil {
				return "remove", b
			}
		}
		return "", nil
	}
	if b, ok := call.Call.Value.(*ssa.Builtin); ok && b.Name() == "append" {
		hasFin := false
		var bases []ssa.Value
		for _, e := range c23Appended(v, func(o ssa.Value) { bases = append(bases, o) }) {
			if c39ConstStr(e.Elem) == m.fin {
				hasFin = true
			}
		}
		if hasFin && len(bases) == 1 {
			if b := m.finBase(bases[0]); b != nil {
				return "add", b
			}
		}
		return "", nil
	}
	// helper whose every return is such a value computed from one of its parameters
	g := calleeFn(call.Common())
	if !m.inPkg(g) || depth >= 3 || g.Signature.Results().Len() != 1 {
		return "", nil
	}
	idx := -1
	for _, r := range returnsOf(g) {
		k, s := m.classify(r.Results[0], depth+1)
		if k == "" || (kind != "" && k != kind) {
			return "", nil
		}
		kind = k
		j := -1
		for i, q := range g.Params {
			if c39RootIs(s, q) {
				j = i
			}
		}
		if j < 0 || (idx >= 0 && j != idx) {
			return "", nil
		}
		idx = j
	}
	if kind == "" || idx < 0 || idx >= len(call.Call.Args) {
		return "", nil
	}
	return kind, call.Call.Args[idx]
}

// persistedStore: st stores into the Finalizers of an object that st's function
// passes to a clientset write.
func (m *c39Fin) persistedStore(st *ssa.Store) bool {
	if !c39IsFinalizersField(st.Addr) {
		return false
	}
	ok := false
	allInstrs(st.Parent(), false, func(_ *ssa.Function, in ssa.Instruction) {
		ci, isCall := in.(ssa.CallInstruction)
		if !isCall || !c39IsAPIWrite(calleeOf(ci.Common())) {
			return
		}
		for _, a := range ci.Common().Args {
			if _, isPtr := a.Type().Underlying().(*types.Pointer); isPtr && c39RootIs(st.Addr, a) {
				ok = true
			}
		}
	})
	return ok
}

// persistsParam: g writes its i-th parameter into the Finalizers of an object
// it persists (itself or through another such helper).
func (m *c39Fin) persistsParam(g *ssa.Function, i, depth int) bool {
	if !m.inPkg(g) || i >= len(g.Params) || depth > 2 {
		return false
	}
	prm := g.Params[i]
	fromParam := func(v ssa.Value) bool {
		hit := false
		c23Back(v, nil, func(leaf ssa.Value) {
			if leaf == ssa.Value(prm) {
				hit = true
			}
		})
		return hit
	}
	found := false
	allInstrs(g, false, func(_ *ssa.Function, in ssa.Instruction) {
		switch x := in.(type) {
		case *ssa.Store:
			if fromParam(x.Val) && m.persistedStore(x) {
				found = true
			}
		case ssa.CallInstruction:
			h := calleeFn(x.Common())
			if h == nil || h == g {
				return
			}
			for j, a := range x.Common().Args {
				if fromParam(a) && m.persistsParam(h, j, depth+1) {
					found = true
				}
			}
		}
	})
	return found
}

// sites: persisted finalizer rewrites in f.
func (m *c39Fin) sites(f *ssa.Function) []c39FinSite {
	var out []c39FinSite
	allInstrs(f, false, func(_ *ssa.Function, in ssa.Instruction) {
		switch x := in.(type) {
		case *ssa.Store:
			if k, src := m.classify(x.Val, 0); k != "" && m.persistedStore(x) {
				out = append(out, c39FinSite{x, k, src})
			}
		case ssa.CallInstruction:
			g := calleeFn(x.Common())
			if !m.inPkg(g) {
				return
			}
			for i, a := range x.Common().Args {
				if k, src := m.classify(a, 0); k != "" && m.persistsParam(g, i, 0) {
					out = append(out, c39FinSite{x, k, src})
				}
			}
		}
	})
	return out
}

// c39Root: the value an access path starts from (p for p.ObjectMeta.Finalizers).
func c39Root(v ssa.Value) ssa.Value {
	for i := 0; i < 12; i++ {
		switch x := v.(type) {
		case *ssa.UnOp:
			if x.Op != token.MUL {
				return v
			}
			if _, isAlloc := x.X.(*ssa.Alloc); isAlloc {
				return v
			}
			v = x.X
		case *ssa.FieldAddr:
			v = x.X
		case *ssa.Field:
			v = x.X
		default:
			return v
		}
	}
	return v
}

// fact builds the edge predicate of a named fact about pool.
func (m *c39Fin) fact(name string, pool ssa.Value) EdgePred {
	switch name {
	case "no-blocks": // blocksInPool(CIDR parsed from pool.Spec.CIDR) returned false
		return callCond(false, func(g CallSite) bool {
			if g.Callee == nil || !isFunc(g.Callee, c39Pkg, "IPPoolController.blocksInPool") {
				return false
			}
			own := false
			c23Back(g.Args()[1], func(v ssa.Value) bool { _, ok := v.(*ssa.Call); return ok }, func(v ssa.Value) {
				if pc, ok := v.(*ssa.Call); ok {
					if f := calleeOf(pc.Common()); f != nil && f.Name() == "ParseCIDR" {
						x := pc.Call.Args[0]
						if fv := fieldVar(x); fv != nil && fv.Name() == "CIDR" && c39RootIs(x, pool) {
							own = true
						}
					}
				}
			})
			return own
		})
	case "allocatable-false": // hasCondition(pool, Allocatable, False) returned true
		return callCond(true, func(g CallSite) bool {
			return g.Callee != nil && isFunc(g.Callee, c39Pkg, "hasCondition") && g.Args()[0] == pool &&
				c39ConstStr(g.Args()[1]) == "Allocatable" && c39ConstStr(g.Args()[2]) == "False"
		})
	case "not-deleting":
		return c23NilCond(true, m.delTS(pool))
	}
	panic("c39: unknown fact " + name)
}

func (m *c39Fin) callSites(f *ssa.Function) []ssa.CallInstruction {
	var out []ssa.CallInstruction
	for _, g := range m.all {
		allInstrs(g, false, func(_ *ssa.Function, in ssa.Instruction) {
			if ci, ok := in.(ssa.CallInstruction); ok && calleeFn(ci.Common()) == f {
				out = append(out, ci)
			}
		})
	}
	return out
}

// c39FinCtx is one context in which a finalizer rewrite executes: the site
// itself when its guards are decided in its own function, otherwise one entry
// per call site (transitively) to which the undecided facts were lifted.
type c39FinCtx struct {
	ok    bool
	at    ssa.Instruction // where the decision was made (site or call site)
	trail []string        // facts found, and where
}

// contexts: one of the conjunctions of dnf must be established for pool at
// instr — each of its facts by an If edge cut in instr's function or, lifted,
// at every in-package call site of that function for the argument bound to
// pool.  A site whose guards live in its callers yields one context per caller.
func (m *c39Fin) contexts(instr ssa.Instruction, pool ssa.Value, dnf [][]string, depth int, trail []string) []c39FinCtx {
	f := instr.Parent()
	var rest [][]string
	for _, conj := range dnf {
		var remaining, found []string
		for _, name := range conj {
			if guardedCut(instr, m.fact(name, pool)) {
				found = append(found, name+" in "+fnName(f))
			} else {
				remaining = append(remaining, name)
			}
		}
		if len(remaining) == 0 {
			return []c39FinCtx{{true, instr, append(append([]string{}, trail...), found...)}}
		}
		trail = append(append([]string{}, trail...), found...)
		rest = append(rest, remaining)
	}
	fail := []c39FinCtx{{false, instr, trail}}
	prm, isParam := pool.(*ssa.Parameter)
	if !isParam || prm.Parent() != f || depth >= 4 || f == m.entry {
		return fail
	}
	idx := -1
	for i, q := range f.Params {
		if q == prm {
			idx = i
		}
	}
	sites := m.callSites(f)
	if idx < 0 || len(sites) == 0 {
		return fail
	}
	var out []c39FinCtx
	for _, cs := range sites {
		args := cs.Common().Args
		if idx >= len(args) {
			return fail
		}
		out = append(out, m.contexts(cs, c39Root(args[idx]), rest, depth+1, trail)...)
	}
	return out
}

func c39Finalizer(c *Ctx, p *Prog, delTS c39DelTS) {
	rec := c23Func(c, p, c39Pkg, "IPPoolController.reconcile")
	finObj, _ := p.LookupObj(c39Pkg, "IPPoolFinalizer").(*types.Const)
	if finObj == nil || finObj.Val().Kind() != constant.String {
		c.Lost("constant %s.IPPoolFinalizer", c39Pkg)
	}
	m := &c39Fin{c: c, p: p, fin: constant.StringVal(finObj.Val()), entry: rec, delTS: delTS, sp: p.SSAPkg(c39Pkg)}
	for _, f := range p.AllFuncs() {
		if m.inPkg(f) {
			m.all = append(m.all, f)
		}
	}
	var hosts []*ssa.Function
	for f := range p.closure(rec) {
		if m.inPkg(f) {
			hosts = append(hosts, f)
		}
	}
	sort.Slice(hosts, func(i, j int) bool { return hosts[i].Pos() < hosts[j].Pos() })
	nRem, added := 0, false
	var addPos token.Pos
	for _, f := range hosts {
		for _, st := range m.sites(f) {
			pool := c39Root(st.src)
			switch st.kind {
			case "remove":
				for _, cx := range m.contexts(st.instr, pool, [][]string{{"no-blocks"}, {"allocatable-false", "not-deleting"}}, 0, nil) {
					nRem++
					via := ""
					if cx.at != st.instr {
						via = " reached from " + fnName(cx.at.Parent())
					}
					c.Check(cx.ok, "C39.finalizer/remove", p.Pos(cx.at.Pos()),
						fmt.Sprintf("finalizer removal persisted in %s%s is guarded by no blocks in the pool's own CIDR, or by a not-deleting Allocatable=False pool (%s)", fnName(f), via, strings.Join(cx.trail, ", ")),
						"the finalizer can be removed from a pool (in "+fnName(f)+via+") without blocksInPool(pool CIDR)==false and without the pool being a live Allocatable=False pool — neither in that function nor at the call sites leading to it: an allocatable pool is deleted while it still has blocks")
				}
			case "add":
				all := true
				cxs := m.contexts(st.instr, pool, [][]string{{"not-deleting"}}, 0, nil)
				for _, cx := range cxs {
					all = all && cx.ok
				}
				if all && len(cxs) > 0 {
					added = true
					addPos = st.instr.Pos()
				}
			}
		}
	}
	c39FinPass(c, p, m, rec, hosts)
	if nRem < 2 {
		c.Lost("expected >= 2 (contexts of) persisted removals of the pool finalizer in the functions reachable from reconcile, found %d", nRem)
	}
	// finalizer is added for live pools
	site := p.Pos(rec.Pos())
	if added {
		site = p.Pos(addPos)
	}
	c.Check(added, "C39.finalizer/add", site, "a live pool gets the finalizer appended", "nothing below reconcile appends the finalizer to a live (DeletionTimestamp == nil) pool and persists it: deletion would not wait for its blocks")
	// blocksInPool
	bip := c23Func(c, p, c39Pkg, "IPPoolController.blocksInPool")
	okTrue := false
	for _, r := range returnsOf(bip) {
		cv, ok := constOf(r.Results[0])
		if ok && cv.String() == "true" && guardedCut(r, callCond(true, func(g CallSite) bool {
			return g.Callee != nil && g.Callee.Name() == "Contains" && c39RootIs(g.Args()[0], bip.Params[1])
		})) {
			okTrue = true
		}
	}
	c.Check(okTrue, "C39.finalizer/blocksInPool", p.Pos(bip.Pos()), "blocksInPool returns true where cidr.Contains(block address) holds", "blocksInPool has no `return true` under cidr.Contains(block IP): pools with blocks look empty")

}

// c39IsAPIWrite: an invoke of a mutating verb on a generated clientset interface.
func c39IsAPIWrite(f *types.Func) bool {
	if f == nil || f.Pkg() == nil {
		return false
	}
	switch f.Name() {
	case "Update", "UpdateStatus", "Patch", "Create", "Delete", "Apply", "ApplyStatus":
	default:
		return false
	}
	sig, _ := f.Type().(*types.Signature)
	if sig == nil || sig.Recv() == nil {
		return false
	}
	if _, isIface := sig.Recv().Type().Underlying().(*types.Interface); !isIface {
		return false
	}
	return strings.Contains(f.Pkg().Path(), "/clientset")
}

// c39Indep: the overlap trie must hold every terminating / active pool of the
// pass regardless of whether the pool's status could be written.  For each
// trie.Update u and each branch on the error of a call that (transitively)
// performs an API write: within one loop iteration (back edges removed) u must
// be reachable from both arms or from neither — unless the arm that skips u
// ends the pass (reaches no further API write).
func c39Indep(c *Ctx, p *Prog, rc *ssa.Function, delTS func(ssa.Value) func(ssa.Value) bool) {
	writes := func(call *ssa.Call) bool {
		cc := call.Common()
		if c39IsAPIWrite(calleeOf(cc)) {
			return true
		}
		sf := calleeFn(cc)
		return sf != nil && sf.Blocks != nil && containsCall(sf, 3, c39IsAPIWrite)
	}
	// branches on the error of an API write
	type branch struct {
		blk  *ssa.BasicBlock
		call *ssa.Call
	}
	var branches []branch
	hasWrite := map[*ssa.BasicBlock]bool{}
	for _, b := range rc.Blocks {
		for _, in := range b.Instrs {
			if call, ok := in.(*ssa.Call); ok && writes(call) {
				hasWrite[b] = true
			}
		}
		ifi, ok := b.Instrs[len(b.Instrs)-1].(*ssa.If)
		if !ok || len(b.Succs) != 2 {
			continue
		}
		cond, _ := stripNot(ifi.Cond, true)
		bo, ok := cond.(*ssa.BinOp)
		if !ok || (bo.Op != token.EQL && bo.Op != token.NEQ) {
			continue
		}
		for _, side := range []ssa.Value{bo.X, bo.Y} {
			if !types.Identical(side.Type(), types.Universe.Lookup("error").Type()) {
				continue
			}
			for _, o := range origins(side, nil) {
				if call, ok := o.V.(*ssa.Call); ok && writes(call) {
					branches = append(branches, branch{b, call})
				}
			}
		}
	}
	if len(branches) < 4 {
		c.Lost("reconcileConditions: expected ≥4 branches on the error of a status write, found %d", len(branches))
	}
	reach := func(from *ssa.BasicBlock, backEdges bool) map[*ssa.BasicBlock]bool {
		seen := map[*ssa.BasicBlock]bool{}
		st := []*ssa.BasicBlock{from}
		for len(st) > 0 {
			b := st[len(st)-1]
			st = st[:len(st)-1]
			if seen[b] {
				continue
			}
			seen[b] = true
			for _, s := range b.Succs {
				if !backEdges && s.Dominates(b) {
					continue
				}
				st = append(st, s)
			}
		}
		return seen
	}
	n := map[string]int{}
	for _, u := range callsIn(rc, false, func(f *types.Func) bool { return c39IsTrie(f, "Update") }) {
		kind := "other"
		if mi, _ := u.Args()[2].(*ssa.MakeInterface); mi != nil {
			switch {
			case guardedCut(u.Instr, c23NilCond(false, delTS(mi.X))):
				kind = "terminating"
			case guardedCut(u.Instr, c23NilCond(true, delTS(mi.X))):
				kind = "active"
			}
		}
		n[kind]++
		var bad []string
		for _, br := range branches {
			r0, r1 := map[*ssa.BasicBlock]bool{}, map[*ssa.BasicBlock]bool{}
			if !br.blk.Succs[0].Dominates(br.blk) {
				r0 = reach(br.blk.Succs[0], false)
			}
			if !br.blk.Succs[1].Dominates(br.blk) {
				r1 = reach(br.blk.Succs[1], false)
			}
			in0, in1 := r0[u.Instr.Block()], r1[u.Instr.Block()]
			if in0 == in1 {
				continue
			}
			skip := br.blk.Succs[0]
			if in0 {
				skip = br.blk.Succs[1]
			}
			goesOn := false
			for b := range reach(skip, true) {
				if hasWrite[b] {
					goesOn = true
				}
			}
			if goesOn {
				bad = append(bad, fmt.Sprintf("the branch on the error of %s at %s", fnNameOfCall(br.call), p.Pos(br.call.Pos())))
			}
		}
		c.Check(len(bad) == 0, "C39.indep/"+kind, p.Pos(u.Instr.Pos()), fmt.Sprintf("trie insertion of the %s pool is reached from both arms (or neither) of all %d branches on a status-write error", kind, len(branches)),
			fmt.Sprintf("trie.Update for the %s pool is skipped on one arm of %s while the pass continues: when that write fails the pool is missing from the overlap trie and an overlapping pool is judged free and made allocatable", kind, strings.Join(bad, "; ")))
	}
	if n["terminating"] < 1 || n["active"] < 1 {
		c.Lost("reconcileConditions: expected a trie.Update for terminating and for active pools, found %v", n)
	}
}

func fnNameOfCall(call *ssa.Call) string {
	if f := calleeOf(call.Common()); f != nil {
		return f.Name()
	}
	return "a call"
}

func c39Unwrap(v ssa.Value) ssa.Value {
	for {
		switch x := v.(type) {
		case *ssa.ChangeInterface:
			v = x.X
		case *ssa.ChangeType:
			v = x.X
		case *ssa.MakeInterface:
			v = x.X
		case *ssa.TypeAssert:
			v = x.X
		case *ssa.Convert:
			v = x.X
		default:
			return v
		}
	}
}

// c39SyncedFields: the struct fields whose HasSynced is handed to a
// WaitFor(Named)CacheSync call (as a method value or inside a func literal).
func c39SyncedFields(call CallSite) map[*types.Var]bool {
	out := map[*types.Var]bool{}
	args := call.Common().Args
	if len(args) == 0 {
		return out
	}
	sl, ok := args[len(args)-1].(*ssa.Slice)
	if !ok {
		return out
	}
	al, ok := sl.X.(*ssa.Alloc)
	if !ok || al.Referrers() == nil {
		return out
	}
	for _, r := range *al.Referrers() {
		ia, ok := r.(*ssa.IndexAddr)
		if !ok || ia.Referrers() == nil {
			continue
		}
		for _, rr := range *ia.Referrers() {
			st, ok := rr.(*ssa.Store)
			if !ok || st.Addr != ia {
				continue
			}
			mc, ok := c39Unwrap(st.Val).(*ssa.MakeClosure)
			if !ok {
				continue
			}
			fn := mc.Fn.(*ssa.Function)
			if obj, _ := fn.Object().(*types.Func); obj != nil && obj.Name() == "HasSynced" && len(mc.Bindings) == 1 {
				if fv := fieldVar(c39Unwrap(mc.Bindings[0])); fv != nil {
					out[fv] = true
				}
				continue
			}
			// func literal: every HasSynced it calls on a field
			for _, cs := range callsIn(fn, true, func(f *types.Func) bool { return f.Name() == "HasSynced" }) {
				if a := cs.Args(); len(a) > 0 {
					if fv := fieldVar(c39Unwrap(a[0])); fv != nil {
						out[fv] = true
					}
				}
			}
		}
	}
	return out
}

// c39Synced: reconcile decides from informer caches (the pool list, the block
// list behind blocksInPool).  An unsynced cache looks empty, which reads as
// "no blocks left" / "no overlapping pool".  So every informer field read in the
// reconcile closure must have been waited for before the worker can start.
func c39Synced(c *Ctx, p *Prog) {
	run := c23Func(c, p, c39Pkg, "IPPoolController.Run")
	rec := c23Func(c, p, c39Pkg, "IPPoolController.reconcile")
	ctl, _ := p.LookupObj(c39Pkg, "IPPoolController").(*types.TypeName)
	if ctl == nil {
		c.Lost("type IPPoolController")
	}
	st, _ := ctl.Type().Underlying().(*types.Struct)
	if st == nil {
		c.Lost("IPPoolController is not a struct")
	}
	read := fieldsRead(p.closure(rec), ctl.Type())
	var informers []*types.Var
	for i := 0; i < st.NumFields(); i++ {
		f := st.Field(i)
		ms := types.NewMethodSet(f.Type())
		if ms.Lookup(nil, "HasSynced") == nil && ms.Lookup(f.Pkg(), "HasSynced") == nil {
			continue
		}
		if len(read[f.Name()]) > 0 {
			informers = append(informers, f)
		}
	}
	if len(informers) < 2 {
		c.Lost("expected ≥2 informer fields of IPPoolController read by the reconcile closure, found %d", len(informers))
	}
	// starts of the worker: calls / go / defer in Run whose target (or bound method / closure operand) reaches reconcile
	reaches := func(f *ssa.Function) bool { return f != nil && p.closure(f)[rec] }
	var starts []ssa.Instruction
	allInstrs(run, false, func(_ *ssa.Function, in ssa.Instruction) {
		switch x := in.(type) {
		case ssa.CallInstruction:
			if reaches(calleeFn(x.Common())) {
				starts = append(starts, in)
				return
			}
			for _, a := range x.Common().Args {
				switch y := c39Unwrap(a).(type) {
				case *ssa.MakeClosure:
					if reaches(y.Fn.(*ssa.Function)) {
						starts = append(starts, in)
					}
				case *ssa.Function:
					if reaches(y) {
						starts = append(starts, in)
					}
				}
			}
		}
	})
	if len(starts) == 0 {
		c.Lost("IPPoolController.Run: no call/go statement that reaches reconcile")
	}
	isWait := func(f *types.Func) bool {
		return f != nil && f.Pkg() != nil && f.Pkg().Path() == "k8s.io/client-go/tools/cache" && (f.Name() == "WaitForNamedCacheSync" || f.Name() == "WaitForCacheSync")
	}
	for _, f := range informers {
		f := f
		ok := true
		for _, s := range starts {
			if !guardedCut(s, callCond(true, func(g CallSite) bool { return isWait(g.Callee) && c39SyncedFields(g)[f] })) {
				ok = false
			}
		}
		c.Check(ok, "C39.synced/"+f.Name(), p.Pos(run.Pos()), fmt.Sprintf("c.%s.HasSynced is waited for before each of the %d worker starts in Run", f.Name(), len(starts)),
			fmt.Sprintf("reconcile reads the cache of c.%s, but Run can start the worker without WaitFor(Named)CacheSync(…, c.%s.HasSynced) having returned true: the first pass sees an empty cache (no blocks ⇒ finalizer of a terminating pool removed; no pools ⇒ nothing masked)", f.Name(), f.Name()))
	}
}

// c39RootIs: the access path of v is rooted at root (v = root.f.g…, through loads,
// field selections and copies into locals).
func c39RootIs(v ssa.Value, root ssa.Value) bool {
	for i := 0; i < 12 && v != nil; i++ {
		if v == root {
			return true
		}
		switch x := v.(type) {
		case *ssa.UnOp:
			if x.Op != token.MUL {
				return false
			}
			v = x.X
		case *ssa.FieldAddr:
			v = x.X
		case *ssa.Field:
			v = x.X
		case *ssa.Alloc:
			// local copy of a parameter (address-taken param)
			var src ssa.Value
			for _, r := range *x.Referrers() {
				if st, ok := r.(*ssa.Store); ok && st.Addr == x {
					src = st.Val
				}
			}
			if src == nil {
				return false
			}
			v = src
		default:
			return false
		}
	}
	return false
}

// ---------------------------------------------------------------- finpass --

// c39Writes: call performs (transitively, in-package) a clientset write.
func c39Writes(call *ssa.Call) bool {
	cc := call.Common()
	if c39IsAPIWrite(calleeOf(cc)) {
		return true
	}
	sf := calleeFn(cc)
	return sf != nil && sf.Blocks != nil && containsCall(sf, 3, c39IsAPIWrite)
}

// c39FinPass: the conditions pass writes Allocatable=True pool by pool and
// aggregates its errors; whether a pool is allocatable decides whether it must
// carry the finalizer.  So in reconcile the finalizer pass — every call that
// reaches a persisted append of the finalizer (or such a site itself) — must
// not be control-dependent on the error of an earlier API-writing call: for
// every branch on such an error, within one iteration (back edges removed), the
// pass is reachable from both arms or from neither.  An early `return err`
// leaves the pools that WERE made allocatable without a finalizer, so they can
// be deleted while they still have blocks.
func c39FinPass(c *Ctx, p *Prog, m *c39Fin, rec *ssa.Function, hosts []*ssa.Function) {
	addHost := map[*ssa.Function]bool{}
	for _, f := range hosts {
		for _, st := range m.sites(f) {
			if st.kind == "add" {
				addHost[f] = true
			}
		}
	}
	if len(addHost) == 0 {
		c.Lost("no persisted append of the pool finalizer below reconcile")
	}
	type target struct {
		in   ssa.Instruction
		name string
	}
	var targets []target
	if addHost[rec] {
		for _, st := range m.sites(rec) {
			if st.kind == "add" {
				targets = append(targets, target{st.instr, "finalizer-add"})
			}
		}
	}
	allInstrs(rec, false, func(_ *ssa.Function, in ssa.Instruction) {
		ci, ok := in.(ssa.CallInstruction)
		if !ok {
			return
		}
		g := calleeFn(ci.Common())
		if !m.inPkg(g) || g == rec {
			return
		}
		for h := range p.closure(g) {
			if addHost[h] {
				targets = append(targets, target{in, fnName(g)})
				return
			}
		}
	})
	if len(targets) == 0 {
		c.Lost("IPPoolController.reconcile: no call that reaches the finalizer append")
	}
	type branch struct {
		blk  *ssa.BasicBlock
		call *ssa.Call
		pos  token.Pos
	}
	var branches []branch
	for _, b := range rec.Blocks {
		ifi, ok := b.Instrs[len(b.Instrs)-1].(*ssa.If)
		if !ok || len(b.Succs) != 2 || b.Succs[0] == b.Succs[1] {
			continue
		}
		cond, _ := stripNot(ifi.Cond, true)
		bo, ok := cond.(*ssa.BinOp)
		if !ok || (bo.Op != token.EQL && bo.Op != token.NEQ) {
			continue
		}
		for _, side := range []ssa.Value{bo.X, bo.Y} {
			if !types.Identical(side.Type(), types.Universe.Lookup("error").Type()) {
				continue
			}
			for _, o := range origins(side, nil) {
				if call, ok := o.V.(*ssa.Call); ok && c39Writes(call) {
					branches = append(branches, branch{b, call, bo.Pos()})
				}
			}
		}
	}
	reach := func(from *ssa.BasicBlock) map[*ssa.BasicBlock]bool {
		seen := map[*ssa.BasicBlock]bool{}
		st := []*ssa.BasicBlock{from}
		for len(st) > 0 {
			b := st[len(st)-1]
			st = st[:len(st)-1]
			if seen[b] {
				continue
			}
			seen[b] = true
			for _, s := range b.Succs {
				if s.Dominates(b) {
					continue // back edge
				}
				st = append(st, s)
			}
		}
		return seen
	}
	for _, t := range targets {
		var bad []string
		n := 0
		for _, br := range branches {
			if ssa.Instruction(br.call) == t.in || !instrDominates(br.call, t.in) {
				continue // the pass's own error, or a write that is not upstream of it
			}
			n++
			in0 := !br.blk.Succs[0].Dominates(br.blk) && reach(br.blk.Succs[0])[t.in.Block()]
			in1 := !br.blk.Succs[1].Dominates(br.blk) && reach(br.blk.Succs[1])[t.in.Block()]
			if in0 != in1 {
				bad = append(bad, fmt.Sprintf("the branch at %s on the error of %s (called at %s)", p.Pos(br.pos), fnNameOfCall(br.call), p.Pos(br.call.Pos())))
			}
		}
		c.Check(len(bad) == 0, "C39.finpass/"+fnName(rec)+"/"+t.name, p.Pos(t.in.Pos()),
			fmt.Sprintf("the finalizer pass (%s) is reached whatever the outcome of %d branch(es) on an upstream API-write error", t.name, n),
			fmt.Sprintf("in %s the finalizer pass (%s) is reached on only one arm of %s: the conditions pass writes Allocatable=True pool by pool and reports the failures together, so when any one pool's status write fails the pools that were made allocatable by the same pass are left without the finalizer and can be deleted while they still have address blocks (aggregate the error and carry on, e.g. errors.Join / utilerrors.NewAggregate at the end)", fnName(rec), t.name, strings.Join(bad, "; ")))
	}
}

// ------------------------------------------------------------ overlap-bit --

// c39OverlapBit arms C36.position (engine_C36pos.go) for the felix/ip.CIDRTrie
// routines the controller's overlap test relies on: the CIDRTrie methods called
// from this package and everything they call.  Get/Intersects/Covers must look
// for an entry in the subtree where Update filed it.
func c39OverlapBit(c *Ctx, p *Prog) {
	names := map[string]bool{}
	for _, f := range p.AllFuncs() {
		if tf := topFn(f); tf.Pkg == nil || tf.Pkg != p.SSAPkg(c39Pkg) {
			continue
		}
		for _, cs := range callsIn(f, false, func(g *types.Func) bool {
			return g != nil && g.Pkg() != nil && strings.HasSuffix(g.Pkg().Path(), "/"+c36IPPkg) && recvTypeName(g) == "CIDRTrie"
		}) {
			names[cs.Callee.Name()] = true
		}
	}
	for _, need := range []string{"Update", "Intersects", "Covers"} {
		if !names[need] {
			c.Lost("%s does not call ip.CIDRTrie.%s", c39Pkg, need)
		}
	}
	ipp := c.Load(c36IPPkg)
	m := c36Build(c, ipp)
	var roots []*ssa.Function
	for _, n := range sortedKeys(names) {
		f := ipp.Func(c36IPPkg, "CIDRTrie."+n)
		if f == nil {
			c.Lost("ip.CIDRTrie.%s", n)
		}
		roots = append(roots, f)
	}
	only := ipp.closure(roots...)
	c.Alias("C36.position", "C39.overlap-bit", func() {
		c.Rule("C36.position", "E-SIBLING", "the CIDRTrie routines behind the overlap test (Get, Intersects, Covers, Update and what they call) select a node's child by the address bit at position len(node prefix)+1 — "+c36PositionText, 4)
		c36Position(c, m, only)
	})
}
