package main

import (
	"fmt"
	"go/constant"
	"go/token"
	"go/types"
	"sort"
	"strconv"
	"strings"

	"golang.org/x/tools/go/ssa"
)

const (
	c34Pkg     = "apiserver/pkg/registry/projectcalico/authorizer"
	c34AuthPkg = "k8s.io/apiserver/pkg/authorization/authorizer"
	c34File    = "apiserver/pkg/registry/projectcalico/authorizer/authorizer.go"
)

func init() {
	register(&Property{
		ID:        "C34",
		Title:     "Tiered policy authorization is correct and race-free",
		Technique: "static analysis: captured-variable race analysis with WaitGroup joins (E-RACE), exhaustive symbolic evaluation of the post-join decision over all Decision values (E-TABLE), provenance of the attribute literals (E-FLOW) on go/ssa",
		DesignRef: "DESIGN.md §3 C34",
		Explanation: "On authorizer.AuthorizeTierOperation: (race) every variable captured by reference by the three goroutines is classified per goroutine and for the spawning function; " +
			"no variable written by a goroutine is accessed by another concurrent goroutine, or by the spawning function on a path from the go statement that does not cross the wg.Wait joined by the goroutine's deferred Done; wg.Add precedes the go statements and its constant equals the number of goroutines that call Done. " +
			"(formula) the code after wg.Wait is executed symbolically for every combination of values of the three decision variables (every k8s Decision constant plus one other value): it returns nil exactly when getTier==Allow and (policy==Allow or wildcard==Allow); every other `return nil` of the function is guarded by `Authorizer == nil`. " +
			"(source) each decision variable is stored exactly once, unconditionally, from result #0 of an Authorizer.Authorize call. " +
			"(tiername) in the four tiered-policy storages under apiserver/pkg/registry/projectcalico (networkpolicy, globalpolicy, stagednetworkpolicy, stagedglobalnetworkpolicy; discovered as the registry packages that call AuthorizeTierOperation) every tier name handed to AuthorizeTierOperation by REST.Create/Update/Get/Delete (24 call sites) derives from names.TierOrDefault (or a constant), never from the raw Spec.Tier; no condition that decides whether AuthorizeTierOperation is called tests the raw Spec.Tier against a defaulted name or a constant (raw==raw is allowed: equivalent to defaulted==defaulted); the sibling storages authorise in the same methods the same number of times. " +
			"(attrs) the AttributesRecord passed to each of the three calls has User/Verb/Namespace/APIGroup/Resource/Subresource/Name/ResourceRequest equal to: get+tiers+<tierName parameter> for the conjunct; the request's verb on \"tier.\"+request resource with the request's name, resp. <tierName>+\".*\", for the two disjuncts.",
		NotDecided: "What the underlying authorizer answers; tiername: that Update authorises BOTH the stored object's and the updated object's tier (which object each call's tier is taken from is not tracked — only that the name is defaulted, that the guards are over defaulted names, and the per-method call counts agree across the four storages); the list path (util.EnsureTierSelector); races on data reachable through pointers (ctx, the authorizer, the request attributes object are only read here); the Path/APIVersion fields; that the error paths log; behaviour when GetAuthorizerAttributes fails.",
		Assumptions: []string{
			"go/types + go/ssa (x/tools v0.50.0) model of the current source, CGO_ENABLED=0 build",
			"Go memory model: `go` statement and WaitGroup Done->Wait are the only happens-before edges used",
			"k8s.io/apimachinery errors.New* / errors.New / fmt.Errorf return non-nil errors",
			"calls made after wg.Wait do not modify the decision variables except through the stores visible in the function (their addresses are only bound into the three goroutine closures)",
		},
		Run: runC34,
		Fixtures: []Fixture{
			{Name: "F3 re-introduced: goroutines 2 and 3 assign the shared outer err", File: c34File,
				Old:    "\t\tvar err error\n" + c34F3Head + c34F3Mid + "\t\tvar err error\n" + c34F3Tail,
				New:    c34F3Head + c34F3Mid + c34F3Tail,
				Expect: "C34.race/authorizer.AuthorizeTierOperation/goroutines"},
			{Name: "decisions read without waiting for the goroutines", File: c34File,
				Old: "\twg.Wait()\n", New: "", Expect: "C34.race/authorizer.AuthorizeTierOperation/join"},
			{Name: "wildcard goroutine signals Done before it has stored its decision", File: c34File,
				Old: "\t\tdefer wg.Done()\n\t\tname := tierName + \".*\"", New: "\t\twg.Done()\n\t\tname := tierName + \".*\"", Expect: "C34.race/authorizer.AuthorizeTierOperation/join"},
			{Name: "WaitGroup counts two of the three goroutines", File: c34File,
				Old: "wg.Add(3)", New: "wg.Add(2)", Expect: "C34.race/authorizer.AuthorizeTierOperation/waitgroup"},
			{Name: "tier GET no longer required (&& became ||)", File: c34File,
				Old: "decisionGetTier == k8sauth.DecisionAllow && (", New: "decisionGetTier == k8sauth.DecisionAllow || (", Expect: "C34.formula/table"},
			{Name: "NoOpinion on the policy check treated as allow", File: c34File,
				Old: "(decisionPolicy == k8sauth.DecisionAllow ||", New: "(decisionPolicy != k8sauth.DecisionDeny ||", Expect: "C34.formula/table"},
			{Name: "unconditional allow for the default tier", File: c34File,
				Old: "\t// Log the original authorizer attributes.\n", New: "\tif tierName == \"default\" {\n\t\treturn nil\n\t}\n", Expect: "C34.formula/allow-exits"},
			{Name: "tier GET checked on the policy name", File: c34File,
				Old: "\t\t\tName:            tierName,\n", New: "\t\t\tName:            policyName,\n", Expect: "C34.attrs/getTier/Name"},
			{Name: "tier access checked with the request verb instead of get", File: c34File,
				Old: "\t\t\tVerb:            \"get\",\n", New: "\t\t\tVerb:            attributes.GetVerb(),\n", Expect: "C34.attrs/getTier/Verb"},
			{Name: "wildcard built from the policy name", File: c34File,
				Old: "name := tierName + \".*\"", New: "name := policyName + \".*\"", Expect: "C34.attrs/wildcard/Name"},
			{Name: "policy check on the plain (not tier-scoped) resource", File: c34File,
				Old: "tierScopedResource := \"tier.\" + attributes.GetResource()", New: "tierScopedResource := attributes.GetResource()", Expect: "C34.attrs/policy/Resource"},
			{Name: "shared cancellable context: an Allow on the policy name aborts the sibling lookups", File: c34File,
				Old:    "\twg := sync.WaitGroup{}\n" + c34IndepMid + "\t\t\tlogrus.Errorf(\"Error authorizing tiered policy request: %v\", err)\n\t\t}\n",
				New:    "\tctx, cancel := context.WithCancel(ctx)\n\tdefer cancel()\n\twg := sync.WaitGroup{}\n" + c34IndepMid + "\t\t\tlogrus.Errorf(\"Error authorizing tiered policy request: %v\", err)\n\t\t}\n\t\tif decisionPolicy == k8sauth.DecisionAllow {\n\t\t\tcancel()\n\t\t}\n",
				Expect: "C34.indep/getTier"},
			{Name: "policy goroutine cancels the context it shares with the wildcard lookup when it is done", File: c34File,
				Old:    "\tgo func() {\n\t\tdefer wg.Done()\n\t\tpath := pathPrefix\n",
				New:    "\tctx, cancel := context.WithCancel(ctx)\n\tdefer cancel()\n\tgo func() {\n\t\tdefer wg.Done()\n\t\tdefer cancel()\n\t\tpath := pathPrefix\n",
				Expect: "C34.indep/wildcard"},
			{Name: "authorizer error turned into an allow decision", File: c34File,
				Old: "\t\t\tlogrus.Errorf(\"Error authorizing tier wildcard request: %v\", err)\n", New: "\t\t\tdecisionTierWildcard = k8sauth.DecisionAllow\n", Expect: "C34.source/wildcard"},
			{Name: "global policy Update: new tier no longer defaulted and only authorised when non-empty (clearing spec.tier moves the policy into tier default unchecked)", File: c34RegDir + "/globalpolicy/storage.go",
				Old:    "\t\tnewTier := names.TierOrDefault(newObj.(*calico.GlobalNetworkPolicy).Spec.Tier)\n\t\tif newTier != oldTier {\n",
				New:    "\t\tnewTier := newObj.(*calico.GlobalNetworkPolicy).Spec.Tier\n\t\tif newTier != \"\" && newTier != oldTier {\n",
				Expect: "C34.tiername/globalpolicy/REST.Update"},
			{Name: "network policy Delete authorises the raw (possibly empty) tier name instead of the defaulted one", File: c34RegDir + "/networkpolicy/storage.go",
				Old:    "\ttierName := names.TierOrDefault(obj.(*calico.NetworkPolicy).Spec.Tier)\n\terr = r.authorizer.AuthorizeTierOperation(ctx, name, tierName)\n\tif err != nil {\n\t\treturn nil, false, err\n",
				New:    "\ttierName := obj.(*calico.NetworkPolicy).Spec.Tier\n\terr = r.authorizer.AuthorizeTierOperation(ctx, name, tierName)\n\tif err != nil {\n\t\treturn nil, false, err\n",
				Expect: "C34.tiername/networkpolicy/REST.Delete"},
			{Name: "staged network policy Update skips the new-tier check when the old tier is the default one (policy can be moved out of default into any tier)", File: c34RegDir + "/stagednetworkpolicy/storage.go",
				Old:    "\t\tif newTier != oldTier {\n",
				New:    "\t\tif oldObj.(*calico.StagedNetworkPolicy).Spec.Tier != \"\" && newTier != oldTier {\n",
				Expect: "C34.tiername/stagednetworkpolicy/REST.Update"},
			{Name: "staged global policy Create is no longer tier-authorised", File: c34RegDir + "/stagedglobalnetworkpolicy/storage.go",
				Old:    "\terr := r.authorizer.AuthorizeTierOperation(ctx, policy.Name, tierName)\n\tif err != nil {\n\t\treturn nil, err\n\t}\n",
				New:    "\t_ = tierName\n",
				Expect: "C34.tiername/stagedglobalnetworkpolicy/REST.Create"},
		},
	})
}

// Text between the two goroutine-local `var err error` declarations that the F3
// fixture removes (the fixture mechanism replaces one contiguous region).
const (
	c34F3Head = "\t\tdecisionPolicy, _, err = a.Authorize(ctx, attrs)\n"
	c34F3Mid  = "\t\tif err != nil {\n\t\t\tlogrus.Errorf(\"Error authorizing tiered policy request: %v\", err)\n\t\t}\n\t}()\n\tgo func() {\n\t\tdefer wg.Done()\n\t\tname := tierName + \".*\"\n\t\tpath := pathPrefix + \"/\" + name\n\t\tattrs := k8sauth.AttributesRecord{\n\t\t\tUser:            attributes.GetUser(),\n\t\t\tVerb:            attributes.GetVerb(),\n\t\t\tNamespace:       attributes.GetNamespace(),\n\t\t\tAPIGroup:        attributes.GetAPIGroup(),\n\t\t\tAPIVersion:      attributes.GetAPIVersion(),\n\t\t\tResource:        tierScopedResource,\n\t\t\tSubresource:     attributes.GetSubresource(),\n\t\t\tName:            name,\n\t\t\tResourceRequest: true,\n\t\t\tPath:            path,\n\t\t}\n\n\t\tlogrus.Trace(\"Checking authorization using tier scoped resource type (tier name match)\")\n\t\tlogAuthorizerAttributes(attrs)\n"
	c34F3Tail = "\t\tdecisionTierWildcard, _, err = a.Authorize(ctx, attrs)"
)

// Text between the WaitGroup declaration and the end of the policy goroutine's
// error branch (the shared-context fixture replaces one contiguous region).
const c34IndepMid = "\twg.Add(3)\n\n\t// Query GET access for the tier.\n\tvar decisionGetTier k8sauth.Decision\n\tgo func() {\n\t\tdefer wg.Done()\n\t\tattrs := k8sauth.AttributesRecord{\n\t\t\tUser:            attributes.GetUser(),\n\t\t\tVerb:            \"get\",\n\t\t\tNamespace:       \"\",\n\t\t\tAPIGroup:        attributes.GetAPIGroup(),\n\t\t\tAPIVersion:      attributes.GetAPIVersion(),\n\t\t\tResource:        \"tiers\",\n\t\t\tSubresource:     \"\",\n\t\t\tName:            tierName,\n\t\t\tResourceRequest: true,\n\t\t\tPath:            \"/apis/projectcalico.org/v3/tiers/\" + tierName,\n\t\t}\n\n\t\tlogrus.Trace(\"Checking authorization using tier resource type (user can get tier)\")\n\t\tlogAuthorizerAttributes(attrs)\n\t\tvar reason string\n\t\tvar err error\n\t\tdecisionGetTier, reason, err = a.Authorize(ctx, attrs)\n\t\tif err != nil {\n\t\t\tlogrus.WithField(\"reason\", reason).Errorf(\"Error authorizing tier GET request: %v\", err)\n\t\t}\n\t}()\n\n\t// Query required access to the tiered policy resource or tier wildcard resource.\n\tvar decisionPolicy, decisionTierWildcard k8sauth.Decision\n\tvar pathPrefix string\n\ttierScopedResource := \"tier.\" + attributes.GetResource()\n\tif attributes.GetNamespace() == \"\" {\n\t\tpathPrefix = \"/apis/projectcalico.org/v3/\" + tierScopedResource\n\t} else {\n\t\tpathPrefix = \"/apis/projectcalico.org/v3/namespaces/\" + attributes.GetNamespace() + \"/\" + tierScopedResource\n\t}\n\tgo func() {\n\t\tdefer wg.Done()\n\t\tpath := pathPrefix\n\t\tif attributes.GetName() != \"\" {\n\t\t\tpath = pathPrefix + \"/\" + attributes.GetName()\n\t\t}\n\t\tattrs := k8sauth.AttributesRecord{\n\t\t\tUser:            attributes.GetUser(),\n\t\t\tVerb:            attributes.GetVerb(),\n\t\t\tNamespace:       attributes.GetNamespace(),\n\t\t\tAPIGroup:        attributes.GetAPIGroup(),\n\t\t\tAPIVersion:      attributes.GetAPIVersion(),\n\t\t\tResource:        tierScopedResource,\n\t\t\tSubresource:     attributes.GetSubresource(),\n\t\t\tName:            attributes.GetName(),\n\t\t\tResourceRequest: true,\n\t\t\tPath:            path,\n\t\t}\n\n\t\tlogrus.Trace(\"Checking authorization using tier scoped resource type (policy name match)\")\n\t\tlogAuthorizerAttributes(attrs)\n\t\tvar err error\n\t\tdecisionPolicy, _, err = a.Authorize(ctx, attrs)\n\t\tif err != nil {\n"

var c34Fields = []string{"User", "Verb", "Namespace", "APIGroup", "Resource", "Subresource", "Name", "ResourceRequest"}
var c34Roles = []string{"getTier", "policy", "wildcard"}

func c34Expected(role string) map[string]string {
	m := map[string]string{
		"User": "GetUser(req)", "Verb": "GetVerb(req)", "Namespace": "GetNamespace(req)", "APIGroup": "GetAPIGroup(req)",
		"Resource": `"tier."+GetResource(req)`, "Subresource": "GetSubresource(req)", "Name": "GetName(req)", "ResourceRequest": "true",
	}
	switch role {
	case "getTier":
		m["Verb"], m["Namespace"], m["Resource"], m["Subresource"], m["Name"] = `"get"`, `""`, `"tiers"`, `""`, "param:tierName"
	case "wildcard":
		m["Name"] = `param:tierName+".*"`
	}
	return m
}

// c34Site is one Authorizer.Authorize call inside a goroutine of the function.
type c34Site struct {
	call   *ssa.Call
	ctx    []*ssa.Call // calling context (family call sites, outermost first) when the call sits in a shared helper
	fn     *ssa.Function
	attrs  map[string]string // field -> symbolic value ("" if not decidable)
	why    map[string]string
	decVar ssa.Value // root (in the top function) the decision result is stored into
}

func runC34(c *Ctx) {
	p := c.Load(c34Pkg)
	c.Rule("C34.race", "E-RACE", "AuthorizeTierOperation: no captured variable written by a goroutine is accessed by another goroutine or by the spawning function before the wg.Wait that joins the writer; Add/Done/Wait are balanced", 3)
	c.Rule("C34.formula", "E-TABLE", "symbolic execution after wg.Wait over all decision values: nil is returned iff getTier==Allow && (policy==Allow || wildcard==Allow); no other unguarded `return nil`", 2)
	c.Rule("C34.source", "E-FLOW", "each decision variable has exactly one store, unconditional, of result #0 of Authorizer.Authorize", 3)
	c.Rule("C34.indep", "E-EFFECT/E-TABLE", "the three lookups are independent: the ctx given to each Authorize call derives from the ctx parameter, and a cancel function of a context it derives from is never invoked by another goroutine (or by the spawning function before the join) in a situation where the decision table still depends on that lookup", 3)
	c.Rule("C34.attrs", "E-FLOW", "fields of the AttributesRecord literal of each Authorize call equal the expected symbolic value for its role", 24)

	fn := p.Func(c34Pkg, "authorizer.AuthorizeTierOperation")
	if fn == nil {
		c.Lost("authorizer.AuthorizeTierOperation")
	}
	name := fnName(fn)
	site := p.Pos(fn.Pos())
	fam := newC34Fam(p, fn)

	// Each family resolves what it needs under its own guard: a lost anchor (exit 2) of one
	// family never silences the verdicts of the others; the combined loss is raised at the end.
	var lost []string

	// ------------------------------------------------------------- race --
	var res *raceResult
	c23Guarded(&lost, func() {
		res = raceAnalyze(fn)
		if len(res.Threads) == 0 {
			res = nil
			c.Lost("%s spawns no goroutine (the property is about its concurrent checks)", name)
		}
		c34ReportRace(c, p, "C34.race/"+name, site, res)
		for _, cf := range fam.list {
			if cf == fn {
				continue
			}
			if r2 := raceAnalyze(cf); len(r2.Threads) > 0 {
				c34ReportRace(c, p, "C34.race/"+fnName(cf), p.Pos(cf.Pos()), r2)
			}
		}
	})
	if res == nil {
		c.Lost("%s", strings.Join(lost, " | "))
	}
	c23Guarded(&lost, func() { c34AllowExits(c, p, fn, res) })

	// ---------------------------------------------------- Authorize sites --
	// The three checks are found wherever they run on behalf of the function: in its goroutine
	// closures and in the in-package functions/methods those call (directly or transitively).
	var sym *c34SymT
	var sites []*c34Site
	var decVars []ssa.Value
	c23Guarded(&lost, func() {
		authz, _ := p.LookupExt(c34AuthPkg, "Authorizer.Authorize").(*types.Func)
		if authz == nil {
			c.Lost("%s.Authorizer.Authorize", c34AuthPkg)
		}
		sym = newC34Sym(c, p, fn, fam)
		var found []*c34Site
		for _, g := range fam.list {
			for _, cs := range callsIn(g, false, func(f *types.Func) bool { return f == authz }) {
				call, ok := cs.Instr.(*ssa.Call)
				if !ok {
					c.Undecided("C34.source/"+name, p.Pos(cs.Instr.Pos()), "Authorize is invoked by go/defer: its result is lost")
					continue
				}
				// one site per calling context of the function containing the call
				for _, ctx := range fam.contexts(g, res) {
					found = append(found, c34NewSite(sym, call, cs.Fn, ctx))
				}
			}
		}
		if len(found) != 3 {
			c.Lost("expected 3 Authorizer.Authorize calls in %s, its goroutines and the package functions they call, found %d", name, len(found))
		}
		// decision variables = roots receiving result #0
		for _, s := range found {
			if s.decVar == nil {
				c.Lost("result #0 of the Authorize call at %s is not stored into a variable of %s", p.Pos(s.call.Pos()), name)
			}
			decVars = append(decVars, s.decVar)
		}
		sites = found
	})
	if sites == nil {
		c.Lost("%s", strings.Join(lost, " | "))
	}

	// -------------------------------------------------------------- table --
	var table *c34TableT
	tableErr := "the decision table could not be built"
	c23Guarded(&lost, func() { table, tableErr = c34Table(c, p, fn, res, decVars) })

	// choose the role assignment with the fewest mismatches
	perms := [][3]int{{0, 1, 2}, {0, 2, 1}, {1, 0, 2}, {1, 2, 0}, {2, 0, 1}, {2, 1, 0}}
	best, bestBad := perms[0], 1<<30
	for _, pm := range perms { // pm[role] = site index
		bad := 0
		for ri, role := range c34Roles {
			exp := c34Expected(role)
			for _, f := range c34Fields {
				if sites[pm[ri]].attrs[f] != exp[f] {
					bad++
				}
			}
		}
		if tableErr == "" && !c34TableMatches(table, pm[0], pm[1], pm[2]) {
			bad += 4
		}
		if bad < bestBad {
			best, bestBad = pm, bad
		}
	}
	if tableErr != "" {
		c.Undecided("C34.formula/table/"+name, site, "%s", tableErr)
	} else {
		okT := c34TableMatches(table, best[0], best[1], best[2])
		c.Check(okT, "C34.formula/table/"+name, site,
			fmt.Sprintf("%d combinations of decision values executed from wg.Wait to a return: nil returned iff getTier==Allow && (policy==Allow || wildcard==Allow)", len(table.rows)),
			"the code after wg.Wait does not compute getTier==Allow && (policy==Allow || wildcard==Allow): "+c34TableDiff(table, best[0], best[1], best[2]))
	}

	for ri, role := range c34Roles {
		s := sites[best[ri]]
		exp := c34Expected(role)
		for _, f := range c34Fields {
			key := "C34.attrs/" + role + "/" + f
			at := p.Pos(s.call.Pos())
			got := s.attrs[f]
			switch {
			case got == "" || strings.Contains(got, "?"):
				c.Undecided(key, at, "value of AttributesRecord.%s for the %s check is not in the decidable fragment: %s %s", f, role, got, s.why[f])
			case got == exp[f]:
				c.Ok(key, at, "%s = %s", f, got)
			default:
				c.Violate(key, at, "Authorize call for the %s check passes %s = %s, expected %s", role, f, got, exp[f])
			}
		}
		c23Guarded(&lost, func() { c34Source(c, p, fn, res, "C34.source/"+role, s, fam) })
	}
	c23Guarded(&lost, func() { c34Indep(c, p, fn, res, sym, sites, best, table, tableErr, fam) })
	c23Guarded(&lost, func() { c34TierName(c) })
	if len(lost) > 0 {
		c.Lost("%s", strings.Join(lost, " | "))
	}
}

// ------------------------------------------------------------ independence --

func c34IsCtx(t types.Type) bool { return qualTypeName(t) == "context.Context" }

func c34IsCancelFunc(t types.Type) bool {
	switch qualTypeName(t) {
	case "context.CancelFunc", "context.CancelCauseFunc":
		return true
	}
	return false
}

// c34CtxOrigins resolves a context value to the parameters it derives from and
// the derivation calls that return a cancel function next to the context
// (context.WithCancel/WithTimeout/WithDeadline/WithCancelCause or a wrapper with
// the same result shape), transitively through parent contexts.
func c34CtxOrigins(sym *c34SymT, v ssa.Value) (params []*ssa.Parameter, derivs []*ssa.Call, unknown []string) {
	seen := map[ssa.Value]bool{}
	var walk func(v ssa.Value)
	parents := func(call *ssa.Call) {
		for _, a := range call.Call.Args {
			if c34IsCtx(a.Type()) {
				walk(a)
			}
		}
	}
	walk = func(v ssa.Value) {
		if v == nil || seen[v] {
			return
		}
		seen[v] = true
		switch x := v.(type) {
		case *ssa.Parameter:
			if x.Parent() != sym.top {
				// parameter of a helper running on behalf of the function: the arguments it is called with
				if a, _, ok := c34CtxArg(sym.ctx, x); ok {
					walk(a)
					return
				}
				if as, ok := sym.fam.args(x); ok {
					for _, a := range as {
						walk(a)
					}
					return
				}
			}
			params = append(params, x)
		case *ssa.MakeInterface:
			walk(x.X)
		case *ssa.ChangeInterface:
			walk(x.X)
		case *ssa.ChangeType:
			walk(x.X)
		case *ssa.Phi:
			for _, e := range x.Edges {
				walk(e)
			}
		case *ssa.UnOp:
			if x.Op != token.MUL {
				unknown = append(unknown, path(v))
				return
			}
			r := sym.root(x.X)
			if r == nil {
				unknown = append(unknown, path(v))
				return
			}
			if seen[r] {
				return
			}
			seen[r] = true
			if len(sym.stores[r]) == 0 {
				unknown = append(unknown, path(v)+" (never assigned)")
			}
			for _, st := range sym.stores[r] {
				walk(st.Val)
			}
		case *ssa.Extract:
			call, ok := x.Tuple.(*ssa.Call)
			if !ok {
				unknown = append(unknown, path(v))
				return
			}
			hasCancel := false
			if tup, ok := call.Type().(*types.Tuple); ok {
				for i := 0; i < tup.Len(); i++ {
					if c34IsCancelFunc(tup.At(i).Type()) {
						hasCancel = true
					}
				}
			}
			if !hasCancel || calleeOf(call.Common()) == nil {
				unknown = append(unknown, path(v))
				return
			}
			derivs = append(derivs, call)
			parents(call)
		case *ssa.Call:
			// a derivation without a cancel function (WithValue, WithoutCancel, Background...)
			if calleeOf(x.Common()) == nil || !c34IsCtx(x.Type()) {
				unknown = append(unknown, path(v))
				return
			}
			parents(x)
		default:
			unknown = append(unknown, path(v))
		}
	}
	walk(v)
	return
}

// c34CancelUse is one use of the cancel function of a derivation call.
type c34CancelUse struct {
	in      ssa.Instruction // the invoking instruction (Call/Defer/Go); nil = escapes
	escapes string
}

// c34CancelUses lists every invocation of the cancel function returned by deriv
// (directly or through the variable it is stored into, in the function and all
// its closures); any other use of the function value is reported as an escape.
func c34CancelUses(sym *c34SymT, deriv *ssa.Call) []c34CancelUse {
	var out []c34CancelUse
	var vals []ssa.Value // values that are the cancel function
	roots := map[ssa.Value]bool{}
	if deriv.Referrers() == nil {
		return nil
	}
	for _, r := range *deriv.Referrers() {
		ex, ok := r.(*ssa.Extract)
		if !ok || !c34IsCancelFunc(ex.Type()) {
			continue
		}
		vals = append(vals, ex)
	}
	useOf := func(v ssa.Value) {
		refs := v.Referrers()
		if refs == nil {
			return
		}
		for _, r := range *refs {
			switch x := r.(type) {
			case *ssa.DebugRef:
			case *ssa.Store:
				if x.Val == v {
					if root := sym.root(x.Addr); root != nil {
						roots[root] = true
					} else {
						out = append(out, c34CancelUse{escapes: "stored to " + path(x.Addr)})
					}
				}
			case ssa.CallInstruction:
				if x.Common().Value == v && !x.Common().IsInvoke() {
					out = append(out, c34CancelUse{in: x})
				} else {
					out = append(out, c34CancelUse{escapes: "passed to " + path(x.Common().Value)})
				}
			default:
				out = append(out, c34CancelUse{escapes: fmt.Sprintf("used by %T", r)})
			}
		}
	}
	for _, v := range vals {
		useOf(v)
	}
	// loads of the variables holding the function, anywhere in the family
	for _, f := range sym.fam.list {
		allInstrs(f, false, func(_ *ssa.Function, in ssa.Instruction) {
			ld, ok := in.(*ssa.UnOp)
			if !ok || ld.Op != token.MUL {
				return
			}
			if r := sym.root(ld.X); r != nil && roots[r] {
				useOf(ld)
			}
		})
	}
	// a variable holding the cancel function that is also assigned something else is fine (over-approximation)
	return out
}

func c34DecisionName(p *Prog, cv constant.Value) string {
	o := p.LookupExt(c34AuthPkg, "DecisionAllow")
	decT := p.LookupExt(c34AuthPkg, "Decision")
	if o == nil || decT == nil {
		return ""
	}
	sc := o.Pkg().Scope()
	for _, n := range sc.Names() {
		if k, ok := sc.Lookup(n).(*types.Const); ok && types.Identical(k.Type(), decT.Type()) && constant.Compare(k.Val(), token.EQL, cv) {
			return n
		}
	}
	return ""
}

// c34Indep: see the rule text.  sites[best[ri]] is the site of role c34Roles[ri].
func c34Indep(c *Ctx, p *Prog, fn *ssa.Function, res *raceResult, sym *c34SymT, sites []*c34Site, best [3]int, table *c34TableT, tableErr string, fam *c34FamT) {
	// a function called from a goroutine closure (or run by the go statement itself) runs in that goroutine
	threadOf := func(in ssa.Instruction) int { return fam.threadOf(in.Parent(), res) }
	siteThread := func(s *c34Site) int {
		if len(s.ctx) > 0 {
			return threadOf(s.ctx[0])
		}
		return threadOf(s.call)
	}
	roleOfSite := map[int]string{}
	for ri, role := range c34Roles {
		roleOfSite[best[ri]] = role
	}
	siteOfThread := map[int]int{}
	for i, s := range sites {
		siteOfThread[siteThread(s)] = i
	}
	var waits []ssa.Instruction
	for _, ws := range res.Waits {
		waits = append(waits, ws...)
	}
	afterJoin := func(in ssa.Instruction) bool {
		for _, w := range waits {
			if instrDominates(w, in) {
				return true
			}
		}
		return false
	}
	// decision-table query: can aborting lookup x (its Allow becomes something else)
	// turn an allowed request into a refused one, in a row satisfying cons?
	type cons struct {
		site int
		name string
		eq   bool
	}
	rowKey := func(vals []string) string { return strings.Join(vals, ",") }
	harmful := func(x int, cs []cons) string {
		if table == nil {
			return ""
		}
		byKey := map[string]c34Row{}
		names := map[string]bool{}
		for _, r := range table.rows {
			byKey[rowKey(r.vals)] = r
			names[r.vals[x]] = true
		}
	rows:
		for _, r := range table.rows {
			if !r.allow || r.vals[x] != table.allowName {
				continue
			}
			for _, k := range cs {
				if (r.vals[k.site] == k.name) != k.eq {
					continue rows
				}
			}
			for alt := range names {
				if alt == table.allowName {
					continue
				}
				v2 := append([]string{}, r.vals...)
				v2[x] = alt
				if r2, ok := byKey[rowKey(v2)]; ok && !r2.allow {
					var parts []string
					for i, v := range r.vals {
						parts = append(parts, roleOfSite[i]+"="+v)
					}
					sort.Strings(parts)
					return strings.Join(parts, " ")
				}
			}
		}
		return ""
	}
	// constraints on the decision values known where `in` executes
	consAt := func(in ssa.Instruction) []cons {
		var out []cons
		for _, g := range guardsOf(in) {
			bo, ok := g.Cond.(*ssa.BinOp)
			if !ok || (bo.Op != token.EQL && bo.Op != token.NEQ) {
				continue
			}
			for _, pr := range [][2]ssa.Value{{bo.X, bo.Y}, {bo.Y, bo.X}} {
				ld, ok := pr[0].(*ssa.UnOp)
				cv, isC := constOf(pr[1])
				if !ok || ld.Op != token.MUL || !isC {
					continue
				}
				root := sym.root(ld.X)
				for i, s := range sites {
					if root == nil || s.decVar != root {
						continue
					}
					// the value read is the lookup's answer only after its (single) store in this thread
					stored := false
					for _, st := range sym.stores[root] {
						if st.Parent() == ld.Parent() && instrDominates(st, ld) {
							stored = true
						}
					}
					if n := c34DecisionName(p, cv); stored && n != "" && threadOf(ld) == threadOf(s.call) {
						out = append(out, cons{i, n, (bo.Op == token.EQL) == g.True})
					}
				}
			}
		}
		return out
	}

	for i, s := range sites {
		role := roleOfSite[i]
		key := "C34.indep/" + role
		at := p.Pos(s.call.Pos())
		args := s.call.Call.Args
		if len(args) != 2 || !c34IsCtx(args[0].Type()) {
			c.Lost("Authorize call at %s does not take (ctx, attributes)", at)
		}
		sym.ctx = s.ctx
		params, derivs, unknown := c34CtxOrigins(sym, args[0])
		sym.ctx = nil
		if len(unknown) > 0 {
			c.Undecided(key, at, "the context passed to the %s lookup derives from %v: cannot decide who may cancel it", role, unknown)
			continue
		}
		bad, und := "", ""
		for _, pr := range params {
			if pr.Parent() != fn || sym.params[pr] == "" || !c34IsCtx(pr.Type()) {
				und = "context derives from " + path(pr) + ", which is not the request context parameter"
			}
		}
		if len(params) == 0 {
			bad = fmt.Sprintf("the context passed to the %s lookup does not derive from the function's ctx parameter (request deadline and values are lost)", role)
		}
		me := siteThread(s)
		for _, d := range derivs {
			for _, u := range c34CancelUses(sym, d) {
				if u.in == nil {
					und = fmt.Sprintf("the cancel function of %s (%s) %s: cannot decide when it is invoked", calleeOf(d.Common()).Name(), p.Pos(d.Pos()), u.escapes)
					continue
				}
				th := threadOf(u.in)
				_, deferred := u.in.(*ssa.Defer)
				var cs []cons
				who := ""
				switch {
				case th == me:
					continue // a lookup may give up its own context (siblings sharing it are checked at their own site)
				case th == -1 && deferred && u.in.Parent() == fn:
					// runs when the spawning function returns: after the join iff every return reachable from the spawn is
					ok := true
					for _, r := range c34Returns(fn) {
						if instrReaches(s.goInstr(res, fam), r.Return) && !afterJoin(r.Return) {
							ok = false
						}
					}
					if ok {
						continue
					}
					who = "the spawning function's deferred call (a return before the join)"
				case th == -1:
					if afterJoin(u.in) {
						continue
					}
					who = "the spawning function, before the join,"
				case th >= 0:
					cs = consAt(u.in)
					who = "the goroutine of the " + roleOfSite[siteOfThread[th]] + " lookup"
				default:
					und = "cancel function invoked at " + p.Pos(u.in.Pos()) + " in a function the engine cannot place"
					continue
				}
				if tableErr != "" {
					und = "the decision table is undecided, so the effect of the cancellation at " + p.Pos(u.in.Pos()) + " cannot be evaluated"
					continue
				}
				if row := harmful(i, cs); row != "" {
					var ctext []string
					for _, k := range cs {
						op := "=="
						if !k.eq {
							op = "!="
						}
						ctext = append(ctext, roleOfSite[k.site]+op+k.name)
					}
					when := "unconditionally"
					if len(ctext) > 0 {
						when = "when " + strings.Join(ctext, " && ")
					}
					bad = fmt.Sprintf("the %s lookup runs under a context from %s (%s) whose cancel function is invoked by %s at %s %s, while the lookup may still be in flight; a context-honouring authorizer then aborts it, and for %s (allowed) the request is refused: the outcome depends on which lookup answers first",
						role, calleeOf(d.Common()).Name(), p.Pos(d.Pos()), who, p.Pos(u.in.Pos()), when, row)
				}
			}
		}
		switch {
		case bad != "":
			c.Violate(key, at, "%s", bad)
		case und != "":
			c.Undecided(key, at, "%s", und)
		default:
			c.Ok(key, at, "ctx derives from the ctx parameter (%d cancellable derivation(s)); no concurrent thread cancels it while the decision table depends on this lookup", len(derivs))
		}
	}
}

// goInstr: the go statement (or group.Go call) of the thread the site's call runs in.
func (s *c34Site) goInstr(res *raceResult, fam *c34FamT) ssa.Instruction {
	at := ssa.Instruction(s.call)
	if len(s.ctx) > 0 {
		at = s.ctx[0]
	}
	if t := fam.threadOf(at.Parent(), res); t >= 0 {
		return res.Threads[t].Spawn
	}
	return at
}

func c34ReportRace(c *Ctx, p *Prog, key, site string, res *raceResult) {
	dec, und := res.describeConflicts(p, res.Conflicts)
	switch {
	case len(dec) > 0:
		c.Violate(key+"/goroutines", site, "data race between goroutines: %s", strings.Join(dec, "; "))
	case len(und) > 0:
		c.Undecided(key+"/goroutines", site, "possible race between goroutines through an access the engine cannot classify: %s", strings.Join(und, "; "))
	default:
		c.Ok(key+"/goroutines", site, "%s; no variable written by a goroutine is accessed by another concurrent goroutine", res.summary())
	}
	dec, und = res.describeConflicts(p, res.ParentC)
	switch {
	case len(dec) > 0:
		c.Violate(key+"/join", site, "spawning function races with a goroutine (access not ordered after a Wait that the goroutine's Done precedes): %s", strings.Join(dec, "; "))
	case len(und) > 0:
		c.Undecided(key+"/join", site, "possible race with the spawning function: %s", strings.Join(und, "; "))
	default:
		c.Ok(key+"/join", site, "every access of the spawning function to a goroutine-written variable is cut off from the go statement by a Wait the goroutine's Done precedes")
	}
	c.Check(len(res.JoinBad) == 0, key+"/waitgroup", site, strings.Join(res.JoinInfo, "; "), strings.Join(res.JoinBad, "; "))
}

// --------------------------------------------------------------- symbolic --

type c34SymT struct {
	c      *Ctx
	p      *Prog
	fam    *c34FamT
	ctx    []*ssa.Call // calling context of the site being evaluated (nil: context-insensitive)
	top    *ssa.Function
	bind   map[*ssa.FreeVar]ssa.Value
	stores map[ssa.Value][]*ssa.Store // root alloc -> stores (anywhere in top and its closures)
	params map[*ssa.Parameter]string
}

func newC34Sym(c *Ctx, p *Prog, top *ssa.Function, fam *c34FamT) *c34SymT {
	s := &c34SymT{c: c, p: p, fam: fam, top: top, bind: map[*ssa.FreeVar]ssa.Value{}, stores: map[ssa.Value][]*ssa.Store{}, params: map[*ssa.Parameter]string{}}
	e := &raceEng{fn: top, bind: s.bind}
	for _, f := range fam.list {
		if f.Parent() == nil {
			e.indexBindings(f)
		}
	}
	for _, f := range fam.list {
		allInstrs(f, false, func(_ *ssa.Function, in ssa.Instruction) {
			if st, ok := in.(*ssa.Store); ok {
				if r := s.root(st.Addr); r != nil {
					s.stores[r] = append(s.stores[r], st)
				}
			}
		})
	}
	// parameter roles from the exported interface TierAuthorizer (names there are API documentation)
	iface, _ := p.LookupObj(c34Pkg, "TierAuthorizer.AuthorizeTierOperation").(*types.Func)
	if iface == nil {
		c.Lost("TierAuthorizer.AuthorizeTierOperation")
	}
	isig := iface.Type().(*types.Signature)
	off := len(top.Params) - isig.Params().Len() // receiver
	if off < 0 {
		c.Lost("parameter count of %s", fnName(top))
	}
	for i := 0; i < isig.Params().Len(); i++ {
		n := isig.Params().At(i).Name()
		if n == "" || n == "_" {
			c.Lost("TierAuthorizer.AuthorizeTierOperation parameter %d is unnamed", i)
		}
		s.params[top.Params[off+i]] = n
	}
	return s
}

// root: the Alloc (in any function of the family) an address value denotes, if it
// is exactly a variable (no field/index).
func (s *c34SymT) root(addr ssa.Value) ssa.Value {
	for i := 0; ; i++ {
		switch x := addr.(type) {
		case *ssa.Alloc:
			return x
		case *ssa.FreeVar:
			b, ok := s.bind[x]
			if !ok {
				return nil
			}
			addr = b
			continue
		case *ssa.Parameter:
			// pointer parameter of a helper: the variable whose address every call site passes
			if x.Parent() == s.top || i > 6 {
				return nil
			}
			if a, _, ok := c34CtxArg(s.ctx, x); ok {
				addr = a
				continue
			}
			as, ok := s.fam.args(x)
			if !ok || len(as) == 0 {
				return nil
			}
			for _, a := range as[1:] {
				if a != as[0] {
					return nil
				}
			}
			addr = as[0]
			continue
		}
		return nil
	}
}

func (s *c34SymT) sym(v ssa.Value, depth int) string {
	if depth > 12 {
		return "?deep"
	}
	switch x := v.(type) {
	case *ssa.Const:
		if x.Value == nil {
			return "nil"
		}
		if x.Value.Kind() == constant.String {
			return strconv.Quote(constant.StringVal(x.Value))
		}
		return x.Value.ExactString()
	case *ssa.Parameter:
		if n, ok := s.params[x]; ok {
			return "param:" + n
		}
		// parameter of a helper: what the call site of the current calling context passes,
		// else what all call sites pass (they must agree)
		if x.Parent() != s.top {
			if a, outer, ok := c34CtxArg(s.ctx, x); ok {
				saved := s.ctx
				s.ctx = outer
				r := s.sym(a, depth+1)
				s.ctx = saved
				return r
			}
			if as, ok := s.fam.args(x); ok && len(as) > 0 {
				return s.alt(as, depth)
			}
		}
		return "?param"
	case *ssa.MakeInterface:
		return s.sym(x.X, depth+1)
	case *ssa.ChangeType:
		return s.sym(x.X, depth+1)
	case *ssa.ChangeInterface:
		return s.sym(x.X, depth+1)
	case *ssa.Phi:
		return s.alt(x.Edges, depth)
	case *ssa.UnOp:
		if x.Op != token.MUL {
			return "?unop"
		}
		r := s.root(x.X)
		if r == nil {
			return "?load"
		}
		sts := s.stores[r]
		if len(sts) == 0 {
			return "zero"
		}
		var vals []ssa.Value
		for _, st := range sts {
			vals = append(vals, st.Val)
		}
		return s.alt(vals, depth)
	case *ssa.BinOp:
		if x.Op == token.ADD {
			if b, ok := x.Type().Underlying().(*types.Basic); ok && b.Info()&types.IsString != 0 {
				return s.concat(append(s.flat(x.X, depth), s.flat(x.Y, depth)...))
			}
		}
		return "?binop"
	case *ssa.Extract:
		if call, ok := x.Tuple.(*ssa.Call); ok {
			if f := calleeOf(call.Common()); f != nil && f.Pkg() != nil && f.Pkg().Path() == "k8s.io/apiserver/pkg/endpoints/filters" && f.Name() == "GetAuthorizerAttributes" && x.Index == 0 {
				return "req"
			}
		}
		return "?extract"
	case *ssa.Call:
		cc := x.Common()
		f := calleeOf(cc)
		if f == nil {
			return "?dyncall"
		}
		var as []string
		if cc.IsInvoke() {
			as = append(as, s.sym(cc.Value, depth+1))
		}
		for _, a := range cc.Args {
			as = append(as, s.sym(a, depth+1))
		}
		n := f.Name()
		if !cc.IsInvoke() && f.Pkg() != nil {
			n = f.Pkg().Name() + "." + n
		}
		return n + "(" + strings.Join(as, ",") + ")"
	}
	return "?" + fmt.Sprintf("%T", v)
}

func (s *c34SymT) alt(vs []ssa.Value, depth int) string {
	set := map[string]bool{}
	for _, v := range vs {
		set[s.sym(v, depth+1)] = true
	}
	keys := sortedKeys(set)
	if len(keys) == 1 {
		return keys[0]
	}
	return "alt(" + strings.Join(keys, "|") + ")"
}

func (s *c34SymT) flat(v ssa.Value, depth int) []string {
	if b, ok := v.(*ssa.BinOp); ok && b.Op == token.ADD {
		return append(s.flat(b.X, depth+1), s.flat(b.Y, depth+1)...)
	}
	return []string{s.sym(v, depth+1)}
}

func (s *c34SymT) concat(parts []string) string {
	var out []string
	for _, pt := range parts {
		if n := len(out); n > 0 && strings.HasPrefix(pt, `"`) && strings.HasPrefix(out[n-1], `"`) {
			a, e1 := strconv.Unquote(out[n-1])
			b, e2 := strconv.Unquote(pt)
			if e1 == nil && e2 == nil {
				out[n-1] = strconv.Quote(a + b)
				continue
			}
		}
		out = append(out, pt)
	}
	return strings.Join(out, "+")
}

func c34NewSite(sym *c34SymT, call *ssa.Call, fn *ssa.Function, ctx []*ssa.Call) *c34Site {
	s := &c34Site{call: call, ctx: ctx, fn: fn, attrs: map[string]string{}, why: map[string]string{}}
	sym.ctx = ctx
	defer func() { sym.ctx = nil }()
	// decision variable: result #0 stored into a root of the top function — directly, through a
	// pointer parameter, or after the helper containing the call has returned it
	for _, st := range sym.fam.storesOfResultCtx(call, ctx) {
		if root := sym.root(st.Addr); root != nil && root.Parent() == sym.top {
			s.decVar = root
		}
	}
	// attributes literal: the interface argument is a load of a local struct variable
	args := call.Call.Args
	if len(args) != 2 {
		return s
	}
	v := args[1]
	if mi, ok := v.(*ssa.MakeInterface); ok {
		v = mi.X
	}
	var lit *ssa.Alloc
	for i := 0; i < 6 && lit == nil; i++ {
		// handed to the helper containing the call as a parameter: continue at the call site
		if pa, ok := v.(*ssa.Parameter); ok {
			a, outer, ok := c34CtxArg(sym.ctx, pa)
			if !ok {
				as, ok2 := sym.fam.args(pa)
				if !ok2 || len(as) != 1 {
					break
				}
				a, outer = as[0], nil
			}
			v, sym.ctx = a, outer
			if mi, ok := v.(*ssa.MakeInterface); ok {
				v = mi.X
			}
			continue
		}
		// built and returned by a package function: continue with what that function returns
		if cl, ok := v.(*ssa.Call); ok {
			h := calleeFn(cl.Common())
			if h == nil || !sym.fam.in[h] {
				break
			}
			rets := c34Returns(h)
			if len(rets) != 1 || len(rets[0].Vals) != 1 {
				break
			}
			v = rets[0].Vals[0]
			continue
		}
		ld, ok := v.(*ssa.UnOp)
		if !ok || ld.Op != token.MUL {
			break
		}
		al, ok := ld.X.(*ssa.Alloc)
		if !ok {
			break
		}
		fs := literalFieldStores(al)
		if len(fs) > 0 {
			lit = al
			break
		}
		// variable initialised from another literal: follow its single whole-value store
		var whole []*ssa.Store
		for _, r := range *al.Referrers() {
			if st, ok := r.(*ssa.Store); ok && st.Addr == al {
				whole = append(whole, st)
			}
		}
		if len(whole) != 1 {
			break
		}
		v = whole[0].Val
	}
	if lit == nil || namedTypeName(lit.Type()) != "AttributesRecord" {
		for _, f := range c34Fields {
			s.why[f] = "(the attributes argument is not a local AttributesRecord literal)"
		}
		return s
	}
	fs := literalFieldStores(lit)
	// whole-value stores into the literal would invalidate the field view
	for _, r := range *lit.Referrers() {
		if st, ok := r.(*ssa.Store); ok && st.Addr == lit {
			for _, f := range c34Fields {
				s.why[f] = "(the literal variable is overwritten as a whole)"
			}
			return s
		}
	}
	for _, f := range c34Fields {
		switch vals := fs[f]; len(vals) {
		case 0:
			// field not mentioned: zero value
			s.attrs[f] = c34Zero(lit, f)
		case 1:
			s.attrs[f] = sym.sym(vals[0], 0)
		default:
			s.why[f] = fmt.Sprintf("(%d stores into the field)", len(vals))
		}
	}
	return s
}

func c34Zero(lit *ssa.Alloc, field string) string {
	st, _ := derefType(lit.Type()).Underlying().(*types.Struct)
	if st == nil {
		return ""
	}
	for i := 0; i < st.NumFields(); i++ {
		if st.Field(i).Name() == field {
			if b, ok := st.Field(i).Type().Underlying().(*types.Basic); ok {
				switch {
				case b.Info()&types.IsString != 0:
					return `""`
				case b.Info()&types.IsBoolean != 0:
					return "false"
				}
			}
			return "nil"
		}
	}
	return ""
}

// c34Source: the decision variable fed by site s has exactly one store, from
// Authorize's result #0, executed on every path of its goroutine.
func c34Source(c *Ctx, p *Prog, fn *ssa.Function, res *raceResult, key string, s *c34Site, fam *c34FamT) {
	var bad []string
	n := 0
	for _, a := range res.Accesses {
		if a.Var.Root != s.decVar || a.Kind == raceRead {
			continue
		}
		n++
		st, ok := a.Instr.(*ssa.Store)
		if !ok {
			bad = append(bad, fmt.Sprintf("address of %s escapes at %s", a.Var.Name, p.Pos(a.Instr.Pos())))
			continue
		}
		// the stored value is result #0 of the site's Authorize call; when the call sits in a
		// helper, every return of the helper must hand exactly that result up
		if !fam.derivesFrom(st.Val, s.call, 0) {
			bad = append(bad, fmt.Sprintf("%s is also assigned at %s from %s, not (on every path) from the decision result of its Authorize call", a.Var.Name, p.Pos(st.Pos()), path(st.Val)))
			continue
		}
		f := st.Parent()
		pd := postDominators(f)
		if !(st.Block() == f.Blocks[0] || pd[f.Blocks[0]][st.Block()]) {
			bad = append(bad, fmt.Sprintf("%s is assigned only on some paths of the goroutine (%s)", a.Var.Name, p.Pos(st.Pos())))
		}
		// the Authorize call itself runs on every path of the function it sits in
		if g := s.call.Parent(); g != f {
			pdg := postDominators(g)
			if !(s.call.Block() == g.Blocks[0] || pdg[g.Blocks[0]][s.call.Block()]) {
				bad = append(bad, fmt.Sprintf("the Authorize call at %s runs only on some paths of %s", p.Pos(s.call.Pos()), fnName(g)))
			}
		}
	}
	if n == 0 {
		bad = append(bad, "no store found")
	}
	c.Check(len(bad) == 0, key, p.Pos(s.call.Pos()),
		"single unconditional store of Authorize's result #0", strings.Join(bad, "; "))
}

// ------------------------------------------------------------------ table --

type c34Row struct {
	vals  []string // per decision variable (index = site index)
	allow bool
}

type c34TableT struct {
	rows      []c34Row
	allowName string
}

type c34Nil struct{}
type c34NonNil struct{}

// c34Table executes fn from the instruction after the (single) Wait for every
// combination of decision values.
func c34Table(c *Ctx, p *Prog, fn *ssa.Function, res *raceResult, decVars []ssa.Value) (*c34TableT, string) {
	var waits []ssa.Instruction
	for _, ws := range res.Waits {
		waits = append(waits, ws...)
	}
	if len(waits) != 1 {
		return nil, fmt.Sprintf("expected exactly one Wait in %s, found %d", fnName(fn), len(waits))
	}
	// Decision constants
	var tp *types.Package
	if o := p.LookupExt(c34AuthPkg, "DecisionAllow"); o != nil {
		tp = o.Pkg()
	}
	if tp == nil {
		c.Lost("%s.DecisionAllow", c34AuthPkg)
	}
	decT := p.LookupExt(c34AuthPkg, "Decision")
	if decT == nil {
		c.Lost("%s.Decision", c34AuthPkg)
	}
	type dv struct {
		name string
		v    constant.Value
	}
	var dom []dv
	maxv := int64(0)
	for _, n := range tp.Scope().Names() {
		if k, ok := tp.Scope().Lookup(n).(*types.Const); ok && types.Identical(k.Type(), decT.Type()) {
			dom = append(dom, dv{n, k.Val()})
			if x, ok := constant.Int64Val(k.Val()); ok && x > maxv {
				maxv = x
			}
		}
	}
	hasAllow := false
	for _, d := range dom {
		if d.name == "DecisionAllow" {
			hasAllow = true
		}
	}
	if !hasAllow || len(dom) < 3 {
		c.Lost("Decision constants (found %d)", len(dom))
	}
	dom = append(dom, dv{"<other>", constant.MakeInt64(maxv + 97)})
	sort.Slice(dom, func(i, j int) bool { return dom[i].name < dom[j].name })

	t := &c34TableT{allowName: "DecisionAllow"}
	idx := make([]int, len(decVars))
	for {
		mem := map[ssa.Value]any{}
		row := c34Row{}
		for i, dvv := range decVars {
			mem[dvv] = dom[idx[i]].v
			row.vals = append(row.vals, dom[idx[i]].name)
		}
		it := &c34Interp{p: p, mem: mem, steps: 0}
		out, err := it.run(fn, waits[0].Block(), instrIndex(waits[0])+1, nil, 0)
		if err != "" {
			return nil, fmt.Sprintf("for %v: %s", row.vals, err)
		}
		if len(out) != 1 {
			return nil, "function does not return exactly one result"
		}
		switch out[0].(type) {
		case c34Nil:
			row.allow = true
		case c34NonNil:
			row.allow = false
		default:
			return nil, fmt.Sprintf("for %v: cannot classify the returned error as nil/non-nil", row.vals)
		}
		t.rows = append(t.rows, row)
		// next combination
		k := 0
		for k < len(idx) {
			idx[k]++
			if idx[k] < len(dom) {
				break
			}
			idx[k] = 0
			k++
		}
		if k == len(idx) {
			break
		}
	}
	return t, ""
}

func c34TableMatches(t *c34TableT, g, pl, w int) bool {
	for _, r := range t.rows {
		want := r.vals[g] == t.allowName && (r.vals[pl] == t.allowName || r.vals[w] == t.allowName)
		if want != r.allow {
			return false
		}
	}
	return true
}

func c34TableDiff(t *c34TableT, g, pl, w int) string {
	var out []string
	for _, r := range t.rows {
		want := r.vals[g] == t.allowName && (r.vals[pl] == t.allowName || r.vals[w] == t.allowName)
		if want != r.allow {
			out = append(out, fmt.Sprintf("getTier=%s policy=%s wildcard=%s -> allowed=%v", r.vals[g], r.vals[pl], r.vals[w], r.allow))
		}
	}
	n := len(out)
	if n > 4 {
		out = append(out[:4], fmt.Sprintf("... (%d rows differ)", n))
	}
	return strings.Join(out, "; ")
}

// c34Interp is a small concrete interpreter over go/ssa for the decision
// fragment: integer/boolean constants, loads/stores of tracked variables,
// comparisons, !, phi, branches, and calls of functions of the same package
// (executed); every other value is unknown and may not decide a branch.
type c34Interp struct {
	p     *Prog
	mem   map[ssa.Value]any
	steps int
}

func (it *c34Interp) run(fn *ssa.Function, b *ssa.BasicBlock, start int, params map[*ssa.Parameter]any, depth int) ([]any, string) {
	vals := map[ssa.Value]any{}
	get := func(v ssa.Value) any {
		switch x := v.(type) {
		case *ssa.Const:
			if x.Value == nil {
				return c34Nil{}
			}
			return x.Value
		case *ssa.Parameter:
			return params[x]
		}
		return vals[v]
	}
	var prev *ssa.BasicBlock
	for {
		next := (*ssa.BasicBlock)(nil)
		for i := start; i < len(b.Instrs); i++ {
			it.steps++
			if it.steps > 20000 {
				return nil, "evaluation does not terminate (loop on the decision path)"
			}
			switch x := b.Instrs[i].(type) {
			case *ssa.Phi:
				for k, pb := range b.Preds {
					if pb == prev {
						vals[x] = get(x.Edges[k])
					}
				}
			case *ssa.UnOp:
				switch x.Op {
				case token.MUL:
					if r := it.memRoot(x.X); r != nil {
						vals[x] = it.mem[r]
					}
				case token.NOT:
					if bv, ok := get(x.X).(constant.Value); ok && bv.Kind() == constant.Bool {
						vals[x] = constant.MakeBool(!constant.BoolVal(bv))
					}
				}
			case *ssa.Store:
				if r := it.memRoot(x.Addr); r != nil {
					it.mem[r] = get(x.Val)
				} else if al, ok := x.Addr.(*ssa.Alloc); ok && al.Parent() == fn {
					// a local of the executed function (e.g. the synthetic result
					// variable go/ssa introduces when the function has a defer)
					it.mem[al] = get(x.Val)
				}
			case *ssa.RunDefers:
				if why := c34DefersTouchResults(fn); why != "" {
					return nil, why
				}
			case *ssa.BinOp:
				l, lok := get(x.X).(constant.Value)
				r, rok := get(x.Y).(constant.Value)
				if lok && rok {
					switch x.Op {
					case token.EQL, token.NEQ, token.LSS, token.LEQ, token.GTR, token.GEQ:
						if l.Kind() == r.Kind() {
							vals[x] = constant.MakeBool(constant.Compare(l, x.Op, r))
						}
					}
				} else if x.Op == token.EQL || x.Op == token.NEQ {
					// nil comparisons of known nil / non-nil values
					lv, rv := get(x.X), get(x.Y)
					_, ln := lv.(c34Nil)
					_, rn := rv.(c34Nil)
					_, lnn := lv.(c34NonNil)
					_, rnn := rv.(c34NonNil)
					if (ln || lnn) && (rn || rnn) && (ln || rn) {
						eq := ln && rn
						vals[x] = constant.MakeBool(eq == (x.Op == token.EQL))
					}
				}
			case *ssa.Convert:
				vals[x] = get(x.X)
			case *ssa.ChangeType:
				vals[x] = get(x.X)
			case *ssa.MakeInterface:
				if c34NonNilCall(x.X) {
					vals[x] = c34NonNil{}
				}
			case *ssa.Call:
				sf := calleeFn(x.Common())
				if sf != nil && c34NonNilCall(x) {
					vals[x] = c34NonNil{}
				} else if sf != nil && sf.Blocks != nil && sf.Pkg == fn.Pkg && depth < 3 && sf.Signature.Results().Len() == 1 {
					ps := map[*ssa.Parameter]any{}
					for k, a := range x.Call.Args {
						if k < len(sf.Params) {
							ps[sf.Params[k]] = get(a)
						}
					}
					out, err := it.run(sf, sf.Blocks[0], 0, ps, depth+1)
					if err == "" && len(out) == 1 {
						vals[x] = out[0]
					}
					// an undecidable helper just yields an unknown value
				}
			case *ssa.If:
				cv, ok := get(x.Cond).(constant.Value)
				if !ok || cv.Kind() != constant.Bool {
					return nil, fmt.Sprintf("branch at %s depends on a value outside the decision fragment (%s)", it.p.Pos(x.Cond.Pos()), path(x.Cond))
				}
				if constant.BoolVal(cv) {
					next = b.Succs[0]
				} else {
					next = b.Succs[1]
				}
			case *ssa.Jump:
				next = b.Succs[0]
			case *ssa.Return:
				var out []any
				for _, r := range x.Results {
					out = append(out, get(r))
				}
				return out, ""
			case *ssa.Panic:
				return nil, "panic on the decision path"
			}
		}
		if next == nil {
			return nil, "fell off a block"
		}
		prev, b, start = b, next, 0
	}
}

// c34ResultAllocs: the variables the function's returns load their results from
// (named results, or the synthetic result variable of a function with defers).
func c34ResultAllocs(fn *ssa.Function) map[*ssa.Alloc]bool {
	out := map[*ssa.Alloc]bool{}
	for _, r := range returnsOf(fn) {
		for _, v := range r.Results {
			if ld, ok := v.(*ssa.UnOp); ok && ld.Op == token.MUL {
				if al, ok := ld.X.(*ssa.Alloc); ok {
					out[al] = true
				}
			}
		}
	}
	return out
}

// c34DefersTouchResults: a deferred closure that captures a result variable can
// change what the function returns after the return statement has stored it.
func c34DefersTouchResults(fn *ssa.Function) string {
	res := c34ResultAllocs(fn)
	why := ""
	allInstrs(fn, false, func(_ *ssa.Function, in ssa.Instruction) {
		d, ok := in.(*ssa.Defer)
		if !ok {
			return
		}
		if mc, ok := d.Call.Value.(*ssa.MakeClosure); ok {
			for _, b := range mc.Bindings {
				if al, ok := b.(*ssa.Alloc); ok && res[al] {
					why = "a deferred closure captures the result variable: the returned value is not decided by the return statement"
				}
			}
		}
	})
	return why
}

// c34Ret is a return of fn with its results resolved through result variables
// (the value stored last in the returning block); go/ssa's synthetic recover
// block is skipped (it is only reached when a deferred call recovers a panic).
type c34Ret struct {
	*ssa.Return
	Vals []ssa.Value
}

func c34Returns(fn *ssa.Function) []c34Ret {
	var out []c34Ret
	for _, r := range returnsOf(fn) {
		if fn.Recover != nil && r.Block() == fn.Recover {
			continue
		}
		cr := c34Ret{Return: r}
		for _, v := range r.Results {
			if ld, ok := v.(*ssa.UnOp); ok && ld.Op == token.MUL {
				if al, ok := ld.X.(*ssa.Alloc); ok {
					instrs := r.Block().Instrs
					for i := instrIndex(ld) - 1; i >= 0; i-- {
						if st, ok := instrs[i].(*ssa.Store); ok && st.Addr == ssa.Value(al) {
							v = st.Val
							break
						}
					}
				}
			}
			cr.Vals = append(cr.Vals, v)
		}
		out = append(out, cr)
	}
	return out
}

func (it *c34Interp) memRoot(addr ssa.Value) ssa.Value {
	if _, ok := it.mem[addr]; ok {
		return addr
	}
	return nil
}

// c34NonNilCall: v is the result of an error constructor (never nil).
func c34NonNilCall(v ssa.Value) bool {
	call, ok := v.(*ssa.Call)
	if !ok {
		return false
	}
	f := calleeOf(call.Common())
	if f == nil || f.Pkg() == nil {
		return false
	}
	switch f.Pkg().Path() {
	case "k8s.io/apimachinery/pkg/api/errors":
		return strings.HasPrefix(f.Name(), "New")
	case "errors":
		return f.Name() == "New"
	case "fmt":
		return f.Name() == "Errorf"
	}
	return false
}

// c34AllowExits: every `return nil` of the top function is either after the
// Wait (covered by the table) or guarded by `Authorizer == nil`.
func c34AllowExits(c *Ctx, p *Prog, fn *ssa.Function, res *raceResult) {
	key := "C34.formula/allow-exits/" + fnName(fn)
	var waits []ssa.Instruction
	for _, ws := range res.Waits {
		waits = append(waits, ws...)
	}
	authzField := p.LookupObj(c34Pkg, "authorizer.Authorizer")
	if authzField == nil {
		c.Lost("authorizer.Authorizer (embedded field)")
	}
	var bad, und []string
	nCovered, nGuarded := 0, 0
	if why := c34DefersTouchResults(fn); why != "" {
		und = append(und, why)
	}
	for _, r := range c34Returns(fn) {
		if len(r.Vals) != 1 {
			c.Lost("%s does not return exactly one result", fnName(fn))
		}
		covered := false
		for _, w := range waits {
			if instrDominates(w, r.Return) {
				covered = true
			}
		}
		if covered {
			nCovered++
			continue
		}
		switch v := r.Vals[0].(type) {
		case *ssa.Const:
			if v.Value != nil {
				continue
			}
			g := guardedCut(r.Return, eqCond(true,
				func(x ssa.Value) bool { return fieldVar(x) == authzField },
				isNilConst))
			if g {
				nGuarded++
			} else {
				bad = append(bad, fmt.Sprintf("`return nil` at %s is reached without waiting for the checks and without the `Authorizer == nil` guard", p.Pos(r.Pos())))
			}
		default:
			// a non-constant result before the join: must not be able to be nil
			nilPossible := false
			for _, o := range origins(v, nil) {
				if o.Kind == "const" && isNilConst(o.V) {
					nilPossible = true
				}
			}
			if !nilPossible {
				continue
			}
			und = append(und, fmt.Sprintf("return at %s may return nil before the join", p.Pos(r.Pos())))
		}
	}
	switch {
	case len(bad) > 0:
		c.Violate(key, p.Pos(fn.Pos()), "%s", strings.Join(bad, "; "))
	case len(und) > 0:
		c.Undecided(key, p.Pos(fn.Pos()), "%s", strings.Join(und, "; "))
	default:
		c.Ok(key, p.Pos(fn.Pos()), "%d return(s) after the join (covered by the table), %d `return nil` guarded by Authorizer == nil, no other allow exit", nCovered, nGuarded)
	}
}
