package main

// engine_C16.go — two rule families of C16 that concern the bookkeeping which
// makes the IP set sync *converge* after failures and filter changes:
//
// C16.requeue  In every function that drives a restore session (calls the
//   line writer W = writeUpdates), the failure handler re-queues, at "must"
//   priority, a collection that covers every set name handed to W in that
//   session, and the handler runs on every path on which the session error was
//   not established to be nil.  (`ipset restore` is not atomic and its stdin is
//   buffered: a write error surfaces long after the process died, so *every*
//   set written in the session is in doubt, not just the last one.)
//
// C16.dirty  updateDirtiness(name) is the only place where the
//   "ipSetsWithDirtyMembers" predicate is evaluated.  Its inputs are derived
//   from what it (transitively) reads of *IPSets: the per-set member-tracker map
//   and the needed-set filter.  Every mutator of such an input re-evaluates the
//   predicate for every affected set on every path from the mutation to return:
//   a store to a whole-plane input (the filter) affects all sets; a mutation of
//   the *desired* side of a member tracker taken from the map under key k
//   affects k.

import (
	"fmt"
	"go/token"
	"go/types"
	"sort"
	"strings"

	"golang.org/x/tools/go/ssa"
)

// ---------------------------------------------------------------- helpers --

// c16Deref looks through captured-variable cells and single-assignment locals:
// FreeVar -> its binding; load of a cell with exactly one store -> the stored
// value.  Returns the first value that is neither.
func c16Deref(v ssa.Value) ssa.Value {
	for i := 0; i < 12 && v != nil; i++ {
		switch x := v.(type) {
		case *ssa.FreeVar:
			b := c17Binding(x)
			if b == nil {
				return v
			}
			v = b
			continue
		case *ssa.UnOp:
			if x.Op != token.MUL {
				return v
			}
			al, ok := c17Cell(x.X).(*ssa.Alloc)
			if !ok {
				return v
			}
			sts := c17StoresToCell(al)
			if len(sts) != 1 {
				return v
			}
			v = sts[0].Val
			continue
		case *ssa.ChangeType:
			v = x.X
			continue
		}
		return v
	}
	return v
}

// c16SameVal: a and b denote the same value (same SSA value, or the same
// access path / pure naming call on the same operands).
func c16SameVal(a, b ssa.Value) bool {
	a, b = c16Deref(a), c16Deref(b)
	if a == b {
		return true
	}
	if _, ok := a.(*ssa.Phi); ok {
		return false
	}
	if _, ok := b.(*ssa.Phi); ok {
		return false
	}
	pa := path(a)
	return pa != "" && !strings.Contains(pa, "…") && pa == path(b)
}

func c16InPkg(fn *ssa.Function, pkg string) bool {
	top := topFn(fn)
	return top.Pkg != nil && top.Pkg.Pkg.Path() == calicoPrefix+pkg
}

// c16FirstInstr returns the first instruction of fn's entry block.
func c16FirstInstr(fn *ssa.Function) ssa.Instruction {
	if fn == nil || len(fn.Blocks) == 0 || len(fn.Blocks[0].Instrs) == 0 {
		return nil
	}
	return fn.Blocks[0].Instrs[0]
}

// c16OnEveryPath: every path from fn's entry to a return executes one of via.
func c16OnEveryPath(fn *ssa.Function, via []ssa.Instruction) bool {
	first := c16FirstInstr(fn)
	if first == nil || len(via) == 0 {
		return false
	}
	for _, v := range via {
		if v == first {
			return true
		}
	}
	for _, r := range returnsOf(fn) {
		if !c17PathsThrough(first, r, via, nil) {
			return false
		}
	}
	return true
}

func c16ParamIndex(fn *ssa.Function, v ssa.Value) int {
	pa, ok := v.(*ssa.Parameter)
	if !ok || pa.Parent() != fn {
		return -1
	}
	for i, q := range fn.Params {
		if q == pa {
			return i
		}
	}
	return -1
}

// c16StaticCallers lists the static call sites of fn among funcs.
func c16StaticCallers(funcs []*ssa.Function, fn *ssa.Function) []ssa.CallInstruction {
	var out []ssa.CallInstruction
	for _, f := range funcs {
		for _, b := range f.Blocks {
			for _, in := range b.Instrs {
				if ci, ok := in.(ssa.CallInstruction); ok && ci.Common().StaticCallee() == fn {
					out = append(out, ci)
				}
			}
		}
	}
	return out
}

// --------------------------------------------------------------- requeue --

// c16SessionErr builds the test "x is an error value that covers both the
// restore-line writes (result of W) and the restore process' exit status
// (CmdIface.Wait)", looking through one aggregating call (firstNonNilErr).
func c16SessionErr(W *ssa.Function) func(ssa.Value) bool {
	return func(x ssa.Value) bool {
		if !c17IsErrorType(x.Type()) {
			return false
		}
		feeds := map[string]bool{}
		var visit func(v ssa.Value, depth int)
		visit = func(v ssa.Value, depth int) {
			for _, o := range origins(v, nil) {
				call, ok := o.V.(*ssa.Call)
				if !ok {
					continue
				}
				cc := call.Common()
				if cc.StaticCallee() == W {
					feeds["write"] = true
					continue
				}
				if f := calleeOf(cc); f != nil && f.Name() == "Wait" && cc.IsInvoke() && qualTypeName(cc.Value.Type()) == c16IPSetsPkg+".CmdIface" {
					feeds["wait"] = true
					continue
				}
				if depth == 0 {
					for _, a := range cc.Args {
						if els, ok := c16VariadicElems(a); ok && len(els) > 0 {
							for _, e := range els {
								if c17IsErrorType(e.Type()) {
									visit(e, 1)
								}
							}
						} else if c17IsErrorType(a.Type()) {
							visit(a, 1)
						}
					}
				}
			}
		}
		visit(x, 0)
		return feeds["write"] && feeds["wait"]
	}
}

// c16Handler is one "re-queue every element of Coll" site of a function.
type c16Handler struct {
	Marker ssa.Instruction // executed whenever the handler runs (loop header / helper call)
	Coll   ssa.Value       // the collection whose elements are re-queued
	Must   bool            // queued at resyncPriMust
	Site   ssa.Instruction
}

// c16ElemOf: x is an element load `coll[i]`; returns coll and the index value.
func c16ElemOf(x ssa.Value) (coll, idx ssa.Value, ok bool) {
	ld, isLoad := x.(*ssa.UnOp)
	if !isLoad || ld.Op != token.MUL {
		if ix, isIdx := x.(*ssa.Index); isIdx {
			return ix.X, ix.Index, true
		}
		return nil, nil, false
	}
	ia, isIA := ld.X.(*ssa.IndexAddr)
	if !isIA {
		return nil, nil, false
	}
	return ia.X, ia.Index, true
}

// c16LoopHeader: the block of the loop-carried Phi an index value derives from.
func c16LoopHeader(idx ssa.Value) *ssa.BasicBlock {
	for i := 0; i < 4 && idx != nil; i++ {
		switch x := idx.(type) {
		case *ssa.Phi:
			return x.Block()
		case *ssa.BinOp:
			if _, isConst := x.X.(*ssa.Const); isConst {
				idx = x.Y
			} else {
				idx = x.X
			}
		case *ssa.Convert:
			idx = x.X
		default:
			return nil
		}
	}
	return nil
}

// c16HandlersIn lists the re-queue handlers in fn's own body: loops calling
// addM(q, coll[i], pri), and (depth 1) calls of package-local helpers that run
// such a loop over one of their parameters on every path.
func c16HandlersIn(fn *ssa.Function, addM *types.Func, mustVal string, depth int) (hs []c16Handler, unmodelled []ssa.Instruction) {
	for _, b := range fn.Blocks {
		for _, in := range b.Instrs {
			ci, ok := in.(ssa.CallInstruction)
			if !ok {
				continue
			}
			cc := ci.Common()
			if calleeOf(cc) == addM && len(cc.Args) == 3 {
				k, isConst := constOf(cc.Args[2])
				must := isConst && k.ExactString() == mustVal
				coll, idx, isElem := c16ElemOf(cc.Args[1])
				if !isElem {
					unmodelled = append(unmodelled, in)
					continue
				}
				hdr := c16LoopHeader(idx)
				if hdr == nil || len(hdr.Instrs) == 0 {
					unmodelled = append(unmodelled, in)
					continue
				}
				hs = append(hs, c16Handler{Marker: hdr.Instrs[0], Coll: coll, Must: must, Site: in})
				continue
			}
			if depth > 0 {
				continue
			}
			g := cc.StaticCallee()
			if g == nil || g.Blocks == nil || g == fn || !c16InPkg(g, c16IPSetsPkg) {
				continue
			}
			ghs, _ := c16HandlersIn(g, addM, mustVal, depth+1)
			for _, gh := range ghs {
				pi := c16ParamIndex(g, gh.Coll)
				if pi < 0 || pi >= len(cc.Args) || !c16OnEveryPath(g, []ssa.Instruction{gh.Marker}) {
					continue
				}
				hs = append(hs, c16Handler{Marker: in, Coll: cc.Args[pi], Must: gh.Must, Site: in})
			}
		}
	}
	return
}

// c16Accum is the backward closure of a slice value through Phi edges, local
// cells and the first operand of append().
type c16Accum struct {
	Appends []*ssa.Call
	Empty   []ssa.Instruction // program points at which the accumulator (re)starts empty
	Bad     []string
}

func c16AccumOf(p *Prog, v ssa.Value) *c16Accum {
	acc := &c16Accum{}
	seen := map[ssa.Value]bool{}
	var walk func(v ssa.Value, at ssa.Instruction)
	walk = func(v ssa.Value, at ssa.Instruction) {
		if k, ok := v.(*ssa.Const); ok {
			if k.IsNil() {
				if at != nil {
					acc.Empty = append(acc.Empty, at)
				} else {
					acc.Bad = append(acc.Bad, "the collection is the nil slice")
				}
				return
			}
		}
		if v == nil || seen[v] {
			return
		}
		seen[v] = true
		switch x := v.(type) {
		case *ssa.Phi:
			for i, e := range x.Edges {
				pb := x.Block().Preds[i]
				walk(e, pb.Instrs[len(pb.Instrs)-1])
			}
		case *ssa.Call:
			if cc, ok := isBuiltinCall(x, "append"); ok && len(cc.Args) == 2 {
				acc.Appends = append(acc.Appends, x)
				walk(cc.Args[0], x)
				return
			}
			acc.Bad = append(acc.Bad, fmt.Sprintf("it is assigned the result of %s at %s", path(x), p.Pos(x.Pos())))
		case *ssa.MakeSlice:
			if k, ok := constOf(x.Len); ok && k.ExactString() == "0" {
				acc.Empty = append(acc.Empty, x)
				return
			}
			acc.Bad = append(acc.Bad, "it is made with a non-zero length at "+p.Pos(x.Pos()))
		case *ssa.UnOp:
			if x.Op == token.MUL {
				if al, ok := c17Cell(x.X).(*ssa.Alloc); ok {
					sts := c17StoresToCell(al)
					for _, st := range sts {
						walk(st.Val, st)
					}
					if len(sts) == 0 {
						acc.Empty = append(acc.Empty, al)
					}
					return
				}
			}
			acc.Bad = append(acc.Bad, fmt.Sprintf("it is loaded from %s at %s", path(x), p.Pos(x.Pos())))
		case *ssa.Slice:
			acc.Bad = append(acc.Bad, "it is re-sliced / replaced by a sub-slice or slice literal at "+p.Pos(x.Pos()))
		default:
			acc.Bad = append(acc.Bad, fmt.Sprintf("it derives from %s", path(v)))
		}
	}
	walk(v, nil)
	return acc
}

func c16Requeue(c *Ctx, p *Prog, W *ssa.Function) {
	addM, _ := p.LookupObj(c16IPSetsPkg, "resyncQueue.Add").(*types.Func)
	mustC, _ := p.LookupObj(c16IPSetsPkg, "resyncPriMust").(*types.Const)
	if addM == nil || mustC == nil {
		c.Lost("resyncQueue.Add / resyncPriMust")
	}
	mustVal := mustC.Val().ExactString()
	nameIdx := -1
	for i, pa := range W.Params {
		if i == 0 {
			continue
		}
		if b, ok := pa.Type().Underlying().(*types.Basic); ok && b.Kind() == types.String {
			nameIdx = i
		}
	}
	if nameIdx < 0 {
		c.Lost("%s has no set-name parameter", fnName(W))
	}
	covers := c16SessionErr(W)
	funcs := c16PkgFuncs(p, c16IPSetsPkg)
	byFn := map[*ssa.Function][]ssa.CallInstruction{}
	var order []*ssa.Function
	for _, wc := range c16StaticCallers(funcs, W) {
		f := wc.Parent()
		if _, ok := byFn[f]; !ok {
			order = append(order, f)
		}
		byFn[f] = append(byFn[f], wc)
	}
	if len(order) == 0 {
		c.Lost("no caller of %s", fnName(W))
	}
	sort.Slice(order, func(i, j int) bool { return fnName(order[i]) < fnName(order[j]) })
	for _, F := range order {
		wcs := byFn[F]
		base := "C16.requeue/" + fnName(F)
		site := p.Pos(wcs[0].Pos())
		if F.Parent() != nil {
			c.Undecided(base+"/covers-written", site, "%s is called from a closure; the restore session cannot be followed", fnName(W))
			continue
		}
		hs, unmodelled := c16HandlersIn(F, addM, mustVal, 0)
		if len(hs) == 0 {
			if len(unmodelled) > 0 || containsCall(F, 3, func(f *types.Func) bool { return f == addM }) {
				c.Undecided(base+"/covers-written", site, "%s re-queues sets for resync in a shape the rule does not model (not a loop over a collection)", fnName(F))
			} else {
				c.Violate(base+"/covers-written", site, "%s writes restore lines through %s but never re-queues the written sets for resync (resyncQueue.Add) when the session fails", fnName(F), fnName(W))
			}
			continue
		}
		// priority: every handler queues at "must"
		badPri := ""
		for _, h := range hs {
			if !h.Must {
				badPri = p.Pos(h.Site.Pos())
			}
		}
		c.Check(badPri == "", base+"/priority", p.Pos(hs[0].Site.Pos()), "sets of a failed session are re-queued at resyncPriMust",
			"the failure handler at "+badPri+" re-queues the sets of a failed restore session at a priority other than resyncPriMust: the retry would trust (and ApplyUpdates could return with) a dataplane it has not re-read")

		// pick the handler with the fewest problems
		type verdict struct{ cover, paths string }
		var best *verdict
		var bestH c16Handler
		for _, h := range hs {
			v := &verdict{}
			acc := c16AccumOf(p, h.Coll)
			for _, wc := range wcs {
				a := wc.Common().Args[nameIdx]
				if coll, _, ok := c16ElemOf(a); ok && coll == h.Coll {
					continue // the handler iterates the very collection the writer iterates
				}
				if len(acc.Bad) > 0 {
					v.cover = "the collection re-queued at " + p.Pos(h.Site.Pos()) + " is not an append-only record of the written names: " + acc.Bad[0]
					break
				}
				recorded := false
				for _, ap := range acc.Appends {
					els, ok := c16VariadicElems(ap.Common().Args[1])
					if !ok {
						continue
					}
					for _, e := range els {
						if c16SameVal(e, a) && instrDominates(ap, wc) {
							recorded = true
						}
					}
				}
				if !recorded {
					v.cover = fmt.Sprintf("the name passed to %s at %s is not appended to the re-queued collection before the write on every path (a set being written when the error occurs would not be re-checked)", fnName(W), p.Pos(wc.Pos()))
					break
				}
				for _, e := range acc.Empty {
					if e.Parent() == wc.Parent() && instrReaches(wc, e) {
						at := ""
						if e.Pos().IsValid() {
							at = " at " + p.Pos(e.Pos())
						}
						v.cover = fmt.Sprintf("the re-queued collection can be reset to empty%s after %s may already have written lines", at, fnName(W))
					}
				}
			}
			for _, wc := range wcs {
				for _, r := range returnsOf(F) {
					if !c17PathsThrough(wc, r, []ssa.Instruction{h.Marker}, c17NilEdge(covers)) {
						v.paths = fmt.Sprintf("the return at %s is reachable from the %s call without running the re-queue loop and without a nil check of the error covering the writes and the restore exit status", p.Pos(r.Pos()), fnName(W))
					}
				}
			}
			score := func(x *verdict) int {
				n := 0
				if x.cover != "" {
					n++
				}
				if x.paths != "" {
					n++
				}
				return n
			}
			if best == nil || score(v) < score(best) {
				best, bestH = v, h
			}
		}
		hsite := p.Pos(bestH.Site.Pos())
		c.Check(best.cover == "", base+"/covers-written", hsite,
			fmt.Sprintf("the failure handler re-queues a collection that records every name handed to %s before it is written", fnName(W)),
			fnName(F)+": "+best.cover+"; `ipset restore` is not atomic and its input is buffered, so after a failed session every set whose lines were written must be re-read")
		c.Check(best.paths == "", base+"/on-every-failure", hsite,
			"every return reachable after a write either passed the nil check of the session error or ran the re-queue loop",
			fnName(F)+": "+best.paths)
	}
}

// ------------------------------------------------------------------ dirty --

type c16DirtyCtx struct {
	c        *Ctx
	p        *Prog
	funcs    []*ssa.Function
	ud       *ssa.Function
	tracker  *types.Var          // map field holding the per-set member trackers
	allNames map[*types.Var]bool // map fields whose key set covers every set that can be dirty
}

// directKeyVia: calls updateDirtiness(key) in fn's own body.
func (d *c16DirtyCtx) directKeyVia(fn *ssa.Function, key ssa.Value) []ssa.Instruction {
	var out []ssa.Instruction
	for _, b := range fn.Blocks {
		for _, in := range b.Instrs {
			ci, ok := in.(ssa.CallInstruction)
			if !ok {
				continue
			}
			if _, isDefer := in.(*ssa.Defer); isDefer {
				continue
			}
			if _, isGo := in.(*ssa.Go); isGo {
				continue
			}
			cc := ci.Common()
			if cc.StaticCallee() == d.ud && len(cc.Args) == 2 && c16SameVal(cc.Args[1], key) {
				out = append(out, in)
			}
		}
	}
	return out
}

// keyVia: instructions of fn's own body that definitely re-evaluate the
// dirtiness of key: updateDirtiness(key), or a call g(..key..) of a
// package-local helper that calls updateDirtiness(param) on every path.
func (d *c16DirtyCtx) keyVia(fn *ssa.Function, key ssa.Value) []ssa.Instruction {
	out := d.directKeyVia(fn, key)
	for _, b := range fn.Blocks {
		for _, in := range b.Instrs {
			ci, ok := in.(ssa.CallInstruction)
			if !ok {
				continue
			}
			if _, isCall := in.(*ssa.Call); !isCall {
				continue
			}
			cc := ci.Common()
			g := cc.StaticCallee()
			if g == nil || g == d.ud || g == fn || g.Blocks == nil || !c16InPkg(g, c16IPSetsPkg) {
				continue
			}
			for j, a := range cc.Args {
				if j >= len(g.Params) || !c16SameVal(a, key) {
					continue
				}
				if c16OnEveryPath(g, d.directKeyVia(g, g.Params[j])) {
					out = append(out, in)
					break
				}
			}
		}
	}
	return out
}

// forAllRanges: `for k := range s.<allNames map>` loops in fn's own body whose
// every iteration calls updateDirtiness(k).
func (d *c16DirtyCtx) forAllRanges(fn *ssa.Function) []ssa.Instruction {
	var out []ssa.Instruction
	for _, b := range fn.Blocks {
		for _, in := range b.Instrs {
			rg, ok := in.(*ssa.Range)
			if !ok || !d.allNames[fieldVar(rg.X)] || rg.Referrers() == nil {
				continue
			}
			good := false
			for _, r := range *rg.Referrers() {
				nx, ok := r.(*ssa.Next)
				if !ok || nx.Referrers() == nil {
					continue
				}
				for _, rr := range *nx.Referrers() {
					ex, ok := rr.(*ssa.Extract)
					if !ok || ex.Index != 1 {
						continue
					}
					via := d.keyVia(fn, ex)
					if len(via) > 0 && c17PathsThrough(nx, nx, via, nil) {
						good = true
					}
				}
			}
			if good {
				out = append(out, in)
			}
		}
	}
	return out
}

// forAllVia: instructions of fn's own body that definitely re-evaluate the
// dirtiness of every set: a forAllRanges loop, or a call of a package-local
// helper that runs one on every path.
func (d *c16DirtyCtx) forAllVia(fn *ssa.Function) []ssa.Instruction {
	out := d.forAllRanges(fn)
	for _, b := range fn.Blocks {
		for _, in := range b.Instrs {
			call, ok := in.(*ssa.Call)
			if !ok {
				continue
			}
			g := call.Common().StaticCallee()
			if g == nil || g == d.ud || g == fn || g.Blocks == nil || !c16InPkg(g, c16IPSetsPkg) {
				continue
			}
			if c16OnEveryPath(g, d.forAllRanges(g)) {
				out = append(out, in)
			}
		}
	}
	return out
}

// covered: on every path from pos (an instruction of top-level function fn) to a
// return of fn the dirtiness of key (nil: of every set) is re-evaluated; if fn
// leaves that to its callers (key is one of its parameters, all callers are
// static and package-local) the obligation moves to each call site.
func (d *c16DirtyCtx) covered(fn *ssa.Function, pos ssa.Instruction, key ssa.Value, depth int) (bool, string) {
	via := d.forAllVia(fn)
	if key != nil {
		via = append(via, d.keyVia(fn, key)...)
	}
	bad := ""
	for _, r := range returnsOf(fn) {
		if !c17PathsThrough(pos, r, via, nil) {
			bad = "at the end of the function"
			if r.Pos().IsValid() {
				bad = "at " + d.p.Pos(r.Pos())
			}
		}
	}
	if bad == "" {
		return true, ""
	}
	why := fmt.Sprintf("%s can return %s without it", fnName(fn), bad)
	if depth >= 2 {
		return false, why
	}
	pidx := -1
	if key != nil {
		if pidx = c16ParamIndex(fn, c16Deref(key)); pidx < 0 {
			return false, why
		}
	}
	callers := c16StaticCallers(d.funcs, fn)
	if len(callers) == 0 {
		return false, why
	}
	for _, cs := range callers {
		ctop := topFn(cs.Parent())
		cpos := c17PosInParent(cs, ctop)
		if cpos == nil {
			return false, why
		}
		var ckey ssa.Value
		if key != nil {
			if pidx >= len(cs.Common().Args) {
				return false, why
			}
			ckey = c16Deref(cs.Common().Args[pidx])
		}
		if ok, w := d.covered(ctop, cpos, ckey, depth+1); !ok {
			return false, why + ", and its caller does not make up for it: " + w
		}
	}
	return true, ""
}

// trackerKey resolves a member-tracker value to the key under which it was
// taken from the tracker map: m[k], v,ok := m[k], or a call of a package-local
// accessor whose only use of the map is under one of its parameters.
func (d *c16DirtyCtx) trackerKey(v ssa.Value, depth int) ssa.Value {
	v = c16Deref(v)
	switch x := v.(type) {
	case *ssa.Lookup:
		if fieldVar(x.X) == d.tracker {
			return x.Index
		}
	case *ssa.Extract:
		if lk, ok := x.Tuple.(*ssa.Lookup); ok && x.Index == 0 && fieldVar(lk.X) == d.tracker {
			return lk.Index
		}
	case *ssa.Phi:
		var key ssa.Value
		for _, e := range x.Edges {
			k := d.trackerKey(e, depth+1)
			if k == nil || (key != nil && !c16SameVal(k, key)) {
				return nil
			}
			key = k
		}
		return key
	case *ssa.Call:
		g := x.Common().StaticCallee()
		if g == nil || g.Blocks == nil || depth > 2 || !c16InPkg(g, c16IPSetsPkg) {
			return nil
		}
		// every access of the tracker map in g uses the same parameter as key,
		// and g returns something looked up under it
		pidx := -1
		okAll, looked := true, false
		allInstrs(g, true, func(_ *ssa.Function, in ssa.Instruction) {
			var m, k ssa.Value
			switch y := in.(type) {
			case *ssa.Lookup:
				m, k = y.X, y.Index
				looked = looked || fieldVar(y.X) == d.tracker
			case *ssa.MapUpdate:
				m, k = y.Map, y.Key
			default:
				return
			}
			if fieldVar(m) != d.tracker {
				return
			}
			i := c16ParamIndex(g, c16Deref(k))
			if i < 0 || (pidx >= 0 && i != pidx) {
				okAll = false
				return
			}
			pidx = i
		})
		if !okAll || !looked || pidx < 0 || pidx >= len(x.Common().Args) {
			return nil
		}
		return x.Common().Args[pidx]
	}
	return nil
}

func c16Dirty(c *Ctx, p *Prog) {
	d := &c16DirtyCtx{c: c, p: p, funcs: c16PkgFuncs(p, c16IPSetsPkg), allNames: map[*types.Var]bool{}}
	d.ud = p.Func(c16IPSetsPkg, "IPSets.updateDirtiness")
	ipsT := p.LookupObj(c16IPSetsPkg, "IPSets")
	dirty, _ := p.LookupObj(c16IPSetsPkg, "IPSets.ipSetsWithDirtyMembers").(*types.Var)
	allMeta, _ := p.LookupObj(c16IPSetsPkg, "IPSets.setNameToAllMetadata").(*types.Var)
	if d.ud == nil || ipsT == nil || dirty == nil || allMeta == nil {
		c.Lost("IPSets.updateDirtiness / IPSets / IPSets.ipSetsWithDirtyMembers / IPSets.setNameToAllMetadata")
	}
	// the predicate must still be what marks sets dirty
	marks := false
	for _, cs := range callsIn(d.ud, true, func(f *types.Func) bool { return f.Name() == "Add" }) {
		if fieldVar(cs.Args()[0]) == dirty {
			marks = true
		}
	}
	if !marks {
		c.Lost("IPSets.updateDirtiness no longer adds to ipSetsWithDirtyMembers")
	}

	// inputs of the predicate: fields of IPSets read by updateDirtiness and the
	// package-local functions it calls
	udFns := map[*ssa.Function]bool{}
	for f := range p.closure(d.ud) {
		if c16InPkg(f, c16IPSetsPkg) {
			udFns[f] = true
		}
	}
	var planeInputs []*types.Var
	reads := fieldsRead(udFns, ipsT.Type())
	for _, name := range sortedKeys(reads) {
		fv, _ := p.LookupObj(c16IPSetsPkg, "IPSets."+name).(*types.Var)
		if fv == nil {
			c.Lost("IPSets.%s (read by updateDirtiness)", name)
		}
		if fv == dirty {
			continue
		}
		if m, ok := fv.Type().Underlying().(*types.Map); ok && qualTypeName(m.Elem()) == c17DeltaPkg+".SetDeltaTracker" {
			if d.tracker != nil {
				c.Lost("updateDirtiness reads more than one member-tracker map")
			}
			d.tracker = fv
			continue
		}
		planeInputs = append(planeInputs, fv)
	}
	if d.tracker == nil {
		c.Lost("updateDirtiness no longer reads a map of SetDeltaTracker (member trackers) of IPSets")
	}
	d.allNames[d.tracker] = true
	d.allNames[allMeta] = true

	// (A) stores to whole-plane inputs
	for _, fn := range d.funcs {
		if udFns[fn] {
			continue
		}
		for _, b := range fn.Blocks {
			for _, in := range b.Instrs {
				st, ok := in.(*ssa.Store)
				if !ok {
					continue
				}
				fa, ok := st.Addr.(*ssa.FieldAddr)
				if !ok {
					continue
				}
				fv := fieldVar(fa)
				isInput := false
				for _, pi := range planeInputs {
					isInput = isInput || pi == fv
				}
				if !isInput {
					continue
				}
				if _, fresh := fa.X.(*ssa.Alloc); fresh {
					continue // initialisation of a struct that is being constructed
				}
				top := topFn(fn)
				key := "C16.dirty/" + fnName(top) + "/" + fv.Name()
				site := p.Pos(in.Pos())
				pos := c17PosInParent(in, top)
				if pos == nil {
					c.Undecided(key, site, "cannot locate the store inside %s", fnName(top))
					continue
				}
				ok2, why := d.covered(top, pos, nil, 0)
				c.Check(ok2, key, site,
					fmt.Sprintf("after the store to %s every set's dirtiness is re-evaluated (updateDirtiness for each key of a set-name map) on every path", fv.Name()),
					fmt.Sprintf("%s stores to IPSets.%s, which updateDirtiness reads, but does not re-evaluate updateDirtiness(name) for every set on every path afterwards (%s): a set whose members changed while the old value held stays out of ipSetsWithDirtyMembers and is never programmed", fnName(top), fv.Name(), why))
			}
		}
	}

	// (B) mutations of the desired side of a member tracker
	isDelta := func(f *types.Func, recv string) bool {
		return f != nil && f.Pkg() != nil && f.Pkg().Path() == calicoPrefix+c17DeltaPkg && recvTypeName(f) == recv
	}
	mutating := map[string]bool{"Add": true, "Delete": true, "DeleteAll": true}
	readonly := map[string]bool{"Contains": true, "Iter": true, "Len": true, "LenUpperBound": true}
	for _, fn := range d.funcs {
		if udFns[fn] {
			continue
		}
		for _, cs := range callsIn(fn, false, func(f *types.Func) bool { return isDelta(f, "DesiredSetView") }) {
			m := cs.Callee.Name()
			if readonly[m] {
				continue
			}
			top := topFn(fn)
			key := "C16.dirty/" + fnName(top) + "/desired." + m
			site := p.Pos(cs.Instr.Pos())
			if !mutating[m] {
				c.Undecided(key, site, "DesiredSetView.%s is not classified as mutating or read-only", m)
				continue
			}
			view, _ := c16Deref(cs.Args()[0]).(*ssa.Call)
			if view == nil || !isDelta(calleeOf(view.Common()), "SetDeltaTracker") || calleeOf(view.Common()).Name() != "Desired" || len(view.Common().Args) == 0 {
				c.Undecided(key, site, "cannot resolve the tracker whose desired members are mutated (%s)", path(cs.Args()[0]))
				continue
			}
			k := d.trackerKey(view.Common().Args[0], 0)
			if k == nil {
				c.Undecided(key, site, "cannot resolve the set name under which tracker %s was taken from IPSets.%s", path(view.Common().Args[0]), d.tracker.Name())
				continue
			}
			k = c16Deref(k)
			pos := c17PosInParent(cs.Instr, top)
			if pos == nil {
				c.Undecided(key, site, "cannot locate the mutation inside %s", fnName(top))
				continue
			}
			ok, why := d.covered(top, pos, k, 0)
			c.Check(ok, key, site,
				fmt.Sprintf("after Desired().%s on the tracker of %s, updateDirtiness(%s) runs on every path to return", m, path(k), path(k)),
				fmt.Sprintf("%s changes the desired members of the set %s (Desired().%s) but updateDirtiness(%s) does not run on every path afterwards (%s): the change would never be written to the dataplane", fnName(top), path(k), m, path(k), why))
		}
	}
}
