package main

import (
	"go/token"

	"golang.org/x/tools/go/ssa"
)

// Loop-iteration path model used by C35.rank.
//
// A "cycle" is one acyclic walk through a loop: it starts in the loop header
// (the block that holds the loop-carried phis) and ends in a block that jumps
// back to the header.  Walks that leave the loop (return, break, loop exit)
// are not cycles.  The loops this is used on have bodies of a handful of
// blocks, so plain enumeration is exact; nested loops and path explosions are
// reported to the caller, which treats them as undecided.

type c35Cycle []*ssa.BasicBlock // [0] = header, last = latch (a predecessor of the header)

func c35Cycles(header *ssa.BasicBlock, limit int) (cycles []c35Cycle, nested, overflow bool) {
	// blocks from which the header is reachable
	reach := map[*ssa.BasicBlock]bool{header: true}
	work := []*ssa.BasicBlock{header}
	for len(work) > 0 {
		b := work[len(work)-1]
		work = work[:len(work)-1]
		for _, pr := range b.Preds {
			if !reach[pr] {
				reach[pr] = true
				work = append(work, pr)
			}
		}
	}
	onPath := map[*ssa.BasicBlock]bool{}
	var cur []*ssa.BasicBlock
	var walk func(b *ssa.BasicBlock)
	walk = func(b *ssa.BasicBlock) {
		if overflow {
			return
		}
		onPath[b] = true
		cur = append(cur, b)
		seenSucc := map[*ssa.BasicBlock]bool{}
		for _, s := range b.Succs {
			if seenSucc[s] {
				continue
			}
			seenSucc[s] = true
			switch {
			case s == header:
				if len(cycles) >= limit {
					overflow = true
				} else {
					cycles = append(cycles, append(c35Cycle(nil), cur...))
				}
			case !reach[s] || isPanicBlock(s):
				// leaves the loop
			case onPath[s]:
				nested = true
			default:
				walk(s)
			}
		}
		cur = cur[:len(cur)-1]
		onPath[b] = false
	}
	walk(header)
	return
}

// next returns the block that follows position i on the cycle (the header
// after the latch).
func (cy c35Cycle) next(i int) *ssa.BasicBlock {
	if i+1 < len(cy) {
		return cy[i+1]
	}
	return cy[0]
}

// crosses reports whether the cycle takes an If edge accepted by pred.
func (cy c35Cycle) crosses(pred EdgePred) bool {
	for i, b := range cy {
		ifi, ok := b.Instrs[len(b.Instrs)-1].(*ssa.If)
		if !ok || len(b.Succs) != 2 || b.Succs[0] == b.Succs[1] {
			continue
		}
		nx := cy.next(i)
		for k, s := range b.Succs {
			if s != nx {
				continue
			}
			cnd, pol := stripNot(ifi.Cond, k == 0)
			if pred(cnd, pol) {
				return true
			}
		}
	}
	return false
}

// steps resolves the value the header phi h receives over this cycle's back
// edge: ok with k if it is h advanced k times by the constant 1 (phis on the
// way are resolved by the edge the cycle actually takes); !ok if it is
// anything else (then h is not a plain counter).
func (cy c35Cycle) steps(h *ssa.Phi) (k int, ok bool) {
	pos := map[*ssa.BasicBlock]int{}
	for i, b := range cy {
		pos[b] = i
	}
	latch := cy[len(cy)-1]
	var v ssa.Value
	for i, pr := range h.Block().Preds {
		if pr == latch {
			if v != nil && v != h.Edges[i] {
				return 0, false
			}
			v = h.Edges[i]
		}
	}
	if v == nil {
		return 0, false
	}
	for n := 0; n < 64; n++ {
		switch x := v.(type) {
		case *ssa.Phi:
			if x == h {
				return k, true
			}
			i, on := pos[x.Block()]
			if !on || i == 0 {
				return 0, false
			}
			from := cy[i-1]
			var e ssa.Value
			for j, pr := range x.Block().Preds {
				if pr == from {
					if e != nil && e != x.Edges[j] {
						return 0, false
					}
					e = x.Edges[j]
				}
			}
			if e == nil {
				return 0, false
			}
			v = e
		case *ssa.BinOp:
			if x.Op != token.ADD {
				return 0, false
			}
			switch {
			case c35IsOne(x.Y):
				v = x.X
			case c35IsOne(x.X):
				v = x.Y
			default:
				return 0, false
			}
			k++
		default:
			return 0, false
		}
	}
	return 0, false
}

func c35IsOne(v ssa.Value) bool {
	cv, ok := constOf(v)
	return ok && cv.String() == "1"
}

// c35ShiftPhi: if v is `1 << s` (possibly converted) with s a phi (possibly
// converted), return that phi.
func c35ShiftPhi(v ssa.Value) *ssa.Phi {
	for {
		cv, ok := v.(*ssa.Convert)
		if !ok {
			break
		}
		v = cv.X
	}
	bo, ok := v.(*ssa.BinOp)
	if !ok || bo.Op != token.SHL || !c35IsOne(bo.X) {
		return nil
	}
	s := bo.Y
	for {
		cv, ok := s.(*ssa.Convert)
		if !ok {
			break
		}
		s = cv.X
	}
	phi, _ := s.(*ssa.Phi)
	return phi
}

// c35MaskBitEdge: the If edge (cond, pol) establishes `mask & (1<<shift) != 0`
// for a loop-carried shift; returns that shift's phi.
func c35MaskBitEdge(isMask func(ssa.Value) bool, cond ssa.Value, pol bool) *ssa.Phi {
	bo, ok := cond.(*ssa.BinOp)
	if !ok {
		return nil
	}
	var and ssa.Value
	switch {
	case (bo.Op == token.GTR || bo.Op == token.NEQ) && c35IsZero(bo.Y) && pol:
		and = bo.X
	case (bo.Op == token.LSS || bo.Op == token.NEQ) && c35IsZero(bo.X) && pol:
		and = bo.Y
	case bo.Op == token.EQL && c35IsZero(bo.Y) && !pol:
		and = bo.X
	case bo.Op == token.EQL && c35IsZero(bo.X) && !pol:
		and = bo.Y
	default:
		// (mask & bit) == bit
		if (bo.Op == token.EQL && pol) || (bo.Op == token.NEQ && !pol) {
			for _, pr := range [][2]ssa.Value{{bo.X, bo.Y}, {bo.Y, bo.X}} {
				if ab, ok := pr[0].(*ssa.BinOp); ok && ab.Op == token.AND && (ab.X == pr[1] || ab.Y == pr[1]) && c35ShiftPhi(pr[1]) != nil {
					and = ab
				}
			}
		}
		if and == nil {
			return nil
		}
	}
	ab, ok := and.(*ssa.BinOp)
	if !ok || ab.Op != token.AND {
		return nil
	}
	if isMask(ab.X) {
		return c35ShiftPhi(ab.Y)
	}
	if isMask(ab.Y) {
		return c35ShiftPhi(ab.X)
	}
	return nil
}
