package main

import (
	"fmt"
	"go/token"
	"go/types"

	"golang.org/x/tools/go/ssa"
)

// C31.drain — channel protocol of the per-connection output queue.
//
// The Processor is single threaded and writes to every connection's queue with
// a blocking send; it is the Processor that closes the queue (on leave / on
// endpoint removal).  Hence the function that registers a queue with the
// Processor (stores a channel it made into JoinRequest.C) owns the receive side
// and must keep receiving until it has *observed the close*: otherwise a
// Processor blocked on `ei.output <-` never handles the leave, and every other
// workload's stream stops (not complete, not latest).
//
// Decided per owner function F (and its closures):
//   exit   every return of F reachable from the registration is either cut by
//          an "observed closed" edge of that channel, or a `defer` executed on
//          the way (dominating the return) runs a closure all of whose returns
//          are cut by such an edge.
//   clear  the channel variable is only ever overwritten with nil, and only
//          where the close was observed – which makes `ch == nil` an "observed
//          closed" edge too.
// "Observed closed" edges: ok == false of `v, ok := <-ch` (that is also the exit
// edge of `for range ch`), ok == false of a select receive case on ch, and
// ch == nil under the clear discipline.

type c31Chan struct {
	owner *ssa.Function
	cell  *ssa.Alloc // the captured variable holding the channel (nil if not captured)
	val   ssa.Value  // the channel value when there is no cell
	cells map[*ssa.FreeVar]bool
}

// c31ChanOf resolves the value stored into JoinRequest.C.
func c31ChanOf(owner *ssa.Function, v ssa.Value) *c31Chan {
	ch := &c31Chan{owner: owner, cells: map[*ssa.FreeVar]bool{}}
	for {
		if ct, ok := v.(*ssa.ChangeType); ok { // chan T -> chan<- T
			v = ct.X
			continue
		}
		if ct, ok := v.(*ssa.Convert); ok {
			v = ct.X
			continue
		}
		break
	}
	if u, ok := v.(*ssa.UnOp); ok && u.Op == token.MUL {
		if al, ok := u.X.(*ssa.Alloc); ok {
			ch.cell = al
		}
	}
	if ch.cell == nil {
		ch.val = v
	}
	// free variables of the closures of owner that are bound to the cell
	var bind func(f *ssa.Function, isCell func(ssa.Value) bool)
	bind = func(f *ssa.Function, isCell func(ssa.Value) bool) {
		allInstrs(f, false, func(_ *ssa.Function, in ssa.Instruction) {
			mc, ok := in.(*ssa.MakeClosure)
			if !ok {
				return
			}
			g := mc.Fn.(*ssa.Function)
			for i, b := range mc.Bindings {
				if isCell(b) && i < len(g.FreeVars) {
					ch.cells[g.FreeVars[i]] = true
				}
			}
			bind(g, func(x ssa.Value) bool {
				fv, ok := x.(*ssa.FreeVar)
				return ok && ch.cells[fv]
			})
		})
	}
	if ch.cell != nil {
		bind(owner, func(x ssa.Value) bool { return x == ch.cell })
	}
	return ch
}

func (ch *c31Chan) isCellAddr(v ssa.Value) bool {
	if ch.cell != nil && v == ch.cell {
		return true
	}
	fv, ok := v.(*ssa.FreeVar)
	return ok && ch.cells[fv]
}

// is: v denotes the channel (a load of the variable, or the value itself).
func (ch *c31Chan) is(v ssa.Value) bool {
	if ch.val != nil && v == ch.val {
		return true
	}
	if u, ok := v.(*ssa.UnOp); ok && u.Op == token.MUL {
		return ch.isCellAddr(u.X)
	}
	if cv, ok := v.(*ssa.ChangeType); ok {
		return ch.is(cv.X)
	}
	if cv, ok := v.(*ssa.Convert); ok {
		return ch.is(cv.X)
	}
	return false
}

// recvClosed: edge on which a receive from ch reported ok == false.
func (ch *c31Chan) recvClosed() EdgePred {
	return func(cond ssa.Value, pol bool) bool {
		if pol {
			return false
		}
		ex, ok := cond.(*ssa.Extract)
		if !ok || ex.Index != 1 {
			return false
		}
		switch t := ex.Tuple.(type) {
		case *ssa.UnOp:
			return t.Op == token.ARROW && t.CommaOk && ch.is(t.X)
		case *ssa.Select:
			// recvOk is false as well when a send case was chosen: the test must sit
			// inside the case of a receive from ch (index == k dominates it), and
			// every receive state must be on ch.
			k := -1
			for i, s := range t.States {
				if s.Dir == types.RecvOnly {
					if !ch.is(s.Chan) {
						return false
					}
					k = i
				}
			}
			if k < 0 {
				return false
			}
			isIdx := func(v ssa.Value) bool {
				e, ok := v.(*ssa.Extract)
				return ok && e.Tuple == t && e.Index == 0
			}
			isRecvState := func(v ssa.Value) bool {
				c, ok := constOf(v)
				if !ok {
					return false
				}
				for i, s := range t.States {
					if s.Dir == types.RecvOnly && c.String() == fmt.Sprint(i) {
						return true
					}
				}
				return false
			}
			return guardedCut(ex, eqCond(true, isIdx, isRecvState))
		}
		return false
	}
}

func c31Drain(m *c31Model) {
	c, p := m.c, m.p
	fC := c23FieldObj(c, p, c31Pkg, "JoinRequest.C")
	nOwners := 0
	for _, f := range p.AllFuncs() {
		if f.Blocks == nil || f.Pkg == nil || f.Pkg != p.SSAPkg(c31Pkg) {
			continue
		}
		var regs []*ssa.Store
		allInstrs(f, false, func(_ *ssa.Function, in ssa.Instruction) {
			if st, ok := in.(*ssa.Store); ok {
				if fa, ok := st.Addr.(*ssa.FieldAddr); ok && fieldVar(fa) == fC {
					regs = append(regs, st)
				}
			}
		})
		for _, reg := range regs {
			nOwners++
			c31DrainOwner(m, f, reg)
		}
	}
	if nOwners == 0 {
		c.Lost("no function stores a channel into JoinRequest.C")
	}
}

func c31DrainOwner(m *c31Model, f *ssa.Function, reg *ssa.Store) {
	c, p := m.c, m.p
	name := fnName(f)
	ch := c31ChanOf(f, reg.Val)
	// the channel must be made here (otherwise somebody else owns the receive side)
	made := false
	if ch.cell != nil {
		for _, r := range *ch.cell.Referrers() {
			if st, ok := r.(*ssa.Store); ok && st.Addr == ch.cell {
				if _, ok := st.Val.(*ssa.MakeChan); ok {
					made = true
				}
			}
		}
	} else if _, ok := ch.val.(*ssa.MakeChan); ok {
		made = true
	}
	if !made {
		c.Undecided("C31.drain/"+name+"/exit", p.Pos(reg.Pos()), "%s registers a channel (%s) in JoinRequest.C that it did not make: cannot tell who owns the receive side", name, path(reg.Val))
		return
	}

	// clear discipline: writes to the variable after the make
	clearOK := true
	funcs := withClosures([]*ssa.Function{f})
	for _, g := range funcs {
		allInstrs(g, false, func(_ *ssa.Function, in ssa.Instruction) {
			st, ok := in.(*ssa.Store)
			if !ok || !ch.isCellAddr(st.Addr) {
				return
			}
			if _, isMake := st.Val.(*ssa.MakeChan); isMake && g == f {
				return
			}
			key := "C31.drain/" + name + "/clear/" + fnName(g)
			if !isNilConst(st.Val) {
				clearOK = false
				c.Violate(key, p.Pos(st.Pos()), "%s replaces the channel it registered with the Processor by %s: the registered queue is no longer drained", fnName(g), path(st.Val))
				return
			}
			ok = guardedCut(st, ch.recvClosed())
			if !ok {
				clearOK = false
			}
			c.Check(ok, key, p.Pos(st.Pos()),
				"the channel variable is set to nil only where a receive reported the channel closed",
				fnName(g)+" sets the registered channel variable to nil on a path where no receive has reported it closed (ok == false): the drain loop stops while the Processor may still be sending, a blocked Processor stalls every workload's stream")
		})
	}
	closed := ch.recvClosed()
	if clearOK {
		closed = anyOf(closed, c23NilCond(true, ch.is))
	}

	// exits
	bad := ""
	var site token.Pos
	nRet := 0
	for _, r := range returnsOf(f) {
		if r.Block() == f.Recover || !instrReaches(reg, r) {
			continue
		}
		nRet++
		if guardedCut(r, closed) {
			continue
		}
		covered := false
		tried := ""
		allInstrs(f, false, func(_ *ssa.Function, in ssa.Instruction) {
			d, ok := in.(*ssa.Defer)
			if !ok || covered || !instrDominates(d, r) {
				return
			}
			mc, ok := d.Common().Value.(*ssa.MakeClosure)
			if !ok {
				return
			}
			g := mc.Fn.(*ssa.Function)
			all := true
			for _, gr := range returnsOf(g) {
				if gr.Block() == g.Recover {
					continue
				}
				if !guardedCut(gr, closed) {
					all = false
					at := gr.Pos()
					if at == token.NoPos {
						at = g.Pos()
					}
					tried = fmt.Sprintf("; deferred %s (%s) can finish without it", fnName(g), p.Pos(at))
				}
			}
			if all && len(returnsOf(g)) > 0 {
				covered = true
			}
		})
		if !covered && bad == "" {
			site = r.Pos()
			bad = fmt.Sprintf("%s can return at %s without having observed the close of the queue it registered in JoinRequest.C%s: "+
				"the Processor sends to it with a blocking send until it has handled the leave, so an undrained queue blocks the Processor and stalls every other workload's stream", name, p.Pos(r.Pos()), tried)
		}
	}
	if nRet == 0 {
		c.Lost("%s: no return reachable from the registration of the channel", name)
	}
	if site == token.NoPos {
		site = reg.Pos()
	}
	c.Check(bad == "", "C31.drain/"+name+"/exit", p.Pos(site),
		fmt.Sprintf("all %d return(s) after the registration happen only after the queue was observed closed (directly or in a deferred drain loop)", nRet), bad)
}
