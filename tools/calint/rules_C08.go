package main

import (
	"fmt"
	"go/constant"
	"go/token"
	"go/types"
	"net"
	"regexp"
	"sort"
	"strings"

	"golang.org/x/tools/go/ssa"
)

const (
	c08RulesPkg = "felix/rules"
	c08IptPkg   = "felix/iptables"
	c08NftPkg   = "felix/nftables"
	c08GtPkg    = "felix/generictables"
	c08ProtoPkg = "felix/proto"

	c08MatchIface  = "felix/generictables.MatchCriteria"
	c08ActionIface = "felix/generictables.ActionFactory"
)

func init() {
	register(&Property{
		ID:        "C08",
		Title:     "Rendered iptables/nftables rules match exactly what the policy rule says",
		Technique: "static analysis: field-coverage, call-string-sensitive may-derive data flow from proto.Rule fields to MatchCriteria methods, forward flow of matches into Rule literals, phi/guard table of the action switch, constant format-string pairing of sibling matchers, must-be-fresh origin analysis of written messages, guard (cut) analysis of version-dependent choices resolved to the root parameter, per-path operand coverage of the mark-action renderers, typestate abstract interpretation of the match-block builder (go/ssa over felix/rules, felix/iptables, felix/nftables)",
		DesignRef: "DESIGN.md §3 C08",
		Explanation: "Decides structural necessary conditions of exact rendering: (cover) every match field of proto.Rule is read in the closure of ProtoRuleToIptablesRules and reaches at least one MatchCriteria method of its family; " +
			"(wiring) at every MatchCriteria call reachable from ProtoRuleToIptablesRules, in every feasible call-string context, each argument derived from rule field F is passed to a matcher of F's family, F's direction (Src↔Source, Dst↔Dest) and F's polarity, " +
			"where polarity = Not-prefix of the method XOR 'the Rule literal the match is stored in clears the all-blocks-pass bit' (negated block); oneof wrappers (type vs type+code, name vs number) and ICMP v4/v6 methods agree with their guards; non-field matchers receive no rule-field data; " +
			"(scratch) every mark operand used by matchBlockBuilder (actions and mark matches) derives only from its two mark fields (or zero), which its only constructor initialises from Config.MarkScratch0/1, and the final match tests markAllBlocksPass; " +
			"(actions) in CombineMatchAndActionsForProtoRule the mark set on match is MarkAccept exactly under \"\"/allow, MarkPass under pass/next-tier, MarkDrop under deny (with the deny action; allow/pass return), the SetMark rule carries the full match, and unknown actions panic; " +
			"(nft) for both back ends every Not* matcher renders its positive sibling's fragment with exactly one negation operator, and Source*/Dest* siblings render different fragments; " +
			"(private) every write into a felix/proto message reachable from ProtoRuleToIptablesRules / FilterRuleToIPVersion inside felix/rules targets, on every phi/return path and in every call-string context, a fresh allocation or a deep copy (proto.Clone / Clone* / DeepCopy*), never the rule passed in by the caller (which is rendered again for the other IP version / table / re-render); " +
			"(ipver) within one rendering every IPv4/IPv6-dependent choice — use or selection of Config.IPSetConfigV4 vs V6, ICMP* vs ICMPV6* matcher, the version handed to FilterRuleToIPVersion and to every helper that receives it — is decided on the ipVersion parameter of ProtoRuleToIptablesRules (resolved through the call string, closures and captured variables), never on the rule's optional ip_version field or a constant; a helper that has no version parameter may take such decisions only where its callers' guards establish them (ipver/arg/<fn>/none), and the IPv4/IPv6 classification of a rule CIDR is only compared with a test of that parameter (ipver/family); " +
			"(catchall) a rule CIDR is compared with a /0 literal (\"matches everything\": drop the rule / elide the match) only where it is established to be of the family being rendered — under a test of the ipVersion for the literal's family, or behind the family filter on the same CIDR; " +
			"(markops) in both back ends every Action type with uint32 operands (SetMark, ClearMark, SetMaskedMark, SetConnMark, Save/RestoreConnMark, LimitPacketRate) uses each operand on every rendering path of ToFragment unless a guard fixes its value, and the bit-complemented operand (`mark & ^x`) is the Mask; " +
			"(blockbit) typestate of the two scratch bits over every rule sequence matchBlockBuilder can emit, by abstract interpretation of its SSA with the builder's bool flags tracked concretely: markThisBlockPass is reset before every block that accumulates into it and never matched on while stale or uninitialised; markAllBlocksPass is initialised before its first use, OR-accumulated only on a fresh 0, AND-ed (conditionally cleared) only when it can be 1, and never re-initialised or set once it holds a block's result.",
		NotDecided: "Kernel evaluation of the rendered rules; port-split arithmetic (SplitPortList 15-slot packing), CIDR/IP-version filtering arithmetic, the full algebra of the mark-bit blocks (blockbit decides the reset/initialise/accumulate protocol of the two bits, not that each block's alternatives are the right ones; a design that alternates the polarity of the scratch bit per block would be reported although it can be correct), textual syntax accepted by iptables-restore/nft; mutation of the caller's rule through opaque callees (sort, proto.Merge, append into a shared backing array) or by renderers outside felix/rules; whether callers pass an ipVersion that agrees with the table the rules are programmed into; catch-all tests that are not an ==/!=/switch comparison with a /0 literal (parsed prefix length, set lookup); a two-pass filter (family filter in one loop, catch-all test over its result in another) is reported as undecided, not decided.",
		Assumptions: []string{
			"go/types + go/ssa (x/tools v0.50.0) model of the current source, CGO_ENABLED=0 build",
			"a call without an analysable body returns data derived only from its arguments/receiver",
			"logrus Panic*/Fatal* do not return",
			"field/method name spaces of proto.Rule and generictables.MatchCriteria carry their meaning (Not*, Src*/Dst*, Source*/Dest*)",
		},
		Run: runC08,
		Fixtures: []Fixture{
			{Name: "negated src IP sets rendered with the positive matcher", File: "felix/rules/policy.go",
				Old: "match = match.NotSourceIPSet(ipsetName)", New: "match = match.SourceIPSet(ipsetName)", Expect: "C08.wiring/DefaultRuleRenderer.CalculateRuleMatch/SourceIPSet/NotSrcIpSetIds"},
			{Name: "dst named ports matched against source", File: "felix/rules/policy.go",
				Old: "}).Debug(\"Adding dest named port match\")\n\t\tmatch = match.DestIPPortSet(ipsetName)", New: "}).Debug(\"Adding dest named port match\")\n\t\tmatch = match.SourceIPPortSet(ipsetName)", Expect: "C08.wiring/DefaultRuleRenderer.CalculateRuleMatch/SourceIPPortSet/DstNamedPortIpSetIds"},
			{Name: "dst CIDR block rendered with src direction", File: "felix/rules/policy.go",
				Old: "matchBlockBuilder.AppendCIDRMatchBlock(ruleCopy.DstNet, dst)", New: "matchBlockBuilder.AppendCIDRMatchBlock(ruleCopy.DstNet, src)", Expect: "C08.wiring/srcOrDst.MatchNet/SourceNet/DstNet"},
			{Name: "srcOrDst helper swaps directions", File: "felix/rules/policy.go",
				Old: "\tcase src:\n\t\treturn m.SourceIPPortSet(setID)\n\tcase dst:\n\t\treturn m.DestIPPortSet(setID)", New: "\tcase dst:\n\t\treturn m.SourceIPPortSet(setID)\n\tcase src:\n\t\treturn m.DestIPPortSet(setID)", Expect: "C08.wiring/srcOrDst.MatchIPPortIPSet/"},
			{Name: "negated CIDR block sets the pass bit instead of clearing it", File: "felix/rules/policy.go",
				Old: "\t\t\t\tMatch:  srcOrDst.MatchNet(r.newMatch(), cidr),\n\t\t\t\tAction: r.actions.ClearMark(r.markAllBlocksPass),", New: "\t\t\t\tMatch:  srcOrDst.MatchNet(r.newMatch(), cidr),\n\t\t\t\tAction: r.actions.SetMark(r.markAllBlocksPass),", Expect: "C08.wiring/srcOrDst.MatchNet/SourceNet/NotSrcNet"},
			{Name: "ICMP type-only rule also rendered through the type+code matcher", File: "felix/rules/policy.go",
				Old: "match = match.ICMPType(uint8(icmp.IcmpType))", New: "match = match.ICMPType(uint8(icmp.IcmpType))\n\t\t\tmatch = match.ICMPTypeAndCode(uint8(icmp.IcmpType), 0)", Expect: "C08.wiring/DefaultRuleRenderer.CalculateRuleMatch/ICMPTypeAndCode/Icmp"},
			{Name: "ICMP code and type swapped", File: "felix/rules/policy.go",
				Old: "match = match.ICMPV6TypeAndCode(\n\t\t\t\tuint8(icmp.IcmpTypeCode.Type), uint8(icmp.IcmpTypeCode.Code))", New: "match = match.ICMPV6TypeAndCode(\n\t\t\t\tuint8(icmp.IcmpTypeCode.Code), uint8(icmp.IcmpTypeCode.Type))", Expect: "C08.wiring/DefaultRuleRenderer.CalculateRuleMatch/ICMPV6TypeAndCode/Icmp"},
			{Name: "NotDstIpSetIds no longer rendered", File: "felix/rules/policy.go",
				Old: "for _, ipsetID := range pRule.NotDstIpSetIds {", New: "for _, ipsetID := range pRule.NotSrcIpSetIds[:0] {", Expect: "C08.cover/NotDstIpSetIds"},
			{Name: "block builder clears the accept mark", File: "felix/rules/policy.go",
				Old: "\t\tMatch:  r.newMatch().MarkClear(r.markThisBlockPass),\n\t\tAction: r.actions.ClearMark(r.markAllBlocksPass),", New: "\t\tMatch:  r.newMatch().MarkClear(r.markThisBlockPass),\n\t\tAction: r.actions.ClearMark(r.markAllBlocksPass | 0x8),", Expect: "C08.scratch/operand/matchBlockBuilder.finishPositiveBlock/ClearMark"},
			{Name: "block builder initialised from the pass mark", File: "felix/rules/policy.go",
				Old: "markThisBlockPass: r.MarkScratch1,", New: "markThisBlockPass: r.MarkPass,", Expect: "C08.scratch/init/markThisBlockPass"},
			{Name: "pass action sets the accept mark", File: "felix/rules/policy.go",
				Old: "mark = r.MarkPass\n", New: "mark = r.MarkAccept\n", Expect: "C08.actions/mark/pass"},
			{Name: "unknown action no longer panics", File: "felix/rules/policy.go",
				Old: "logrus.WithField(\"action\", pRule.Action).Panic(\"Unknown rule action\")", New: "logrus.WithField(\"action\", pRule.Action).Warn(\"Unknown rule action\")", Expect: "C08.actions/unknown-panics"},
			{Name: "deny renders a return instead of the deny action", File: "felix/rules/policy.go",
				Old: "\t\t\tAction: r.IptablesFilterDenyAction(),\n\t\t})\n\tcase \"log\":", New: "\t\t\tAction: r.Return(),\n\t\t})\n\tcase \"log\":", Expect: "C08.actions/verdict/deny"},
			{Name: "iptables NotDestNet loses its negation", File: "felix/iptables/match_builder.go",
				Old: "fmt.Sprintf(\"! --destination %s\", net)", New: "fmt.Sprintf(\"--destination %s\", net)", Expect: "C08.nft/negation/iptables.matchCriteria.NotDestNet"},
			{Name: "FilterRuleToIPVersion returns the caller's rule on a no-CIDR fast path", File: "felix/rules/policy.go",
				Old: "\truleCopy.SrcNet, filteredAll = filterNets(pRule.SrcNet, ipVersion, false)", New: "\tif len(pRule.SrcNet)+len(pRule.DstNet) == 0 {\n\t\treturn pRule\n\t}\n\truleCopy.SrcNet, filteredAll = filterNets(pRule.SrcNet, ipVersion, false)", Expect: "C08.private/DefaultRuleRenderer.ProtoRuleToIptablesRules/Rule.SrcPorts"},
			{Name: "negated dst CIDRs consumed from the caller's rule instead of the working copy", File: "felix/rules/policy.go",
				Old: "matchBlockBuilder.AppendNegatedCIDRMatchBlock(ruleCopy.NotDstNet, dst)\n\t\t// Since we're using a block for this, nil out the match.\n\t\truleCopy.NotDstNet = nil", New: "matchBlockBuilder.AppendNegatedCIDRMatchBlock(ruleCopy.NotDstNet, dst)\n\t\t// Since we're using a block for this, nil out the match.\n\t\tpRule.NotDstNet, ruleCopy.NotDstNet = nil, nil", Expect: "C08.private/DefaultRuleRenderer.ProtoRuleToIptablesRules/Rule.NotDstNet"},
			{Name: "FilterRuleToIPVersion filters the src CIDRs of the caller's rule in place", File: "felix/rules/policy.go",
				Old: "\truleCopy.SrcNet, filteredAll = filterNets(pRule.SrcNet, ipVersion, false)", New: "\tpRule.SrcNet, filteredAll = filterNets(pRule.SrcNet, ipVersion, false)\n\truleCopy.SrcNet = pRule.SrcNet", Expect: "C08.private/FilterRuleToIPVersion/Rule.SrcNet"},
			{Name: "port-block IP set config chosen from the rule's optional ip_version", File: "felix/rules/policy.go",
				Old: "\tif ipVersion == 4 {\n\t\tipSetConfig = r.IPSetConfigV4\n\t} else {", New: "\tif ruleCopy.IpVersion != proto.IPVersion_IPV6 {\n\t\tipSetConfig = r.IPSetConfigV4\n\t} else {", Expect: "C08.ipver/ipset/DefaultRuleRenderer.ProtoRuleToIptablesRules/IPSetConfigV6"},
			{Name: "main-rule IP set names chosen from the rule's optional ip_version", File: "felix/rules/policy.go",
				Old: "\t\tif ipVersion == 4 {\n\t\t\treturn r.IPSetConfigV4.NameForMainIPSet(ipsetID)", New: "\t\tif pRule.IpVersion != proto.IPVersion_IPV6 {\n\t\t\treturn r.IPSetConfigV4.NameForMainIPSet(ipsetID)", Expect: "C08.ipver/ipset/DefaultRuleRenderer.CalculateRuleMatch/IPSetConfigV4"},
			{Name: "negated ICMP matcher family chosen from the rule's optional ip_version", File: "felix/rules/policy.go",
				Old: "\tif ipVersion == 4 {\n\t\tswitch icmp := pRule.NotIcmp.(type) {", New: "\tif pRule.IpVersion != proto.IPVersion_IPV6 {\n\t\tswitch icmp := pRule.NotIcmp.(type) {", Expect: "C08.ipver/icmp/DefaultRuleRenderer.CalculateRuleMatch/NotICMPV6Type"},
			{Name: "rule filtered to its own declared ip_version instead of the rendered one", File: "felix/rules/policy.go",
				Old: "ruleCopy := FilterRuleToIPVersion(ipVersion, pRule)", New: "ruleCopy := FilterRuleToIPVersion(uint8(pRule.IpVersion), pRule)", Expect: "C08.ipver/arg/FilterRuleToIPVersion/0"},
			{Name: "negated CIDRs filtered for a fixed IP version", File: "felix/rules/policy.go",
				Old: "filterNets(pRule.NotDstNet, ipVersion, true)", New: "filterNets(pRule.NotDstNet, 4, true)", Expect: "C08.ipver/arg/filterNets/1"},
			{Name: "negated catch-all CIDR of the other family drops the rule (check hoisted in front of the family filter, inline)", File: "felix/rules/policy.go",
				Old:    "\t\tif isV6 != wantV6 {\n\t\t\tcontinue\n\t\t}\n\n\t\t// Check for catch-all CIDR in negated context, which creates logical contradictions\n\t\tif isNegated && isCatchAllCIDR(net, ipVersion) {",
				New:    "\t\tif isV6 != wantV6 && !(isNegated && (net == \"0.0.0.0/0\" || net == \"::/0\")) {\n\t\t\tcontinue\n\t\t}\n\n\t\tif isNegated && (net == \"0.0.0.0/0\" || net == \"::/0\") {",
				Expect: "C08.catchall/filterNets/v6"},
			{Name: "catch-all predicate loses its version test and is asked before the family filter (seed C08-3)", File: "felix/rules/policy.go",
				Old:    "\t\tisV6 := strings.Contains(net, \":\")\n\t\tif isV6 != wantV6 {\n\t\t\tcontinue\n\t\t}\n\n\t\t// Check for catch-all CIDR in negated context, which creates logical contradictions\n\t\tif isNegated && isCatchAllCIDR(net, ipVersion) {\n\t\t\tlogrus.WithFields(logrus.Fields{\n\t\t\t\t\"cidr\":      net,\n\t\t\t\t\"ipVersion\": ipVersion,\n\t\t\t\t\"negated\":   isNegated,\n\t\t\t}).Warn(\"Ignoring rule with negated catch-all CIDR to prevent iptables logical contradiction\")\n\t\t\t// Return filteredAll=true to indicate the entire rule should be dropped\n\t\t\treturn nil, true\n\t\t}\n\n\t\tfiltered = append(filtered, net)\n\t\tfilteredAll = false\n\t}\n\treturn\n}\n\n// isCatchAllCIDR returns true if the CIDR represents \"all addresses\" for the given IP version.\n// This is used to detect problematic negated matches that would create logical contradictions.\nfunc isCatchAllCIDR(cidr string, ipVersion uint8) bool {\n\treturn (ipVersion == 4 && cidr == \"0.0.0.0/0\") || (ipVersion == 6 && cidr == \"::/0\")",
				New:    "\t\tif isNegated && isCatchAllCIDR(net) {\n\t\t\treturn nil, true\n\t\t}\n\t\tisV6 := strings.Contains(net, \":\")\n\t\tif isV6 != wantV6 {\n\t\t\tcontinue\n\t\t}\n\n\t\tfiltered = append(filtered, net)\n\t\tfilteredAll = false\n\t}\n\treturn\n}\n\nfunc isCatchAllCIDR(cidr string) bool {\n\treturn cidr == \"0.0.0.0/0\" || cidr == \"::/0\"",
				Expect: "C08.ipver/arg/isCatchAllCIDR/none"},
			{Name: "positive CIDRs filtered by the rule's optional ip_version instead of the rendered one", File: "felix/rules/policy.go",
				Old: "filterNets(pRule.SrcNet, ipVersion, false)", New: "filterNets(pRule.SrcNet, uint8(pRule.IpVersion), false)", Expect: "C08.ipver/family/filterNets"},
			{Name: "nft masked mark set with Mark==0 delegates to a clear of the Mark bits, i.e. of nothing (seed C08-4)", File: "felix/nftables/actions.go",
				Old:    "func (c SetMaskedMarkAction) ToFragment(features *environment.Features) string {\n",
				New:    "func (c SetMaskedMarkAction) ToFragment(features *environment.Features) string {\n\tif c.Mark == 0 {\n\t\treturn ClearMarkAction{Mark: c.Mark}.ToFragment(features)\n\t}\n",
				Expect: "C08.markops/uses/nftables.SetMaskedMarkAction/Mask"},
			{Name: "iptables masked mark set renders the mark as its own mask", File: "felix/iptables/actions.go",
				Old:    "func (c SetMaskedMarkAction) ToFragment(features *environment.Features) string {\n\treturn fmt.Sprintf(\"--jump MARK --set-mark %#x/%#x\", c.Mark, c.Mask)",
				New:    "func (c SetMaskedMarkAction) ToFragment(features *environment.Features) string {\n\treturn fmt.Sprintf(\"--jump MARK --set-mark %#x/%#x\", c.Mark, c.Mark)",
				Expect: "C08.markops/uses/iptables.SetMaskedMarkAction/Mask"},
			{Name: "nft connmark set keeps the complement of the mark instead of the mask", File: "felix/nftables/actions.go",
				Old:    "fmt.Sprintf(\"ct mark set ct mark & %#x ^ %#x\", (c.Mask ^ 0xffffffff), c.Mark)",
				New:    "fmt.Sprintf(\"ct mark set ct mark & %#x ^ %#x\", (c.Mark ^ 0xffffffff), c.Mask)",
				Expect: "C08.markops/complement/nftables.SetConnMarkAction"},
			{Name: "initial rule no longer resets the this-block scratch bit", File: "felix/rules/policy.go",
				Old: "r.markAllBlocksPass|r.markThisBlockPass,", New: "r.markAllBlocksPass,",
				Expect: "C08.blockbit/markThisBlockPass/matchBlockBuilder.finishPositiveBlock/MarkClear/uninit"},
			{Name: "first-positive-block latch never set: later positive blocks OR into the all-blocks bit", File: "felix/rules/policy.go",
				Old: "r.doneFirstPositiveMatchBlock = true", New: "r.doneFirstPositiveMatchBlock = false",
				Expect: "C08.blockbit/markAllBlocksPass/matchBlockBuilder.AppendCIDRMatchBlock/SetMark/clobber"},
			{Name: "negated first block starts from a cleared all-blocks bit", File: "felix/rules/policy.go",
				Old: "r.maybeAppendInitialRule(r.markAllBlocksPass)", New: "r.maybeAppendInitialRule(0)",
				Expect: "C08.blockbit/markAllBlocksPass/matchBlockBuilder.AppendNegatedCIDRMatchBlock/ClearMark/never"},
			{Name: "final rule tests the accept mark instead of the all-blocks-pass bit", File: "felix/rules/policy.go",
				Old: "match = match.MarkSingleBitSet(matchBlockBuilder.markAllBlocksPass)", New: "match = match.MarkSingleBitSet(r.MarkAccept)",
				Expect: "C08.scratch/final-test"},
			{Name: "nft DestIPSet matches on saddr", File: "felix/nftables/match_builder.go",
				Old: "fmt.Sprintf(\"<IPV> daddr @%s\", LegalizeSetName(name))", New: "fmt.Sprintf(\"<IPV> saddr @%s\", LegalizeSetName(name))", Expect: "C08.nft/direction/nftables.nftMatch.DestIPSet"},
		},
	})
}

// ------------------------------------------------------------ field universe --

// c08MatchFieldUniverse computes the match-field universe M of proto.Rule: the
// exported fields of the generated struct minus the reasoned exclusions below.
// It works on any Prog that (transitively) imports felix/proto; nil if
// proto.Rule cannot be resolved (callers must c.Lost).  Used by C08, C11, C12,
// C30.  The result is sorted.
//
// Exclusions (each is *not* a packet match of the L3/L4 dataplanes):
//   - unexported fields (state, unknownFields, sizeCache): protobuf runtime internals.
//   - Action: the rule's verdict, not a match (decided by C08.actions / C12.actions).
//   - Original*: the selector / service / namespace-selector source text the calc
//     graph has already compiled into IP-set ids; carried for diagnostics and flow logs only.
//   - Metadata: annotations, rendered as rule comments only.
//   - RuleId: identity used for statistics / flow-log correlation.
//   - HttpMatch, SrcServiceAccountMatch, DstServiceAccountMatch: L7 / workload-identity
//     criteria evaluated only by the application-layer policy checker (app-policy);
//     a packet filter cannot observe them.
//
// IpVersion is *in* M: a rule only applies to packets of that IP version.
func c08MatchFieldUniverse(p *Prog) []string {
	obj := p.LookupExt(c08ProtoPkg, "Rule")
	if obj == nil {
		obj = p.LookupObj(c08ProtoPkg, "Rule")
	}
	if obj == nil {
		return nil
	}
	var out []string
	for _, f := range structFieldNames(obj.Type(), true) {
		if c08ExcludedField(f) != "" {
			continue
		}
		out = append(out, f)
	}
	sort.Strings(out)
	return out
}

// c08ExcludedField returns the reason a proto.Rule field is outside M ("" = in M).
func c08ExcludedField(f string) string {
	switch {
	case f == "Action":
		return "verdict, not a match"
	case strings.HasPrefix(f, "Original"):
		return "source text of an already-compiled selector/service (diagnostics only)"
	case f == "Metadata":
		return "annotations (comments only)"
	case f == "RuleId":
		return "identity for statistics"
	case f == "HttpMatch", f == "SrcServiceAccountMatch", f == "DstServiceAccountMatch":
		return "L7/identity criterion evaluated only by app-policy"
	}
	return ""
}

// c08Class is the (polarity, direction, family) reading of a name.
type c08Class struct {
	Neg bool
	Dir string // "", "src", "dst"
	Fam string // net ports ipset ipportset protocol icmp ipversion; "" = none
}

func c08ClassifyField(name string) c08Class {
	var c c08Class
	n := name
	if strings.HasPrefix(n, "Not") {
		c.Neg, n = true, n[3:]
	}
	switch {
	case strings.HasPrefix(n, "Src"):
		c.Dir, n = "src", n[3:]
	case strings.HasPrefix(n, "Dst"):
		c.Dir, n = "dst", n[3:]
	}
	switch n {
	case "Net":
		c.Fam = "net"
	case "Ports":
		c.Fam = "ports"
	case "IpSetIds":
		c.Fam = "ipset"
	case "NamedPortIpSetIds", "IpPortSetIds":
		c.Fam = "ipportset"
	case "Protocol":
		c.Fam = "protocol"
	case "Icmp":
		c.Fam = "icmp"
	case "IpVersion":
		c.Fam = "ipversion"
	}
	if (c.Dir == "") != (c.Fam == "protocol" || c.Fam == "icmp" || c.Fam == "ipversion" || c.Fam == "") {
		c.Fam = ""
	}
	return c
}

func c08ClassifyMethod(name string) c08Class {
	var c c08Class
	n := name
	if strings.HasPrefix(n, "Not") {
		c.Neg, n = true, n[3:]
	}
	switch {
	case strings.HasPrefix(n, "Source"):
		c.Dir, n = "src", n[6:]
	case strings.HasPrefix(n, "Src"):
		c.Dir, n = "src", n[3:]
	case strings.HasPrefix(n, "Dest"):
		c.Dir, n = "dst", n[4:]
	case strings.HasPrefix(n, "Dst"):
		c.Dir, n = "dst", n[3:]
	}
	if c.Dir != "" {
		switch n {
		case "Net":
			c.Fam = "net"
		case "IPSet":
			c.Fam = "ipset"
		case "IPPortSet":
			c.Fam = "ipportset"
		case "PortRanges", "Ports", "Port":
			c.Fam = "ports"
		}
		return c
	}
	switch {
	case n == "Protocol" || n == "ProtocolNum":
		c.Fam = "protocol"
	case strings.HasPrefix(n, "ICMP"):
		c.Fam = "icmp"
	}
	return c
}

// ------------------------------------------------------------------- driver --

type c08Model struct {
	c    *Ctx
	p    *Prog
	ev   *c08Eval
	root *ssa.Function
	inRP func(*ssa.Function) bool
}

func c08NewModel(c *Ctx, p *Prog) *c08Model {
	m := &c08Model{c: c, p: p}
	m.root = p.Func(c08RulesPkg, "DefaultRuleRenderer.ProtoRuleToIptablesRules")
	if m.root == nil {
		c.Lost("DefaultRuleRenderer.ProtoRuleToIptablesRules")
	}
	rp := p.SSAPkg(c08RulesPkg)
	if rp == nil {
		c.Lost("package felix/rules")
	}
	m.inRP = func(f *ssa.Function) bool { return topFn(f).Pkg == rp }
	m.ev = &c08Eval{
		terminal: func(q string) bool {
			return q == c08ProtoPkg+".Rule" || q == c08RulesPkg+".matchBlockBuilder" || q == c08RulesPkg+".Config"
		},
		bodyOK: m.inRP,
	}
	return m
}

func runC08(c *Ctx) {
	p := c.Load(c08RulesPkg, c08IptPkg, c08NftPkg, c08GtPkg)
	m := c08NewModel(c, p)

	c.Rule("C08.cover", "E-FIELDS", "every match field of proto.Rule (universe M) is read in the closure of ProtoRuleToIptablesRules and reaches a MatchCriteria method of its family", 22)
	c.Rule("C08.wiring", "E-FLOW", "each rule-field-derived argument of a MatchCriteria call agrees with the method in family, direction and polarity (negated-block aware), in every feasible call-string context", 41)
	c.Rule("C08.scratch", "E-FLOW", "matchBlockBuilder mark operands derive only from its two mark fields, initialised from Config.MarkScratch0/1 by the only constructor", 10)
	c.Rule("C08.actions", "E-TABLE", "action→mark table of CombineMatchAndActionsForProtoRule: allow→MarkAccept+return, pass→MarkPass+return, deny→MarkDrop+deny action; full match on the SetMark rule; unknown→panic", 16)
	c.Rule("C08.nft", "E-CONST", "per back end: Not* matcher fragment = positive sibling's fragment with exactly one negation operator; Source*/Dest* siblings differ", 67)

	m.ev.flagGuards = true // wiring is decided per feasible call string, incl. helpers specialised by a bool flag
	reached := c08Wiring(m)
	m.ev.flagGuards = false
	c08Cover(m, reached)
	c08Scratch(m)
	c08Actions(m)
	c08Siblings(m)

	c.Rule("C08.private", "E-FLOW", "every write into a felix/proto message in the closure of ProtoRuleToIptablesRules / FilterRuleToIPVersion targets, on every path and in every call-string context, a fresh allocation or deep copy — never the caller's rule", 12)
	c.Rule("C08.ipver", "E-GUARD", "every IPv4/IPv6-dependent choice of one rendering (IPSetConfigV4/V6 use, ICMP vs ICMPV6 matcher, version argument of helpers) is decided on the ipVersion parameter of ProtoRuleToIptablesRules; a helper without a version parameter takes such decisions only under its callers' guards", 17)
	c.Rule("C08.catchall", "E-GUARD", "a rule CIDR is only judged 'catch-all' (/0 — drop the rule / elide the match) where it is established to be of the IP family being rendered: the comparison is guarded by a test of the rendering's ipVersion for the literal's family, or by the family filter on the same CIDR", 2)
	c08Private(m)
	c08IPVer(m)

	c.Rule("C08.markops", "E-FLOW", "per back end, every Action type with uint32 (mark word / mask) operands: each rendering path of ToFragment uses each operand unless a guard fixes its value (operand == constant), and the bit-complemented operand is the Mask", 20)
	c08MarkOps(m)

	c.Rule("C08.blockbit", "E-ORDER", "typestate of the two scratch bits over every rule sequence matchBlockBuilder can emit (builder flags tracked concretely): the this-block bit is reset before each block that accumulates into it and never read stale/uninitialised; the all-blocks bit is initialised before use, OR-accumulated only on a fresh 0, never re-initialised or set once it holds a block result", 10)
	c08BlockBits(m)
}

// -------------------------------------------------------------------- cover --

func c08Cover(m *c08Model, reached map[string]map[string]bool) {
	c, p := m.c, m.p
	M := c08MatchFieldUniverse(p)
	if len(M) == 0 {
		c.Lost("proto.Rule / match-field universe")
	}
	ruleT := p.LookupExt(c08ProtoPkg, "Rule")
	clo := p.closure(m.root)
	read := fieldsRead(clo, ruleT.Type())
	site := p.Pos(m.root.Pos())
	for _, f := range M {
		key := "C08.cover/" + f
		cl := c08ClassifyField(f)
		if cl.Fam == "" {
			c.Violate(key, site, "proto.Rule field %s is in the match-field universe but has no (polarity, direction, family) reading: classify it or add a reasoned exclusion", f)
			continue
		}
		if len(read[f]) == 0 {
			c.Violate(key, site, "match field proto.Rule.%s is never read in the closure of ProtoRuleToIptablesRules (a rule using it renders as if the criterion were absent)", f)
			continue
		}
		if cl.Fam == "ipversion" {
			c.Ok(key, p.Pos(read[f][0].Pos()), "read (%d sites); gates the whole rule", len(read[f]))
			continue
		}
		ms := sortedKeys(reached[f])
		if len(ms) == 0 {
			c.Violate(key, site, "match field proto.Rule.%s is read but no value derived from it reaches a MatchCriteria method", f)
			continue
		}
		c.Ok(key, p.Pos(read[f][0].Pos()), "read at %d sites; reaches %s", len(read[f]), strings.Join(ms, ","))
	}
}

// ------------------------------------------------------------------- wiring --

type c08Verdict struct {
	site string
	bad  []string
	ok   []string
}

func c08Wiring(m *c08Model) map[string]map[string]bool {
	c, p, ev := m.c, m.p, m.ev
	isMatchInvoke := func(cc *ssa.CallCommon) bool { return c08IsInvokeOf(cc, c08MatchIface) }
	res := map[string]*c08Verdict{}
	add := func(key, site string, ok bool, text string) {
		v := res[key]
		if v == nil {
			v = &c08Verdict{site: site}
			res[key] = v
		}
		if ok {
			v.ok = append(v.ok, text)
		} else {
			v.bad = append(v.bad, text)
		}
	}
	reached := map[string]map[string]bool{}
	visited := map[ssa.Instruction]bool{}
	nonField := map[string]*c08Verdict{}

	c08Instances(m.root, m.inRP, func(ctx *c08Ctx) {
		allInstrs(ctx.fn, false, func(fn *ssa.Function, in ssa.Instruction) {
			call, ok := in.(*ssa.Call)
			if !ok || !isMatchInvoke(call.Common()) {
				return
			}
			if !ev.feasible(in, ctx) {
				visited[in] = true // reachable by call string, pruned by a constant guard
				return
			}
			visited[in] = true
			cc := call.Common()
			meth := cc.Method.Name()
			mc := c08ClassifyMethod(meth)
			site := p.Pos(in.Pos())
			var argFacts []*c08Facts
			fields := map[string]bool{}
			for _, a := range cc.Args {
				f := ev.facts(a, ctx)
				argFacts = append(argFacts, f)
				for q := range f.Fields {
					if strings.HasPrefix(q, "Rule.") {
						fields[strings.TrimPrefix(q, "Rule.")] = true
					}
				}
			}
			if mc.Fam == "" {
				key := "C08.wiring/" + fnName(fn) + "/" + meth + "/no-rule-data"
				v := nonField[key]
				if v == nil {
					v = &c08Verdict{site: site}
					nonField[key] = v
				}
				if len(fields) > 0 {
					v.bad = append(v.bad, fmt.Sprintf("in context %s rule field(s) %v reach the non-field matcher %s", ctx, sortedKeys(fields), meth))
				} else {
					v.ok = append(v.ok, ctx.String())
				}
				return
			}
			if len(fields) == 0 {
				return // constant / config data only (not on this root's paths today)
			}
			// Polarity of the enclosing rule: does the literal this match ends
			// up in clear the all-blocks-pass bit?
			lits := ev.ruleLiterals(call, ctx, isMatchInvoke)
			nClear, nOther := 0, 0
			clearOperandOK := true
			for _, l := range lits {
				names, calls := c08LiteralActions(l)
				isClear := false
				for i, n := range names {
					if n == "ClearMark" {
						isClear = true
						of := ev.facts(calls[i].Common().Args[0], l.Ctx)
						if len(of.Fields) != 1 || !of.Fields["matchBlockBuilder.markAllBlocksPass"] {
							clearOperandOK = false
						}
					}
				}
				if isClear {
					nClear++
				} else {
					nOther++
				}
			}
			for _, f := range sortedKeys(fields) {
				fc := c08ClassifyField(f)
				key := "C08.wiring/" + fnName(fn) + "/" + meth + "/" + f
				if reached[f] == nil {
					reached[f] = map[string]bool{}
				}
				var probs []string
				if fc.Fam == "" || fc.Fam != mc.Fam {
					probs = append(probs, fmt.Sprintf("family %q of the field differs from family %q of the matcher", fc.Fam, mc.Fam))
				} else {
					reached[f][meth] = true
				}
				if fc.Dir != mc.Dir {
					probs = append(probs, fmt.Sprintf("direction %q of the field differs from direction %q of the matcher", fc.Dir, mc.Dir))
				}
				switch {
				case len(lits) == 0:
					probs = append(probs, "the match value does not reach the Match field of any generictables.Rule literal (criterion dropped)")
				case nClear > 0 && nOther > 0:
					probs = append(probs, "the match value reaches both pass-bit-clearing and other Rule literals; polarity undecidable")
				default:
					blockNeg := nClear > 0
					if blockNeg && !clearOperandOK {
						probs = append(probs, "enclosing rule clears a mark other than matchBlockBuilder.markAllBlocksPass")
					}
					eff := mc.Neg != blockNeg
					if eff != fc.Neg {
						probs = append(probs, fmt.Sprintf("polarity: field negated=%v but matcher negated=%v inside a %s rule", fc.Neg, mc.Neg, map[bool]string{true: "pass-bit-clearing (negated block)", false: "positive"}[blockNeg]))
					}
				}
				// oneof wrappers and sub-fields
				for ai, af := range argFacts {
					if !af.Fields["Rule."+f] {
						continue
					}
					for w := range af.Wrap {
						if pr := c08WrapperProblem(w, meth); pr != "" {
							probs = append(probs, pr)
						}
					}
					if strings.HasSuffix(meth, "TypeAndCode") {
						want := []string{"IcmpTypeAndCode.Type", "IcmpTypeAndCode.Code"}
						if ai < 2 && (!af.Sub[want[ai]] || af.Sub[want[1-ai]]) {
							probs = append(probs, fmt.Sprintf("argument %d of %s must derive from %s only (derives from %v)", ai, meth, want[ai], sortedKeys(af.Sub)))
						}
					}
				}
				// (the v4/v6 family of ICMP matchers is decided by C08.ipver/icmp)
				if len(probs) > 0 {
					add(key, site, false, fmt.Sprintf("in context %s: value of proto.Rule.%s passed to %s: %s", ctx, f, meth, strings.Join(probs, "; ")))
				} else {
					add(key, site, true, ctx.String())
				}
			}
		})
	})

	// Fail closed: every MatchCriteria call in the static closure (inside
	// felix/rules) must have been looked at in some context.
	for fn := range p.closure(m.root) {
		if fn.Blocks == nil || !m.inRP(fn) {
			continue
		}
		allInstrs(fn, false, func(f *ssa.Function, in ssa.Instruction) {
			if call, ok := in.(*ssa.Call); ok && isMatchInvoke(call.Common()) && !visited[in] {
				c.Undecided("C08.wiring/"+fnName(f)+"/"+call.Common().Method.Name()+"/unvisited", p.Pos(in.Pos()),
					"MatchCriteria call reachable from ProtoRuleToIptablesRules only through dynamic calls; contexts cannot be enumerated")
			}
		})
	}
	for _, key := range sortedKeys(res) {
		v := res[key]
		if len(v.bad) > 0 {
			c.Violate(key, v.site, "%s", strings.Join(v.bad, " | "))
		} else {
			c.Ok(key, v.site, "agrees in %d context(s): %s", len(v.ok), strings.Join(v.ok, ", "))
		}
	}
	for _, key := range sortedKeys(nonField) {
		v := nonField[key]
		if len(v.bad) > 0 {
			c.Violate(key, v.site, "%s", strings.Join(v.bad, " | "))
		} else {
			c.Ok(key, v.site, "no rule-field data in %d context(s)", len(v.ok))
		}
	}
	return reached
}

// c08WrapperProblem: the oneof wrapper type asserted on the way must agree with
// the method variant.
func c08WrapperProblem(wrapper, meth string) string {
	base := strings.TrimPrefix(meth, "Not")
	switch strings.TrimPrefix(strings.TrimPrefix(wrapper, "Rule_"), "Not") {
	case "IcmpTypeCode":
		if !strings.HasSuffix(base, "TypeAndCode") {
			return "value unwrapped from " + wrapper + " (type and code) passed to the type-only matcher " + meth
		}
	case "IcmpType":
		if !strings.HasSuffix(base, "Type") {
			return "value unwrapped from " + wrapper + " (type only) passed to " + meth
		}
	case "Protocol_Name":
		if base != "Protocol" {
			return "protocol name passed to " + meth
		}
	case "Protocol_Number":
		if base != "ProtocolNum" {
			return "protocol number passed to " + meth
		}
	}
	return ""
}

// ------------------------------------------------------------------ scratch --

func c08Scratch(m *c08Model) {
	c, p, ev := m.c, m.p, m.ev
	// (a) operands of mark actions / mark matches inside matchBlockBuilder methods.
	allowed := map[string]bool{"matchBlockBuilder.markAllBlocksPass": true, "matchBlockBuilder.markThisBlockPass": true}
	markMeth := func(cc *ssa.CallCommon) string {
		if n := c08InvokeName(cc, c08ActionIface); n == "SetMark" || n == "ClearMark" || n == "SetMaskedMark" || n == "SetConnmark" {
			return n
		}
		if n := c08InvokeName(cc, c08MatchIface); strings.Contains(n, "Mark") {
			return n
		}
		return ""
	}
	type agg struct {
		site string
		bad  []string
		n    int
	}
	ops := map[string]*agg{}
	c08Instances(m.root, m.inRP, func(ctx *c08Ctx) {
		if recvTypeNameOfFn(ctx.fn) != "matchBlockBuilder" {
			return
		}
		allInstrs(ctx.fn, false, func(fn *ssa.Function, in ssa.Instruction) {
			call, ok := in.(*ssa.Call)
			if !ok {
				return
			}
			n := markMeth(call.Common())
			if n == "" {
				return
			}
			key := "C08.scratch/operand/" + fnName(fn) + "/" + n
			a := ops[key]
			if a == nil {
				a = &agg{site: p.Pos(in.Pos())}
				ops[key] = a
			}
			a.n++
			for i, arg := range call.Common().Args {
				f := ev.facts(arg, ctx)
				var extra []string
				for q := range f.Fields {
					if !allowed[q] {
						extra = append(extra, q)
					}
				}
				for _, k := range f.Consts {
					if k.Value == nil || k.Value.ExactString() != "0" {
						extra = append(extra, "const "+k.String())
					}
				}
				if f.Unknown {
					extra = append(extra, "unresolved value")
				}
				if len(extra) > 0 {
					sort.Strings(extra)
					a.bad = append(a.bad, fmt.Sprintf("in context %s argument %d of %s derives from %v (only the builder's scratch mark fields or 0 are allowed: verdict marks must stay untouched on non-match)", ctx, i, n, extra))
				}
			}
		})
	})
	for _, key := range sortedKeys(ops) {
		a := ops[key]
		if len(a.bad) > 0 {
			c.Violate(key, a.site, "%s", strings.Join(a.bad, " | "))
		} else {
			c.Ok(key, a.site, "%d call(s)×contexts: operands derive only from markAllBlocksPass/markThisBlockPass/0", a.n)
		}
	}
	// (b) the only stores into the two mark fields take Config.MarkScratch0/1 (distinct).
	rootCtx := &c08Ctx{fn: m.root}
	srcOf := map[string][]string{}
	var sites []string
	for _, fn := range p.AllFuncs() {
		if !m.inRP(fn) {
			continue
		}
		for _, fld := range []string{"markAllBlocksPass", "markThisBlockPass"} {
			for _, st := range storesToField(fn, false, "matchBlockBuilder", fld) {
				var cx *c08Ctx
				if fn == m.root {
					cx = rootCtx
				} else {
					cx = &c08Ctx{fn: fn}
				}
				f := ev.facts(st.Val, cx)
				desc := f.fieldList()
				if f.Unknown {
					desc = append(desc, "unresolved")
				}
				for _, k := range f.Consts {
					desc = append(desc, "const "+k.String())
				}
				srcOf[fld] = append(srcOf[fld], desc...)
				sites = append(sites, p.Pos(st.Pos()))
			}
		}
	}
	if len(sites) == 0 {
		c.Lost("no initialisation of matchBlockBuilder.markAllBlocksPass/markThisBlockPass found")
	}
	for _, fld := range []string{"markAllBlocksPass", "markThisBlockPass"} {
		got := srcOf[fld]
		ok := len(got) == 1 && (got[0] == "Config.MarkScratch0" || got[0] == "Config.MarkScratch1")
		c.Check(ok, "C08.scratch/init/"+fld, sites[0],
			fmt.Sprintf("matchBlockBuilder.%s is only ever set from %v", fld, got),
			fmt.Sprintf("matchBlockBuilder.%s is set from %v; it must come from exactly one of Config.MarkScratch0/1 (never a verdict mark)", fld, got))
	}
	a, b := srcOf["markAllBlocksPass"], srcOf["markThisBlockPass"]
	c.Check(len(a) == 1 && len(b) == 1 && a[0] != b[0], "C08.scratch/init/distinct", sites[0],
		"the two block bits come from different Config fields", fmt.Sprintf("all-blocks bit from %v and this-block bit from %v are not two distinct scratch marks", a, b))
	// (c) the final rule tests markAllBlocksPass when blocks are used.  The test
	// is located by what it does, not by where it sits: any MarkSingleBitSet on
	// a MatchCriteria, in any function instance of the rendering's closure
	// outside the builder's own methods, whose operand derives from a field of
	// the builder (the caller of the builder consuming its result).
	n := 0
	var bad []string
	site := p.Pos(m.root.Pos())
	c08Instances(m.root, m.inRP, func(ctx *c08Ctx) {
		if recvTypeNameOfFn(ctx.fn) == "matchBlockBuilder" {
			return
		}
		for _, cs := range callsIn(ctx.fn, false, func(f *types.Func) bool { return f.Name() == "MarkSingleBitSet" }) {
			if !c08IsInvokeOf(cs.Common(), c08MatchIface) || len(cs.Common().Args) == 0 {
				continue
			}
			f := ev.facts(cs.Common().Args[0], ctx)
			fromBuilder := false
			for q := range f.Fields {
				if strings.HasPrefix(q, "matchBlockBuilder.") {
					fromBuilder = true
				}
			}
			if !fromBuilder {
				continue
			}
			if n == 0 {
				site = p.Pos(cs.Instr.Pos())
			}
			n++
			ok := len(f.Fields) == 1 && f.Fields["matchBlockBuilder.markAllBlocksPass"] && !f.Unknown
			lits := ev.ruleLiterals(cs.Instr.(*ssa.Call), ctx, func(cc *ssa.CallCommon) bool { return c08IsInvokeOf(cc, c08MatchIface) })
			if !ok || len(lits) == 0 {
				bad = append(bad, fmt.Sprintf("in context %s the final rule tests %v (unknown=%v), reaches %d Rule literal(s); it must test the all-blocks-pass bit", ctx, f.fieldList(), f.Unknown, len(lits)))
			}
		}
	})
	switch {
	case n == 0:
		c.Violate("C08.scratch/final-test", site, "no function in the closure of ProtoRuleToIptablesRules adds MarkSingleBitSet(<builder>.markAllBlocksPass) to the final match: block results are ignored")
	default:
		c.Check(len(bad) == 0, "C08.scratch/final-test", site,
			"final rule match tests matchBlockBuilder.markAllBlocksPass and reaches a Rule literal",
			strings.Join(c08Uniq(bad), " | "))
	}
}

func recvTypeNameOfFn(fn *ssa.Function) string {
	fn = topFn(fn)
	if o, ok := fn.Object().(*types.Func); ok {
		return recvTypeName(o)
	}
	return ""
}

// ------------------------------------------------------------------ actions --

var c08ActionTable = []struct {
	action, mark, verdictCall string
}{
	{"", "MarkAccept", "Return"},
	{"allow", "MarkAccept", "Return"},
	{"pass", "MarkPass", "Return"},
	{"next-tier", "MarkPass", "Return"},
	{"deny", "MarkDrop", "IptablesFilterDenyAction"},
}

func c08Actions(m *c08Model) {
	c, p, ev := m.c, m.p, m.ev
	fn := p.Func(c08RulesPkg, "DefaultRuleRenderer.CombineMatchAndActionsForProtoRule")
	if fn == nil {
		c.Lost("DefaultRuleRenderer.CombineMatchAndActionsForProtoRule")
	}
	ctx := &c08Ctx{fn: fn}
	isActionLoad := func(v ssa.Value) bool {
		fv := fieldVar(v)
		return fv != nil && fv.Name() == "Action" && qualTypeName(c08FieldOwner(v)) == c08ProtoPkg+".Rule"
	}
	strConst := func(v ssa.Value) (string, bool) {
		k, ok := v.(*ssa.Const)
		if !ok || k.Value == nil || k.Value.Kind() != constant.String {
			return "", false
		}
		return constantStringVal(k), true
	}
	// SetMark call whose Rule literal carries the match parameter.
	var setMark *ssa.Call
	for _, cs := range callsIn(fn, false, func(f *types.Func) bool { return f.Name() == "SetMark" }) {
		if c08IsInvokeOf(cs.Common(), c08ActionIface) {
			if setMark != nil {
				c.Undecided("C08.actions/setmark", p.Pos(cs.Instr.Pos()), "more than one SetMark call in CombineMatchAndActionsForProtoRule")
				return
			}
			setMark = cs.Instr.(*ssa.Call)
		}
	}
	if setMark == nil {
		c.Lost("no ActionFactory.SetMark call in CombineMatchAndActionsForProtoRule")
	}
	// flatten the phi tree of the operand into (leaf value, predecessor block)
	type leaf struct {
		v    ssa.Value
		pred *ssa.BasicBlock
	}
	var leaves []leaf
	seenPhi := map[*ssa.Phi]bool{}
	var flat func(v ssa.Value, pred *ssa.BasicBlock)
	flat = func(v ssa.Value, pred *ssa.BasicBlock) {
		if ph, ok := v.(*ssa.Phi); ok {
			if seenPhi[ph] {
				return
			}
			seenPhi[ph] = true
			for i, e := range ph.Edges {
				flat(e, ph.Block().Preds[i])
			}
			return
		}
		leaves = append(leaves, leaf{v, pred})
	}
	flat(setMark.Common().Args[0], setMark.Block())
	// true-edge targets of `Action == c`
	targets := map[string][]*ssa.BasicBlock{}
	for _, b := range fn.Blocks {
		ifi, ok := b.Instrs[len(b.Instrs)-1].(*ssa.If)
		if !ok {
			continue
		}
		cond, pol := stripNot(ifi.Cond, true)
		bo, ok := cond.(*ssa.BinOp)
		if !ok || (bo.Op != token.EQL && bo.Op != token.NEQ) {
			continue
		}
		if bo.Op == token.NEQ {
			pol = !pol
		}
		var s string
		var okc bool
		if isActionLoad(bo.X) {
			s, okc = strConst(bo.Y)
		} else if isActionLoad(bo.Y) {
			s, okc = strConst(bo.X)
		}
		if !okc {
			continue
		}
		t := b.Succs[0]
		if !pol {
			t = b.Succs[1]
		}
		targets[s] = append(targets[s], t)
	}
	known := map[string]bool{"log": true}
	for _, row := range c08ActionTable {
		known[row.action] = true
		name := row.action
		if name == "" {
			name = "empty"
		}
		ts := targets[row.action]
		if len(ts) == 0 {
			c.Violate("C08.actions/mark/"+name, p.Pos(fn.Pos()), "no branch on pRule.Action == %q in CombineMatchAndActionsForProtoRule", row.action)
			continue
		}
		// region = blocks dominated by a target block that is itself past the
		// first (log) test, i.e. targets that dominate a leaf's predecessor.
		n := 0
		var bad []string
		for _, lf := range leaves {
			for _, t := range ts {
				if t == lf.pred || t.Dominates(lf.pred) {
					f := ev.facts(lf.v, ctx)
					n++
					if len(f.Fields) != 1 || !f.Fields["Config."+row.mark] || f.Unknown || len(f.Consts) > 0 {
						bad = append(bad, fmt.Sprintf("mark on the %q path derives from %v consts=%d (want Config.%s)", row.action, f.fieldList(), len(f.Consts), row.mark))
					}
				}
			}
		}
		if n == 0 {
			bad = append(bad, fmt.Sprintf("no value of the SetMark operand is assigned on the %q path", row.action))
		}
		c.Check(len(bad) == 0, "C08.actions/mark/"+name, p.Pos(ts[0].Instrs[0].Pos()),
			fmt.Sprintf("action %q sets Config.%s", row.action, row.mark), strings.Join(bad, "; "))
		// verdict action rendered in the region
		found := false
		for _, t := range ts {
			for _, b := range fn.Blocks {
				if b != t && !t.Dominates(b) {
					continue
				}
				for _, in := range b.Instrs {
					if call, ok := in.(*ssa.Call); ok {
						if f := calleeOf(call.Common()); f != nil && f.Name() == row.verdictCall {
							found = true
						}
					}
				}
			}
		}
		c.Check(found, "C08.actions/verdict/"+name, p.Pos(ts[0].Instrs[0].Pos()),
			fmt.Sprintf("action %q renders %s()", row.action, row.verdictCall),
			fmt.Sprintf("action %q does not render %s() on its path", row.action, row.verdictCall))
	}
	// converse: a verdict mark is only assigned under its own actions
	for _, lf := range leaves {
		f := ev.facts(lf.v, ctx)
		for q := range f.Fields {
			mark := strings.TrimPrefix(q, "Config.")
			var allowedActs []string
			for _, row := range c08ActionTable {
				if row.mark == mark {
					allowedActs = append(allowedActs, row.action)
				}
			}
			last := lf.pred.Instrs[len(lf.pred.Instrs)-1]
			g := len(allowedActs) > 0 && guardedCut(last, func(cond ssa.Value, pol bool) bool {
				bo, ok := cond.(*ssa.BinOp)
				if !ok || (bo.Op != token.EQL && bo.Op != token.NEQ) {
					return false
				}
				if bo.Op == token.NEQ {
					pol = !pol
				}
				if !pol {
					return false
				}
				var s string
				var okc bool
				if isActionLoad(bo.X) {
					s, okc = strConst(bo.Y)
				} else if isActionLoad(bo.Y) {
					s, okc = strConst(bo.X)
				}
				if !okc {
					return false
				}
				for _, a := range allowedActs {
					if a == s {
						return true
					}
				}
				return false
			})
			c.Check(g, "C08.actions/only/"+mark, p.Pos(last.Pos()),
				fmt.Sprintf("%s assigned only under action ∈ %q", q, allowedActs),
				fmt.Sprintf("%s can be the mark set on match on a path not guarded by action ∈ %q", q, allowedActs))
		}
	}
	// unknown → panic: the SetMark decision point is only reachable through a
	// positive comparison with a known action.
	anyKnown := func(cond ssa.Value, pol bool) bool {
		bo, ok := cond.(*ssa.BinOp)
		if !ok || (bo.Op != token.EQL && bo.Op != token.NEQ) {
			return false
		}
		if bo.Op == token.NEQ {
			pol = !pol
		}
		if !pol {
			return false
		}
		var s string
		var okc bool
		if isActionLoad(bo.X) {
			s, okc = strConst(bo.Y)
		} else if isActionLoad(bo.Y) {
			s, okc = strConst(bo.X)
		}
		return okc && known[s]
	}
	rets := returnsOf(fn)
	allGuarded := len(rets) > 0
	for _, r := range rets {
		// the `if Action == "log"` prologue also compares with a known action;
		// cut only edges whose target does not re-join before the switch: use
		// the switch region = targets of the table rows + "log" targets that
		// dominate no other comparison.
		if !guardedCut(r, c08SwitchEdge(fn, anyKnown)) {
			allGuarded = false
		}
	}
	c.Check(allGuarded, "C08.actions/unknown-panics", p.Pos(fn.Pos()),
		"every returning path of CombineMatchAndActionsForProtoRule passes a positive test for a known action in the action switch (unknown actions panic)",
		"CombineMatchAndActionsForProtoRule can return for an action outside {\"\",allow,pass,next-tier,deny,log} (a rule with an unknown action renders as match-nothing/no-op instead of failing)")
	// the SetMark rule carries the full match (parameter) and the follow-up rules test the same mark
	for _, l := range []string{"Match"} {
		var lit ssa.Value
		if refs := setMark.Referrers(); refs != nil {
			for _, r := range *refs {
				if st, ok := r.(*ssa.Store); ok {
					if fa, ok := st.Addr.(*ssa.FieldAddr); ok && fieldName(fa.X.Type(), fa.Field) == "Action" {
						lit = fa.X
					}
				}
			}
		}
		if lit == nil {
			c.Violate("C08.actions/setmark-match", p.Pos(setMark.Pos()), "SetMark(mark) is not stored as the Action of a Rule literal")
			break
		}
		okMatch := false
		for _, v := range literalFieldStores(lit)[l] {
			for _, o := range origins(v, nil) {
				if pa, ok := o.V.(*ssa.Parameter); ok && qualTypeName(pa.Type()) == c08MatchIface {
					okMatch = true
				}
			}
		}
		c.Check(okMatch, "C08.actions/setmark-match", p.Pos(setMark.Pos()),
			"the rule that sets the verdict mark carries the caller's full match", "the rule that sets the verdict mark does not carry the match parameter (mark set for packets the rule does not match)")
	}
	nMS := 0
	for _, cs := range callsIn(fn, false, func(f *types.Func) bool { return f.Name() == "MarkSingleBitSet" }) {
		if !c08IsInvokeOf(cs.Common(), c08MatchIface) {
			continue
		}
		nMS++
		same := path(cs.Common().Args[0]) == path(setMark.Common().Args[0])
		c.Check(same, "C08.actions/follow-up-tests-mark", p.Pos(cs.Instr.Pos()),
			"follow-up action rules test the mark just set", "follow-up action rules test "+path(cs.Common().Args[0])+" but the mark set is "+path(setMark.Common().Args[0]))
	}
	if nMS == 0 {
		c.Violate("C08.actions/follow-up-tests-mark", p.Pos(fn.Pos()), "follow-up action rules are not conditioned on the verdict mark (they would fire for non-matching packets)")
	}
}

// c08SwitchEdge restricts an edge predicate to comparisons that belong to the
// last comparison chain of the function, i.e. whose If block is not followed
// (post-dominated on the accepted edge) by another accepted comparison: the
// `if Action == "log"` prologue re-joins the main path and so its true edge must
// not count as "known action seen" for paths that later skip the switch.  We
// implement this conservatively: an accepted edge counts only if no other
// accepted comparison block is reachable from its target.
func c08SwitchEdge(fn *ssa.Function, pred EdgePred) EdgePred {
	accBlocks := map[*ssa.BasicBlock]bool{}
	for _, b := range fn.Blocks {
		if ifi, ok := b.Instrs[len(b.Instrs)-1].(*ssa.If); ok {
			c, pol := stripNot(ifi.Cond, true)
			if pred(c, pol) || pred(c, !pol) {
				accBlocks[b] = true
			}
		}
	}
	tail := map[*ssa.If]map[bool]bool{}
	for b := range accBlocks {
		ifi := b.Instrs[len(b.Instrs)-1].(*ssa.If)
		tail[ifi] = map[bool]bool{}
		for k, s := range b.Succs {
			reach := blockReach(s)
			reach[s] = true
			clean := true
			for ab := range accBlocks {
				if ab != b && reach[ab] {
					clean = false
				}
			}
			tail[ifi][k == 0] = clean
		}
	}
	return func(cond ssa.Value, pol bool) bool {
		if !pred(cond, pol) {
			return false
		}
		// find the If this cond belongs to
		for ifi, m := range tail {
			c, p0 := stripNot(ifi.Cond, true)
			if c == cond {
				// edge taken is the one on which cond has truth value pol
				return m[pol == p0]
			}
		}
		return false
	}
}

func c08FieldOwner(v ssa.Value) types.Type {
	for {
		switch x := v.(type) {
		case *ssa.UnOp:
			if x.Op == token.MUL {
				v = x.X
				continue
			}
		case *ssa.FieldAddr:
			return x.X.Type()
		case *ssa.Field:
			return x.X.Type()
		}
		return types.Typ[types.Invalid]
	}
}

func constantStringVal(k *ssa.Const) string {
	if k.Value != nil && k.Value.Kind() == constant.String {
		return constant.StringVal(k.Value)
	}
	return k.Value.ExactString()
}

// ----------------------------------------------------------------- siblings --

var c08VerbRE = regexp.MustCompile(`%[#+\-0-9. ]*[a-zA-Z]`)

// c08Fragments collects the constant rendering fragments of a matcher method:
// format strings of fmt.Sprintf and string constants stored into (vararg) array
// elements, with format verbs normalised.
func c08Fragments(fn *ssa.Function) []string {
	var out []string
	allInstrs(fn, true, func(f *ssa.Function, in ssa.Instruction) {
		switch x := in.(type) {
		case *ssa.Call:
			if cal := calleeOf(x.Common()); cal != nil && cal.Pkg() != nil && cal.Pkg().Path() == "fmt" && cal.Name() == "Sprintf" && len(x.Common().Args) > 0 {
				if k, ok := x.Common().Args[0].(*ssa.Const); ok && k.Value != nil {
					out = append(out, c08VerbRE.ReplaceAllString(constantStringVal(k), "%"))
				}
			}
		case *ssa.Store:
			if _, ok := x.Addr.(*ssa.IndexAddr); ok {
				if k, ok := x.Val.(*ssa.Const); ok && k.Value != nil && k.Value.Kind() == constant.String {
					out = append(out, c08VerbRE.ReplaceAllString(constantStringVal(k), "%"))
				}
			}
		}
	})
	sort.Strings(out)
	return out
}

// c08IsNegationOf: n equals p with exactly one negation operator inserted
// ("!" or "!="), or with one "==" turned into "!=".
func c08IsNegationOf(n, p string) bool {
	nt, pt := strings.Fields(n), strings.Fields(p)
	if len(nt) == len(pt)+1 {
		for i, t := range nt {
			if t != "!" && t != "!=" {
				continue
			}
			rest := append(append([]string{}, nt[:i]...), nt[i+1:]...)
			if strings.Join(rest, " ") == strings.Join(pt, " ") {
				return true
			}
		}
		return false
	}
	if len(nt) == len(pt) {
		diff := 0
		for i := range nt {
			if nt[i] != pt[i] {
				if nt[i] == "!=" && pt[i] == "==" {
					diff++
				} else {
					return false
				}
			}
		}
		return diff == 1
	}
	return false
}

func c08Siblings(m *c08Model) {
	c, p := m.c, m.p
	for _, impl := range []struct{ pkg, typ string }{{c08IptPkg, "matchCriteria"}, {c08NftPkg, "nftMatch"}} {
		meths := map[string]*ssa.Function{}
		for _, f := range p.methodsOf(impl.pkg, impl.typ) {
			meths[f.Name()] = f
		}
		if len(meths) == 0 {
			c.Lost("%s.%s methods", impl.pkg, impl.typ)
		}
		short := impl.pkg[strings.LastIndex(impl.pkg, "/")+1:] + "." + impl.typ
		for _, name := range sortedKeys(meths) {
			fn := meths[name]
			if strings.HasPrefix(name, "Not") && meths[name[3:]] != nil {
				pos := meths[name[3:]]
				nf, pf := c08Fragments(fn), c08Fragments(pos)
				key := "C08.nft/negation/" + short + "." + name
				site := p.Pos(fn.Pos())
				if len(nf) == 0 && len(pf) == 0 {
					c.Ok(key, site, "neither %s nor %s renders anything (unsupported in this back end)", name, name[3:])
					continue
				}
				var bad []string
				used := map[int]bool{}
				for _, n := range nf {
					hit := false
					for i, q := range pf {
						if !used[i] && c08IsNegationOf(n, q) {
							used[i], hit = true, true
							break
						}
					}
					if !hit {
						bad = append(bad, fmt.Sprintf("%q is not the single negation of any fragment of %s %q", n, name[3:], pf))
					}
				}
				if len(nf) != len(pf) {
					bad = append(bad, fmt.Sprintf("%d fragment(s) vs %d in %s", len(nf), len(pf), name[3:]))
				}
				c.Check(len(bad) == 0, key, site, fmt.Sprintf("%q = single negation of %q", nf, pf),
					fmt.Sprintf("%s.%s: %s (negating a conjunction atom-wise, or dropping the negation, inverts/changes the match)", short, name, strings.Join(bad, "; ")))
			}
			// direction siblings
			var sib string
			switch {
			case strings.Contains(name, "Source"):
				sib = strings.Replace(name, "Source", "Dest", 1)
			case strings.Contains(name, "Src"):
				sib = strings.Replace(name, "Src", "Dest", 1)
			}
			if sib != "" && meths[sib] != nil {
				a, b := c08Fragments(fn), c08Fragments(meths[sib])
				key := "C08.nft/direction/" + short + "." + sib
				if len(a) == 0 && len(b) == 0 {
					continue
				}
				same := false
				for _, x := range a {
					for _, y := range b {
						if x == y {
							same = true
						}
					}
				}
				c.Check(!same, key, p.Pos(meths[sib].Pos()), fmt.Sprintf("%s %q and %s %q differ", name, a, sib, b),
					fmt.Sprintf("%s.%s renders the same fragment as %s (%q): source and destination are not distinguished", short, sib, name, b))
			}
		}
	}
}

// ------------------------------------------------------------------ private --
//
// C08.private — the renderer never writes through the rule it was given.
//
// ProtoRuleToIptablesRules consumes criteria from its working copy while it
// renders them as match blocks (it nils the port / CIDR lists it has already
// handled).  That is only sound if the object written to is private to this one
// rendering: the *proto.Rule handed in is owned by the caller (it sits inside the
// ActivePolicyUpdate that is rendered again for the other IP version, for the
// raw table, on every re-render) — a store through it silently removes criteria
// from every later rendering, which then match packets the policy rule does not.
//
// Obligation: for every instruction in felix/rules, reachable from
// ProtoRuleToIptablesRules (or FilterRuleToIPVersion on its own, which other
// renderers call) through static calls, that writes into a felix/proto message
// (field store, element store, map update, delete/copy/clear on a field), the
// written object is — in every call-string context and along every phi / return
// path — a fresh allocation or the result of a deep copy; never a parameter of
// the entry function and never a pointer loaded from somewhere else.

// c08IsCopyCall: a call whose result is a new, deep copy of a message.
func c08IsCopyCall(call *ssa.Call) bool {
	f := calleeOf(call.Common())
	if f == nil {
		return false
	}
	if f.Pkg() != nil && f.Pkg().Path() == "google.golang.org/protobuf/proto" && (f.Name() == "Clone" || f.Name() == "CloneOf") {
		return true
	}
	if sig, ok := f.Type().(*types.Signature); ok && sig.Recv() != nil {
		return strings.HasPrefix(f.Name(), "Clone") || strings.HasPrefix(f.Name(), "DeepCopy")
	}
	return false
}

func c08IsProtoMsg(t types.Type) bool {
	t = derefType(t)
	n, ok := types.Unalias(t).(*types.Named)
	if !ok || n.Obj().Pkg() == nil {
		return false
	}
	if _, isStruct := n.Underlying().(*types.Struct); !isStruct {
		return false
	}
	return strings.TrimPrefix(n.Obj().Pkg().Path(), calicoPrefix) == c08ProtoPkg
}

// c08MutTarget walks a written address back to the object that owns it.
// desc names the outermost message field on the way ("Rule.SrcPorts"), nested
// is true if the address was reached through a pointer/slice/map *loaded* from
// the owner (a shallow copy of the owner would still share that memory).
func c08MutTarget(addr ssa.Value) (owner ssa.Value, desc string, nested, ok bool) {
	cur := addr
	for depth := 0; depth < 40; depth++ {
		switch x := cur.(type) {
		case *ssa.FieldAddr:
			if c08IsProtoMsg(x.X.Type()) {
				ok = true
				desc = namedTypeName(x.X.Type()) + "." + fieldName(x.X.Type(), x.Field)
			}
			cur = x.X
			continue
		case *ssa.IndexAddr:
			cur = x.X
			continue
		case *ssa.Slice:
			cur = x.X
			continue
		case *ssa.UnOp:
			if x.Op == token.MUL {
				switch x.X.(type) {
				case *ssa.FieldAddr, *ssa.IndexAddr:
					nested = true
					cur = x.X
					continue
				}
			}
		}
		break
	}
	owner = cur
	if !ok && addr == cur && c08IsProtoMsg(cur.Type()) {
		if _, isPtr := cur.Type().Underlying().(*types.Pointer); isPtr {
			// *p = proto.Rule{...}: whole-message overwrite
			return cur, namedTypeName(cur.Type()) + ".*", false, true
		}
	}
	return owner, desc, nested, ok
}

// c08Mutation: does instruction in write into a felix/proto message?
func c08Mutation(in ssa.Instruction) (owner ssa.Value, desc string, nested, ok bool) {
	switch x := in.(type) {
	case *ssa.Store:
		if _, isLocal := x.Addr.(*ssa.Alloc); isLocal {
			return nil, "", false, false
		}
		return c08MutTarget(x.Addr)
	case *ssa.MapUpdate:
		return c08MutTarget(x.Map)
	case *ssa.Call:
		for _, b := range []string{"delete", "copy", "clear"} {
			if cc, is := isBuiltinCall(in, b); is && len(cc.Args) > 0 {
				o, d, _, k := c08MutTarget(cc.Args[0])
				if _, direct := cc.Args[0].(*ssa.UnOp); k && direct {
					return o, d, true, true
				}
			}
		}
	}
	return nil, "", false, false
}

func c08Private(m *c08Model) {
	c, p := m.c, m.p
	filter := p.Func(c08RulesPkg, "FilterRuleToIPVersion")
	if filter == nil {
		c.Lost("FilterRuleToIPVersion")
	}
	type agg struct {
		site     string
		bad, und []string
		ok       map[string]bool
	}
	res := map[string]*agg{}
	visited := map[ssa.Instruction]bool{}
	for _, root := range []*ssa.Function{m.root, filter} {
		c08Instances(root, m.inRP, func(ctx *c08Ctx) {
			allInstrs(ctx.fn, false, func(fn *ssa.Function, in ssa.Instruction) {
				owner, desc, nested, ok := c08Mutation(in)
				if !ok {
					return
				}
				visited[in] = true
				key := "C08.private/" + fnName(topFn(fn)) + "/" + desc
				a := res[key]
				if a == nil {
					a = &agg{site: p.Pos(in.Pos()), ok: map[string]bool{}}
					res[key] = a
				}
				leaves := c08ValueLeaves(owner, ctx, m.inRP)
				n := 0
				for _, l := range leaves {
					where := "in context " + ctx.String()
					switch x := l.V.(type) {
					case *ssa.Const:
						continue // nil: no object
					case *ssa.Alloc:
						n++
						if nested {
							a.und = append(a.und, fmt.Sprintf("%s: write to %s goes through a pointer/slice loaded from a locally allocated message; a shallow copy would share it", where, desc))
						} else {
							a.ok["fresh allocation"] = true
						}
					case *ssa.Call:
						n++
						if c08IsCopyCall(x) {
							a.ok["deep copy ("+calleeOf(x.Common()).Name()+")"] = true
						} else {
							a.und = append(a.und, fmt.Sprintf("%s: written message is the result of %s, whose ownership cannot be decided", where, path(x)))
						}
					case *ssa.Parameter:
						n++
						a.bad = append(a.bad, fmt.Sprintf("%s: the written message can be parameter %q of %s itself (reached without a copy): the store to %s changes the caller's rule, so every later rendering of the same policy loses that criterion",
							where, x.Name(), fnName(x.Parent()), desc))
					default:
						n++
						if _, _, _, isField := fieldOf(l.V); isField || isGlobal(l.V) {
							a.bad = append(a.bad, fmt.Sprintf("%s: the written message is shared state %s, not a private copy", where, path(l.V)))
						} else {
							a.und = append(a.und, fmt.Sprintf("%s: cannot decide who owns the written message %s", where, path(l.V)))
						}
					}
				}
				if n == 0 {
					a.und = append(a.und, "in context "+ctx.String()+": no origin found for the written message")
				}
			})
		})
	}
	// Fail closed: writes in functions only reachable dynamically.
	for fn := range p.closure(m.root, filter) {
		if fn.Blocks == nil || !m.inRP(fn) {
			continue
		}
		allInstrs(fn, false, func(f *ssa.Function, in ssa.Instruction) {
			if _, desc, _, ok := c08Mutation(in); ok && !visited[in] {
				c.Undecided("C08.private/"+fnName(topFn(f))+"/"+desc+"/unvisited", p.Pos(in.Pos()),
					"write into a proto message in a function reached only through dynamic calls; ownership of the written object cannot be traced")
			}
		})
	}
	for _, key := range sortedKeys(res) {
		a := res[key]
		switch {
		case len(a.bad) > 0:
			c.Violate(key, a.site, "%s", strings.Join(c08Uniq(a.bad), " | "))
		case len(a.und) > 0:
			c.Undecided(key, a.site, "%s", strings.Join(c08Uniq(a.und), " | "))
		default:
			c.Ok(key, a.site, "written object is always private: %s", strings.Join(sortedKeys(a.ok), ", "))
		}
	}
}

func isGlobal(v ssa.Value) bool {
	if u, ok := v.(*ssa.UnOp); ok && u.Op == token.MUL {
		v = u.X
	}
	_, ok := v.(*ssa.Global)
	return ok
}

func c08Uniq(in []string) []string {
	seen := map[string]bool{}
	var out []string
	for _, s := range in {
		if !seen[s] {
			seen[s] = true
			out = append(out, s)
		}
	}
	return out
}

// -------------------------------------------------------------------- ipver --
//
// C08.ipver — one rendering, one IP version.
//
// ProtoRuleToIptablesRules renders a rule for the IP version given by its
// ipVersion parameter (the table the rules go into).  proto.Rule.IpVersion is an
// optional *filter* on top of that (normally ANY).  Every decision that differs
// between IPv4 and IPv6 inside one rendering must therefore be taken on the
// parameter:
//
//   ipset  the value of Config.IPSetConfigV4 (V6) is only ever used / selected
//          where `ipVersion == 4` (`!= 4` / `== 6`) is established, with the
//          compared value resolved through the call string, closures and
//          captured variables to that parameter;
//   icmp   ICMP* matchers are only called where v4 is established, ICMPV6*
//          where v6 is;
//   arg    FilterRuleToIPVersion, and every felix/rules function that receives
//          the rendering version in some context, receives it in all contexts.

// c08VersionParam returns the unique parameter of fn with type uint8.
func c08VersionParam(fn *ssa.Function) *ssa.Parameter {
	var out *ssa.Parameter
	for _, pa := range fn.Params {
		if b, ok := types.Unalias(pa.Type()).(*types.Basic); ok && b.Kind() == types.Uint8 {
			if out != nil {
				return nil
			}
			out = pa
		}
	}
	return out
}

func c08IPVer(m *c08Model) {
	c, p := m.c, m.p
	ver := c08VersionParam(m.root)
	if ver == nil {
		c.Lost("the (unique) uint8 IP-version parameter of ProtoRuleToIptablesRules")
	}
	filter := p.Func(c08RulesPkg, "FilterRuleToIPVersion")
	if filter == nil {
		c.Lost("FilterRuleToIPVersion")
	}
	filterVer := c08VersionParam(filter)
	if filterVer == nil {
		c.Lost("the (unique) uint8 IP-version parameter of FilterRuleToIPVersion")
	}
	cfgField := map[*types.Var]bool{} // true = v4
	for name, v4 := range map[string]bool{"IPSetConfigV4": true, "IPSetConfigV6": false} {
		fv, _ := p.LookupObj(c08RulesPkg, "Config."+name).(*types.Var)
		if fv == nil {
			c.Lost("rules.Config.%s", name)
		}
		cfgField[fv] = v4
	}

	// isVer: v is, in ctx, the rendering's IP version and nothing else.
	isVer := func(v ssa.Value, ctx *c08Ctx) bool {
		ls := c08ValueLeaves(v, ctx, m.inRP)
		if len(ls) == 0 {
			return false
		}
		for _, l := range ls {
			if l.V != ssa.Value(ver) {
				return false
			}
		}
		return true
	}
	// family(want4)(ctx): edge predicate "the rendering version is 4" / "is not 4".
	family := func(want4 bool) func(*c08Ctx) EdgePred {
		return func(ctx *c08Ctx) EdgePred {
			return func(cond ssa.Value, pol bool) bool {
				cctx := ctx
				if _, isBin := cond.(*ssa.BinOp); !isBin {
					// a boolean computed elsewhere (parameter, captured variable)
					ls := c08ValueLeaves(cond, ctx, m.inRP)
					if len(ls) != 1 {
						return false
					}
					cond, pol = stripNot(ls[0].V, pol)
					cctx = ls[0].Ctx
				}
				bo, ok := cond.(*ssa.BinOp)
				if !ok || (bo.Op != token.EQL && bo.Op != token.NEQ) {
					return false
				}
				isEq := pol
				if bo.Op == token.NEQ {
					isEq = !isEq
				}
				var k constant.Value
				var other ssa.Value
				if kv, ok := constOf(bo.Y); ok {
					k, other = kv, bo.X
				} else if kv, ok := constOf(bo.X); ok {
					k, other = kv, bo.Y
				}
				if k == nil || k.Kind() != constant.Int || !isVer(other, cctx) {
					return false
				}
				switch k.ExactString() {
				case "4":
					return isEq == want4
				case "6":
					return isEq == !want4
				}
				return false
			}
		}
	}
	famName := map[bool]string{true: "ipVersion == 4", false: "ipVersion != 4 (or == 6)"}

	// verTest: v is (a boolean identical to) a comparison of the rendering's
	// ipVersion with 4 or 6.  is6 = the comparison being true means "IPv6";
	// onVer = the compared value really is the rendering's version (false for a
	// comparison of the same shape on something else, e.g. a constant).
	verTest := func(v ssa.Value, ctx *c08Ctx) (is6, onVer, ok bool) {
		ls := c08ValueLeaves(v, ctx, m.inRP)
		if len(ls) != 1 {
			return false, false, false
		}
		cond, pol := stripNot(ls[0].V, true)
		bo, isBin := cond.(*ssa.BinOp)
		if !isBin || (bo.Op != token.EQL && bo.Op != token.NEQ) {
			return false, false, false
		}
		if bo.Op == token.NEQ {
			pol = !pol
		}
		var k constant.Value
		var other ssa.Value
		if kv, isK := constOf(bo.Y); isK {
			k, other = kv, bo.X
		} else if kv, isK := constOf(bo.X); isK {
			k, other = kv, bo.Y
		}
		if k == nil || k.Kind() != constant.Int {
			return false, false, false
		}
		switch k.ExactString() {
		case "4":
			is6 = !pol
		case "6":
			is6 = pol
		default:
			return false, false, false
		}
		return is6, isVer(other, ls[0].Ctx), true
	}
	// dependsOnVer: the rendering's ipVersion is among the operands cond is
	// computed from (in ctx).
	var dependsOnVer func(v ssa.Value, ctx *c08Ctx, depth int) bool
	dependsOnVer = func(v ssa.Value, ctx *c08Ctx, depth int) bool {
		if v == nil || depth > 8 {
			return false
		}
		if isVer(v, ctx) {
			return true
		}
		for _, l := range c08ValueLeaves(v, ctx, m.inRP) {
			if l.V == v && l.Ctx == ctx {
				continue
			}
			if dependsOnVer(l.V, l.Ctx, depth+1) {
				return true
			}
		}
		if in, ok := v.(ssa.Instruction); ok {
			if _, isPhi := v.(*ssa.Phi); isPhi {
				return false // already resolved through the leaves
			}
			for _, op := range in.Operands(nil) {
				if op != nil && *op != nil && dependsOnVer(*op, ctx, depth+1) {
					return true
				}
			}
		}
		return false
	}
	// Family decisions made by each function (for the arg/<fn>/none obligation).
	// (one decision per instruction, and-ed over the contexts it is reached in)
	decs := map[*ssa.Function]map[ssa.Instruction]bool{}
	noteDec := func(fn *ssa.Function, at ssa.Instruction, ok bool) {
		fn = topFn(fn)
		if decs[fn] == nil {
			decs[fn] = map[ssa.Instruction]bool{}
		}
		if prev, seen := decs[fn][at]; seen {
			ok = ok && prev
		}
		decs[fn][at] = ok
	}
	receivesVer := map[*ssa.Function]bool{}

	type agg struct {
		site string
		bad  []string
		und  []string
		n    int
	}
	res := map[string]*agg{}
	get := func(key, site string) *agg {
		a := res[key]
		if a == nil {
			a = &agg{site: site}
			res[key] = a
		}
		a.n++
		return a
	}
	type argStat struct {
		site       string
		nVer, nNot int
		bad        []string
	}
	args := map[string]*argStat{}
	argKey := func(fn *ssa.Function, i int) string {
		return fmt.Sprintf("C08.ipver/arg/%s/%d", fnName(fn), i)
	}
	// anchor: FilterRuleToIPVersion's version parameter is a version parameter
	// whether or not it receives one today.
	for i, pa := range filter.Params {
		if pa == filterVer {
			args[argKey(filter, i)] = &argStat{site: p.Pos(filter.Pos())}
		}
	}
	visitedRead := map[ssa.Instruction]bool{}

	c08Instances(m.root, m.inRP, func(ctx *c08Ctx) {
		// arg: what does each parameter receive in this context?
		if ctx.call != nil && !ctx.call.Common().IsInvoke() {
			cargs := ctx.call.Common().Args
			for i := range ctx.fn.Params {
				if i >= len(cargs) {
					break
				}
				k := argKey(ctx.fn, i)
				st := args[k]
				if isVer(cargs[i], ctx.parent) {
					if st == nil {
						st = &argStat{site: p.Pos(ctx.call.Pos())}
						args[k] = st
					}
					st.nVer++
					receivesVer[topFn(ctx.fn)] = true
				} else if b, ok := types.Unalias(ctx.fn.Params[i].Type()).(*types.Basic); ok && b.Kind() == types.Uint8 {
					if st == nil {
						st = &argStat{site: p.Pos(ctx.call.Pos())}
						args[k] = st
					}
					st.nNot++
					st.bad = append(st.bad, fmt.Sprintf("in context %s parameter %q receives %s, which is not the ipVersion being rendered", ctx, ctx.fn.Params[i].Name(), path(cargs[i])))
				}
			}
		}
		allInstrs(ctx.fn, false, func(fn *ssa.Function, in ssa.Instruction) {
			// ipset: uses of a loaded Config.IPSetConfigV4/V6
			if ld, ok := in.(*ssa.UnOp); ok && ld.Op == token.MUL {
				if fa, ok := ld.X.(*ssa.FieldAddr); ok {
					if v4, is := cfgField[structField(fa.X.Type(), fa.Field)]; is {
						visitedRead[in] = true
						name := fieldName(fa.X.Type(), fa.Field)
						a := get("C08.ipver/ipset/"+fnName(topFn(fn))+"/"+name, p.Pos(in.Pos()))
						mk := family(v4)
						refs := ld.Referrers()
						uses := 0
						bad0 := len(a.bad)
						defer func() { noteDec(fn, in, len(a.bad) == bad0) }()
						if refs != nil {
							for _, r := range *refs {
								if _, dbg := r.(*ssa.DebugRef); dbg {
									continue
								}
								uses++
								okUse := false
								if ph, isPhi := r.(*ssa.Phi); isPhi {
									okUse = true
									for i, e := range ph.Edges {
										if e == ssa.Value(ld) && !c08EstablishedOnEdge(ph.Block().Preds[i], ph.Block(), ctx, mk) {
											okUse = false
										}
									}
								} else {
									okUse = c08EstablishedAt(r, ctx, mk)
								}
								if !okUse {
									a.bad = append(a.bad, fmt.Sprintf("in context %s the value of Config.%s is used/selected at %s on a path where %s is not established on the rendering's ipVersion parameter (IP set names of the wrong family end up in the rendered rules)",
										ctx, name, p.Pos(r.Pos()), famName[v4]))
								}
							}
						}
						_ = uses
					}
				}
			}
			// icmp: family of the ICMP matcher
			if call, ok := in.(*ssa.Call); ok && c08IsInvokeOf(call.Common(), c08MatchIface) {
				meth := call.Common().Method.Name()
				if c08ClassifyMethod(meth).Fam == "icmp" {
					v4 := !strings.Contains(meth, "ICMPV6")
					a := get("C08.ipver/icmp/"+fnName(topFn(fn))+"/"+meth, p.Pos(in.Pos()))
					est := c08EstablishedAt(call, ctx, family(v4))
					noteDec(fn, in, est)
					if !est {
						a.bad = append(a.bad, fmt.Sprintf("in context %s %s is called on a path where %s is not established on the rendering's ipVersion parameter", ctx, meth, famName[v4]))
					}
				}
			}
			// family: classification of a rule CIDR as IPv4/IPv6
			if call, ok := in.(*ssa.Call); ok && c08IsCIDRFamilyTest(call) && m.ev.feasible(in, ctx) {
				if c08DerivesFromNetField(m.ev.facts(call.Common().Args[0], ctx)) {
					a := get("C08.ipver/family/"+fnName(topFn(fn)), p.Pos(in.Pos()))
					good := true
					var uses func(v ssa.Value, depth int)
					uses = func(v ssa.Value, depth int) {
						refs := v.Referrers()
						if refs == nil || depth > 4 {
							return
						}
						for _, r := range *refs {
							if _, dbg := r.(*ssa.DebugRef); dbg {
								continue
							}
							if u, isNot := r.(*ssa.UnOp); isNot && u.Op == token.NOT {
								uses(u, depth+1) // "is IPv4" = !"is IPv6"
								continue
							}
							bo, isCmp := r.(*ssa.BinOp)
							if !isCmp || (bo.Op != token.EQL && bo.Op != token.NEQ) {
								a.und = append(a.und, fmt.Sprintf("in context %s the IPv4/IPv6 classification of a rule CIDR is used at %s other than in a comparison with a test of the ipVersion; cannot tie it to the rendering's version", ctx, p.Pos(r.Pos())))
								continue
							}
							other := bo.X
							if other == v {
								other = bo.Y
							}
							if _, onVer, isTest := verTest(other, ctx); !isTest {
								a.und = append(a.und, fmt.Sprintf("in context %s the IPv4/IPv6 classification of a rule CIDR is compared with %s, which is not a recognisable test of the ipVersion", ctx, path(other)))
							} else if !onVer {
								good = false
								a.bad = append(a.bad, fmt.Sprintf("in context %s the IPv4/IPv6 family of a rule CIDR is compared with a version test on %s, which is not the ipVersion being rendered (CIDRs of the wrong family are kept / the right ones dropped)", ctx, path(other)))
							}
						}
					}
					uses(call, 0)
					noteDec(fn, in, good)
				}
			}
			// catchall: a CIDR judged to be "all addresses"
			if bo, ok := in.(*ssa.BinOp); ok && m.ev.feasible(in, ctx) {
				if lit, other, v4, is := c08CatchAllCmp(bo); is {
					famTag := map[bool]string{true: "v4", false: "v6"}[v4]
					a := get("C08.catchall/"+fnName(topFn(fn))+"/"+famTag, p.Pos(in.Pos()))
					strLeaves := c08ValueLeaves(other, ctx, m.inRP)
					// (b) the family filter on the same CIDR: an edge on which
					// isV6(cidr) agrees with "the rendering is IPv6".
					famFilter := func(cx *c08Ctx) EdgePred {
						return func(cond ssa.Value, pol bool) bool {
							cmp, isCmp := cond.(*ssa.BinOp)
							if !isCmp || (cmp.Op != token.EQL && cmp.Op != token.NEQ) {
								return false
							}
							agree := pol
							if cmp.Op == token.NEQ {
								agree = !agree
							}
							for _, xy := range [][2]ssa.Value{{cmp.X, cmp.Y}, {cmp.Y, cmp.X}} {
								clsV, clsIs6 := stripNot(xy[0], true)
								cls := c08ValueLeaves(clsV, cx, m.inRP)
								if len(cls) != 1 {
									continue
								}
								lv, lpol := stripNot(cls[0].V, clsIs6)
								clsIs6 = lpol
								cl, isCall := lv.(*ssa.Call)
								if !isCall || !c08IsCIDRFamilyTest(cl) || !c08SameLeaves(c08ValueLeaves(cl.Common().Args[0], cls[0].Ctx, m.inRP), strLeaves) {
									continue
								}
								is6, onVer, isTest := verTest(xy[1], cx)
								if !isTest || !onVer {
									continue
								}
								// clsIs6: the classification operand being true means IPv6;
								// is6: the version test being true means IPv6;
								// agree: the two operands are equal on this edge.
								return agree == (is6 == clsIs6)
							}
							return false
						}
					}
					// a guard that depends on the version in some other way than the
					// two recognised shapes (whose polarity has been judged above)
					verDep := func(cx *c08Ctx) EdgePred {
						return func(cond ssa.Value, pol bool) bool {
							if !dependsOnVer(cond, cx, 0) {
								return false
							}
							if _, _, isTest := verTest(cond, cx); isTest {
								return false
							}
							if cmp, isCmp := cond.(*ssa.BinOp); isCmp && (cmp.Op == token.EQL || cmp.Op == token.NEQ) {
								for _, xy := range [][2]ssa.Value{{cmp.X, cmp.Y}, {cmp.Y, cmp.X}} {
									if _, _, isTest := verTest(xy[1], cx); !isTest {
										continue
									}
									v, _ := stripNot(xy[0], true)
									for _, l := range c08ValueLeaves(v, cx, m.inRP) {
										lv, _ := stripNot(l.V, true)
										if cl, isCall := lv.(*ssa.Call); isCall && c08IsCIDRFamilyTest(cl) {
											return false
										}
									}
								}
							}
							return true
						}
					}
					switch {
					case c08EstablishedAt(bo, ctx, family(v4)) || c08EstablishedAt(bo, ctx, famFilter):
						noteDec(fn, in, true)
					case c08EstablishedAt(bo, ctx, verDep):
						noteDec(fn, in, true)
						a.und = append(a.und, fmt.Sprintf("in context %s the comparison with the catch-all CIDR %q is guarded by a condition that depends on the ipVersion, but not in a recognised form (version test, or family filter on the same CIDR)", ctx, lit))
					case !c08DirectRuleElems(strLeaves, m.inRP):
						noteDec(fn, in, true)
						a.und = append(a.und, fmt.Sprintf("in context %s the CIDR compared with the catch-all %q does not come straight from a rule's CIDR list; it may have been filtered to the rendered family elsewhere", ctx, lit))
					default:
						noteDec(fn, in, false)
						a.bad = append(a.bad, fmt.Sprintf("in context %s a rule CIDR is compared with the catch-all %q without the CIDR having been established to be of the IP family being rendered (no test of the ipVersion and no family filter on the same CIDR on the way): the other family's /0 in a mixed-family list is judged \"matches everything\" and the whole rule is dropped / the match elided for this IP version", ctx, lit))
					}
				}
			}
		})
	})
	// A function that takes IPv4/IPv6-dependent decisions but is not handed the
	// rendering's version: fine only if every decision is established by its
	// callers' guards.
	for fn, d := range decs {
		if fn == m.root || receivesVer[fn] {
			continue
		}
		nBad := 0
		for _, ok := range d {
			if !ok {
				nBad++
			}
		}
		k := fmt.Sprintf("C08.ipver/arg/%s/none", fnName(fn))
		if nBad > 0 {
			c.Violate(k, p.Pos(fn.Pos()), "%s takes %d IPv4/IPv6-dependent decision(s) (IP set config, ICMP matcher family, CIDR family / catch-all test) but has no parameter that receives the ipVersion being rendered, and %d of them are not established by its callers' guards either", fnName(fn), len(d), nBad)
		} else {
			c.Ok(k, p.Pos(fn.Pos()), "no version parameter needed: all %d IPv4/IPv6-dependent decision(s) are established by the callers' guards", len(d))
		}
	}
	// Fail closed: reads of the two config fields in dynamically reached code.
	for fn := range p.closure(m.root) {
		if fn.Blocks == nil || !m.inRP(fn) {
			continue
		}
		allInstrs(fn, false, func(f *ssa.Function, in ssa.Instruction) {
			if ld, ok := in.(*ssa.UnOp); ok && ld.Op == token.MUL && !visitedRead[in] {
				if fa, ok := ld.X.(*ssa.FieldAddr); ok {
					if _, is := cfgField[structField(fa.X.Type(), fa.Field)]; is {
						c.Undecided("C08.ipver/ipset/"+fnName(topFn(f))+"/"+fieldName(fa.X.Type(), fa.Field)+"/unvisited", p.Pos(in.Pos()),
							"IP set config read in a function reached only through dynamic calls; its version guard cannot be tied to the rendering's ipVersion")
					}
				}
			}
		})
	}
	for _, key := range sortedKeys(res) {
		a := res[key]
		switch {
		case len(a.bad) > 0:
			c.Violate(key, a.site, "%s", strings.Join(c08Uniq(a.bad), " | "))
		case len(a.und) > 0:
			c.Undecided(key, a.site, "%s", strings.Join(c08Uniq(a.und), " | "))
		default:
			c.Ok(key, a.site, "version family established on the ipVersion parameter in %d context(s)", a.n)
		}
	}
	for _, key := range sortedKeys(args) {
		st := args[key]
		switch {
		case st.nNot > 0:
			c.Violate(key, st.site, "%s", strings.Join(c08Uniq(st.bad), " | "))
		case st.nVer == 0:
			c.Violate(key, st.site, "the IP-version parameter never receives the ipVersion being rendered (no call from ProtoRuleToIptablesRules passes it)")
		default:
			c.Ok(key, st.site, "receives the rendering's ipVersion in all %d context(s)", st.nVer)
		}
	}
}

// c08IsCIDRFamilyTest: strings.Contains(x, ":") — the code's test for "this
// CIDR/address string is IPv6".
func c08IsCIDRFamilyTest(call *ssa.Call) bool {
	f := calleeOf(call.Common())
	if f == nil || f.Pkg() == nil || f.Pkg().Path() != "strings" || f.Name() != "Contains" || len(call.Common().Args) != 2 {
		return false
	}
	k, ok := call.Common().Args[1].(*ssa.Const)
	return ok && k.Value != nil && k.Value.Kind() == constant.String && constant.StringVal(k.Value) == ":"
}

func c08DerivesFromNetField(f *c08Facts) bool {
	for q := range f.Fields {
		if strings.HasPrefix(q, "Rule.") && c08ClassifyField(strings.TrimPrefix(q, "Rule.")).Fam == "net" {
			return true
		}
	}
	return false
}

// c08CatchAllCmp: bo compares a string with a constant that is a CIDR of prefix
// length 0 ("0.0.0.0/0", "::/0", and any other spelling net.ParseCIDR accepts).
func c08CatchAllCmp(bo *ssa.BinOp) (lit string, other ssa.Value, v4, ok bool) {
	if bo.Op != token.EQL && bo.Op != token.NEQ {
		return
	}
	for _, xy := range [][2]ssa.Value{{bo.X, bo.Y}, {bo.Y, bo.X}} {
		k, isK := xy[0].(*ssa.Const)
		if !isK || k.Value == nil || k.Value.Kind() != constant.String {
			continue
		}
		s := constant.StringVal(k.Value)
		ip, n, err := net.ParseCIDR(s)
		if err != nil {
			continue
		}
		if ones, _ := n.Mask.Size(); ones != 0 {
			continue
		}
		return s, xy[1], ip.To4() != nil, true
	}
	return
}

func c08SameLeaves(a, b []c08Leaf) bool {
	if len(a) == 0 || len(a) != len(b) {
		return false
	}
	for _, x := range a {
		hit := false
		for _, y := range b {
			if x.V == y.V && x.Ctx == y.Ctx {
				hit = true
			}
		}
		if !hit {
			return false
		}
	}
	return true
}

// c08DirectRuleElems: every leaf is an element read straight out of a []string
// field of a felix/proto message (or of a parameter of the outermost function).
func c08DirectRuleElems(ls []c08Leaf, bodyOK func(*ssa.Function) bool) bool {
	if len(ls) == 0 {
		return false
	}
	for _, l := range ls {
		v := l.V
		if u, ok := v.(*ssa.UnOp); ok && u.Op == token.MUL {
			v = u.X
		}
		var base ssa.Value
		switch x := v.(type) {
		case *ssa.IndexAddr:
			base = x.X
		case *ssa.Index:
			base = x.X
		default:
			return false
		}
		for _, bl := range c08ValueLeaves(base, l.Ctx, bodyOK) {
			switch y := bl.V.(type) {
			case *ssa.Parameter:
				// parameter of the outermost function: the caller's list
			case *ssa.UnOp:
				fa, ok := y.X.(*ssa.FieldAddr)
				if y.Op != token.MUL || !ok || !c08IsProtoMsg(fa.X.Type()) {
					return false
				}
			case *ssa.Call:
				// generated getter of a proto message
				f := calleeOf(y.Common())
				if f == nil || !strings.HasPrefix(f.Name(), "Get") || len(y.Common().Args) != 1 || !c08IsProtoMsg(y.Common().Args[0].Type()) {
					return false
				}
			default:
				return false
			}
		}
	}
	return true
}
