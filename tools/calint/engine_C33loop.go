package main

// Loop structure for C33 (per-service consistent-hash instance): natural loops
// of an SSA function and the loop-carried part of a value's backward data
// slice.  Same technique as engine_C09loop.go / engine_C29loop.go (copied so the
// property files stay independent): everything is derived from the CFG and
// def-use edges, so `for range`, classic for loops, early-continue vs nested-if
// and renamed or re-declared locals all normalise to the same answer.

import (
	"go/constant"
	"go/token"
	"go/types"
	"strconv"
	"strings"

	"golang.org/x/tools/go/ssa"
)

type c33Loop struct {
	Header *ssa.BasicBlock
	Blocks map[*ssa.BasicBlock]bool
}

// c33Loops returns the natural loops of fn (one per header; back edges to the
// same header are merged).
func c33Loops(fn *ssa.Function) []*c33Loop {
	by := map[*ssa.BasicBlock]*c33Loop{}
	var out []*c33Loop
	for _, b := range fn.Blocks {
		for _, h := range b.Succs {
			if !h.Dominates(b) {
				continue
			}
			l := by[h]
			if l == nil {
				l = &c33Loop{Header: h, Blocks: map[*ssa.BasicBlock]bool{h: true}}
				by[h] = l
				out = append(out, l)
			}
			st := []*ssa.BasicBlock{b}
			for len(st) > 0 {
				x := st[len(st)-1]
				st = st[:len(st)-1]
				if l.Blocks[x] {
					continue
				}
				l.Blocks[x] = true
				st = append(st, x.Preds...)
			}
		}
	}
	return out
}

func (l *c33Loop) has(in ssa.Instruction) bool { return in != nil && l.Blocks[in.Block()] }

// c33IsCounter: phi (in the header of l) only counts iterations.
func c33IsCounter(l *c33Loop, phi *ssa.Phi) bool {
	if phi.Block() != l.Header {
		return false
	}
	if b, ok := phi.Type().Underlying().(*types.Basic); !ok || b.Info()&types.IsInteger == 0 {
		return false
	}
	for i, e := range phi.Edges {
		if l.Blocks[phi.Block().Preds[i]] {
			bo, ok := e.(*ssa.BinOp)
			if !ok || (bo.Op != token.ADD && bo.Op != token.SUB) || bo.X != ssa.Value(phi) {
				return false
			}
			if k, ok := bo.Y.(*ssa.Const); !ok || k.Value == nil || k.Value.Kind() != constant.Int {
				return false
			}
			continue
		}
		if in, ok := e.(ssa.Instruction); ok && l.has(in) {
			return false
		}
	}
	return true
}

func c33AllocRoot(v ssa.Value) *ssa.Alloc {
	for {
		switch x := v.(type) {
		case *ssa.Alloc:
			return x
		case *ssa.FieldAddr:
			v = x.X
		case *ssa.IndexAddr:
			v = x.X
		default:
			return nil
		}
	}
}

func c33AddrKey(v ssa.Value) string {
	switch x := v.(type) {
	case *ssa.FieldAddr:
		return c33AddrKey(x.X) + "." + strconv.Itoa(x.Field) + ";"
	case *ssa.IndexAddr:
		return c33AddrKey(x.X) + "[" + pathN(x.Index, 2) + "];"
	}
	return ""
}

// c33StoresTo: every Store whose address is a or a field/element address of a.
func c33StoresTo(a *ssa.Alloc) []*ssa.Store {
	var out []*ssa.Store
	seen := map[ssa.Value]bool{}
	var rec func(addr ssa.Value)
	rec = func(addr ssa.Value) {
		if seen[addr] || addr.Referrers() == nil {
			return
		}
		seen[addr] = true
		for _, r := range *addr.Referrers() {
			switch x := r.(type) {
			case *ssa.Store:
				if x.Addr == addr {
					out = append(out, x)
				}
			case *ssa.FieldAddr:
				if x.X == addr {
					rec(x)
				}
			case *ssa.IndexAddr:
				if x.X == addr {
					rec(x)
				}
			}
		}
	}
	rec(a)
	return out
}

// c33Carried is one way a value depends on an earlier iteration of a loop.
type c33Carried struct {
	V    ssa.Value
	What string
}

// c33LoopCarried walks the backward data slice of root (operands, all phi
// edges, values stored into locals that are read) and returns the places where
// it picks up a value computed by an EARLIER iteration of loop l: a phi in l's
// header that is not a plain iteration counter, or a variable that lives outside
// the loop, is written inside it and is read at a point no write of the current
// iteration dominates.  Values defined outside the loop end the walk.
func c33LoopCarried(l *c33Loop, root ssa.Value) []c33Carried {
	var out []c33Carried
	seen := map[ssa.Value]bool{}
	var walk func(v ssa.Value)
	walk = func(v ssa.Value) {
		if v == nil || seen[v] {
			return
		}
		seen[v] = true
		in, isInstr := v.(ssa.Instruction)
		if !isInstr {
			return
		}
		if a, ok := v.(*ssa.Alloc); ok {
			if l.has(a) {
				for _, st := range c33StoresTo(a) {
					walk(st.Val)
				}
			}
			return
		}
		if !l.has(in) {
			return
		}
		switch x := v.(type) {
		case *ssa.Phi:
			if x.Block() == l.Header {
				if !c33IsCounter(l, x) {
					out = append(out, c33Carried{x, "the value " + c33ValName(x.Comment, x.Name()) + " is carried over from the previous iteration (it is only initialised before the loop)"})
				}
				return
			}
		case *ssa.UnOp:
			if x.Op == token.MUL {
				if a := c33AllocRoot(x.X); a != nil && !l.has(a) {
					var inLoop []*ssa.Store
					reinit := false
					for _, st := range c33StoresTo(a) {
						if l.has(st) {
							inLoop = append(inLoop, st)
							if instrDominates(st, x) && strings.HasPrefix(c33AddrKey(x.X), c33AddrKey(st.Addr)) {
								reinit = true
							}
						}
					}
					if len(inLoop) > 0 && !reinit {
						out = append(out, c33Carried{a, "the variable " + c33ValName(a.Comment, a.Name()) + " lives outside the loop, is written inside it and is read where no write of the current iteration dominates"})
						return
					}
					for _, st := range inLoop {
						walk(st.Val)
					}
					return
				}
			}
		}
		for _, op := range in.Operands(nil) {
			if op != nil {
				walk(*op)
			}
		}
	}
	walk(root)
	return out
}

func c33ValName(comment, name string) string {
	if comment != "" {
		return comment
	}
	return name
}
