package main

// engine_C17pending.go — C17.pending: success is reported only when no work is
// deferred.
//
// C17.errreport accepts two ways for a route-write closure to account for a
// failed netlink call: put the error into an error map (which is then shown to
// force a non-nil return of applyUpdates), or *swallow* the error and add the
// interface to a "deferred work" set on the RouteTable (today ifacesToRescan) so
// that the next attempt rescans it.  The second way keeps applyUpdates' result
// nil, so it is only sound if the exported entry point refuses to report
// success while that set is non-empty.  Hence:
//
//   D  := the set-typed RouteTable fields that an Iter closure of the
//         route-writing function adds to under the non-nil-error edge of one of
//         its fallible calls (derived, not named);
//   E  := every exported RouteTable method with an `error` result from which the
//         route-writing function is reachable;
//   for every call A in E that can (transitively) add to d in D, every CFG path
//   from A to a return of E that does not pass another such call either
//     - crosses an If edge on which d is empty (d.Len()==0, evaluated after A), or
//     - passes d.Clear(), or
//     - returns an error that is non-nil on that path (a constructed error, or a
//       value the path has tested `!= nil`).
//
// The path search is explicit (functions are small): phis are resolved along the
// path, nil-tests on the path are remembered.

import (
	"fmt"
	"go/token"
	"go/types"

	"golang.org/x/tools/go/ssa"
)

// c17DeferredFields derives D (see above) from the Iter sites.
func c17DeferredFields(p *Prog, sites []c17IterSite) (fields []*types.Var, parent *ssa.Function) {
	seen := map[*types.Var]bool{}
	for _, s := range sites {
		if s.Closure == nil {
			continue
		}
		fall := c17FallibleCalls(s.Closure)
		if len(fall) == 0 {
			continue
		}
		parent = s.Encl
		var calls []ssa.CallInstruction
		for _, fc := range fall {
			calls = append(calls, fc.Call)
		}
		onErr := c17NonNilEdge(c17ErrOf(calls...))
		allInstrs(s.Closure, false, func(_ *ssa.Function, in ssa.Instruction) {
			ci, ok := in.(ssa.CallInstruction)
			if !ok {
				return
			}
			cal := calleeOf(ci.Common())
			if !c17IsSetMethod(cal, "Add", "AddAll", "AddSet") {
				return
			}
			args := CallSite{Instr: ci, Callee: cal}.Args()
			if len(args) == 0 {
				return
			}
			fv := fieldVar(args[0])
			if fv == nil || seen[fv] || !guardedCut(in, onErr) {
				return
			}
			seen[fv] = true
			fields = append(fields, fv)
		})
	}
	return
}

// c17AddsTo: fn (its closures, and package functions it statically calls)
// contains a set-Add on field d.
func c17AddsTo(fn *ssa.Function, d *types.Var, memo map[*ssa.Function]int, depth int) bool {
	if fn == nil || fn.Blocks == nil || depth > 8 {
		return false
	}
	if v, ok := memo[fn]; ok {
		return v == 1
	}
	memo[fn] = 0
	found := false
	allInstrs(fn, true, func(_ *ssa.Function, in ssa.Instruction) {
		if found {
			return
		}
		ci, ok := in.(ssa.CallInstruction)
		if !ok {
			return
		}
		if c17IsSetAddOn(ci, d) {
			found = true
			return
		}
		if g := ci.Common().StaticCallee(); g != nil && c16InPkg(g, c17RTPkg) && c17AddsTo(g, d, memo, depth+1) {
			found = true
		}
	})
	if found {
		memo[fn] = 1
	}
	return found
}

func c17IsSetAddOn(ci ssa.CallInstruction, d *types.Var) bool {
	cal := calleeOf(ci.Common())
	if !c17IsSetMethod(cal, "Add", "AddAll", "AddSet") {
		return false
	}
	args := CallSite{Instr: ci, Callee: cal}.Args()
	return len(args) > 0 && fieldVar(args[0]) == d
}

// c17EmptyTest: (cond, pol) establishes that set field d is empty; at is the
// instruction that observed the size.
func c17EmptyTest(cond ssa.Value, pol bool, d *types.Var, depth int) (ok bool, at ssa.Instruction) {
	switch x := cond.(type) {
	case *ssa.BinOp:
		lenOf := func(v ssa.Value) *ssa.Call {
			call, ok := v.(*ssa.Call)
			if !ok {
				return nil
			}
			cal := calleeOf(call.Common())
			if !c17IsSetMethod(cal, "Len") {
				return nil
			}
			args := CallSite{Instr: call, Callee: cal}.Args()
			if len(args) == 0 || fieldVar(args[0]) != d {
				return nil
			}
			return call
		}
		intOf := func(v ssa.Value) (int64, bool) {
			k, ok := constOf(v)
			if !ok {
				return 0, false
			}
			var n int64
			if _, err := fmt.Sscan(k.ExactString(), &n); err != nil {
				return 0, false
			}
			return n, true
		}
		op := x.Op
		lc := lenOf(x.X)
		n, isK := intOf(x.Y)
		if lc == nil {
			// constant on the left: mirror the comparison
			lc = lenOf(x.Y)
			n, isK = intOf(x.X)
			switch op {
			case token.LSS:
				op = token.GTR
			case token.GTR:
				op = token.LSS
			case token.LEQ:
				op = token.GEQ
			case token.GEQ:
				op = token.LEQ
			}
		}
		if lc == nil || !isK {
			return false, nil
		}
		// truth value of the comparison that means "Len() == 0"
		var emptyWhen, decided bool
		switch {
		case op == token.EQL && n == 0, op == token.LEQ && n == 0, op == token.LSS && n == 1:
			emptyWhen, decided = true, true
		case op == token.NEQ && n == 0, op == token.GTR && n == 0, op == token.GEQ && n == 1:
			emptyWhen, decided = false, true
		}
		if !decided || pol != emptyWhen {
			return false, nil
		}
		return true, lc
	case *ssa.Call:
		// a small predicate helper: `func (r *T) pending() bool { return r.d.Len() > 0 }`
		g := x.Common().StaticCallee()
		if depth >= 1 || g == nil || g.Blocks == nil || !c16InPkg(g, c17RTPkg) {
			return false, nil
		}
		rets := returnsOf(g)
		if len(rets) != 1 || len(rets[0].Results) != 1 || len(g.Blocks) != 1 {
			return false, nil
		}
		c2, pol2 := stripNot(rets[0].Results[0], pol)
		if ok, _ := c17EmptyTest(c2, pol2, d, depth+1); ok {
			return true, x
		}
	}
	return false, nil
}

// c17ProvablyNonNilErr: the value is an error that cannot be nil.
func c17ProvablyNonNilErr(v ssa.Value) bool {
	switch x := v.(type) {
	case *ssa.MakeInterface:
		return true
	case *ssa.UnOp:
		if x.Op == token.MUL {
			if g, ok := x.X.(*ssa.Global); ok {
				if pt, ok := g.Type().(*types.Pointer); ok && c17IsErrorType(pt.Elem()) {
					return true
				}
			}
		}
	case *ssa.Call:
		if f := calleeOf(x.Common()); f != nil && f.Pkg() != nil && (f.Pkg().Path() == "fmt" || f.Pkg().Path() == "errors") {
			return f.Name() == "Errorf" || f.Name() == "New"
		}
	}
	return false
}

type c17PendState struct {
	env   map[*ssa.Phi]ssa.Value
	facts map[ssa.Value]bool // true: known non-nil, false: known nil
	visit map[*ssa.BasicBlock]int
}

func (s *c17PendState) clone() *c17PendState {
	n := &c17PendState{env: map[*ssa.Phi]ssa.Value{}, facts: map[ssa.Value]bool{}, visit: map[*ssa.BasicBlock]int{}}
	for k, v := range s.env {
		n.env[k] = v
	}
	for k, v := range s.facts {
		n.facts[k] = v
	}
	for k, v := range s.visit {
		n.visit[k] = v
	}
	return n
}

func (s *c17PendState) resolve(v ssa.Value) ssa.Value {
	for i := 0; i < 16; i++ {
		switch x := v.(type) {
		case *ssa.Phi:
			if r, ok := s.env[x]; ok && r != v {
				v = r
				continue
			}
			return v
		case *ssa.ChangeInterface:
			v = x.X
			continue
		case *ssa.ChangeType:
			v = x.X
			continue
		}
		return v
	}
	return v
}

// c17PendingPaths explores every path from call A (exclusive) to a return of
// its function.  It returns the descriptions of returns that may yield nil while
// d may be non-empty, and of returns whose value it cannot classify.
func c17PendingPaths(p *Prog, A ssa.Instruction, d *types.Var, isA func(ssa.Instruction) bool) (bad, und []string) {
	fn := A.Parent()
	aBlock, aIdx := A.Block(), instrIndex(A)
	aReach := blockReach(aBlock)
	fresh := func(at ssa.Instruction) bool {
		if at.Parent() != fn {
			return false
		}
		if at.Block() == aBlock {
			return instrIndex(at) > aIdx
		}
		return aReach[at.Block()]
	}
	badSeen, undSeen := map[string]bool{}, map[string]bool{}
	steps := 0
	var walk func(b *ssa.BasicBlock, from int, st *c17PendState)
	enter := func(from, to *ssa.BasicBlock, st *c17PendState) {
		if st.visit[to] >= 2 {
			return
		}
		st.visit[to]++
		// parallel phi assignment
		pi := -1
		for i, pb := range to.Preds {
			if pb == from {
				pi = i
			}
		}
		upd := map[*ssa.Phi]ssa.Value{}
		for _, in := range to.Instrs {
			ph, ok := in.(*ssa.Phi)
			if !ok {
				break
			}
			if pi >= 0 {
				upd[ph] = st.resolve(ph.Edges[pi])
			}
		}
		for k, v := range upd {
			st.env[k] = v
			delete(st.facts, ssa.Value(k))
		}
		walk(to, 0, st)
	}
	walk = func(b *ssa.BasicBlock, from int, st *c17PendState) {
		steps++
		if steps > 200000 {
			if !undSeen["budget"] {
				undSeen["budget"] = true
				und = append(und, "path budget exhausted in "+fnName(fn))
			}
			return
		}
		if isPanicBlock(b) {
			return
		}
		for i := from; i < len(b.Instrs); i++ {
			in := b.Instrs[i]
			if in != A && isA(in) {
				return // a later attempt takes over: covered from there
			}
			if ci, ok := in.(ssa.CallInstruction); ok {
				if cal := calleeOf(ci.Common()); c17IsSetMethod(cal, "Clear") {
					if args := (CallSite{Instr: ci, Callee: cal}).Args(); len(args) > 0 && fieldVar(args[0]) == d {
						return
					}
				}
			}
			switch t := in.(type) {
			case *ssa.Return:
				if len(t.Results) == 0 {
					return
				}
				v := st.resolve(t.Results[len(t.Results)-1])
				pos := p.Pos(t.Pos())
				switch {
				case c17ProvablyNonNilErr(v):
				case isNilConst(v):
					if !badSeen[pos] {
						badSeen[pos] = true
						bad = append(bad, "the `return nil` at "+pos)
					}
				default:
					if nn, known := st.facts[v]; known && nn {
						return
					}
					_, isCall := v.(*ssa.Call)
					_, isExt := v.(*ssa.Extract)
					if isCall || isExt {
						if !badSeen[pos] {
							badSeen[pos] = true
							what := "a value"
							if cv, ok := v.(*ssa.Call); ok {
								what = "the result of " + c17CalleeName(cv)
							}
							bad = append(bad, "the return at "+pos+" (returning "+what+", not known to be non-nil on this path)")
						}
						return
					}
					if !undSeen[pos] {
						undSeen[pos] = true
						und = append(und, "the value returned at "+pos+" ("+path(v)+")")
					}
				}
				return
			case *ssa.If:
				if len(b.Succs) != 2 {
					return
				}
				for k, s := range b.Succs {
					cond, pol := stripNot(t.Cond, k == 0)
					if ok, at := c17EmptyTest(cond, pol, d, 0); ok && fresh(at) {
						continue
					}
					ns := st.clone()
					if bo, ok := cond.(*ssa.BinOp); ok && (bo.Op == token.EQL || bo.Op == token.NEQ) {
						var xv ssa.Value
						if isNilConst(bo.Y) {
							xv = bo.X
						} else if isNilConst(bo.X) {
							xv = bo.Y
						}
						if xv != nil {
							isNil := pol
							if bo.Op == token.NEQ {
								isNil = !pol
							}
							rv := ns.resolve(xv)
							if prev, known := ns.facts[rv]; known && prev == isNil {
								continue // contradicts what this path already knows: infeasible
							}
							ns.facts[rv] = !isNil
						}
					}
					enter(b, s, ns)
				}
				return
			case *ssa.Jump:
				enter(b, b.Succs[0], st)
				return
			case *ssa.Panic:
				return
			}
		}
	}
	st := &c17PendState{env: map[*ssa.Phi]ssa.Value{}, facts: map[ssa.Value]bool{}, visit: map[*ssa.BasicBlock]int{}}
	walk(aBlock, aIdx+1, st)
	return
}

func c17Pending(c *Ctx, p *Prog, sites []c17IterSite) {
	fields, parent := c17DeferredFields(p, sites)
	if parent == nil {
		c.Lost("no route Iter closure with a netlink call")
	}
	if len(fields) == 0 {
		c.Lost("%s: no Iter closure defers a failed write by adding to a set field of RouteTable (error-swallowing branch no longer recognisable)", fnName(parent))
	}
	// entry points
	reaches := func(fn *ssa.Function) bool {
		seen := map[*ssa.Function]bool{}
		var rec func(f *ssa.Function, d int) bool
		rec = func(f *ssa.Function, d int) bool {
			if f == nil || f.Blocks == nil || seen[f] || d > 8 {
				return false
			}
			seen[f] = true
			if f == parent {
				return true
			}
			hit := false
			allInstrs(f, true, func(_ *ssa.Function, in ssa.Instruction) {
				if ci, ok := in.(ssa.CallInstruction); ok && !hit {
					if g := ci.Common().StaticCallee(); g != nil && c16InPkg(g, c17RTPkg) && rec(g, d+1) {
						hit = true
					}
				}
			})
			return hit
		}
		return rec(fn, 0)
	}
	recv := recvTypeName(parent.Object().(*types.Func))
	nEntries := 0
	for _, m := range p.methodsOf(c17RTPkg, recv) {
		o, _ := m.Object().(*types.Func)
		if o == nil || !o.Exported() || m == parent {
			continue
		}
		res := o.Type().(*types.Signature).Results()
		if res.Len() == 0 || !c17IsErrorType(res.At(res.Len()-1).Type()) || !reaches(m) {
			continue
		}
		nEntries++
		for _, d := range fields {
			key := "C17.pending/" + fnName(m) + "/" + d.Name()
			memo := map[*ssa.Function]int{}
			isA := func(in ssa.Instruction) bool {
				ci, ok := in.(ssa.CallInstruction)
				if !ok {
					return false
				}
				if _, isDefer := in.(*ssa.Defer); isDefer {
					return false
				}
				if c17IsSetAddOn(ci, d) {
					return true
				}
				g := ci.Common().StaticCallee()
				return g != nil && c16InPkg(g, c17RTPkg) && c17AddsTo(g, d, memo, 0)
			}
			var starts []ssa.Instruction
			allInstrs(m, false, func(_ *ssa.Function, in ssa.Instruction) {
				if isA(in) {
					starts = append(starts, in)
				}
			})
			if len(starts) == 0 {
				c.Undecided(key, p.Pos(m.Pos()), "%s reaches %s but no call in its own body can add to %s (closure / dynamic call?)", fnName(m), fnName(parent), d.Name())
				continue
			}
			var bad, und []string
			for _, a := range starts {
				b, u := c17PendingPaths(p, a, d, isA)
				for _, s := range b {
					bad = append(bad, s+" after "+c17CalleeName(a.(ssa.CallInstruction))+" ("+p.Pos(a.Pos())+")")
				}
				und = append(und, u...)
			}
			switch {
			case len(bad) > 0:
				c.Violate(key, p.Pos(m.Pos()), "%s can report success while %s is non-empty: %s is reachable without a test that %s is empty (or clearing it) since the last attempt.  %s swallows interface-down errors of route writes by queuing the interface in %s, so a desired route is missing from the kernel while the caller is told the table is in sync and does not reschedule",
					fnName(m), d.Name(), bad[0], d.Name(), fnName(parent), d.Name())
			case len(und) > 0:
				c.Undecided(key, p.Pos(m.Pos()), "%s: cannot tell whether %s is nil", fnName(m), und[0])
			default:
				c.Ok(key, p.Pos(m.Pos()), "%d attempt call(s) that can defer work into %s; every nil return after them is behind an emptiness test of %s", len(starts), d.Name(), d.Name())
			}
		}
	}
	if nEntries == 0 {
		c.Lost("no exported %s method with an error result reaches %s", recv, fnName(parent))
	}
}
