package main

import (
	"fmt"
	"go/ast"
	"go/token"
	"go/types"
	"sort"
	"strings"

	"golang.org/x/tools/go/packages"
)

// Twin-block symmetry (C01.twin).
//
// The calc graph treats IPv4 and IPv6 with duplicated code: two sibling
// statements (or two case clauses of one switch) that are copies of each other
// up to the systematic substitution of every "IPv4 thing" by its "IPv6 twin"
// (field V4CIDR -> V6CIDR, method ContainsV4 -> ContainsV6, local myNewV4CIDR ->
// myNewV6CIDR, unmarked VXLANAddr -> VXLANV6Addr, literal 4 -> 6).  The IPv6 half
// computes IPv6 state from IPv6 inputs exactly as the IPv4 half does from IPv4
// inputs only if the substitution is complete: an identifier that HAS a twin in
// scope but is used un-substituted by both halves makes one family's output
// depend on the other family's input (and miss changes of its own).
//
// Twins are found structurally: same AST shape, every identifier leaf either the
// same object / alpha-equivalent block-local, or related by the twin relation,
// and at least one leaf related by the twin relation.  Nothing is matched by
// text, position or statement count.

// c01TwinNames: the names an IPv6 twin of `name` may have.
func c01TwinNames(name string) []string {
	marked := false
	b := []byte(name)
	for i := 1; i < len(b); i++ {
		if b[i] == '4' && (b[i-1] == 'v' || b[i-1] == 'V') {
			b[i] = '6'
			marked = true
		}
	}
	if marked {
		return []string{string(b)}
	}
	var out []string
	for i := 0; i <= len(name); i++ {
		out = append(out, name[:i]+"V6"+name[i:], name[:i]+"v6"+name[i:])
	}
	return out
}

// c01RevTwinNames: the names the IPv4 twin of `name` may have.
func c01RevTwinNames(name string) []string {
	var out []string
	b := []byte(name)
	marked := false
	for i := 1; i < len(b); i++ {
		if b[i] == '6' && (b[i-1] == 'v' || b[i-1] == 'V') {
			b[i] = '4'
			marked = true
		}
	}
	if marked {
		out = append(out, string(b))
	}
	for _, m := range []string{"V6", "v6"} {
		for i := 0; i+2 <= len(name); i++ {
			if name[i:i+2] == m {
				out = append(out, name[:i]+name[i+2:])
			}
		}
	}
	return out
}

type c01Leaf struct {
	Id  *ast.Ident    // identifier leaf, or
	Lit *ast.BasicLit // literal leaf
	Sel *ast.SelectorExpr
}

// c01Shape linearises n: the shape string captures node kinds, operators and
// bracketing; identifiers and literals are collected as leaves in order.
func c01Shape(n ast.Node) (string, []c01Leaf) {
	var sb strings.Builder
	var leaves []c01Leaf
	selOf := map[*ast.Ident]*ast.SelectorExpr{}
	ast.Inspect(n, func(x ast.Node) bool {
		if x == nil {
			sb.WriteByte(')')
			return true
		}
		switch y := x.(type) {
		case *ast.Ident:
			sb.WriteString("(id")
			leaves = append(leaves, c01Leaf{Id: y, Sel: selOf[y]})
		case *ast.BasicLit:
			fmt.Fprintf(&sb, "(lit:%v", y.Kind)
			leaves = append(leaves, c01Leaf{Lit: y})
		case *ast.SelectorExpr:
			selOf[y.Sel] = y
			sb.WriteString("(sel")
		case *ast.BinaryExpr:
			fmt.Fprintf(&sb, "(bin%v", y.Op)
		case *ast.UnaryExpr:
			fmt.Fprintf(&sb, "(un%v", y.Op)
		case *ast.AssignStmt:
			fmt.Fprintf(&sb, "(as%v/%d/%d", y.Tok, len(y.Lhs), len(y.Rhs))
		case *ast.IncDecStmt:
			fmt.Fprintf(&sb, "(incdec%v", y.Tok)
		case *ast.BranchStmt:
			fmt.Fprintf(&sb, "(br%v", y.Tok)
		case *ast.CallExpr:
			fmt.Fprintf(&sb, "(call/%d/%v", len(y.Args), y.Ellipsis.IsValid())
		case *ast.IfStmt:
			fmt.Fprintf(&sb, "(if/%v/%v", y.Init != nil, y.Else != nil)
		case *ast.CaseClause:
			fmt.Fprintf(&sb, "(case/%d/%d", len(y.List), len(y.Body))
		case *ast.CommentGroup, *ast.Comment:
			return false
		default:
			fmt.Fprintf(&sb, "(%T", x)
		}
		return true
	})
	return sb.String(), leaves
}

type c01TwinCtx struct {
	pk   *packages.Package
	info *types.Info
}

func (t *c01TwinCtx) obj(id *ast.Ident) types.Object {
	if o := t.info.Uses[id]; o != nil {
		return o
	}
	return t.info.Defs[id]
}

// lookupNames resolves candidate names the way leaf `lf` (holding object o) is
// resolved: as members of the selector's receiver types, as package-level
// objects of o's package, or through the lexical scopes at `at`.
func (t *c01TwinCtx) lookupNames(names []string, o types.Object, lf c01Leaf, recvTypes []types.Type, at token.Pos) []types.Object {
	var out []types.Object
	add := func(x types.Object) {
		if x != nil && x != o {
			out = append(out, x)
		}
	}
	isMember := false
	if v, ok := o.(*types.Var); ok && v.IsField() {
		isMember = true
	}
	if f, ok := o.(*types.Func); ok {
		if sig, _ := f.Type().(*types.Signature); sig != nil && sig.Recv() != nil {
			isMember = true
		}
	}
	for _, n := range names {
		switch {
		case isMember:
			for _, rt := range recvTypes {
				if rt == nil {
					continue
				}
				m, _, _ := types.LookupFieldOrMethod(rt, true, t.pk.Types, n)
				add(m)
			}
		case o.Pkg() != nil && o.Parent() == o.Pkg().Scope():
			add(o.Pkg().Scope().Lookup(n))
		default:
			if sc := t.pk.Types.Scope().Innermost(at); sc != nil {
				_, x := sc.LookupParent(n, at)
				add(x)
			}
		}
	}
	return out
}

func (t *c01TwinCtx) recvType(lf c01Leaf) types.Type {
	if lf.Sel == nil {
		return nil
	}
	if s := t.info.Selections[lf.Sel]; s != nil {
		return s.Recv()
	}
	return nil
}

// ownerStructs: struct types of o's package that declare field o (for field
// names used as composite-literal keys, which carry no selection).
func (t *c01TwinCtx) ownerStructs(o types.Object) []types.Type {
	v, ok := o.(*types.Var)
	if !ok || !v.IsField() || v.Pkg() == nil {
		return nil
	}
	var out []types.Type
	sc := v.Pkg().Scope()
	for _, n := range sc.Names() {
		tn, ok := sc.Lookup(n).(*types.TypeName)
		if !ok {
			continue
		}
		if st, ok := tn.Type().Underlying().(*types.Struct); ok {
			for i := 0; i < st.NumFields(); i++ {
				if st.Field(i) == v {
					out = append(out, tn.Type())
				}
			}
		}
	}
	return out
}

type c01TwinPair struct {
	Fn      string
	A, B    ast.Node
	Label   string
	NTwin   int
	Unsub   []string // "<name> (twin <twin> in scope) used by both halves"
	UnsubAt token.Pos
}

// c01CompareTwin classifies the leaves of same-shaped a and b (a = IPv4 side).
// ok=false: not a twin pair (some leaf differs other than by the twin relation,
// or no leaf is twin-related).
func (t *c01TwinCtx) compareTwin(a, b ast.Node, la, lb []c01Leaf) (pair c01TwinPair, ok bool) {
	inside := func(o types.Object, n ast.Node) bool {
		return o != nil && o.Pos() >= n.Pos() && o.Pos() < n.End()
	}
	bind := map[types.Object]types.Object{}
	var label, calls []string
	seenL, seenC := map[string]bool{}, map[string]bool{}
	callFun := map[*ast.Ident]bool{}
	ast.Inspect(a, func(x ast.Node) bool {
		if ce, ok := x.(*ast.CallExpr); ok {
			switch f := ast.Unparen(ce.Fun).(type) {
			case *ast.Ident:
				callFun[f] = true
			case *ast.SelectorExpr:
				callFun[f.Sel] = true
			}
		}
		return true
	})
	for i := range la {
		x, y := la[i], lb[i]
		if x.Lit != nil {
			if y.Lit == nil {
				return pair, false
			}
			switch {
			case x.Lit.Kind == token.STRING && y.Lit.Kind == token.STRING:
				// message texts are not compared
			case x.Lit.Value == y.Lit.Value:
			case x.Lit.Kind == token.INT && x.Lit.Value == "4" && y.Lit.Value == "6":
				pair.NTwin++
			default:
				return pair, false
			}
			continue
		}
		if y.Id == nil {
			return pair, false
		}
		oa, ob := t.obj(x.Id), t.obj(y.Id)
		if oa == nil || ob == nil {
			if oa != ob || x.Id.Name != y.Id.Name {
				return pair, false
			}
			continue
		}
		if _, isPkg := oa.(*types.PkgName); isPkg {
			if oa != ob {
				return pair, false
			}
			continue
		}
		ia, ib := inside(oa, a), inside(ob, b)
		if ia || ib {
			// block-local names: alpha-equivalence
			if ia != ib {
				return pair, false
			}
			if prev, seen := bind[oa]; seen {
				if prev != ob {
					return pair, false
				}
			} else {
				bind[oa] = ob
			}
			continue
		}
		recv := []types.Type{t.recvType(x), t.recvType(y)}
		recv = append(recv, t.ownerStructs(oa)...)
		twins := t.lookupNames(c01TwinNames(oa.Name()), oa, x, recv, y.Id.Pos())
		if len(twins) > 0 && !seenL[oa.Name()] {
			seenL[oa.Name()] = true
			label = append(label, oa.Name())
		}
		if len(twins) == 0 && callFun[x.Id] && !seenC[oa.Name()] {
			seenC[oa.Name()] = true
			calls = append(calls, oa.Name())
		}
		if oa == ob {
			if len(twins) > 0 {
				pair.Unsub = append(pair.Unsub, fmt.Sprintf("%s (its IPv6 twin %s exists) is used by the IPv6 half", oa.Name(), twins[0].Name()))
				if !pair.UnsubAt.IsValid() {
					pair.UnsubAt = y.Id.Pos()
				}
				continue
			}
			recvB := []types.Type{t.recvType(x), t.recvType(y)}
			recvB = append(recvB, t.ownerStructs(oa)...)
			if rev := t.lookupNames(c01RevTwinNames(oa.Name()), oa, x, recvB, x.Id.Pos()); len(rev) > 0 {
				pair.Unsub = append(pair.Unsub, fmt.Sprintf("%s (its IPv4 twin %s exists) is used by the IPv4 half", oa.Name(), rev[0].Name()))
				if !pair.UnsubAt.IsValid() {
					pair.UnsubAt = x.Id.Pos()
				}
			}
			continue
		}
		isTwin := false
		for _, tw := range twins {
			if tw == ob {
				isTwin = true
			}
		}
		if !isTwin {
			return pair, false
		}
		pair.NTwin++
	}
	if pair.NTwin == 0 {
		return pair, false
	}
	if len(label) > 4 {
		label = label[:4]
	}
	if len(calls) > 2 {
		calls = calls[:2]
	}
	pair.Label = strings.Join(label, "+")
	if len(calls) > 0 {
		pair.Label += "@" + strings.Join(calls, "+")
	}
	pair.A, pair.B = a, b
	return pair, true
}

// c01FindTwins returns every twin pair among sibling statements / case clauses
// in the functions of package pkgPath accepted by keep.
func c01FindTwins(p *Prog, pkgPath string, keep func(fd *ast.FuncDecl, info *types.Info) bool) []c01TwinPair {
	pk := p.Pkg(pkgPath)
	if pk == nil {
		return nil
	}
	t := &c01TwinCtx{pk: pk, info: pk.TypesInfo}
	var out []c01TwinPair
	p.eachFuncDecl(pkgPath, func(_ *packages.Package, fd *ast.FuncDecl) {
		if fd.Body == nil || !keep(fd, pk.TypesInfo) {
			return
		}
		fname := fd.Name.Name
		if fd.Recv != nil && len(fd.Recv.List) == 1 {
			rt := fd.Recv.List[0].Type
			if st, ok := rt.(*ast.StarExpr); ok {
				rt = st.X
			}
			if id, ok := rt.(*ast.Ident); ok {
				fname = id.Name + "." + fname
			}
		}
		var lists [][]ast.Node
		ast.Inspect(fd.Body, func(x ast.Node) bool {
			switch y := x.(type) {
			case *ast.BlockStmt:
				var l []ast.Node
				for _, s := range y.List {
					l = append(l, s)
				}
				lists = append(lists, l)
			case *ast.CaseClause:
				var l []ast.Node
				for _, s := range y.Body {
					l = append(l, s)
				}
				lists = append(lists, l)
			}
			return true
		})
		for _, l := range lists {
			type sh struct {
				s  string
				lv []c01Leaf
			}
			shapes := make([]sh, len(l))
			for i, n := range l {
				s, lv := c01Shape(n)
				shapes[i] = sh{s, lv}
			}
			for i := 0; i < len(l); i++ {
				for j := 0; j < len(l); j++ {
					if i == j || shapes[i].s != shapes[j].s || len(shapes[i].lv) != len(shapes[j].lv) {
						continue
					}
					if pr, ok := t.compareTwin(l[i], l[j], shapes[i].lv, shapes[j].lv); ok {
						pr.Fn = fname
						out = append(out, pr)
					}
				}
			}
		}
	})
	sort.SliceStable(out, func(i, j int) bool { return out[i].A.Pos() < out[j].A.Pos() })
	// disambiguate equal labels inside one function by ordinal
	n := map[string]int{}
	for i := range out {
		k := out[i].Fn + "/" + out[i].Label
		n[k]++
		if n[k] > 1 {
			out[i].Label += fmt.Sprintf("#%d", n[k])
		}
	}
	return out
}

// ---------------------------------------------------------- missing twins --

// c01MissingTwin: one function that handles both address families of a struct
// (it uses both members of at least one IPv4/IPv6 field pair of the struct) but
// only one member of another pair of the same struct.
type c01MissingTwin struct {
	Fn      string
	Struct  string
	Have    *types.Var // the member that is used
	Missing *types.Var // its twin, which the function never mentions
	Witness [2]*types.Var
	Pos     token.Pos
}

type c01TwinUse struct {
	Fn     string
	Struct string
	Pairs  int // field pairs of the struct with both members used
	Pos    token.Pos
}

// c01FieldTwins finds, per function of pkgPath, the structs it treats
// dual-stack and the twin pairs of those structs it uses one-sidedly.
func c01FieldTwins(p *Prog, pkgPath string) (uses []c01TwinUse, missing []c01MissingTwin) {
	pk := p.Pkg(pkgPath)
	if pk == nil {
		return nil, nil
	}
	info := pk.TypesInfo
	// owner struct of a field, twin pairs per struct (cached)
	type pair struct{ a, b *types.Var }
	ownerCache := map[*types.Package]map[*types.Var]*types.TypeName{}
	owner := func(v *types.Var) *types.TypeName {
		if v.Pkg() == nil {
			return nil
		}
		m := ownerCache[v.Pkg()]
		if m == nil {
			m = map[*types.Var]*types.TypeName{}
			sc := v.Pkg().Scope()
			for _, n := range sc.Names() {
				tn, ok := sc.Lookup(n).(*types.TypeName)
				if !ok {
					continue
				}
				if st, ok := tn.Type().Underlying().(*types.Struct); ok {
					for i := 0; i < st.NumFields(); i++ {
						if _, dup := m[st.Field(i)]; !dup {
							m[st.Field(i)] = tn
						}
					}
				}
			}
			ownerCache[v.Pkg()] = m
		}
		return m[v]
	}
	qn := func(tn *types.TypeName) string {
		if tn.Pkg() != nil {
			return tn.Pkg().Name() + "." + tn.Name()
		}
		return tn.Name()
	}
	pairCache := map[*types.TypeName][]pair{}
	pairsOf := func(tn *types.TypeName) []pair {
		if ps, ok := pairCache[tn]; ok {
			return ps
		}
		st := tn.Type().Underlying().(*types.Struct)
		byName := map[string]*types.Var{}
		for i := 0; i < st.NumFields(); i++ {
			byName[st.Field(i).Name()] = st.Field(i)
		}
		var ps []pair
		for i := 0; i < st.NumFields(); i++ {
			f := st.Field(i)
			for _, tw := range c01TwinNames(f.Name()) {
				if g := byName[tw]; g != nil && g != f && c01TwinTypes(f.Type(), g.Type()) {
					ps = append(ps, pair{f, g})
					break
				}
			}
		}
		pairCache[tn] = ps
		return ps
	}
	p.eachFuncDecl(pkgPath, func(_ *packages.Package, fd *ast.FuncDecl) {
		if fd.Body == nil {
			return
		}
		fname := fd.Name.Name
		if fd.Recv != nil && len(fd.Recv.List) == 1 {
			rt := fd.Recv.List[0].Type
			if st, ok := rt.(*ast.StarExpr); ok {
				rt = st.X
			}
			if id, ok := rt.(*ast.Ident); ok {
				fname = id.Name + "." + fname
			}
		}
		used := map[*types.Var]token.Pos{}
		ast.Inspect(fd.Body, func(n ast.Node) bool {
			id, ok := n.(*ast.Ident)
			if !ok {
				return true
			}
			if v, ok := info.Uses[id].(*types.Var); ok && v.IsField() {
				if _, dup := used[v]; !dup {
					used[v] = id.Pos()
				}
			}
			return true
		})
		structs := map[*types.TypeName]bool{}
		for v := range used {
			if tn := owner(v); tn != nil {
				structs[tn] = true
			}
		}
		var tns []*types.TypeName
		for tn := range structs {
			tns = append(tns, tn)
		}
		sort.Slice(tns, func(i, j int) bool { return tns[i].Name() < tns[j].Name() })
		for _, tn := range tns {
			var both []pair
			var one []c01MissingTwin
			for _, pr := range pairsOf(tn) {
				_, ua := used[pr.a]
				_, ub := used[pr.b]
				switch {
				case ua && ub:
					both = append(both, pr)
				case ua:
					one = append(one, c01MissingTwin{Fn: fname, Struct: qn(tn), Have: pr.a, Missing: pr.b, Pos: used[pr.a]})
				case ub:
					one = append(one, c01MissingTwin{Fn: fname, Struct: qn(tn), Have: pr.b, Missing: pr.a, Pos: used[pr.b]})
				}
			}
			if len(both) == 0 {
				continue
			}
			uses = append(uses, c01TwinUse{fname, qn(tn), len(both), used[both[0].a]})
			for _, m := range one {
				m.Witness = [2]*types.Var{both[0].a, both[0].b}
				missing = append(missing, m)
			}
		}
	})
	return uses, missing
}

// c01TwinTypes: the two fields hold the same kind of thing for the two address
// families: identical types, or named types that are themselves twins
// (ip.V4Addr / ip.V6Addr), possibly behind the same pointer/slice/map shape.
func c01TwinTypes(a, b types.Type) bool {
	a, b = types.Unalias(a), types.Unalias(b)
	if types.Identical(a, b) {
		return true
	}
	switch x := a.(type) {
	case *types.Pointer:
		if y, ok := b.(*types.Pointer); ok {
			return c01TwinTypes(x.Elem(), y.Elem())
		}
	case *types.Slice:
		if y, ok := b.(*types.Slice); ok {
			return c01TwinTypes(x.Elem(), y.Elem())
		}
	case *types.Map:
		if y, ok := b.(*types.Map); ok {
			return types.Identical(x.Key(), y.Key()) && c01TwinTypes(x.Elem(), y.Elem())
		}
	case *types.Named:
		y, ok := b.(*types.Named)
		if !ok || x.Obj().Pkg() != y.Obj().Pkg() {
			return false
		}
		for _, tw := range c01TwinNames(x.Obj().Name()) {
			if tw == y.Obj().Name() {
				return true
			}
		}
	}
	return false
}
