package main

import (
	"fmt"
	"go/constant"
	"go/token"
	"go/types"
	"sort"
	"strings"
	"unicode"

	"golang.org/x/tools/go/ssa"
)

// ---------------------------------------------------------------------------
// C32.twin: the per-action fan-out of a flow's counters.
//
// `statistics` keeps, per counter kind (packets, bytes, connections), a `counts`
// struct whose fields are the product  {action class} x {direction}  (today
// Allowed/Denied/Passed x In/Out).  The classes and directions are derived from
// the struct: every field name is split at its last capitalised word, and the
// names must form the full product.  Code that fans a flow out into these
// counters does so in one arm per policy action (a region controlled by
// `<value of type proto.Action> == constant`).  Necessary for "statistics equal
// the sums of the accepted flows":
//   class     every store of an arm goes to counters of ONE class (an arm never
//             increments another action's counter), and where the action
//             constant's name shares a stem with exactly one class, that one;
//   distinct  different arms write different classes and together all classes;
//   shape     the arms are twins: modulo the class, each arm writes the same
//             (counter kind, direction, source value) cells, and where two arms
//             test the same expression for a cell (the reporter direction), they
//             do not test it contradictorily.
// A copy/paste slip between arms breaks `class` (stale class) or `shape` (stale
// direction / source / guard).
// ---------------------------------------------------------------------------

// c32SplitName: "AllowedIn" -> ("Allowed", "In"): split before the last
// upper-case letter that starts a word.
func c32SplitName(n string) (string, string, bool) {
	rs := []rune(n)
	for i := len(rs) - 1; i > 0; i-- {
		if unicode.IsUpper(rs[i]) && !unicode.IsUpper(rs[i-1]) {
			return string(rs[:i]), string(rs[i:]), true
		}
	}
	return "", "", false
}

// c32Product: the fields of struct t as a full product class x suffix.
func c32Product(t types.Type) (fields map[*types.Var][2]string, classes, suffixes []string, err string) {
	st, ok := t.Underlying().(*types.Struct)
	if !ok || st.NumFields() == 0 {
		return nil, nil, nil, "not a struct"
	}
	fields = map[*types.Var][2]string{}
	cs, ss := map[string]bool{}, map[string]bool{}
	have := map[[2]string]bool{}
	for i := 0; i < st.NumFields(); i++ {
		f := st.Field(i)
		a, b, ok := c32SplitName(f.Name())
		if !ok {
			return nil, nil, nil, "field " + f.Name() + " is not <class><direction>"
		}
		fields[f] = [2]string{a, b}
		cs[a], ss[b] = true, true
		have[[2]string{a, b}] = true
	}
	if len(cs) < 2 || len(ss) < 2 || len(cs)*len(ss) != st.NumFields() || len(have) != st.NumFields() {
		return nil, nil, nil, fmt.Sprintf("%d fields are not the full product of %d classes and %d directions", st.NumFields(), len(cs), len(ss))
	}
	for k := range cs {
		classes = append(classes, k)
	}
	for k := range ss {
		suffixes = append(suffixes, k)
	}
	sort.Strings(classes)
	sort.Strings(suffixes)
	return fields, classes, suffixes, ""
}

// c32G: a condition with a known truth value: lhs == c (eq) / lhs != c (!eq).
type c32G struct {
	lhs string
	c   string
	eq  bool
}

func (g c32G) String() string {
	if g.eq {
		return g.lhs + "==" + g.c
	}
	return g.lhs + "!=" + g.c
}

func c32Contradict(a, b []c32G) (c32G, c32G, bool) {
	for _, x := range a {
		for _, y := range b {
			if x.lhs != y.lhs {
				continue
			}
			if (x.c == y.c && x.eq != y.eq) || (x.c != y.c && x.eq && y.eq) {
				return x, y, true
			}
		}
	}
	return c32G{}, c32G{}, false
}

// c32Guards splits the dominating guards of in into equalities on values of
// type armT (the arm) and everything else.
func c32Guards(in ssa.Instruction, armT types.Type) (arm []c32G, armVals []constant.Value, other []c32G) {
	for _, g := range guardsOf(in) {
		if bo, ok := g.Cond.(*ssa.BinOp); ok && (bo.Op == token.EQL || bo.Op == token.NEQ) {
			lhs, rhs := bo.X, bo.Y
			cv, isC := constOf(rhs)
			if !isC {
				lhs, rhs = bo.Y, bo.X
				cv, isC = constOf(rhs)
			}
			if isC {
				e := c32G{path(lhs), cv.ExactString(), g.True == (bo.Op == token.EQL)}
				if types.Identical(lhs.Type(), armT) {
					arm = append(arm, e)
					if e.eq {
						armVals = append(armVals, cv)
					}
				} else {
					other = append(other, e)
				}
				continue
			}
		}
		other = append(other, c32G{path(g.Cond), "true", g.True})
	}
	return
}

type c32Cell struct {
	st     *ssa.Store
	fn     *ssa.Function
	owner  *ssa.Function // function holding the arm test
	class  string
	suffix string
	kind   string // which counts struct (packets / bytes / connections)
	src    string // what is added
	arm    string // canonical arm id ("" = not under an action test)
	armVal constant.Value
	other  []c32G
}

func (x *c32Cell) cellKey() string { return x.kind + "." + "*" + x.suffix + " += " + x.src }

func c32ArmID(arm []c32G) string {
	var pos, neg []string
	for _, g := range arm {
		if g.eq {
			pos = append(pos, g.c)
		} else {
			neg = append(neg, "!"+g.c)
		}
	}
	sort.Strings(pos)
	sort.Strings(neg)
	if len(pos) > 0 {
		return strings.Join(pos, ",")
	}
	return strings.Join(neg, ",")
}

func c32LCP(a, b string) int {
	n := 0
	for n < len(a) && n < len(b) && a[n] == b[n] {
		n++
	}
	return n
}

func c32Twin(c *Ctx, p *Prog) {
	statT, _ := p.LookupObj(c32Pkg, "statistics").(*types.TypeName)
	if statT == nil {
		c.Lost("type storage.statistics")
	}
	sst, ok := statT.Type().Underlying().(*types.Struct)
	if !ok || sst.NumFields() == 0 {
		c.Lost("storage.statistics is not a struct with fields")
	}
	countsT := sst.Field(0).Type()
	for i := 0; i < sst.NumFields(); i++ {
		if !types.Identical(sst.Field(i).Type(), countsT) {
			c.Lost("the fields of storage.statistics are not all of one counter-struct type")
		}
	}
	fields, classes, _, perr := c32Product(countsT)
	if perr != "" {
		c.Lost("storage.%s: %s", namedTypeName(countsT), perr)
	}
	actObj := p.LookupExt("goldmane/proto", "Action")
	if actObj == nil {
		c.Lost("type proto.Action")
	}
	actT := actObj.Type()
	constName := func(v constant.Value) string {
		if v == nil {
			return ""
		}
		sc := actObj.Pkg().Scope()
		for _, n := range sc.Names() {
			if k, ok := sc.Lookup(n).(*types.Const); ok && types.Identical(k.Type(), actT) && constant.Compare(k.Val(), token.EQL, v) {
				return n
			}
		}
		return ""
	}

	// static call sites per package function (to inherit the arm of an extracted helper)
	sites := map[*ssa.Function][]ssa.Instruction{}
	for _, f := range p.AllFuncs() {
		allInstrs(f, false, func(_ *ssa.Function, in ssa.Instruction) {
			if ci, ok := in.(ssa.CallInstruction); ok {
				if g := calleeFn(ci.Common()); g != nil && g.Blocks != nil {
					sites[g] = append(sites[g], in)
				}
			}
		})
	}

	var cells []*c32Cell
	for _, f := range p.AllFuncs() {
		allInstrs(f, false, func(_ *ssa.Function, in ssa.Instruction) {
			st, ok := in.(*ssa.Store)
			if !ok {
				return
			}
			fa, ok := st.Addr.(*ssa.FieldAddr)
			if !ok {
				return
			}
			fv := structField(fa.X.Type(), fa.Field)
			cs, ok := fields[fv]
			if !ok {
				return
			}
			x := &c32Cell{st: st, fn: f, owner: f, class: cs[0], suffix: cs[1]}
			if kv := fieldVar(fa.X); kv != nil {
				x.kind = kv.Name()
			} else {
				x.kind = path(fa.X)
			}
			// what is stored: old + X  ->  X
			x.src = c32Src(st)
			arm, vals, other := c32Guards(st, actT)
			x.other = other
			if len(arm) == 0 {
				// extracted helper: all its call sites sit in the same arm
				id, owner := "", (*ssa.Function)(nil)
				var v0 []constant.Value
				same := len(sites[f]) > 0
				for i, cs := range sites[f] {
					a, vs, _ := c32Guards(cs, actT)
					if i == 0 {
						id, owner, v0 = c32ArmID(a), cs.Parent(), vs
					} else if c32ArmID(a) != id || cs.Parent() != owner {
						same = false
					}
				}
				if same && id != "" {
					x.arm, x.owner, vals = id, owner, v0
				}
			} else {
				x.arm = c32ArmID(arm)
			}
			if len(vals) == 1 {
				x.armVal = vals[0]
			}
			cells = append(cells, x)
		})
	}
	if len(cells) == 0 {
		c.Lost("no store into a field of storage.%s", namedTypeName(countsT))
	}

	// group: owner -> arm -> cells
	type armT struct {
		id    string
		name  string
		cells []*c32Cell
		class string
	}
	owners := map[*ssa.Function]map[string]*armT{}
	var ownerOrder []*ssa.Function
	for _, x := range cells {
		if x.arm == "" {
			// not under an action test: nothing to say about its class here
			continue
		}
		if owners[x.owner] == nil {
			owners[x.owner] = map[string]*armT{}
			ownerOrder = append(ownerOrder, x.owner)
		}
		a := owners[x.owner][x.arm]
		if a == nil {
			nm := constName(x.armVal)
			if nm == "" {
				nm = "action[" + x.arm + "]"
			}
			a = &armT{id: x.arm, name: nm}
			owners[x.owner][x.arm] = a
		}
		a.cells = append(a.cells, x)
	}
	if len(ownerOrder) == 0 {
		c.Lost("no store into storage.%s is controlled by a test of a proto.Action value: the per-action fan-out (statistics.add) has changed shape", namedTypeName(countsT))
	}
	sort.Slice(ownerOrder, func(i, j int) bool { return ownerOrder[i].Pos() < ownerOrder[j].Pos() })
	covered := map[string]bool{}
	for _, of := range ownerOrder {
		arms := owners[of]
		var ids []string
		for id := range arms {
			ids = append(ids, id)
		}
		sort.Slice(ids, func(i, j int) bool { return arms[ids[i]].cells[0].st.Pos() < arms[ids[j]].cells[0].st.Pos() })
		base := "C32.twin/" + fnName(of)
		// ---- class
		for _, id := range ids {
			a := arms[id]
			cnt := map[string]int{}
			for _, x := range a.cells {
				cnt[x.class]++
			}
			// expected class: by the constant's stem if unambiguous, else the majority
			stem := a.name
			if i := strings.LastIndex(stem, "_"); i >= 0 {
				stem = stem[i+1:]
			}
			best, bestN, tie := "", 0, false
			for _, cl := range classes {
				n := c32LCP(stem, cl)
				if n > bestN {
					best, bestN, tie = cl, n, false
				} else if n == bestN && n > 0 {
					tie = true
				}
			}
			byName := bestN >= 3 && !tie
			if !byName {
				best = ""
				for _, cl := range classes {
					if best == "" || cnt[cl] > cnt[best] {
						best = cl
					}
				}
			}
			a.class = best
			var foreign []string
			site := p.Pos(a.cells[0].st.Pos())
			for _, x := range a.cells {
				if x.class != best {
					if len(foreign) == 0 {
						site = p.Pos(x.st.Pos())
					}
					foreign = append(foreign, fmt.Sprintf("%s.%s%s (+= %s)", x.kind, x.class, x.suffix, x.src))
				}
			}
			sort.Strings(foreign)
			c.Check(len(foreign) == 0, base+"/"+a.name+"/class", site,
				fmt.Sprintf("all %d stores of the arm go to %s* counters", len(a.cells), best),
				fmt.Sprintf("%s: the arm for %s writes %s, a counter of another action's class (the arm's own class is %s*): flows with this action are accounted to the wrong action in Statistics()", fnName(of), a.name, strings.Join(foreign, ", "), best))
			covered[best] = true
		}
		// ---- distinct
		byClass := map[string][]string{}
		for _, id := range ids {
			byClass[arms[id].class] = append(byClass[arms[id].class], arms[id].name)
		}
		var dup []string
		for cl, ns := range byClass {
			if len(ns) > 1 {
				dup = append(dup, fmt.Sprintf("%s* written by the arms %s", cl, strings.Join(ns, " and ")))
			}
		}
		sort.Strings(dup)
		c.Check(len(dup) == 0, base+"/distinct", p.Pos(of.Pos()), fmt.Sprintf("%d arms write %d distinct classes", len(ids), len(byClass)),
			fnName(of)+": "+strings.Join(dup, "; ")+": two actions are accounted to the same counters")
		// ---- shape
		if len(ids) < 2 {
			continue
		}
		keysOf := func(a *armT) map[string][]*c32Cell {
			out := map[string][]*c32Cell{}
			for _, x := range a.cells {
				out[x.cellKey()] = append(out[x.cellKey()], x)
			}
			return out
		}
		union := map[string]int{}
		km := map[string]map[string][]*c32Cell{}
		for _, id := range ids {
			km[id] = keysOf(arms[id])
			for k := range km[id] {
				union[k]++
			}
		}
		for _, id := range ids {
			a := arms[id]
			var bad []string
			site := p.Pos(a.cells[0].st.Pos())
			// cells the other arms (majority) have and this one lacks / only this one has
			for k, n := range union {
				_, has := km[id][k]
				others := n
				if has {
					others--
				}
				if !has && others*2 > len(ids)-1 {
					bad = append(bad, "no store "+k+" (the other arms have it)")
				}
				if has && others*2 < len(ids)-1 {
					bad = append(bad, "store "+k+" that the other arms do not have")
					site = p.Pos(km[id][k][0].st.Pos())
				}
			}
			// contradictory guards on the same cell
			for k, xs := range km[id] {
				conf, peers := 0, 0
				var ex string
				for _, id2 := range ids {
					if id2 == id {
						continue
					}
					ys, ok := km[id2][k]
					if !ok {
						continue
					}
					peers++
					hit := false
					for _, x := range xs {
						for _, y := range ys {
							if g1, g2, bad := c32Contradict(x.other, y.other); bad {
								hit = true
								ex = fmt.Sprintf("%s under %s, but the arm for %s does it under %s", k, g1, arms[id2].name, g2)
							}
						}
					}
					if hit {
						conf++
					}
				}
				if peers > 0 && conf*2 > peers {
					bad = append(bad, ex)
					site = p.Pos(xs[0].st.Pos())
				}
			}
			sort.Strings(bad)
			c.Check(len(bad) == 0, base+"/"+a.name+"/shape", site,
				fmt.Sprintf("the arm writes the same %d (kind, direction, source) cells as its twins, under compatible tests", len(km[id])),
				fmt.Sprintf("%s: the arm for %s is not a twin of the other arms (equal modulo the action class): %s", fnName(of), a.name, strings.Join(bad, "; ")))
		}
	}
	var miss []string
	for _, cl := range classes {
		if !covered[cl] {
			miss = append(miss, cl+"*")
		}
	}
	c.Check(len(miss) == 0, "C32.twin/coverage", p.Pos(statT.Pos()), fmt.Sprintf("every class of storage.%s (%s) has an arm", namedTypeName(countsT), strings.Join(classes, ", ")),
		"no action arm writes the "+strings.Join(miss, ", ")+" counters of storage."+namedTypeName(countsT)+": flows with that action are not counted")
	c32Copy(c, p, fields)
}

// c32Src: what a store adds to the cell: for `cell = cell + X` the description
// of X, otherwise of the stored value.
func c32Src(st *ssa.Store) string {
	desc := func(v ssa.Value) string {
		if fv := fieldVar(v); fv != nil {
			return fv.Name()
		}
		return path(v)
	}
	if bo, ok := st.Val.(*ssa.BinOp); ok && bo.Op == token.ADD {
		self := func(v ssa.Value) bool {
			ld, ok := v.(*ssa.UnOp)
			return ok && ld.Op == token.MUL && (ld.X == st.Addr || path(ld.X) == path(st.Addr))
		}
		if self(bo.X) {
			return desc(bo.Y)
		}
		if self(bo.Y) {
			return desc(bo.X)
		}
	}
	return "= " + desc(st.Val)
}

// ---------------------------------------------------------------------------
// C32.twin/copy: the copy-out of the counters into the query result.
//
// proto.StatisticsResult has one series per field of `counts`, with the same
// name.  Every store into StatisticsResult.G (the field itself, or an element of
// the slice it holds) may only be computed from counts.G and the old value of
// StatisticsResult.G - never from a sibling counter - and for every G some store
// does read counts.G (the counter reaches the result).
// ---------------------------------------------------------------------------
func c32Copy(c *Ctx, p *Prog, countFields map[*types.Var][2]string) {
	resObj := p.LookupExt("goldmane/proto", "StatisticsResult")
	if resObj == nil {
		c.Lost("type proto.StatisticsResult")
	}
	rst, ok := resObj.Type().Underlying().(*types.Struct)
	if !ok {
		c.Lost("proto.StatisticsResult is not a struct")
	}
	names := map[string]bool{}
	for f := range countFields {
		names[f.Name()] = true
	}
	resFields := map[*types.Var]bool{}
	for i := 0; i < rst.NumFields(); i++ {
		if names[rst.Field(i).Name()] {
			resFields[rst.Field(i)] = true
		}
	}
	if len(resFields) != len(names) {
		c.Lost("proto.StatisticsResult does not have one field per counter of the storage counter struct (%d of %d)", len(resFields), len(names))
	}
	// the first result field / counter field on an address chain
	chainField := func(addr ssa.Value) (res, cnt *types.Var) {
		for i := 0; i < 12 && addr != nil; i++ {
			switch x := addr.(type) {
			case *ssa.FieldAddr:
				fv := structField(x.X.Type(), x.Field)
				if resFields[fv] {
					return fv, nil
				}
				if _, ok := countFields[fv]; ok {
					return nil, fv
				}
				addr = x.X
			case *ssa.IndexAddr:
				addr = x.X
			case *ssa.UnOp:
				if x.Op != token.MUL {
					return nil, nil
				}
				addr = x.X
			default:
				return nil, nil
			}
		}
		return nil, nil
	}
	type use struct {
		fromCounts map[string]bool
		foreign    []string
		site       token.Pos
		n          int
	}
	uses := map[string]*use{}
	for n := range names {
		uses[n] = &use{fromCounts: map[string]bool{}}
	}
	for _, f := range p.AllFuncs() {
		allInstrs(f, false, func(_ *ssa.Function, in ssa.Instruction) {
			st, ok := in.(*ssa.Store)
			if !ok {
				return
			}
			tgt, _ := chainField(st.Addr)
			if tgt == nil {
				return
			}
			u := uses[tgt.Name()]
			u.n++
			if !u.site.IsValid() {
				u.site = st.Pos()
			}
			seen := map[ssa.Value]bool{}
			var walk func(v ssa.Value, d int)
			walk = func(v ssa.Value, d int) {
				if v == nil || seen[v] || d > 24 {
					return
				}
				seen[v] = true
				switch x := v.(type) {
				case *ssa.UnOp:
					if x.Op == token.MUL {
						r, k := chainField(x.X)
						switch {
						case k != nil:
							u.fromCounts[k.Name()] = true
							if k.Name() != tgt.Name() {
								u.foreign = append(u.foreign, "the counter "+k.Name())
								u.site = st.Pos()
							}
						case r != nil:
							if r.Name() != tgt.Name() {
								u.foreign = append(u.foreign, "the result series "+r.Name())
								u.site = st.Pos()
							}
						default:
							if al, ok := x.X.(*ssa.Alloc); ok {
								walk(al, d+1)
							}
						}
						return
					}
					walk(x.X, d+1)
				case *ssa.BinOp:
					walk(x.X, d+1)
					walk(x.Y, d+1)
				case *ssa.Phi:
					for _, e := range x.Edges {
						walk(e, d+1)
					}
				case *ssa.Convert:
					walk(x.X, d+1)
				case *ssa.ChangeType:
					walk(x.X, d+1)
				case *ssa.Slice:
					walk(x.X, d+1)
				case *ssa.Call:
					if _, ok := x.Call.Value.(*ssa.Builtin); ok {
						for _, a := range x.Call.Args {
							walk(a, d+1)
						}
					}
				case *ssa.Alloc:
					if x.Referrers() == nil {
						return
					}
					for _, r := range *x.Referrers() {
						switch y := r.(type) {
						case *ssa.Store:
							if y.Addr == ssa.Value(x) {
								walk(y.Val, d+1)
							}
						case *ssa.IndexAddr:
							if y.Referrers() != nil {
								for _, r2 := range *y.Referrers() {
									if s2, ok := r2.(*ssa.Store); ok && s2.Addr == ssa.Value(y) {
										walk(s2.Val, d+1)
									}
								}
							}
						}
					}
				}
			}
			walk(st.Val, 0)
		})
	}
	var ns []string
	for n := range names {
		ns = append(ns, n)
	}
	sort.Strings(ns)
	for _, n := range ns {
		u := uses[n]
		site := p.Pos(u.site)
		sort.Strings(u.foreign)
		bad := ""
		switch {
		case len(u.foreign) > 0:
			bad = fmt.Sprintf("a store into StatisticsResult.%s is computed from %s: the query result reports another counter's value under %s", n, strings.Join(u.foreign, ", "), n)
		case !u.fromCounts[n]:
			bad = fmt.Sprintf("no store into StatisticsResult.%s reads the counter %s (%d stores): the counter never reaches the query result", n, n, u.n)
		}
		c.Check(bad == "", "C32.twin/copy/"+n, site, fmt.Sprintf("the %d stores into StatisticsResult.%s read only the counter / series of the same name", u.n, n), bad)
	}
}
