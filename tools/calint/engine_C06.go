package main

import (
	"fmt"
	"go/token"
	"go/types"
	"strings"

	"golang.org/x/tools/go/ssa"
)

// Relational "skip-equivalence" check for a boolean mode flag: for every branch
// on the flag, the flag=true continuation and the flag=false continuation may
// differ only by instructions that cannot influence the observable results
// (all results except the AST result), up to the point where they meet again
// (immediate post-dominator) or return.

type c06Fn struct {
	fn      *ssa.Function
	flag    *ssa.Parameter
	flagIdx int   // index into fn.Params
	obsIdx  []int // result indexes that are observable (not the AST)
}

type c06Endpoint struct {
	join *ssa.BasicBlock // reached the join block (nil: returned)
	ret  *ssa.Return
	path []*ssa.BasicBlock
}

type c06Analysis struct {
	fam      map[*ssa.Function]*c06Fn
	isAST    func(types.Type) bool
	pureCall func(*ssa.CallCommon) bool
}

func c06IsFlagCond(v ssa.Value, flag *ssa.Parameter) (isFlag, pol bool) {
	c, p := stripNot(v, true)
	return c == ssa.Value(flag), p
}

// ipdom: immediate post-dominator of b (nil if none).
func c06Ipdom(pd map[*ssa.BasicBlock]map[*ssa.BasicBlock]bool, fn *ssa.Function, b *ssa.BasicBlock) *ssa.BasicBlock {
	var cands []*ssa.BasicBlock
	for _, x := range fn.Blocks {
		if x != b && pd[b][x] {
			cands = append(cands, x)
		}
	}
	for _, c := range cands {
		ok := true
		for _, o := range cands {
			if o != c && !pd[c][o] {
				ok = false
			}
		}
		if ok {
			return c
		}
	}
	return nil
}

// resolve follows phis of blocks that lie on the path.
func c06Resolve(v ssa.Value, path []*ssa.BasicBlock) ssa.Value {
	for i := 0; i < 16; i++ {
		phi, ok := v.(*ssa.Phi)
		if !ok {
			return v
		}
		at := -1
		for k := len(path) - 1; k >= 1; k-- {
			if path[k] == phi.Block() {
				at = k
				break
			}
		}
		if at < 1 {
			return v
		}
		idx := -1
		for j, p := range phi.Block().Preds {
			if p == path[at-1] {
				idx = j
			}
		}
		if idx < 0 {
			return v
		}
		v = phi.Edges[idx]
		path = path[:at]
	}
	return v
}

func c06SameValue(a, b ssa.Value) bool {
	if a == b {
		return true
	}
	ca, ok1 := a.(*ssa.Const)
	cb, ok2 := b.(*ssa.Const)
	if ok1 && ok2 && types.Identical(ca.Type(), cb.Type()) {
		if ca.Value == nil || cb.Value == nil {
			return ca.Value == nil && cb.Value == nil
		}
		return ca.Value.ExactString() == cb.Value.ExactString()
	}
	return false
}

// c06CheckFn analyses one family function; returns (#flag branches, violations, undecided).
func (a *c06Analysis) checkFn(f *c06Fn, pos func(token.Pos) string) (nBranches int, bad, und []string) {
	fn := f.fn
	// (A) the flag only feeds branches and the flag position of family calls
	var checkUse func(v ssa.Value) string
	checkUse = func(v ssa.Value) string {
		for _, r := range *v.Referrers() {
			switch x := r.(type) {
			case *ssa.DebugRef:
			case *ssa.If:
			case *ssa.UnOp:
				if x.Op != token.NOT {
					return "flag used in " + x.String()
				}
				if s := checkUse(x); s != "" {
					return s
				}
			case ssa.CallInstruction:
				cf := a.fam[calleeFn(x.Common())]
				if cf == nil || v != ssa.Value(f.flag) {
					return "flag passed to a non-family call or negated: " + x.String()
				}
				for i, arg := range x.Common().Args {
					if arg == v && i != cf.flagIdx {
						return "flag passed in a non-flag position"
					}
				}
			default:
				return fmt.Sprintf("flag flows into %T", r)
			}
		}
		return ""
	}
	if s := checkUse(f.flag); s != "" {
		und = append(und, s)
		return
	}
	pd := postDominators(fn)

	// pass 1: regions and endpoints per flag branch
	type branch struct {
		b     *ssa.BasicBlock
		join  *ssa.BasicBlock
		sides [2][]c06Endpoint // [0]=flag true, [1]=flag false
	}
	var branches []*branch
	region := map[*ssa.BasicBlock]bool{}
	regionDom := map[*ssa.BasicBlock]bool{} // region blocks dominated by their branch
	for _, b := range fn.Blocks {
		ifi, ok := b.Instrs[len(b.Instrs)-1].(*ssa.If)
		if !ok {
			continue
		}
		isFlag, pol := c06IsFlagCond(ifi.Cond, f.flag)
		if !isFlag {
			continue
		}
		br := &branch{b: b, join: c06Ipdom(pd, fn, b)}
		for side := 0; side < 2; side++ {
			flagVal := side == 0
			start := b.Succs[0]
			if flagVal != pol {
				start = b.Succs[1]
			}
			var walk func(x *ssa.BasicBlock, path []*ssa.BasicBlock) string
			walk = func(x *ssa.BasicBlock, path []*ssa.BasicBlock) string {
				path = append(append([]*ssa.BasicBlock{}, path...), x)
				if x == br.join || (x != b && x.Dominates(b)) {
					// the join, or a back edge to a loop header above the branch: this
					// continuation leaves the flag-dependent region here
					br.sides[side] = append(br.sides[side], c06Endpoint{join: x, path: path})
					return ""
				}
				for _, p := range path[:len(path)-1] {
					if p == x {
						return "loop inside a flag-dependent region"
					}
				}
				region[x] = true
				if b.Dominates(x) {
					regionDom[x] = true
				}
				switch t := x.Instrs[len(x.Instrs)-1].(type) {
				case *ssa.Return:
					br.sides[side] = append(br.sides[side], c06Endpoint{ret: t, path: path})
				case *ssa.Jump:
					return walk(x.Succs[0], path)
				case *ssa.If:
					if isF, p2 := c06IsFlagCond(t.Cond, f.flag); isF {
						nx := x.Succs[0]
						if flagVal != p2 {
							nx = x.Succs[1]
						}
						return walk(nx, path)
					}
					for _, s := range x.Succs {
						if e := walk(s, path); e != "" {
							return e
						}
					}
				case *ssa.Panic:
				default:
					return fmt.Sprintf("unexpected terminator %T", t)
				}
				return ""
			}
			if e := walk(start, []*ssa.BasicBlock{b}); e != "" {
				und = append(und, e+" at "+pos(ifi.Pos()))
				return
			}
		}
		branches = append(branches, br)
	}
	nBranches = len(branches)

	// pass 2: relevant values
	rel := map[ssa.Value]bool{}
	var work []ssa.Value
	seed := func(v ssa.Value) {
		if v != nil && !rel[v] {
			rel[v] = true
			work = append(work, v)
		}
	}
	for _, b := range fn.Blocks {
		for _, in := range b.Instrs {
			switch x := in.(type) {
			case *ssa.Return:
				for _, i := range f.obsIdx {
					seed(x.Results[i])
				}
			case *ssa.If:
				if isF, _ := c06IsFlagCond(x.Cond, f.flag); !isF && !regionDom[b] {
					seed(x.Cond)
				}
			case ssa.CallInstruction:
				if region[b] {
					continue
				}
				cf := a.fam[calleeFn(x.Common())]
				for i, arg := range x.Common().Args {
					if cf != nil && i == cf.flagIdx {
						continue
					}
					seed(arg)
				}
				if x.Common().IsInvoke() || calleeFn(x.Common()) == nil {
					seed(x.Common().Value)
				}
			case *ssa.Store:
				if !region[b] {
					seed(x.Val)
					seed(x.Addr)
				}
			case *ssa.MapUpdate:
				if !region[b] {
					seed(x.Map)
					seed(x.Key)
					seed(x.Value)
				}
			}
		}
	}
	for len(work) > 0 {
		v := work[len(work)-1]
		work = work[:len(work)-1]
		if in, ok := v.(ssa.Instruction); ok {
			for _, op := range in.Operands(nil) {
				if *op == nil {
					continue
				}
				// the flag handed on in flag position to a family call is not a data
				// dependence (the callee is checked on its own)
				if ci, isCall := in.(ssa.CallInstruction); isCall && *op == ssa.Value(f.flag) && a.fam[calleeFn(ci.Common())] != nil {
					continue
				}
				seed(*op)
			}
		}
	}
	if rel[f.flag] {
		und = append(und, "flag is a data operand of an observable value")
		return
	}

	// pass 3a: region instructions must be skippable
	localRoot := func(addr ssa.Value) bool {
		for {
			switch x := addr.(type) {
			case *ssa.FieldAddr:
				addr = x.X
			case *ssa.IndexAddr:
				addr = x.X
			case *ssa.Alloc:
				return x.Parent() == fn
			default:
				return false
			}
		}
	}
	for _, b := range fn.Blocks {
		if !region[b] {
			continue
		}
		for _, in := range b.Instrs {
			if _, isPhi := in.(*ssa.Phi); isPhi {
				continue // merges are resolved along each path when the end points are compared
			}
			if v, ok := in.(ssa.Value); ok && rel[v] {
				bad = append(bad, fmt.Sprintf("value %s that feeds an observable result is computed only under one value of the flag (%s)", v.Name(), pos(in.Pos())))
				continue
			}
			switch x := in.(type) {
			case ssa.CallInstruction:
				cc := x.Common()
				if _, isB := cc.Value.(*ssa.Builtin); isB {
					continue
				}
				if _, isGo := in.(*ssa.Go); isGo {
					bad = append(bad, "go statement under the flag")
					continue
				}
				if a.fam[calleeFn(cc)] != nil {
					bad = append(bad, fmt.Sprintf("call of %s only under one value of the flag (%s): tokens are consumed / errors produced in one mode only", fnName(calleeFn(cc)), pos(in.Pos())))
					continue
				}
				if a.pureCall(cc) {
					continue
				}
				allAST := len(cc.Args) > 0 && !cc.IsInvoke()
				for _, arg := range cc.Args {
					if !a.isAST(arg.Type()) {
						allAST = false
					}
				}
				if cc.IsInvoke() && a.isAST(cc.Value.Type()) {
					allAST = true
					for _, arg := range cc.Args {
						if !a.isAST(arg.Type()) {
							allAST = false
						}
					}
				}
				if !allAST {
					name := "<dynamic>"
					if cf := calleeOf(cc); cf != nil {
						name = funcID(cf)
					}
					bad = append(bad, fmt.Sprintf("call of %s only under one value of the flag (%s)", name, pos(in.Pos())))
				}
			case *ssa.Store:
				if !localRoot(x.Addr) {
					bad = append(bad, fmt.Sprintf("store to non-local memory only under one value of the flag (%s)", pos(in.Pos())))
				}
			case *ssa.MapUpdate, *ssa.Send, *ssa.RunDefers:
				bad = append(bad, fmt.Sprintf("%T only under one value of the flag (%s)", in, pos(in.Pos())))
			}
		}
	}

	// pass 3b: both sides agree where they end
	for _, br := range branches {
		site := pos(br.b.Instrs[len(br.b.Instrs)-1].Pos())
		var all []c06Endpoint
		all = append(all, br.sides[0]...)
		all = append(all, br.sides[1]...)
		if len(br.sides[0]) == 0 || len(br.sides[1]) == 0 {
			// one side only panics: nothing to compare
			continue
		}
		ref := all[0]
		for _, e := range all[1:] {
			if e.join != ref.join {
				bad = append(bad, fmt.Sprintf("under one value of the flag the function returns, under the other it continues (%s)", site))
				break
			}
			if ref.join != nil {
				for _, in := range ref.join.Instrs {
					phi, ok := in.(*ssa.Phi)
					if !ok {
						break
					}
					if !rel[phi] {
						continue
					}
					v1 := c06Resolve(phi, ref.path)
					v2 := c06Resolve(phi, e.path)
					if !c06SameValue(v1, v2) {
						bad = append(bad, fmt.Sprintf("observable variable %s differs between the flag=true and flag=false paths where they meet again (%s vs %s; %s)", phi.Comment, v1.Name(), v2.Name(), site))
					}
				}
				continue
			}
			for _, i := range f.obsIdx {
				v1 := c06Resolve(ref.ret.Results[i], ref.path)
				v2 := c06Resolve(e.ret.Results[i], e.path)
				if c06SameValue(v1, v2) {
					continue
				}
				// nil on one side, a value known to be nil at the other return
				knownNil := func(c, v ssa.Value, at ssa.Instruction) bool {
					return isNilConst(c) && guardedCut(at, eqCond(true, func(x ssa.Value) bool { return x == v }, isNilConst))
				}
				if knownNil(v1, v2, e.ret) || knownNil(v2, v1, ref.ret) {
					continue
				}
				bad = append(bad, fmt.Sprintf("result #%d differs between the flag=true and flag=false returns (%s vs %s; %s)", i, v1.Name(), v2.Name(), site))
			}
		}
	}
	return
}

// c06Family discovers the functions that thread the flag, starting from root.
func c06Family(root *ssa.Function, flagIdx int, isAST func(types.Type) bool) (map[*ssa.Function]*c06Fn, string) {
	fam := map[*ssa.Function]*c06Fn{}
	var add func(fn *ssa.Function, idx int) string
	add = func(fn *ssa.Function, idx int) string {
		if old, ok := fam[fn]; ok {
			if old.flagIdx != idx {
				return "flag passed at different positions to " + fnName(fn)
			}
			return ""
		}
		if fn.Blocks == nil || idx >= len(fn.Params) || !types.Identical(fn.Params[idx].Type().Underlying(), types.Typ[types.Bool]) {
			return "flag parameter of " + fnName(fn) + " not found"
		}
		f := &c06Fn{fn: fn, flag: fn.Params[idx], flagIdx: idx}
		res := fn.Signature.Results()
		nAST := 0
		for i := 0; i < res.Len(); i++ {
			if isAST(res.At(i).Type()) {
				nAST++
			} else {
				f.obsIdx = append(f.obsIdx, i)
			}
		}
		if nAST == 0 || len(f.obsIdx) == 0 {
			return fnName(fn) + " does not return (AST, observable...) results"
		}
		fam[fn] = f
		for _, cs := range callsIn(fn, true, func(*types.Func) bool { return true }) {
			sf := calleeFn(cs.Common())
			if sf == nil {
				continue
			}
			for i, arg := range cs.Common().Args {
				if arg == ssa.Value(f.flag) {
					if e := add(sf, i); e != "" {
						return e
					}
				}
			}
		}
		return ""
	}
	if e := add(root, flagIdx); e != "" {
		return nil, e
	}
	return fam, ""
}

func c06PkgIs(f *types.Func, suffixes ...string) bool {
	if f == nil || f.Pkg() == nil {
		return false
	}
	for _, s := range suffixes {
		if strings.HasSuffix(f.Pkg().Path(), s) {
			return true
		}
	}
	return false
}
