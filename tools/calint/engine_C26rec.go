package main

import (
	"go/token"
	"go/types"

	"golang.org/x/tools/go/ssa"
)

// C26.record — every status a watcher cache reports is recorded in the per-cache
// status table before anything is derived from the table.
//
// The syncer's published status is an aggregate over cacheStatuses (C26.agg decides
// how it is computed).  The aggregate is only right if the table is: whenever a
// result carrying an api.SyncStatus is taken off the results channel, that value
// must be stored into cacheStatuses — on every path to the function's return — and
// the table may not be read (other than the reporting cache's own entry) before the
// store.  The only path on which the store may be skipped is the one on which the
// value is known to equal the cache's own current entry (nothing to record).
//
// Instances: every type assertion to api.SyncStatus on the payload field of a
// result taken off the results channel (the type-switch arm that receives a status).
func (m *c26Model) recordRules() {
	c, p := m.c, m.p
	statusT := m.insync.Type()

	isElemAddr := func(v ssa.Value) (*ssa.IndexAddr, bool) {
		ia, ok := v.(*ssa.IndexAddr)
		return ia, ok && fieldVar(ia.X) == m.cacheStatuses
	}
	isElemLoad := func(v ssa.Value) (*ssa.IndexAddr, bool) {
		u, ok := v.(*ssa.UnOp)
		if !ok || u.Op != token.MUL {
			return nil, false
		}
		return isElemAddr(u.X)
	}
	// derives: v is (a copy of) src
	derives := func(v, src ssa.Value) bool {
		hit := false
		origins(v, func(x ssa.Value) []ssa.Value {
			if x == src {
				hit = true
				return []ssa.Value{}
			}
			if ex, ok := x.(*ssa.Extract); ok && ex.Tuple == src && ex.Index == 0 {
				hit = true
				return []ssa.Value{}
			}
			return nil
		})
		return hit
	}
	// recordsParam: g stores its parameter pi into a cacheStatuses element on every path to its returns.
	// isRecordOf additionally returns the table indices (in terms of the function that contains `in`)
	// the value is recorded under, where they can be named.
	var recordsParam func(g *ssa.Function, pi, depth int) ([]ssa.Value, bool)
	isRecordOf := func(in ssa.Instruction, src ssa.Value, depth int) ([]ssa.Value, bool) {
		switch x := in.(type) {
		case *ssa.Store:
			if ia, ok := isElemAddr(x.Addr); ok && derives(x.Val, src) {
				return []ssa.Value{ia.Index}, true
			}
		case *ssa.Call:
			g := calleeFn(x.Common())
			if g == nil || g.Blocks == nil || g.Pkg != m.sendFn.Pkg || depth >= 3 {
				return nil, false
			}
			args := (CallSite{Instr: x}).Args()
			for i, a := range args {
				if !derives(a, src) || i >= len(g.Params) {
					continue
				}
				idx, ok := recordsParam(g, i, depth+1)
				if !ok {
					continue
				}
				var mine []ssa.Value
				for _, ix := range idx {
					for j, pa := range g.Params {
						if ix == ssa.Value(pa) && j < len(args) {
							mine = append(mine, args[j])
						}
					}
				}
				return mine, true
			}
		}
		return nil, false
	}
	isRet := func(in ssa.Instruction) bool { _, ok := in.(*ssa.Return); return ok }
	recordsParam = func(g *ssa.Function, pi, depth int) ([]ssa.Value, bool) {
		src := ssa.Value(g.Params[pi])
		var idx []ssa.Value
		any := false
		allInstrs(g, false, func(_ *ssa.Function, in ssa.Instruction) {
			if ix, ok := isRecordOf(in, src, depth); ok {
				any = true
				idx = append(idx, ix...)
			}
		})
		if !any || c25Reach(g, nil, isRet, func(in ssa.Instruction) bool { _, ok := isRecordOf(in, src, depth); return ok }, nil) != nil {
			return nil, false
		}
		return idx, true
	}
	// readsTable: g (transitively, inside the package) loads elements of cacheStatuses
	var readsTable func(g *ssa.Function, seen map[*ssa.Function]bool) bool
	readsTable = func(g *ssa.Function, seen map[*ssa.Function]bool) bool {
		if g == nil || g.Blocks == nil || seen[g] || g.Pkg != m.sendFn.Pkg {
			return false
		}
		seen[g] = true
		found := false
		allInstrs(g, true, func(_ *ssa.Function, in ssa.Instruction) {
			if found {
				return
			}
			if v, ok := in.(ssa.Value); ok {
				if _, isLd := isElemLoad(v); isLd {
					found = true
					return
				}
			}
			if ci, ok := in.(ssa.CallInstruction); ok && readsTable(calleeFn(ci.Common()), seen) {
				found = true
			}
		})
		return found
	}

	// the payload of a result: a field of the element type of the results channel
	var resultT types.Type
	if ch, ok := m.results.Type().Underlying().(*types.Chan); ok {
		resultT = ch.Elem()
	}
	if resultT == nil {
		c.Lost("watcherCache.results is not a channel")
	}
	isPayload := func(v ssa.Value) bool {
		switch x := c24Unconvert(v).(type) {
		case *ssa.UnOp:
			if fa, ok := x.X.(*ssa.FieldAddr); ok && x.Op == token.MUL {
				return types.Identical(derefType(fa.X.Type()), resultT)
			}
		case *ssa.Field:
			return types.Identical(x.X.Type(), resultT)
		}
		return false
	}

	n := 0
	for _, f := range m.fns {
		var asserts []*ssa.TypeAssert
		allInstrs(f, false, func(_ *ssa.Function, in ssa.Instruction) {
			if ta, ok := in.(*ssa.TypeAssert); ok && types.Identical(ta.AssertedType, statusT) && isPayload(ta.X) {
				asserts = append(asserts, ta)
			}
		})
		for _, ta := range asserts {
			n++
			key := "C26.record/" + fnName(topFn(f))
			src := ssa.Value(ta)
			isRecord := func(in ssa.Instruction) bool { _, ok := isRecordOf(in, src, 0); return ok }
			// the table entries this function records the value under
			var ownIdx []ssa.Value
			allInstrs(f, false, func(_ *ssa.Function, in ssa.Instruction) {
				if ix, ok := isRecordOf(in, src, 0); ok {
					ownIdx = append(ownIdx, ix...)
				}
			})
			isOwn := func(ia *ssa.IndexAddr) bool {
				for _, ix := range ownIdx {
					if ix == ia.Index || path(ix) == path(ia.Index) {
						return true
					}
				}
				return false
			}
			// edges that need no record: the assertion failed; the value equals the cache's own current entry
			var okFlag ssa.Value
			if ta.CommaOk {
				for _, r := range *ta.Referrers() {
					if ex, isEx := r.(*ssa.Extract); isEx && ex.Index == 1 {
						okFlag = ex
					}
				}
			}
			unchanged := eqCond(true, func(v ssa.Value) bool { return derives(v, src) }, func(v ssa.Value) bool {
				ia, ok := isElemLoad(v)
				return ok && isOwn(ia)
			})
			cut := func(cond ssa.Value, pol bool) bool {
				if okFlag != nil && cond == okFlag && !pol {
					return true
				}
				return unchanged(cond, pol)
			}

			bad := ""
			if ret := c25Reach(f, ta, isRet, isRecord, cut); ret != nil {
				bad = "a status received from a watcher cache can reach the return at " + p.Pos(ret.Pos()) + " without having been stored into cacheStatuses (the store is skipped on some path, e.g. by a test on something other than the cache's own current entry): " +
					"the table keeps that cache's previous status, and the next aggregation (triggered by another cache) reports WaitForDatastore / InSync from stale per-type statuses"
			}
			if bad == "" {
				early := c25Reach(f, ta, func(in ssa.Instruction) bool {
					if v, ok := in.(ssa.Value); ok {
						if ia, isLd := isElemLoad(v); isLd && !isOwn(ia) {
							return true
						}
					}
					if ci, ok := in.(*ssa.Call); ok {
						if _, rec := isRecordOf(in, src, 0); !rec && readsTable(calleeFn(ci.Common()), map[*ssa.Function]bool{}) {
							return true
						}
					}
					return false
				}, isRecord, cut)
				if early != nil {
					bad = "the per-cache status table is read at " + p.Pos(early.Pos()) + " before the received status was stored into it: the aggregate status would be computed without the status that was just reported"
				}
			}
			if bad == "" {
				// recorded under the id that came with the value
				for _, ix := range ownIdx {
					if fieldVar(ix) != nil && fieldVar(ta.X) != nil && c25Root(ix) != c25Root(ta.X) {
						bad = "the received status is stored under index " + path(ix) + ", which does not belong to the result (" + path(ta.X) + ") that carried the status: another cache's entry is overwritten"
					}
				}
			}
			c.Check(bad == "", key, p.Pos(ta.Pos()),
				"on every path from receiving an api.SyncStatus to the return the value is stored into cacheStatuses (unless it equals the cache's own entry), under the id of the result that carried it, before the table is read",
				fnName(f)+": "+bad)
		}
	}
	if n == 0 {
		c.Lost("no function of watchersyncer receives an api.SyncStatus (type assertion)")
	}
}
