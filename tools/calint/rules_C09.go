package main

import (
	"fmt"
	"go/constant"
	"go/token"
	"go/types"
	"sort"
	"strings"

	"golang.org/x/tools/go/ssa"
)

func init() {
	register(&Property{
		ID:        "C09",
		Title:     "Endpoint verdicts follow tier, pass, staged and profile semantics",
		Technique: "static analysis: enumeration of generictables.Rule literals of the endpoint/group chain renderers with may-derive operand facts, cut-set guards, dominance (go/ssa over felix/rules)",
		DesignRef: "DESIGN.md §3 C09",
		Explanation: "Decides structural necessary conditions in felix/rules: (staged) every PolicyChainName result that reaches an ActionFactory.Jump target is computed only where model.KindIsStaged(<same id>.Kind) is false, and the end-of-tier deny is rendered only where a condition derived from PolicyGroup.HasNonStagedPolicies() (a flag raised under it, the call, or a helper / slices.ContainsFunc built on it) is true; " +
			"(direction) that end-of-tier decision, the skipping of return-on-accept/notrack rules after a jump, and the tier-non-empty test look only at the policy groups of the direction being rendered, i.e. the slice (and group) the policy jumps are rendered from; " +
			"(faildeny) an admin-down endpoint chain is an unconditional deny returned under !adminUp; on every chainTypeNormal path the last rule of the returned chain is an unconditional IptablesFilterDenyAction rule; the deny action is only ever a Drop/Reject action; " +
			"(tiermarks) the accept|pass bits are cleared before any policy jump; each tier starts by clearing exactly MarkPass; every policy/group jump is conditioned on MarkClear(MarkPass); every conditional return tests MarkSingleBitSet(MarkAccept) (the unconditional one directly follows SetMark(MarkAccept)); " +
			"the end-of-tier deny matches MarkClear(MarkPass) and is guarded by the non-staged flag and DefaultAction != Pass; profile jumps are followed by return-on-accept; " +
			"(stride) in PolicyGroupToIptablesChains a jump with an empty match occurs only where count%stride==0, other jumps match MarkClear(MarkPass|MarkAccept), and the return-on-verdict rule (MarkNotClear(MarkPass|MarkAccept)) is emitted under the same stride test; " +
			"(tierlocal) inside the tier loop of endpointIptablesChain the conditions the end-of-tier deny and the policy/group jumps are control-dependent on (including the bounds of the nested group/policy loops) have no loop-carried data dependence on an earlier tier: their backward slice reaches no tier-loop header phi other than the iteration counter and no outer variable that is written in the loop and read before the current iteration rewrites it; " +
			"(groupcover) every policy id whose PolicyChainName reaches a Jump is the element of a range over ALL of <group>.Policies (counter from the first element, step one, left at len) in which the only skipping condition is KindIsStaged(element.Kind); a jump target taken from a list is taken by a full range of that list; PolicyGroup.HasNonStagedPolicies returns true only from such a range for an element that is not staged, and false only after the whole range.",
		NotDecided: "The verdict as such (evaluation of the rendered chains against a reference model); ordering of tiers/policies supplied by the calculation graph; BPF/Windows/app-policy staged handling (C12); contents of policy and profile chains (C08); tierlocal does not see state carried through a closure-captured variable or a field of the renderer, nor conditions that guard a rule only as one arm of a disjunction; groupcover reports HasNonStagedPolicies as undecided when it is rewritten without an explicit loop (e.g. slices.ContainsFunc); PolicyGroup.ShouldBeInlined is deliberately not constrained (the inline renderer jumps to every enforced policy whatever it answers).",
		Assumptions: []string{
			"go/types + go/ssa (x/tools v0.50.0) model of the current source, CGO_ENABLED=0 build",
			"model.KindIsStaged is the staged-kind predicate; ActionFactory/MatchCriteria methods mean what their names say (C08.nft checks the negations)",
			"logrus Panic*/Fatal* do not return",
		},
		Run: runC09,
		Fixtures: []Fixture{
			{Name: "inlined staged policy is jumped to", File: "felix/rules/endpoints.go",
				Old: "\t\t\t\t\t\tif model.KindIsStaged(p.Kind) {\n\t\t\t\t\t\t\tlogrus.Debugf(\"Skip programming inlined staged policy %v\", p)\n\t\t\t\t\t\t\tcontinue\n\t\t\t\t\t\t}\n", New: "", Expect: "C09.staged/jump/DefaultRuleRenderer.endpointIptablesChain"},
			{Name: "group chain jumps to staged policies", File: "felix/rules/endpoints.go",
				Old: "\t\tif model.KindIsStaged(pol.Kind) {\n\t\t\tlogrus.Debugf(\"Skip programming staged policy %v\", pol)\n\t\t\tcontinue\n\t\t}\n", New: "", Expect: "C09.staged/jump/DefaultRuleRenderer.PolicyGroupToIptablesChains"},
			{Name: "staged-only tier drops at end of tier", File: "felix/rules/endpoints.go",
				Old: "\t\t\t\tif groupHasNonStagedPols {\n\t\t\t\t\tendOfTierDrop = true\n\t\t\t\t}", New: "\t\t\t\tendOfTierDrop = true", Expect: "C09.staged/end-of-tier-flag"},
			{Name: "end-of-tier drop also raised by the other direction's groups", File: "felix/rules/endpoints.go",
				Old: "\t\t\tendOfTierDrop := false\n", New: "\t\t\tendOfTierDrop := false\n\t\t\tfor _, g := range tier.EgressPolicies {\n\t\t\t\tif g.HasNonStagedPolicies() {\n\t\t\t\t\tendOfTierDrop = true\n\t\t\t\t}\n\t\t\t}\n", Expect: "C09.direction/end-of-tier-drop"},
			{Name: "return-on-accept skipped depending on another group", File: "felix/rules/endpoints.go",
				Old: "\t\t\t\t\tif !groupHasNonStagedPols {\n", New: "\t\t\t\t\tif !policyGroups[0].HasNonStagedPolicies() {\n", Expect: "C09.direction/verdict-rule/Return"},
			{Name: "tier rendered only when it has ingress groups", File: "felix/rules/endpoints.go",
				Old: "\t\tif len(policyGroups) > 0 {\n", New: "\t\tif len(tier.IngressPolicies) > 0 {\n", Expect: "C09.direction/nonempty-guard"},
			{Name: "admin-down endpoint allows", File: "felix/rules/endpoints.go",
				Old: "\t\t\tAction:  r.IptablesFilterDenyAction(),\n\t\t\tComment: []string{\"Endpoint admin disabled\"},", New: "\t\t\tAction:  r.Return(),\n\t\t\tComment: []string{\"Endpoint admin disabled\"},", Expect: "C09.faildeny/admin-down"},
			{Name: "final profile deny made conditional", File: "felix/rules/endpoints.go",
				Old: "\t\t\tMatch:   r.NewMatch(),\n\t\t\tAction:  r.IptablesFilterDenyAction(),\n\t\t\tComment: []string{fmt.Sprintf(\"%s if no profiles matched\", r.IptablesFilterDenyAction())},", New: "\t\t\tMatch:   r.NewMatch().MarkClear(r.MarkPass),\n\t\t\tAction:  r.IptablesFilterDenyAction(),\n\t\t\tComment: []string{fmt.Sprintf(\"%s if no profiles matched\", r.IptablesFilterDenyAction())},", Expect: "C09.faildeny/final-deny"},
			{Name: "filter deny action can be accept", File: "felix/rules/rule_defs.go",
				Old: "\t\tiptablesFilterDenyAction = drop\n", New: "\t\tiptablesFilterDenyAction = accept\n", Expect: "C09.faildeny/deny-action-type"},
			{Name: "return-if-policy-accepted tests the pass bit", File: "felix/rules/endpoints.go",
				Old: "\t\t\t\t\t\tMatch:   r.NewMatch().MarkSingleBitSet(r.MarkAccept),\n\t\t\t\t\t\tAction:  r.Return(),\n\t\t\t\t\t\tComment: []string{\"Return if policy accepted\"},", New: "\t\t\t\t\t\tMatch:   r.NewMatch().MarkSingleBitSet(r.MarkPass),\n\t\t\t\t\t\tAction:  r.Return(),\n\t\t\t\t\t\tComment: []string{\"Return if policy accepted\"},", Expect: "C09.tiermarks/return"},
			{Name: "policy jump ignores the pass bit", File: "felix/rules/endpoints.go",
				Old: "\t\t\t\t\t\tMatch:  r.NewMatch().MarkClear(r.MarkPass),\n\t\t\t\t\t\tAction: r.Jump(chainToJumpTo),", New: "\t\t\t\t\t\tMatch:  r.NewMatch(),\n\t\t\t\t\t\tAction: r.Jump(chainToJumpTo),", Expect: "C09.tiermarks/jump"},
			{Name: "start of tier clears the accept bit too", File: "felix/rules/endpoints.go",
				Old: "\t\t\t\tAction:  r.ClearMark(r.MarkPass),\n\t\t\t\tComment: []string{\"Start of tier \" + tier.Name},", New: "\t\t\t\tAction:  r.ClearMark(r.MarkPass | r.MarkAccept),\n\t\t\t\tComment: []string{\"Start of tier \" + tier.Name},", Expect: "C09.tiermarks/tier-start"},
			{Name: "end-of-tier deny ignores default action Pass", File: "felix/rules/endpoints.go",
				Old: "if endOfTierDrop && tier.DefaultAction != string(v3.Pass) {", New: "if endOfTierDrop && tier.DefaultAction != string(v3.Deny) {", Expect: "C09.tiermarks/end-of-tier-deny"},
			{Name: "end-of-tier deny unconditional on the pass bit", File: "felix/rules/endpoints.go",
				Old: "\t\t\t\t\t\tMatch:  r.NewMatch().MarkClear(r.MarkPass),\n\t\t\t\t\t\tAction: r.IptablesFilterDenyAction(),", New: "\t\t\t\t\t\tMatch:  r.NewMatch().MarkClear(r.MarkAccept),\n\t\t\t\t\t\tAction: r.IptablesFilterDenyAction(),", Expect: "C09.tiermarks/end-of-tier-deny"},
			{Name: "group jump after the first ignores earlier verdict", File: "felix/rules/endpoints.go",
				Old: "match = r.NewMatch().MarkClear(r.MarkPass | r.MarkAccept)", New: "match = r.NewMatch().MarkClear(r.MarkPass)", Expect: "C09.stride/jump-match"},
			{Name: "return-on-verdict emitted on a different stride", File: "felix/rules/endpoints.go",
				Old: "if count != 0 && count%returnStride == 0 {", New: "if count != 0 && count%(returnStride+1) == 0 {", Expect: "C09.stride/return-on-verdict"},
			{Name: "per-tier state hoisted out of the tier loop and not reset", File: "felix/rules/endpoints.go",
				Old: c09FxTierHead + c09FxTierMid + "\t\t\tendOfTierDrop := false\n",
				New: "\tvar (\n\t\tpolicyGroups  []*PolicyGroup\n\t\tendOfTierDrop bool\n\t)\n\tfor _, tier := range tiers {\n" + c09FxTierSel + c09FxTierMid, Expect: "C09.tierlocal/end-of-tier-deny"},
			{Name: "groups of the previous tier rendered again when this tier has none for the direction", File: "felix/rules/endpoints.go",
				Old: c09FxTierHead,
				New: "\tvar policyGroups []*PolicyGroup\n\tfor _, tier := range tiers {\n\t\tif policyType == ingressPolicy {\n\t\t\tpolicyGroups = tier.IngressPolicies\n\t\t} else if len(tier.EgressPolicies) > 0 {\n\t\t\tpolicyGroups = tier.EgressPolicies\n\t\t}\n", Expect: "C09.tierlocal/policy-jump"},
			{Name: "inlined group renders only its first policy", File: "felix/rules/endpoints.go",
				Old: "\t\t\t\t\tfor _, p := range polGroup.Policies {\n\t\t\t\t\t\tif model.KindIsStaged(p.Kind) {\n\t\t\t\t\t\t\tlogrus.Debugf(\"Skip programming inlined staged policy %v\", p)\n\t\t\t\t\t\t\tcontinue\n\t\t\t\t\t\t}\n",
				New: "\t\t\t\t\tif p := polGroup.Policies[0]; !model.KindIsStaged(p.Kind) {\n", Expect: "C09.groupcover/jump/DefaultRuleRenderer.endpointIptablesChain"},
			{Name: "group chain stops jumping after one stride", File: "felix/rules/endpoints.go",
				Old: "\t\tcount++\n\t\tif count != 0 && count%returnStride == 0 {", New: "\t\tcount++\n\t\tif count >= returnStride {\n\t\t\tbreak\n\t\t}\n\t\tif count != 0 && count%returnStride == 0 {", Expect: "C09.groupcover/jump/DefaultRuleRenderer.PolicyGroupToIptablesChains"},
			{Name: "first chain of the jump list is skipped", File: "felix/rules/endpoints.go",
				Old: "\t\t\t\tfor _, chainToJumpTo := range chainsToJumpTo {\n", New: "\t\t\t\tfor ci := 1; ci < len(chainsToJumpTo); ci++ {\n\t\t\t\t\tchainToJumpTo := chainsToJumpTo[ci]\n", Expect: "C09.groupcover/jump-list"},
			{Name: "HasNonStagedPolicies looks at the first policy only", File: "felix/rules/endpoints.go",
				Old: "\t\tif !model.KindIsStaged(pol.Kind) {\n\t\t\treturn true\n\t\t}\n\t}\n\treturn false", New: "\t\treturn !model.KindIsStaged(pol.Kind)\n\t}\n\treturn false", Expect: "C09.groupcover/HasNonStagedPolicies"},
			{Name: "HasNonStagedPolicies ignores policies behind a staged one", File: "felix/rules/endpoints.go",
				Old: "\t\tif !model.KindIsStaged(pol.Kind) {\n\t\t\treturn true\n\t\t}\n\t}\n\treturn false", New: "\t\tif !model.KindIsStaged(pol.Kind) {\n\t\t\treturn true\n\t\t}\n\t\tbreak\n\t}\n\treturn false", Expect: "C09.groupcover/HasNonStagedPolicies"},
		},
	})
}

// Source fragments of the tier loop head used by the tierlocal fixtures.
const (
	c09FxTierSel  = "\t\tif policyType == ingressPolicy {\n\t\t\tpolicyGroups = tier.IngressPolicies\n\t\t} else {\n\t\t\tpolicyGroups = tier.EgressPolicies\n\t\t}\n"
	c09FxTierHead = "\tfor _, tier := range tiers {\n\t\tvar policyGroups []*PolicyGroup\n" + c09FxTierSel
	c09FxTierMid  = "\t\tif len(policyGroups) > 0 {\n\t\t\t// Clear the \"pass\" mark.  If a policy sets that mark, we'll skip the rest of the policies and\n\t\t\t// continue processing the profiles, if there are any.\n\t\t\trules = append(rules, generictables.Rule{\n\t\t\t\tMatch:   r.NewMatch(),\n\t\t\t\tAction:  r.ClearMark(r.MarkPass),\n\t\t\t\tComment: []string{\"Start of tier \" + tier.Name},\n\t\t\t})\n\n\t\t\t// Track if any of the policies are not staged. If all of the policies in a tier are staged\n\t\t\t// then the default end of tier behavior should be pass rather than drop.\n"
)

// c09Lit is one generictables.Rule literal: the stores into its Action and
// Match fields.
type c09Lit struct {
	Base    ssa.Value
	At      ssa.Instruction // the Action store
	ActName string          // callee name producing the action ("" = not a call)
	ActCall *ssa.Call
	Match   ssa.Value // nil = no Match store (zero match)
}

func c09Literals(fn *ssa.Function) []c09Lit {
	var out []c09Lit
	allInstrs(fn, false, func(f *ssa.Function, in ssa.Instruction) {
		st, ok := in.(*ssa.Store)
		if !ok {
			return
		}
		fa, ok := st.Addr.(*ssa.FieldAddr)
		if !ok || fieldName(fa.X.Type(), fa.Field) != "Action" || qualTypeName(fa.X.Type()) != c08GtPkg+".Rule" {
			return
		}
		l := c09Lit{Base: fa.X, At: st}
		for _, o := range origins(st.Val, nil) {
			if c, ok := o.V.(*ssa.Call); ok {
				if cal := calleeOf(c.Common()); cal != nil {
					l.ActName, l.ActCall = cal.Name(), c
				}
			}
		}
		if ms := literalFieldStores(fa.X)["Match"]; len(ms) > 0 {
			l.Match = ms[0]
		}
		out = append(out, l)
	})
	return out
}

// c09Leaf is one alternative of a match value: the fluent chain of
// MatchCriteria calls on top of a NewMatch() base.
type c09Leaf struct {
	Pred    *ssa.BasicBlock // predecessor block selecting this alternative (nil: unconditional)
	Chain   []*ssa.Call     // innermost first
	Unknown bool
}

func c09MatchLeaves(v ssa.Value) []c09Leaf {
	var out []c09Leaf
	seen := map[*ssa.Phi]bool{}
	var rec func(v ssa.Value, pred *ssa.BasicBlock, chain []*ssa.Call)
	rec = func(v ssa.Value, pred *ssa.BasicBlock, chain []*ssa.Call) {
		switch x := v.(type) {
		case *ssa.Phi:
			if seen[x] {
				return
			}
			seen[x] = true
			for i, e := range x.Edges {
				rec(e, x.Block().Preds[i], chain)
			}
		case *ssa.Call:
			cc := x.Common()
			if c08IsInvokeOf(cc, c08MatchIface) {
				rec(cc.Value, pred, append([]*ssa.Call{x}, chain...))
				return
			}
			if !cc.IsInvoke() && cc.StaticCallee() == nil && lastField(cc.Value) == "NewMatch" {
				out = append(out, c09Leaf{Pred: pred, Chain: chain})
				return
			}
			out = append(out, c09Leaf{Pred: pred, Chain: chain, Unknown: true})
		default:
			out = append(out, c09Leaf{Pred: pred, Chain: chain, Unknown: true})
		}
	}
	if v == nil {
		return []c09Leaf{{}}
	}
	rec(v, nil, nil)
	return out
}

type c09Model struct {
	c  *Ctx
	p  *Prog
	ev *c08Eval
}

// marks returns the Config.Mark* fields an operand derives from ("?" if anything else).
func (m *c09Model) marks(v ssa.Value, fn *ssa.Function) string {
	f := m.ev.facts(v, &c08Ctx{fn: fn})
	var out []string
	for q := range f.Fields {
		out = append(out, strings.TrimPrefix(q, "Config."))
	}
	if f.Unknown || len(f.Consts) > 0 {
		out = append(out, "?")
	}
	sort.Strings(out)
	return strings.Join(out, "|")
}

// leafShape renders a match alternative as Method(marks).Method(marks)…; "" = empty match.
func (m *c09Model) leafShape(l c09Leaf, fn *ssa.Function) string {
	if l.Unknown {
		return "?"
	}
	var parts []string
	for _, c := range l.Chain {
		s := c.Common().Method.Name() + "("
		if strings.Contains(c.Common().Method.Name(), "Mark") && len(c.Common().Args) > 0 {
			s += m.marks(c.Common().Args[0], fn)
		}
		parts = append(parts, s+")")
	}
	return strings.Join(parts, ".")
}

func (m *c09Model) shapes(l c09Lit, fn *ssa.Function) []string {
	var out []string
	for _, lf := range c09MatchLeaves(l.Match) {
		out = append(out, m.leafShape(lf, fn))
	}
	return out
}

func runC09(c *Ctx) {
	p := c.Load(c08RulesPkg, c08IptPkg, c08NftPkg, c08GtPkg)
	rp := p.SSAPkg(c08RulesPkg)
	if rp == nil {
		c.Lost("package felix/rules")
	}
	inRP := func(f *ssa.Function) bool { return topFn(f).Pkg == rp }
	m := &c09Model{c: c, p: p}
	m.ev = &c08Eval{
		terminal: func(q string) bool { return q == c08RulesPkg+".Config" },
		bodyOK:   func(f *ssa.Function) bool { return false },
		stopCall: func(call *ssa.Call) bool {
			f := calleeOf(call.Common())
			return f != nil && (isFunc(f, c08RulesPkg, "PolicyChainName") || isFunc(f, c08RulesPkg, "PolicyGroup.ChainName") || isFunc(f, c08RulesPkg, "ProfileChainName"))
		},
	}
	c.Rule("C09.staged", "E-GUARD", "PolicyChainName results reaching Jump are computed only where !KindIsStaged(same id.Kind); end-of-tier-drop flag raised only under HasNonStagedPolicies()", 3)
	c.Rule("C09.direction", "E-FLOW", "per-tier decisions of the endpoint chain (end-of-tier drop, return-on-accept after a jump, tier non-empty) look only at the policy groups of the direction being rendered: the slice (and group) the policy jumps are rendered from, directly or through helpers", 4)
	c.Rule("C09.faildeny", "E-ORDER", "admin-down chain = unconditional deny; last rule on every chainTypeNormal path is an unconditional deny; deny action is Drop/Reject", 3)
	c.Rule("C09.tiermarks", "E-GUARD/E-CONST", "mark operands and guards of the tier loop: clear accept|pass first, tier start clears pass, jumps need pass clear, returns need accept set, end-of-tier deny needs pass clear under non-staged flag && DefaultAction != Pass", 8)
	c.Rule("C09.stride", "E-GUARD", "policy-group chain: empty-match jump only at count%stride==0, otherwise MarkClear(pass|accept); return-on-verdict under the same stride test", 2)

	c.Rule("C09.tierlocal", "E-FLOW", "what is rendered for a tier depends on that tier only: the conditions under which the end-of-tier deny and the policy/group jumps are rendered take no value computed by an earlier iteration of the tier loop (no loop-carried dependence other than the iteration counter)", 2)
	c.Rule("C09.groupcover", "E-GUARD/E-FLOW", "every enforced policy of a rendered group is looked at: policy ids whose chain is jumped to, the jump targets, and HasNonStagedPolicies() are drawn by ranging over ALL elements of the group's Policies (resp. the jump list), and inside that range the only condition that skips an element is model.KindIsStaged(element.Kind)", 4)

	ep := p.Func(c08RulesPkg, "DefaultRuleRenderer.endpointIptablesChain")
	grp := p.Func(c08RulesPkg, "DefaultRuleRenderer.PolicyGroupToIptablesChains")
	if ep == nil || grp == nil {
		c.Lost("endpointIptablesChain / PolicyGroupToIptablesChains")
	}
	c09Staged(m, inRP, ep)
	c09Direction(m, ep)
	c09FailDeny(m, ep)
	c09TierMarks(m, ep)
	c09Stride(m, grp)
	c09TierLocal(m, ep)
	c09GroupCover(m, inRP)
}

// ------------------------------------------------------------------- staged --

func c09IsKindIsStaged(f *types.Func) bool {
	return f != nil && f.Name() == "KindIsStaged" && f.Pkg() != nil && strings.HasSuffix(f.Pkg().Path(), "libcalico-go/lib/backend/model")
}

func c09Staged(m *c09Model, inRP func(*ssa.Function) bool, ep *ssa.Function) {
	c, p := m.c, m.p
	n := 0
	for _, fn := range p.AllFuncs() {
		if !inRP(fn) {
			continue
		}
		for _, cs := range callsIn(fn, false, func(f *types.Func) bool { return f.Name() == "Jump" }) {
			if !c08IsInvokeOf(cs.Common(), c08ActionIface) {
				continue
			}
			f := m.ev.facts(cs.Common().Args[0], &c08Ctx{fn: fn})
			for _, src := range f.Calls {
				if !isFunc(calleeOf(src.Common()), c08RulesPkg, "PolicyChainName") {
					continue
				}
				n++
				id := src.Common().Args[1]
				g := guardedCut(src, callCond(false, func(g CallSite) bool {
					if !c09IsKindIsStaged(g.Callee) || len(g.Args()) != 1 {
						return false
					}
					a := g.Args()[0]
					ld, ok := a.(*ssa.UnOp)
					if !ok {
						return false
					}
					fa, ok := ld.X.(*ssa.FieldAddr)
					return ok && fieldName(fa.X.Type(), fa.Field) == "Kind" && (fa.X == id || path(fa.X) == path(id))
				}))
				c.Check(g, "C09.staged/jump/"+fnName(fn), p.Pos(src.Pos()),
					"policy chain name that reaches Jump is computed only where !KindIsStaged("+path(id)+".Kind)",
					"in "+fnName(fn)+" the chain name of policy "+path(id)+" reaches a Jump rule without a !model.KindIsStaged("+path(id)+".Kind) guard: a staged policy would be enforced")
			}
		}
	}
	if n == 0 {
		c.Lost("no PolicyChainName result reaches an ActionFactory.Jump in felix/rules")
	}
	// end-of-tier drop: the deny is reachable only where a condition derived from
	// HasNonStagedPolicies() is true (a flag raised under it, the call itself, or
	// a helper built on it).
	ns := c09NewNS()
	pol, _ := c09PolicyJumps(m, ep)
	denies := c09EndOfTierDenies(m, ep, pol)
	if len(denies) == 0 {
		c.Lost("end-of-tier deny (IptablesFilterDenyAction rule with a MarkClear match inside the tier loop) in endpointIptablesChain")
	}
	for _, l := range denies {
		acc := &c09NSRes{OK: true}
		if guardedCut(l.At, ns.edgePred(acc, map[ssa.Value]bool{}, 0)) {
			c.Ok("C09.staged/end-of-tier-flag", p.Pos(l.At.Pos()), "end-of-tier deny rendered only where a condition derived from HasNonStagedPolicies() of %s is true", acc.srcList())
			continue
		}
		why, unknown := c09WhyNotGuarded(ns, l)
		if unknown {
			c.Undecided("C09.staged/end-of-tier-flag", p.Pos(l.At.Pos()), "end-of-tier drop: %s", why)
		} else {
			c.Violate("C09.staged/end-of-tier-flag", p.Pos(l.At.Pos()), "end-of-tier drop: %s (a tier holding only staged policies would drop)", why)
		}
	}
}

func c09NewNS() *c09NS {
	return &c09NS{isHNS: func(f *types.Func) bool { return isFunc(f, c08RulesPkg, "PolicyGroup.HasNonStagedPolicies") }}
}

// c09WhyNotGuarded explains why no non-staged derived condition guards l: it
// evaluates the non-comparison conditions l is control-dependent on.
func c09WhyNotGuarded(ns *c09NS, l c09Lit) (why string, unknown bool) {
	var whys []string
	for _, g := range guardsOf(l.At) {
		if !g.True || !c09Candidate(g.Cond) {
			continue
		}
		r := ns.eval(g.Cond)
		switch {
		case !r.OK:
			whys = append(whys, "the flag "+pathN(g.Cond, 2)+" is not raised only under HasNonStagedPolicies(): "+r.Why)
			unknown = unknown || r.Unknown
		case len(r.Srcs) == 0:
			whys = append(whys, "the flag "+pathN(g.Cond, 2)+" is never set")
		}
	}
	if len(whys) == 0 {
		return "the end-of-tier deny is not guarded by any flag or call derived from PolicyGroup.HasNonStagedPolicies()", false
	}
	return strings.Join(whys, "; "), unknown
}

// c09PolicyJumps: the Jump rule literals of the endpoint chain whose target
// derives from a policy / policy-group chain name, and from a profile chain name.
func c09PolicyJumps(m *c09Model, ep *ssa.Function) (polJumps, profJumps []c09Lit) {
	ctx := &c08Ctx{fn: ep}
	for _, l := range c09Literals(ep) {
		if l.ActName != "Jump" || !c08IsInvokeOf(l.ActCall.Common(), c08ActionIface) {
			continue
		}
		f := m.ev.facts(l.ActCall.Common().Args[0], ctx)
		isPol, isProf := false, false
		for _, src := range f.Calls {
			switch calleeOf(src.Common()).Name() {
			case "PolicyChainName", "ChainName":
				isPol = true
			case "ProfileChainName":
				isProf = true
			}
		}
		if isPol {
			polJumps = append(polJumps, l)
		}
		if isProf {
			profJumps = append(profJumps, l)
		}
	}
	if len(polJumps) == 0 || len(profJumps) == 0 {
		m.c.Lost("policy (%d) / profile (%d) jump rules in endpointIptablesChain", len(polJumps), len(profJumps))
	}
	return
}

func c09InLoopWith(l c09Lit, jumps []c09Lit) bool {
	for _, j := range jumps {
		if instrReaches(j.At, l.At) && instrReaches(l.At, j.At) {
			return true
		}
	}
	return false
}

// c09EndOfTierDenies: deny literals with a MarkClear(…) match inside the tier loop.
func c09EndOfTierDenies(m *c09Model, ep *ssa.Function, polJumps []c09Lit) []c09Lit {
	var out []c09Lit
	for _, l := range c09Literals(ep) {
		if l.ActName != "IptablesFilterDenyAction" {
			continue
		}
		sh := m.shapes(l, ep)
		if len(sh) != 1 || !strings.HasPrefix(sh[0], "MarkClear(") || !c09InLoopWith(l, polJumps) {
			continue
		}
		out = append(out, l)
	}
	return out
}

// ---------------------------------------------------------------- direction --

// c09JumpGroups: for every policy jump, the policy group it renders (receiver of
// ChainName, or the group whose Policies the inlined policy id is taken from)
// and the slice of groups that group is an element of.
func c09JumpGroups(m *c09Model, ep *ssa.Function, polJumps []c09Lit) (groups []ssa.Value, slices []c09Src, bad string) {
	ctx := &c08Ctx{fn: ep}
	addG := func(g ssa.Value) {
		for _, o := range groups {
			if o == g {
				return
			}
		}
		groups = append(groups, g)
		s := c09ElemOf(g)
		if s == nil {
			bad = "policy group " + path(g) + " is not an element of a group slice"
			return
		}
		b, sel := c09Norm(s)
		src := c09Src{b, sel, true}
		for _, o := range slices {
			if o.same(src) {
				return
			}
		}
		slices = append(slices, src)
	}
	for _, j := range polJumps {
		f := m.ev.facts(j.ActCall.Common().Args[0], ctx)
		for _, src := range f.Calls {
			cal := calleeOf(src.Common())
			switch {
			case isFunc(cal, c08RulesPkg, "PolicyGroup.ChainName"):
				addG(src.Common().Args[0])
			case isFunc(cal, c08RulesPkg, "PolicyChainName"):
				ids := c09ElemOf(src.Common().Args[1])
				_, fld, base, ok := fieldOf(ids)
				if ids == nil || !ok || fld != "Policies" || namedTypeName(base.Type()) != "PolicyGroup" {
					bad = "inlined policy id " + path(src.Common().Args[1]) + " is not an element of a PolicyGroup's Policies"
					continue
				}
				addG(base)
			}
		}
	}
	return
}

// c09Direction: every decision of the tier loop that depends on "which groups
// does this tier hold" looks at the groups of the direction being rendered —
// the very slice the policy jumps are rendered from.
func c09Direction(m *c09Model, ep *ssa.Function) {
	c, p := m.c, m.p
	polJumps, _ := c09PolicyJumps(m, ep)
	groups, dirs, bad := c09JumpGroups(m, ep, polJumps)
	if bad != "" || len(groups) == 0 {
		c.Lost("policy groups rendered by the policy jumps of endpointIptablesChain: %s", bad)
	}
	if len(dirs) != 1 {
		var ds []string
		for _, d := range dirs {
			ds = append(ds, d.String())
		}
		c.Undecided("C09.direction/group-slice", p.Pos(ep.Pos()), "policy jumps are rendered from %d group slices (%s); cannot tell which one an end-of-tier decision belongs to", len(dirs), strings.Join(ds, ", "))
		return
	}
	D := dirs[0]
	allowed := func(s c09Src) bool {
		if s.same(D) {
			return true
		}
		for _, g := range groups {
			if b, sel := c09Norm(g); s.same(c09Src{b, sel, false}) {
				return true
			}
		}
		return false
	}
	ns := c09NewNS()
	lits := c09Literals(ep)

	// (1) the end-of-tier deny is reachable only where a non-staged condition
	// over the rendered direction's groups is true.
	for _, l := range c09EndOfTierDenies(m, ep, polJumps) {
		site := p.Pos(l.At.Pos())
		busy := map[ssa.Value]bool{}
		dirPred := func(cond ssa.Value, pol bool) bool {
			acc := &c09NSRes{OK: true}
			if !ns.edgePred(acc, busy, 0)(cond, pol) {
				return false
			}
			for _, s := range acc.Srcs {
				if !allowed(s) {
					return false
				}
			}
			return true
		}
		if guardedCut(l.At, dirPred) {
			c.Ok("C09.direction/end-of-tier-drop", site, "end-of-tier deny decided by HasNonStagedPolicies() of %s, the groups the policy jumps are rendered from", D)
			continue
		}
		// diagnose: which groups do the guarding conditions look at?
		var foreign []string
		extra, derived := false, false
		for _, g := range guardsOf(l.At) {
			if !g.True || !c09Candidate(g.Cond) {
				continue
			}
			r := ns.eval(g.Cond)
			if !r.OK || len(r.Srcs) == 0 {
				continue
			}
			derived = true
			extra = extra || r.Extra
			for _, s := range r.Srcs {
				if !allowed(s) {
					foreign = append(foreign, s.String())
				}
			}
		}
		switch {
		case !derived:
			// C09.staged/end-of-tier-flag reports the missing guard
			c.Violate("C09.direction/end-of-tier-drop", site, "end-of-tier deny is not decided by HasNonStagedPolicies() of the groups being rendered (%s)", D)
		case extra:
			c.Undecided("C09.direction/end-of-tier-drop", site, "the end-of-tier-drop decision is made by a helper that looks at %s depending on further parameters; cannot tell whether it selects the rendered direction (%s)", strings.Join(foreign, ", "), D)
		default:
			sort.Strings(foreign)
			c.Violate("C09.direction/end-of-tier-drop", site,
				"the end-of-tier-drop decision looks at HasNonStagedPolicies() of %s, but the policy jumps of this chain are rendered from %s: a tier whose policies in this direction are all staged gets an end-of-tier deny because of an enforced policy of the other direction (a staged policy changes the verdict)",
				strings.Join(foreign, ", "), D)
		}
	}

	// (2) rules that follow a policy jump and are skipped for all-staged groups
	// (return-on-accept, notrack) ask the group that was jumped to.
	for _, l := range lits {
		if (l.ActName != "Return" && l.ActName != "NoTrack") || !c09InLoopWith(l, polJumps) {
			continue
		}
		for _, g := range guardsOf(l.At) {
			cs, ok := condCall(g.Cond)
			if !ok || !ns.isHNS(cs.Callee) {
				continue
			}
			recv := cs.Args()[0]
			okG := false
			for _, gr := range groups {
				if gr == recv {
					okG = true
				}
			}
			c.Check(okG && g.True, "C09.direction/verdict-rule/"+l.ActName, p.Pos(l.At.Pos()),
				l.ActName+"-on-accept rule after a policy jump is rendered when the jumped-to group "+path(recv)+" has non-staged policies",
				fmt.Sprintf("%s-on-accept rule after a policy jump is rendered depending on HasNonStagedPolicies() of %s (=%v), not of the group the jump was rendered for (%s): an enforced policy's accept would not end the chain", l.ActName, path(recv), g.True, path(groups[0])))
		}
	}

	// (3) emptiness tests on a group slice that guard tier-loop rules test the rendered slice.
	seen := map[ssa.Value]bool{}
	for _, l := range lits {
		if !c09InLoopWith(l, polJumps) {
			continue
		}
		for _, g := range guardsOf(l.At) {
			bo, ok := g.Cond.(*ssa.BinOp)
			if !ok || seen[bo] {
				continue
			}
			for _, pr := range [][2]ssa.Value{{bo.X, bo.Y}, {bo.Y, bo.X}} {
				lc, isLen := pr[0].(*ssa.Call)
				if _, isK := pr[1].(*ssa.Const); !isK || !isLen {
					continue
				}
				cc, isB := isBuiltinCall(lc, "len")
				if !isB || len(cc.Args) != 1 || !c09IsGroupSlice(cc.Args[0].Type()) {
					continue
				}
				seen[bo] = true
				b, sel := c09Norm(cc.Args[0])
				got := c09Src{b, sel, true}
				c.Check(got.same(D), "C09.direction/nonempty-guard", p.Pos(bo.Pos()),
					"tier rules are rendered depending on len("+got.String()+"), the groups the policy jumps are rendered from",
					"tier rules are rendered depending on len("+got.String()+"), but the policy jumps are rendered from "+D.String()+": a tier with policies only in the other direction is rendered (or skipped) for this direction")
			}
		}
	}
}

func c09IsGroupSlice(t types.Type) bool {
	sl, ok := t.Underlying().(*types.Slice)
	if !ok {
		return false
	}
	pt, ok := sl.Elem().Underlying().(*types.Pointer)
	return ok && namedTypeName(pt.Elem()) == "PolicyGroup"
}

// ----------------------------------------------------------------- faildeny --

func c09FailDeny(m *c09Model, ep *ssa.Function) {
	c, p := m.c, m.p
	lits := c09Literals(ep)
	isPlainDeny := func(l c09Lit) bool {
		if l.ActName != "IptablesFilterDenyAction" {
			return false
		}
		sh := m.shapes(l, ep)
		return len(sh) == 1 && sh[0] == ""
	}
	var adminUp *ssa.Parameter
	for _, pa := range ep.Params {
		if b, ok := pa.Type().Underlying().(*types.Basic); ok && b.Kind() == types.Bool {
			// the bool parameter that guards a return: adminUp is the only bool
			// parameter compared before the first return; identify by guard use.
			for _, r := range returnsOf(ep) {
				if guardedCut(r, func(cond ssa.Value, pol bool) bool { return cond == ssa.Value(pa) && !pol }) {
					adminUp = pa
				}
			}
		}
	}
	if adminUp == nil {
		c.Violate("C09.faildeny/admin-down", p.Pos(ep.Pos()), "no return of endpointIptablesChain is guarded by a false bool parameter (admin-down endpoints are not short-circuited to deny)")
	} else {
		downGuard := func(cond ssa.Value, pol bool) bool { return cond == ssa.Value(adminUp) && !pol }
		ok := false
		why := "no return under !adminUp"
		for _, r := range returnsOf(ep) {
			if !guardedCut(r, downGuard) {
				continue
			}
			// every Rule literal that can execute before this return under
			// !adminUp must be a plain deny, and there must be one dominating it.
			nDeny, nOther := 0, 0
			for _, l := range lits {
				if instrDominates(l.At, r) {
					if isPlainDeny(l) {
						nDeny++
					} else {
						nOther++
					}
				} else if instrReaches(l.At, r) && guardedCut(l.At, downGuard) {
					nOther++
				}
			}
			if nDeny >= 1 && nOther == 0 {
				ok = true
			} else {
				why = fmt.Sprintf("return under !adminUp is preceded by %d unconditional deny rule(s) and %d other rule(s)", nDeny, nOther)
			}
		}
		c.Check(ok, "C09.faildeny/admin-down", p.Pos(ep.Pos()), "admin-down chain consists of an unconditional deny", "admin-down endpoint: "+why)
	}
	// final deny: leaves of the Rules value of the returned Chain (returns not under !adminUp).
	chainNormal := func(want bool) EdgePred {
		return func(cond ssa.Value, pol bool) bool {
			bo, ok := cond.(*ssa.BinOp)
			if !ok || (bo.Op != token.EQL && bo.Op != token.NEQ) {
				return false
			}
			if bo.Op == token.NEQ {
				pol = !pol
			}
			if pol != want {
				return false
			}
			for _, pr := range [][2]ssa.Value{{bo.X, bo.Y}, {bo.Y, bo.X}} {
				if pa, ok := pr[0].(*ssa.Parameter); ok && namedTypeName(pa.Type()) == "endpointChainType" {
					if k, ok := pr[1].(*ssa.Const); ok && k.Value != nil && k.Value.ExactString() == c09ConstVal(p, "chainTypeNormal") {
						return true
					}
				}
			}
			return false
		}
	}
	nFinal := 0
	for _, r := range returnsOf(ep) {
		if adminUp != nil && guardedCut(r, func(cond ssa.Value, pol bool) bool { return cond == ssa.Value(adminUp) && !pol }) {
			continue
		}
		nFinal++
		// the returned *Chain literal's Rules store
		var rulesVal ssa.Value
		for _, o := range origins(r.Results[0], nil) {
			if al, ok := o.V.(*ssa.Alloc); ok {
				if vs := literalFieldStores(al)["Rules"]; len(vs) > 0 {
					rulesVal = vs[0]
				}
			}
		}
		if rulesVal == nil {
			c.Undecided("C09.faildeny/final-deny", p.Pos(r.Pos()), "cannot find the Rules of the returned Chain literal")
			continue
		}
		type leaf struct {
			v    ssa.Value
			pred *ssa.BasicBlock
			succ *ssa.BasicBlock
		}
		var leaves []leaf
		seen := map[*ssa.Phi]bool{}
		var flat func(v ssa.Value, pred, succ *ssa.BasicBlock)
		flat = func(v ssa.Value, pred, succ *ssa.BasicBlock) {
			// only the merge feeding the return, and merges inside the
			// chainTypeNormal branch, are alternatives of "the last append";
			// other phis (loop headers, earlier optional rules) are opaque.
			if ph, ok := v.(*ssa.Phi); ok && (v == rulesVal || guardedCut(ph, chainNormal(true))) {
				if !seen[ph] {
					seen[ph] = true
					for i, e := range ph.Edges {
						flat(e, ph.Block().Preds[i], ph.Block())
					}
				}
				return
			}
			leaves = append(leaves, leaf{v, pred, succ})
		}
		flat(rulesVal, r.Block(), nil)
		var bad []string
		nNormal := 0
		for _, lf := range leaves {
			last := lf.pred.Instrs[len(lf.pred.Instrs)-1]
			if lf.pred == r.Block() {
				last = r
			}
			if guardedCut(last, chainNormal(false)) {
				continue // not a chainTypeNormal path
			}
			if ifi, ok := last.(*ssa.If); ok && lf.succ != nil {
				skip := false
				for k, s := range lf.pred.Succs {
					cnd, pol := stripNot(ifi.Cond, k == 0)
					if s == lf.succ && lf.pred.Succs[0] != lf.pred.Succs[1] && chainNormal(false)(cnd, pol) {
						skip = true
					}
				}
				if skip {
					continue // the merge edge itself is the chainType != Normal edge
				}
			}
			nNormal++
			// must be append(..., <plain deny literal as last element>)
			call, ok := lf.v.(*ssa.Call)
			okLeaf := false
			if ok {
				if _, isApp := isBuiltinCall(call, "append"); isApp && len(call.Common().Args) == 2 {
					if last := c09LastElemLiteral(call.Common().Args[1]); last != nil {
						for _, l := range lits {
							if l.Base == last && isPlainDeny(l) {
								okLeaf = true
							}
						}
					}
				}
			}
			if !okLeaf {
				bad = append(bad, "on a chainTypeNormal path the returned rule list ends with "+pathN(lf.v, 2)+" rather than append(…, Rule{empty match, IptablesFilterDenyAction()})")
			}
		}
		if nNormal == 0 {
			bad = append(bad, "no chainTypeNormal path found")
		}
		c.Check(len(bad) == 0, "C09.faildeny/final-deny", p.Pos(r.Pos()),
			fmt.Sprintf("on all %d chainTypeNormal alternative(s) the last rule is an unconditional deny", nNormal), strings.Join(bad, "; "))
	}
	if nFinal == 0 {
		c.Lost("no normal return in endpointIptablesChain")
	}
	// deny action type
	var kinds []string
	okT := true
	nSt := 0
	for _, fn := range p.AllFuncs() {
		allInstrs(fn, false, func(f *ssa.Function, in ssa.Instruction) {
			st, ok := in.(*ssa.Store)
			if !ok {
				return
			}
			fa, ok := st.Addr.(*ssa.FieldAddr)
			if !ok || fieldName(fa.X.Type(), fa.Field) != "iptablesFilterDenyAction" || namedTypeName(fa.X.Type()) != "DefaultRuleRenderer" {
				return
			}
			nSt++
			var walk func(v ssa.Value, seen map[ssa.Value]bool)
			walk = func(v ssa.Value, seen map[ssa.Value]bool) {
				if seen[v] {
					return
				}
				seen[v] = true
				switch x := v.(type) {
				case *ssa.Phi:
					for _, e := range x.Edges {
						walk(e, seen)
					}
				case *ssa.MakeInterface:
					n := namedTypeName(x.X.Type())
					kinds = append(kinds, n)
					if n != "DropAction" && n != "RejectAction" {
						okT = false
					}
				default:
					kinds = append(kinds, path(v))
					okT = false
				}
			}
			walk(st.Val, map[ssa.Value]bool{})
		})
	}
	if nSt == 0 {
		c.Lost("no store to DefaultRuleRenderer.iptablesFilterDenyAction")
	}
	sort.Strings(kinds)
	c.Check(okT, "C09.faildeny/deny-action-type", p.Pos(ep.Pos()), fmt.Sprintf("IptablesFilterDenyAction is only ever %v", kinds),
		fmt.Sprintf("DefaultRuleRenderer.iptablesFilterDenyAction can be %v; it must be a DropAction or RejectAction", kinds))
	den := p.Func(c08RulesPkg, "DefaultRuleRenderer.IptablesFilterDenyAction")
	if den == nil {
		c.Lost("DefaultRuleRenderer.IptablesFilterDenyAction")
	}
	for _, r := range returnsOf(den) {
		if lastField(r.Results[0]) != "iptablesFilterDenyAction" {
			c.Violate("C09.faildeny/deny-action-type", p.Pos(r.Pos()), "IptablesFilterDenyAction() returns %s, not the iptablesFilterDenyAction field", path(r.Results[0]))
		}
	}
}

func c09ConstVal(p *Prog, name string) string {
	if k, ok := p.LookupObj(c08RulesPkg, name).(*types.Const); ok {
		return k.Val().ExactString()
	}
	return "<lost " + name + ">"
}

// c09LastElemLiteral: for the vararg slice of an append, the address of its
// last array element (base of the last composite literal).
func c09LastElemLiteral(v ssa.Value) ssa.Value {
	sl, ok := v.(*ssa.Slice)
	if !ok {
		return nil
	}
	al, ok := sl.X.(*ssa.Alloc)
	if !ok {
		return nil
	}
	var best *ssa.IndexAddr
	bestIdx := int64(-1)
	for _, r := range *al.Referrers() {
		if ia, ok := r.(*ssa.IndexAddr); ok {
			if k, ok := ia.Index.(*ssa.Const); ok && k.Value != nil {
				if i, ok := constant.Int64Val(k.Value); ok && i > bestIdx {
					best, bestIdx = ia, i
				}
			}
		}
	}
	if best == nil {
		return nil
	}
	// `append(s, T{…})` builds the literal in a local and copies it into the
	// vararg array: follow the copy back to the literal's alloc.
	for _, r := range *best.Referrers() {
		if st, ok := r.(*ssa.Store); ok && st.Addr == best {
			if ld, ok := st.Val.(*ssa.UnOp); ok && ld.Op == token.MUL {
				if al, ok := ld.X.(*ssa.Alloc); ok {
					return al
				}
			}
			return nil
		}
	}
	return best
}

// ---------------------------------------------------------------- tiermarks --

func c09TierMarks(m *c09Model, ep *ssa.Function) {
	c, p := m.c, m.p
	lits := c09Literals(ep)
	polJumps, profJumps := c09PolicyJumps(m, ep)
	// (1) verdict bits cleared before any policy jump
	var firstClear *c09Lit
	for i, l := range lits {
		if l.ActName == "ClearMark" && m.marks(l.ActCall.Common().Args[0], ep) == "MarkAccept|MarkPass" {
			sh := m.shapes(l, ep)
			if len(sh) == 1 && sh[0] == "" {
				firstClear = &lits[i]
			}
		}
	}
	okClr := firstClear != nil
	if okClr {
		for _, j := range append(append([]c09Lit{}, polJumps...), profJumps...) {
			if !instrDominates(firstClear.At, j.At) {
				okClr = false
			}
		}
	}
	c.Check(okClr, "C09.tiermarks/initial-clear", p.Pos(ep.Pos()), "an unconditional ClearMark(MarkAccept|MarkPass) dominates every policy and profile jump",
		"no unconditional ClearMark(MarkAccept|MarkPass) rule dominates the policy/profile jumps (stale verdict bits from an earlier chain would decide)")
	// (2) tier start: a plain ClearMark(MarkPass) dominates each policy jump and lies in the same loop
	for _, j := range polJumps {
		ok := false
		for _, l := range lits {
			if l.ActName == "ClearMark" && m.marks(l.ActCall.Common().Args[0], ep) == "MarkPass" {
				sh := m.shapes(l, ep)
				if len(sh) == 1 && sh[0] == "" && instrDominates(l.At, j.At) && instrReaches(j.At, l.At) {
					ok = true
				}
			}
		}
		c.Check(ok, "C09.tiermarks/tier-start", p.Pos(j.At.Pos()), "each tier iteration starts with an unconditional ClearMark(MarkPass) before its policy jumps",
			"no unconditional ClearMark(exactly MarkPass) rule inside the tier loop dominates the policy jump (pass from the previous tier would skip this tier, or accept would be lost)")
	}
	// (3) policy jumps need MarkClear(MarkPass)
	for _, j := range polJumps {
		sh := m.shapes(j, ep)
		ok := len(sh) > 0
		for _, s := range sh {
			if s != "MarkClear(MarkPass)" {
				ok = false
			}
		}
		c.Check(ok, "C09.tiermarks/jump", p.Pos(j.At.Pos()), "policy/group jump is conditioned on MarkClear(MarkPass)",
			fmt.Sprintf("policy/group jump has match %q; it must be MarkClear(MarkPass) so that a pass verdict skips the rest of the tier", sh))
	}
	// (4) returns
	for _, l := range lits {
		if l.ActName != "Return" || !c08IsInvokeOf(l.ActCall.Common(), c08ActionIface) {
			continue
		}
		sh := m.shapes(l, ep)
		ok := len(sh) == 1 && sh[0] == "MarkSingleBitSet(MarkAccept)"
		if len(sh) == 1 && sh[0] == "" {
			// unconditional return: must directly follow an unconditional SetMark(MarkAccept) in the same block
			for _, s := range lits {
				if s.ActName == "SetMark" && s.At.Block() == l.At.Block() && instrDominates(s.At, l.At) && m.marks(s.ActCall.Common().Args[0], ep) == "MarkAccept" {
					if ss := m.shapes(s, ep); len(ss) == 1 && ss[0] == "" {
						ok = true
					}
				}
			}
		}
		c.Check(ok, "C09.tiermarks/return", p.Pos(l.At.Pos()), fmt.Sprintf("return rule %q returns only with the accept bit set", sh),
			fmt.Sprintf("return rule has match %q: the endpoint chain may only return early when MarkAccept is set (MarkSingleBitSet(MarkAccept), or right after SetMark(MarkAccept))", sh))
	}
	// (5) end-of-tier deny
	v3Pass := `"Pass"`
	if k, ok := p.LookupExt("github.com/projectcalico/api/pkg/apis/projectcalico/v3", "Pass").(*types.Const); ok {
		v3Pass = k.Val().ExactString()
	} else {
		c.Lost("v3.Pass")
	}
	ns := c09NewNS()
	nEOT := 0
	for _, l := range c09EndOfTierDenies(m, ep, polJumps) {
		sh := m.shapes(l, ep)
		nEOT++
		var bad []string
		if sh[0] != "MarkClear(MarkPass)" {
			bad = append(bad, "match is "+sh[0]+", want MarkClear(MarkPass)")
		}
		if !guardedCut(l.At, ns.edgePred(&c09NSRes{OK: true}, map[ssa.Value]bool{}, 0)) {
			bad = append(bad, "not guarded by the non-staged (end-of-tier-drop) flag")
		}
		if !guardedCut(l.At, func(cond ssa.Value, pol bool) bool {
			bo, ok := cond.(*ssa.BinOp)
			if !ok || (bo.Op != token.EQL && bo.Op != token.NEQ) {
				return false
			}
			if bo.Op == token.NEQ {
				pol = !pol
			}
			if pol {
				return false
			}
			for _, pr := range [][2]ssa.Value{{bo.X, bo.Y}, {bo.Y, bo.X}} {
				if lastField(pr[0]) == "DefaultAction" {
					if k, ok := pr[1].(*ssa.Const); ok && k.Value != nil && k.Value.ExactString() == v3Pass {
						return true
					}
				}
			}
			return false
		}) {
			bad = append(bad, "not guarded by tier.DefaultAction != v3.Pass")
		}
		c.Check(len(bad) == 0, "C09.tiermarks/end-of-tier-deny", p.Pos(l.At.Pos()), "end-of-tier deny: MarkClear(MarkPass), under non-staged flag && DefaultAction != Pass",
			"end-of-tier deny: "+strings.Join(bad, "; "))
	}
	if nEOT == 0 {
		c.Violate("C09.tiermarks/end-of-tier-deny", p.Pos(ep.Pos()), "no end-of-tier deny rule (IptablesFilterDenyAction with a MarkClear match) inside the tier loop")
	}
	// (6) each profile jump is followed (same block) by return-on-accept
	for _, j := range profJumps {
		ok := false
		for _, l := range lits {
			if l.ActName == "Return" && l.At.Block() == j.At.Block() && instrDominates(j.At, l.At) {
				if sh := m.shapes(l, ep); len(sh) == 1 && sh[0] == "MarkSingleBitSet(MarkAccept)" {
					ok = true
				}
			}
		}
		sh := m.shapes(j, ep)
		c.Check(ok && len(sh) == 1 && sh[0] == "", "C09.tiermarks/profile-jump", p.Pos(j.At.Pos()), "profile jump is unconditional and followed by return-if-accepted",
			fmt.Sprintf("profile jump (match %q) must be unconditional and directly followed by a MarkSingleBitSet(MarkAccept) return", sh))
	}
}

// ------------------------------------------------------------------- stride --

// c09ModGuard matches `X % K == 0` edges; returns X and K through the callback.
func c09ModZero(cond ssa.Value) (x ssa.Value, k string, ok bool) {
	bo, isB := cond.(*ssa.BinOp)
	if !isB || (bo.Op != token.EQL && bo.Op != token.NEQ) {
		return nil, "", false
	}
	for _, pr := range [][2]ssa.Value{{bo.X, bo.Y}, {bo.Y, bo.X}} {
		rem, isR := pr[0].(*ssa.BinOp)
		z, isC := pr[1].(*ssa.Const)
		if isR && rem.Op == token.REM && isC && z.Value != nil && z.Value.ExactString() == "0" {
			if kc, ok := rem.Y.(*ssa.Const); ok && kc.Value != nil {
				return rem.X, kc.Value.ExactString(), true
			}
		}
	}
	return nil, "", false
}

func c09Stride(m *c09Model, grp *ssa.Function) {
	c, p := m.c, m.p
	lits := c09Literals(grp)
	var jump, ret *c09Lit
	for i, l := range lits {
		switch l.ActName {
		case "Jump":
			jump = &lits[i]
		case "Return":
			ret = &lits[i]
		}
	}
	if jump == nil {
		c.Lost("Jump rule in PolicyGroupToIptablesChains")
	}
	var strideX ssa.Value
	strideK := ""
	modTrue := func(cond ssa.Value, pol bool) bool {
		bo, _ := cond.(*ssa.BinOp)
		x, k, ok := c09ModZero(cond)
		if !ok {
			return false
		}
		if bo.Op == token.NEQ {
			pol = !pol
		}
		if !pol {
			return false
		}
		if strideK == "" {
			strideX, strideK = x, k
		}
		return x == strideX && k == strideK
	}
	var bad []string
	nPlain, nCond := 0, 0
	for _, lf := range c09MatchLeaves(jump.Match) {
		s := m.leafShape(lf, grp)
		switch s {
		case "":
			nPlain++
			if lf.Pred == nil || !guardedCut(lf.Pred.Instrs[len(lf.Pred.Instrs)-1], modTrue) {
				bad = append(bad, "a jump with an empty match is possible where count%stride != 0 (an earlier policy's verdict would be ignored)")
			}
		case "MarkClear(MarkAccept|MarkPass)":
			nCond++
		default:
			bad = append(bad, "jump match "+s+" is neither empty nor MarkClear(MarkPass|MarkAccept)")
		}
	}
	if nCond == 0 {
		bad = append(bad, "no MarkClear(MarkPass|MarkAccept) alternative for jumps inside a stride block")
	}
	c.Check(len(bad) == 0, "C09.stride/jump-match", p.Pos(jump.At.Pos()),
		fmt.Sprintf("jump match: empty only under count%%%s==0 (%d alt.), else MarkClear(MarkPass|MarkAccept) (%d alt.)", strideK, nPlain, nCond), strings.Join(bad, "; "))
	if nPlain > 0 {
		// the optimisation is used: the return-on-verdict rule must exist under the same test
		ok := false
		why := "no Return rule in PolicyGroupToIptablesChains"
		if ret != nil {
			sh := m.shapes(*ret, grp)
			why = fmt.Sprintf("return rule match %q / guard mismatch", sh)
			if len(sh) == 1 && sh[0] == "MarkNotClear(MarkAccept|MarkPass)" && guardedCut(ret.At, modTrue) && instrDominates(ret.At, jump.At) == false && instrReaches(ret.At, jump.At) {
				ok = true
			}
		}
		c.Check(ok, "C09.stride/return-on-verdict", p.Pos(jump.At.Pos()),
			"return-on-verdict rule MarkNotClear(MarkPass|MarkAccept) is emitted under the same count%stride==0 test, before the unconditional jump",
			"policy group chain uses unconditional jumps every stride but "+why+": the rule that returns once a verdict is made must be emitted under the same count%stride==0 test")
	}
}

// ---------------------------------------------------------------- tierlocal --

// c09TierLoop: the loop of the endpoint chain that renders one tier per
// iteration: the innermost loop containing the end-of-tier deny and every
// policy jump, confirmed by an element access into a []TierPolicyGroups inside it.
func c09TierLoop(m *c09Model, ep *ssa.Function, polJumps, denies []c09Lit) *c09Loop {
	var ins []ssa.Instruction
	for _, l := range append(append([]c09Lit{}, polJumps...), denies...) {
		ins = append(ins, l.At)
	}
	tl := c09InnermostLoop(c09Loops(ep), ins...)
	if tl == nil {
		m.c.Lost("tier loop of endpointIptablesChain (a loop containing the end-of-tier deny and the policy jumps)")
	}
	isTiers := false
	for b := range tl.Blocks {
		for _, in := range b.Instrs {
			var x ssa.Value
			switch ia := in.(type) {
			case *ssa.IndexAddr:
				x = ia.X
			case *ssa.Index:
				x = ia.X
			}
			if x == nil {
				continue
			}
			if sl, ok := x.Type().Underlying().(*types.Slice); ok && namedTypeName(sl.Elem()) == "TierPolicyGroups" {
				isTiers = true
			}
		}
	}
	if !isTiers {
		m.c.Lost("the loop of endpointIptablesChain that contains the end-of-tier deny and the policy jumps does not index a []TierPolicyGroups")
	}
	return tl
}

// c09TierLocal: a tier's rules are a function of that tier alone.  The
// conditions that decide whether the end-of-tier deny / a policy jump is
// rendered (every If inside the tier loop that the rule is control-dependent
// on, including the bounds of the nested loops) must not read a value that was
// computed while rendering an earlier tier.
func c09TierLocal(m *c09Model, ep *ssa.Function) {
	c, p := m.c, m.p
	polJumps, _ := c09PolicyJumps(m, ep)
	denies := c09EndOfTierDenies(m, ep, polJumps)
	if len(denies) == 0 {
		c.Lost("end-of-tier deny in endpointIptablesChain")
	}
	tl := c09TierLoop(m, ep, polJumps, denies)
	check := func(key, what, effect string, l c09Lit) {
		var bad []string
		seen := map[ssa.Value]bool{}
		n := 0
		for _, g := range guardsOf(l.At) {
			if !tl.has(g.If) {
				continue
			}
			n++
			for _, cr := range c09LoopCarried(tl, g.Cond) {
				if !seen[cr.V] {
					seen[cr.V] = true
					bad = append(bad, cr.What)
				}
			}
		}
		if n == 0 {
			c.Undecided(key, p.Pos(l.At.Pos()), "%s is not control-dependent on any condition inside the tier loop", what)
			return
		}
		sort.Strings(bad)
		c.Check(len(bad) == 0, key, p.Pos(l.At.Pos()),
			fmt.Sprintf("%s is decided by %d condition(s) inside the tier loop, none of which depends on an earlier tier", what, n),
			fmt.Sprintf("in endpointIptablesChain %s depends on state of an EARLIER tier: %s; %s", what, strings.Join(bad, "; "), effect))
	}
	for _, l := range denies {
		check("C09.tierlocal/end-of-tier-deny", "whether the end-of-tier deny is rendered",
			"a tier that holds no enforced policy for this direction (e.g. only staged ones) drops at its end because an earlier tier held one, or vice versa", l)
	}
	for _, l := range polJumps {
		check("C09.tierlocal/policy-jump", "whether (and for which groups) a policy/group jump is rendered",
			"a tier is rendered with (or without) policies because of what an earlier tier held", l)
	}
}

// --------------------------------------------------------------- groupcover --

// c09StagedFalse: g is the guard "KindIsStaged(<elem>.Kind) == false".
func c09StagedFalse(g Guard, elem ssa.Value) bool {
	if g.True {
		return false
	}
	cs, ok := condCall(g.Cond)
	if !ok || !c09IsKindIsStaged(cs.Callee) || len(cs.Args()) != 1 {
		return false
	}
	ld, ok := cs.Args()[0].(*ssa.UnOp)
	if !ok {
		return false
	}
	fa, ok := ld.X.(*ssa.FieldAddr)
	return ok && fieldName(fa.X.Type(), fa.Field) == "Kind" && (fa.X == elem || path(fa.X) == path(elem))
}

// c09IsGroupPolicies: S is the Policies field of a PolicyGroup; returns the group.
func c09IsGroupPolicies(S ssa.Value) (ssa.Value, bool) {
	_, fld, base, ok := fieldOf(S)
	if !ok || fld != "Policies" || namedTypeName(base.Type()) != "PolicyGroup" {
		return nil, false
	}
	return base, true
}

// c09SkipsIn lists the conditions inside loop l, other than its own range test
// and the staged test on elem, that `at` is control-dependent on.
func c09SkipsIn(l *c09Loop, hdr *ssa.If, at ssa.Instruction, elem ssa.Value) []string {
	var bad []string
	for _, g := range guardsOf(at) {
		if !l.has(g.If) {
			continue
		}
		if g.If == hdr && g.True {
			continue
		}
		if c09StagedFalse(g, elem) {
			continue
		}
		bad = append(bad, fmt.Sprintf("%s == %v", pathN(g.Cond, 3), g.True))
	}
	return bad
}

func c09GroupCover(m *c09Model, inRP func(*ssa.Function) bool) {
	c, p := m.c, m.p
	// (1) policy ids whose chain name reaches a Jump; (2) jump targets taken from a list.
	for _, fn := range p.AllFuncs() {
		if !inRP(fn) {
			continue
		}
		var loops []*c09Loop
		for _, cs := range callsIn(fn, false, func(f *types.Func) bool { return f.Name() == "Jump" }) {
			if !c08IsInvokeOf(cs.Common(), c08ActionIface) {
				continue
			}
			if loops == nil {
				loops = c09Loops(fn)
			}
			jump := cs.Instr
			target := cs.Common().Args[0]
			f := m.ev.facts(target, &c08Ctx{fn: fn})
			isPol := false
			for _, src := range f.Calls {
				cal := calleeOf(src.Common())
				if isFunc(cal, c08RulesPkg, "PolicyGroup.ChainName") {
					isPol = true
				}
				if !isFunc(cal, c08RulesPkg, "PolicyChainName") {
					continue
				}
				isPol = true
				key := "C09.groupcover/jump/" + fnName(fn)
				site := p.Pos(src.Pos())
				id := src.Common().Args[1]
				S, idx := c09ElemIndex(id)
				var grp ssa.Value
				if S != nil {
					grp, _ = c09IsGroupPolicies(S)
				}
				if grp == nil {
					c.Undecided(key, site, "policy id %s whose chain is jumped to is not an element of a PolicyGroup's Policies; cannot tell whether every enforced policy of the group is covered", path(id))
					continue
				}
				l, hdr, why := c09FullRange(loops, idx, S)
				if l == nil {
					c.Violate(key, site, "in %s the policy whose chain is jumped to is %s.Policies[%s], which does not range over all policies of the group (%s): an enforced policy at another position (e.g. behind a staged one with the same selector) is never jumped to, while HasNonStagedPolicies() still arms the end-of-tier deny", fnName(fn), c09GroupName(grp), pathN(idx, 2), why)
					continue
				}
				bad := c09SkipsIn(l, hdr, src, id)
				if l.has(jump) {
					bad = append(bad, c09SkipsIn(l, hdr, jump, id)...)
				}
				c.Check(len(bad) == 0, key, site,
					"the jumped-to policies are drawn by ranging over all of "+c09GroupName(grp)+".Policies, skipping only where KindIsStaged(policy.Kind)",
					fmt.Sprintf("in %s, inside the range over %s.Policies a policy is skipped depending on %s, not only on model.KindIsStaged(policy.Kind): an enforced policy may not be jumped to", fnName(fn), c09GroupName(grp), strings.Join(bad, ", ")))
			}
			if !isPol {
				continue
			}
			// the jump target itself is an element of a list of chains to jump to
			if S, idx := c09ElemIndex(target); S != nil {
				key := "C09.groupcover/jump-list/" + fnName(fn)
				l, _, why := c09FullRange(loops, idx, S)
				c.Check(l != nil, key, p.Pos(jump.Pos()),
					"the policy jump is rendered for every element of the list of chains "+pathN(S, 2),
					fmt.Sprintf("in %s the policy jump is rendered for %s[%s], which does not range over the whole list of chains to jump to (%s): the remaining policies are not jumped to", fnName(fn), pathN(S, 2), pathN(idx, 2), why))
			}
		}
	}
	// (3) HasNonStagedPolicies(): true iff some element of Policies is not staged.
	hns := p.Func(c08RulesPkg, "PolicyGroup.HasNonStagedPolicies")
	if hns == nil || len(hns.Params) != 1 {
		c.Lost("PolicyGroup.HasNonStagedPolicies")
	}
	key := "C09.groupcover/HasNonStagedPolicies"
	site := p.Pos(hns.Pos())
	loops := c09Loops(hns)
	type rng struct {
		l    *c09Loop
		hdr  *ssa.If
		elem ssa.Value
	}
	var ranges []rng
	var bad, und []string
	nElem := 0
	allInstrs(hns, false, func(_ *ssa.Function, in ssa.Instruction) {
		ld, ok := in.(*ssa.UnOp)
		if !ok {
			return
		}
		S, idx := c09ElemIndex(ld)
		if S == nil {
			return
		}
		if g, ok := c09IsGroupPolicies(S); !ok || g != ssa.Value(hns.Params[0]) {
			return
		}
		nElem++
		l, hdr, why := c09FullRange(loops, idx, S)
		if l == nil {
			bad = append(bad, "it looks at Policies["+pathN(idx, 2)+"], which does not range over all policies ("+why+")")
			return
		}
		ranges = append(ranges, rng{l, hdr, ld})
	})
	if nElem == 0 {
		c.Undecided(key, site, "HasNonStagedPolicies() does not index the receiver's Policies; cannot tell whether it looks at every policy")
		return
	}
	for _, r := range returnsOf(hns) {
		if len(r.Results) != 1 {
			continue
		}
		var in *rng
		for i := range ranges {
			if c09ReachedFromBody(ranges[i].l, r) {
				in = &ranges[i]
			}
		}
		k, isConst := r.Results[0].(*ssa.Const)
		isTrue := isConst && k.Value != nil && k.Value.Kind() == constant.Bool && constant.BoolVal(k.Value)
		isFalse := isConst && k.Value != nil && k.Value.Kind() == constant.Bool && !constant.BoolVal(k.Value)
		switch {
		case in != nil && !isTrue:
			bad = append(bad, "it returns "+pathN(r.Results[0], 3)+" from inside the range over Policies, before the remaining policies have been looked at")
		case in != nil:
			okG := false
			for _, g := range guardsOf(r) {
				if c09StagedFalse(g, in.elem) {
					okG = true
				}
			}
			if !okG {
				bad = append(bad, "it returns true for an element that is not tested with !model.KindIsStaged(element.Kind)")
			}
			if sk := c09SkipsIn(in.l, in.hdr, r, in.elem); len(sk) > 0 {
				bad = append(bad, "inside the range over Policies an element is skipped depending on "+strings.Join(sk, ", "))
			}
		case isFalse:
			okG := false
			for _, g := range guardsOf(r) {
				for _, rg := range ranges {
					if g.If == rg.hdr && !g.True {
						okG = true
					}
				}
			}
			if !okG {
				bad = append(bad, "it returns false on a path that has not been through the whole range over Policies")
			}
		default:
			und = append(und, "it returns "+pathN(r.Results[0], 3)+" outside a range over Policies")
		}
	}
	if len(bad) == 0 && len(und) > 0 {
		c.Undecided(key, site, "HasNonStagedPolicies(): %s; cannot tell whether that means \"some policy is not staged\"", strings.Join(und, "; "))
		return
	}
	c.Check(len(bad) == 0, key, site,
		"HasNonStagedPolicies() ranges over all of Policies, returns true only for an element with !KindIsStaged(element.Kind) and false only after the whole range",
		"PolicyGroup.HasNonStagedPolicies(): "+strings.Join(bad, "; ")+": a group holding an enforced policy can be reported as all-staged (no return-on-accept, no end-of-tier deny), or the reverse")
}

// c09ReachedFromBody: r can be reached from a block of l without going through
// l's header again (it belongs to an iteration of l that was cut short).
func c09ReachedFromBody(l *c09Loop, r ssa.Instruction) bool {
	seen := map[*ssa.BasicBlock]bool{}
	var st []*ssa.BasicBlock
	for b := range l.Blocks {
		if b == l.Header {
			continue
		}
		for _, s := range b.Succs {
			if !l.Blocks[s] {
				st = append(st, s)
			}
		}
	}
	for len(st) > 0 {
		b := st[len(st)-1]
		st = st[:len(st)-1]
		if seen[b] || b == l.Header {
			continue
		}
		seen[b] = true
		if b == r.Block() {
			return true
		}
		st = append(st, b.Succs...)
	}
	return false
}

// c09GroupName: a short name for a policy group value (parameter name, or
// "<slice>[i]" for an element of a slice of groups).
func c09GroupName(g ssa.Value) string {
	if S, _ := c09ElemIndex(g); S != nil {
		if ph, ok := S.(*ssa.Phi); ok && ph.Comment != "" {
			return ph.Comment + "[i]"
		}
		return pathN(S, 2) + "[i]"
	}
	return pathN(g, 2)
}
