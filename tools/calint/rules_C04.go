package main

import (
	"fmt"
	"go/constant"
	"go/token"
	"go/types"
	"sort"
	"strings"

	"golang.org/x/tools/go/ssa"
)

const c04Pkg = "felix/labelindex"

func init() {
	register(&Property{
		ID:        "C04",
		Title:     "IP set contents equal the addresses selected by the rule",
		Technique: "static analysis: shape + cut-set guard analysis of every reference-count write, role attribution of the raw member callbacks against the overlap suppressor's results (backward value slices through helpers and closures), who-may-call of the wrappers and raw callbacks, backward value slices of member keys; path-fact exploration of the scan-strategy selection; prefix-length dependence slices of the ip.CIDRTrie queries behind the suppressor (go/ssa over felix/labelindex and felix/ip)",
		DesignRef: "DESIGN.md §3 C04",
		Explanation: "Decides the reference-counting and overlap-suppression discipline of SelectorAndNamedPortIndex: (refcount) every write to ipSetData.memberToRefCount is `old+1` executed whenever the count is read, with the add wrapper called exactly on the 0→1 edge, " +
			"or `old-1` stored exactly when the result is non-zero and otherwise the remove wrapper plus delete of the entry; no other write shape exists; conversely every call of an add (remove) wrapper is made for a member whose count the calling function increments (decrements and deletes), or for every key of a count map; " +
			"(suppressor) each wrapper that consults OverlapSuppressor.Add/Remove fulfils three roles through the raw OnMemberAdded/OnMemberRemoved callbacks, decided per role through the wrapper's helpers and closures - non-CIDR members pass through unchanged, the wrapper's own member is emitted in its own direction under the suppressor's primary result being non-nil, and the suppressor's secondary results (members newly masked by an added CIDR / re-exposed by a removed one) are emitted in the opposite direction by the raw callback, not through a wrapper that would run them through the suppressor again; the raw callbacks are invoked for nothing else; " +
			"deleting an IP set also deletes its suppressor state, and memberDeduplicator.DeleteIPSet drops every per-set trie map that getTrie fills; " +
			"(contribsym) the members that are incremented and those that are decremented are both results of CalculateEndpointContribution (directly or via RecalcCachedContributions); " +
			"(eqcover) the equality that lets UpdateEndpointOrSet skip a no-op update (every func(a, b T) bool over a struct of the package that is called in the package: endpointData.Equals) reads from both operands every field its caller fills in from the update, and compares the elements of each slice field whole (==, slices.Equal, reflect.DeepEqual) or in every field of the element struct (model.EndpointPort: Name, Protocol, Port); " +
			"(cached) every increment site first records the IP set id in the endpoint's cached matching-set collection that RecalcCachedContributions later ranges over for the decrement; " +
			"(candidates) the scan strategy that one label index (endpoint-own or parent) offers for a selector restriction is adopted as the candidate scan (stored, merged, returned, scanned) only where every feasible path has tested the other index's strategy for the same label and restriction to be empty; " +
			"(trieprefix) every ip.CIDRTrie/CIDRNode function reachable from the overlap suppressor that takes a CIDR lets a branch or result depend on that CIDR's prefix length - not only on Addr()/Version(), which hide it - itself or through the trie function it hands the CIDR to, and a boolean answer true (Covers) is on every path preceded by such a test.",
		NotDecided: "eqcover: that a field-wise element comparison which reads every field also compares it correctly (coverage condition); equality hidden behind interface-typed operands. Address arithmetic that builds CIDRs (extractCIDRsFromNetworkSet splitting a /0 into two /1 halves: whether the halves computed for IPv6 cover the v6 space is a property of ip.Addr arithmetic on concrete values, not of the code structure — seed C04-4 is not decided). Membership arithmetic over histories (that counts equal the number of contributing endpoints); functional correctness of ip.CIDRTrie Covers/ClosestDescendants beyond their dependence on the prefix length (hence that emitted members cover exactly the same addresses); that an adopted scan strategy yields a superset of the matching items and the early return when a restriction rules out both indexes (see C07.restrict for the per-leaf half); emptiness tests hidden inside helper functions (the rule then fires: re-confirm); that the set id passed to the wrappers is the id of the ipSetData whose count changed; that EVERY element of the suppressor's secondary result is announced (the role obligations require a raw opposite-direction invocation fed only from that result, not the totality of the loop around it); wrappers whose type assertion or suppressor call is moved into a helper that returns the results (the roles then fire: re-confirm).",
		Assumptions: []string{
			"go/types + go/ssa (x/tools v0.50.0) model of the current source, CGO_ENABLED=0 build",
			"Go map semantics for memberToRefCount (missing key reads 0)",
			"logrus Panic*/Fatal* do not return",
			"ScanStrategy.EstimatedItemsToScan() is a non-negative count and zero means the scan yields nothing",
			"the methods of ip.CIDR none of whose implementations read the fields that Prefix() reads do not reveal the prefix length",
		},
		Run: runC04,
		Fixtures: []Fixture{
			{Name: "no-op check compares named ports by name and number only (a protocol-only change of a named port is dropped)", File: "felix/labelindex/named_port_index.go",
				Old: "\tfor i, p := range d.ports {\n\t\tif other.ports[i] != p {\n", New: "\tfor i, p := range d.ports {\n\t\tif other.ports[i].Name != p.Name || other.ports[i].Port != p.Port {\n", Expect: "C04.eqcover/endpointData.Equals/endpointData.ports/EndpointPort.Protocol"},
			{Name: "no-op check compares only the number of CIDRs (an endpoint whose address changes keeps its old IP set member)", File: "felix/labelindex/named_port_index.go",
				Old: "\tfor i, c := range d.nets {\n\t\tif other.nets[i] != c {\n\t\t\treturn false\n\t\t}\n\t}\n", New: "", Expect: "C04.eqcover/endpointData.Equals/endpointData.nets/elements"},
			{Name: "no-op check ignores the endpoint's own labels", File: "felix/labelindex/named_port_index.go",
				Old: "\tif !d.labels.Equals(other.labels) {\n\t\treturn false\n\t}\n", New: "", Expect: "C04.eqcover/endpointData.Equals/endpointData.labels"},
			{Name: "member added event on every increment (UpdateIPSet)", File: "felix/labelindex/named_port_index.go",
				Old: "\t\t\tif refCount == 0 {\n\t\t\t\tif log.GetLevel() >= log.DebugLevel {", New: "\t\t\tif refCount >= 0 {\n\t\t\t\tif log.GetLevel() >= log.DebugLevel {", Expect: "C04.refcount/inc-edge/"},
			{Name: "member added when count reaches 2", File: "felix/labelindex/named_port_index.go",
				Old: "\t\t\t\tif newRefCount == 1 {", New: "\t\t\t\tif newRefCount == 2 {", Expect: "C04.refcount/inc-edge/"},
			{Name: "increment only stored for new members", File: "felix/labelindex/named_port_index.go",
				Old: "\t\t\t\t\tidx.onMemberAdded(ipSetID, newMember)\n\t\t\t\t}\n\t\t\t\tipSetData.memberToRefCount[newMember] = newRefCount\n", New: "\t\t\t\t\tidx.onMemberAdded(ipSetID, newMember)\n\t\t\t\t\tipSetData.memberToRefCount[newMember] = newRefCount\n\t\t\t\t}\n", Expect: "C04.refcount/inc-store/"},
			{Name: "zero count left in the map on endpoint delete", File: "felix/labelindex/named_port_index.go",
				Old: "\t\t\t\tidx.onMemberRemoved(ipSetID, oldMember)\n\t\t\t\tdelete(ipSetData.memberToRefCount, oldMember)\n\t\t\t} else {\n\t\t\t\tipSetData.memberToRefCount[oldMember] = newRefCount\n\t\t\t}\n\t\t}\n\t}\n\n\t// Record the new endpoint data.",
				New: "\t\t\t\tidx.onMemberRemoved(ipSetID, oldMember)\n\t\t\t}\n\t\t\tipSetData.memberToRefCount[oldMember] = newRefCount\n\t\t}\n\t}\n\n\t// Record the new endpoint data.", Expect: "C04.refcount/dec-store/SelectorAndNamedPortIndex.DeleteEndpoint"},
			{Name: "member removed without event when count hits zero", File: "felix/labelindex/named_port_index.go",
				Old: "\t\t\t\tlog.Debugf(\"Member removed: %s, %v\", ipSetID, oldMember)\n\t\t\t\tidx.onMemberRemoved(ipSetID, oldMember)\n", New: "\t\t\t\tlog.Debugf(\"Member removed: %s, %v\", ipSetID, oldMember)\n", Expect: "C04.refcount/dec-zero/"},
			{Name: "count overwritten instead of incremented", File: "felix/labelindex/named_port_index.go",
				Old: "\t\t\tnewIPSetData.memberToRefCount[member] = refCount + 1\n", New: "\t\t\tnewIPSetData.memberToRefCount[member] = 1\n", Expect: "C04.refcount/shape/"},
			{Name: "raw callback bypasses overlap suppression", File: "felix/labelindex/named_port_index.go",
				Old: "\t\t\t\t\tidx.onMemberAdded(ipSetID, newMember)\n", New: "\t\t\t\t\tidx.OnMemberAdded(ipSetID, newMember)\n", Expect: "C04.suppressor/raw/"},
			{Name: "suppressed (covered) CIDR still emitted", File: "felix/labelindex/named_port_index.go",
				Old: "\t\tif add != nil {\n\t\t\tidx.OnMemberAdded(ipSetID, cidrMember)\n\t\t}", New: "\t\tif add == nil {\n\t\t\tidx.OnMemberAdded(ipSetID, cidrMember)\n\t\t}", Expect: "C04.suppressor/primary/"},
			{Name: "previously masked CIDRs removed instead of re-added", File: "felix/labelindex/named_port_index.go",
				Old: "\t\t\tidx.OnMemberAdded(ipSetID, ipsetmember.MakeCIDROrIPOnly(a))", New: "\t\t\tidx.OnMemberRemoved(ipSetID, ipsetmember.MakeCIDROrIPOnly(a))", Expect: "C04.suppressor/raw/"},
			{Name: "C02-3: re-exposed CIDRs handed to the add wrapper again instead of the raw callback", File: "felix/labelindex/named_port_index.go",
				Old: "\t\t\tidx.OnMemberAdded(ipSetID, ipsetmember.MakeCIDROrIPOnly(a))", New: "\t\t\tidx.onMemberAdded(ipSetID, ipsetmember.MakeCIDROrIPOnly(a))", Expect: "C04.suppressor/reexpose/"},
			{Name: "newly masked CIDRs handed to the remove wrapper again instead of the raw callback", File: "felix/labelindex/named_port_index.go",
				Old: "\t\t\tidx.OnMemberRemoved(ipSetID, ipsetmember.MakeCIDROrIPOnly(r))", New: "\t\t\tidx.onMemberRemoved(ipSetID, ipsetmember.MakeCIDROrIPOnly(r))", Expect: "C04.suppressor/mask/"},
			{Name: "non-CIDR (named port) members dropped by the remove wrapper", File: "felix/labelindex/named_port_index.go",
				Old: "\t\t// No need to de-duplicate.\n\t\tidx.OnMemberRemoved(ipSetID, member)\n", New: "\t\t// No need to de-duplicate.\n", Expect: "C04.suppressor/passthrough/SelectorAndNamedPortIndex.onMemberRemoved"},
			{Name: "incremented count never stored although the member is announced", File: "felix/labelindex/named_port_index.go",
				Old: "\t\t\tnewIPSetData.memberToRefCount[member] = refCount + 1\n", New: "", Expect: "C04.refcount/emit-add/SelectorAndNamedPortIndex.UpdateIPSet"},
			{Name: "decremented count never stored (a shared member is never withdrawn)", File: "felix/labelindex/named_port_index.go",
				Old: "\t\t\t} else {\n\t\t\t\tipSetData.memberToRefCount[oldMember] = newRefCount\n\t\t\t}\n\t\t}\n\t}\n}\n", New: "\t\t\t}\n\t\t}\n\t}\n}\n", Expect: "C04.refcount/emit-remove/SelectorAndNamedPortIndex.scanEndpointAgainstIPSets"},
			{Name: "IP set deleted but suppressor state kept", File: "felix/labelindex/named_port_index.go",
				Old: "\tidx.suppressor.DeleteIPSet(setID)\n", New: "", Expect: "C04.suppressor/delete-ipset"},
			{Name: "v6 tries leak on IP set deletion", File: "felix/labelindex/named_port_index.go",
				Old: "\tdelete(t.v4tries, set)\n\tdelete(t.v6tries, set)\n", New: "\tdelete(t.v4tries, set)\n", Expect: "C04.suppressor/tries/"},
			{Name: "decrement members computed by a different function", File: "felix/labelindex/named_port_index.go",
				Old: "\t\tcontrib[ipSetID] = idx.CalculateEndpointContribution(epData, ipSetData)\n", New: "\t\tvar ms []ipsetmember.IPSetMember\n\t\tfor _, a := range epData.nets {\n\t\t\tms = append(ms, ipsetmember.MakeCIDROrIPOnly(a))\n\t\t}\n\t\t_ = ipSetData\n\t\tcontrib[ipSetID] = ms\n", Expect: "C04.contribsym/"},
			{Name: "C04-2: endpoint-label strategy adopted although the label also lives on profiles", File: "felix/labelindex/named_port_index.go",
				Old: "\t\tif epsToScan > 0 && parentsToScan == 0 {", New: "\t\tif epsToScan > 0 {", Expect: "C04.candidates/SelectorAndNamedPortIndex.iterEndpointCandidates/adopt(endpointKVIdx)"},
			{Name: "parent-label strategy adopted although endpoints carry the label themselves", File: "felix/labelindex/named_port_index.go",
				Old: "\t\t} else if epsToScan == 0 && parentsToScan > 0 {", New: "\t\t} else if parentsToScan > 0 {", Expect: "C04.candidates/SelectorAndNamedPortIndex.iterEndpointCandidates/adopt(parentKVIdx)"},
			{Name: "C04-1: covers() tests only that the node contains the query's base address", File: "felix/ip/trie.go",
				Old: "\tcommonPfx := CommonPrefix(n.cidr, cidr)\n\tif commonPfx != n.cidr {", New: "\tif !n.cidr.Contains(cidr.Addr()) {", Expect: "C04.trieprefix/positive/CIDRNode.covers"},
			{Name: "getNode matches a node on its base address only (ClosestDescendants of the wrong node)", File: "felix/ip/trie.go",
				Old: "\tif cidr == n.cidr {\n\t\tif !includeIntermediates && n.data == nil {", New: "\tif cidr.Addr() == n.cidr.Addr() {\n\t\tif !includeIntermediates && n.data == nil {", Expect: "C04.trieprefix/dep/CIDRNode.getNode"},
			{Name: "match not cached, so never decremented", File: "felix/labelindex/named_port_index.go",
				Old: "\t\tepData.AddMatchingIPSetID(ipSetID)\n\t\tfor _, member := range contrib {", New: "\t\tfor _, member := range contrib {", Expect: "C04.cached/"},
		},
	})
}

type c04Model struct {
	c       *Ctx
	p       *Prog
	funcs   []*ssa.Function
	refFld  *types.Var // ipSetData.memberToRefCount
	cbAdd   *types.Var
	cbRem   *types.Var
	supFld  *types.Var // SelectorAndNamedPortIndex.suppressor
	setsFld *types.Var // SelectorAndNamedPortIndex.ipSetDataByID (derived)
	pd      map[*ssa.Function]map[*ssa.BasicBlock]map[*ssa.BasicBlock]bool
	addW    map[*ssa.Function]bool // wrappers consulting suppressor.Add
	remW    map[*ssa.Function]bool
	supT    *types.TypeName // OverlapSuppressor
	idxT    *types.TypeName // SelectorAndNamedPortIndex
}

func (m *c04Model) postdom(fn *ssa.Function) map[*ssa.BasicBlock]map[*ssa.BasicBlock]bool {
	if pd, ok := m.pd[fn]; ok {
		return pd
	}
	pd := postDominators(fn)
	m.pd[fn] = pd
	return pd
}

func runC04(c *Ctx) {
	c.Rule("C04.refcount", "E-GUARD/E-PAIR/E-OWN", "every write to memberToRefCount is old+1 (always stored; add wrapper exactly on 0→1) or old-1 (stored iff non-zero; else remove wrapper + delete); conversely every call of an add/remove wrapper sits on such an edge of the same member's count (or withdraws every key of a count map)", 16)
	c.Rule("C04.suppressor", "E-OWN/E-GUARD/E-FLOW", "each suppressor wrapper fulfils its three roles through the raw callbacks (non-CIDR pass-through; own member iff the suppressor's primary result is non-nil; the suppressor's secondary results - newly masked / re-exposed members - in the opposite direction, bypassing the suppressor that already holds them) and the raw callbacks are invoked for nothing else; IP set deletion clears suppressor state and all trie maps", 9)
	c.Rule("C04.contribsym", "E-FLOW", "keys of increments and decrements both originate from CalculateEndpointContribution", 5)
	c.Rule("C04.candidates", "E-GUARD", "the scan strategy one label index offers for a restriction is adopted as the candidate scan only where, on every path, the other index's strategy for the same restriction was tested to be empty", 2)
	c.Rule("C04.trieprefix", "E-FLOW/E-GUARD", "every ip.CIDRTrie function the overlap suppressor reaches lets branches/results depend on the queried CIDR's prefix length (not only Addr()/Version()); a boolean containment answer true is always preceded by such a test", 8)
	c.Rule("C04.cached", "E-ORDER", "every increment site is dominated by recording the IP set id in the endpoint's cached matching-set collection", 2)

	m := c04BuildModel(c)
	c04WrapperRoles(c, m)
	c04Suppressor(c, m, m.supT)
	incs := c04Refcount(c, m)
	c04WrapperCallers(c, m)
	c04ContribSym(c, m, incs)
	c04Candidates(c, m, m.idxT)
	c04TriePrefix(c, m.supT)
	c04EqCover(c, m)
}

// c04BuildModel resolves the anchors shared by the C04 families (also used by
// C02, which arms the wrapper roles under its own id).
func c04BuildModel(c *Ctx) *c04Model {
	p := c.Load(c04Pkg)
	m := &c04Model{c: c, p: p, pd: map[*ssa.Function]map[*ssa.BasicBlock]map[*ssa.BasicBlock]bool{}, addW: map[*ssa.Function]bool{}, remW: map[*ssa.Function]bool{}}
	m.refFld, _ = p.LookupObj(c04Pkg, "ipSetData.memberToRefCount").(*types.Var)
	if m.refFld == nil {
		c.Lost("ipSetData.memberToRefCount (state named by the property)")
	}
	m.cbAdd, _ = p.LookupObj(c04Pkg, "SelectorAndNamedPortIndex.OnMemberAdded").(*types.Var)
	m.cbRem, _ = p.LookupObj(c04Pkg, "SelectorAndNamedPortIndex.OnMemberRemoved").(*types.Var)
	if m.cbAdd == nil || m.cbRem == nil {
		c.Lost("SelectorAndNamedPortIndex.OnMemberAdded/OnMemberRemoved")
	}
	supT, _ := p.LookupObj(c04Pkg, "OverlapSuppressor").(*types.TypeName)
	idxT, _ := p.LookupObj(c04Pkg, "SelectorAndNamedPortIndex").(*types.TypeName)
	if supT == nil || idxT == nil {
		c.Lost("OverlapSuppressor / SelectorAndNamedPortIndex")
	}
	m.supT, m.idxT = supT, idxT
	ownerT := types.NewPointer(m.refFld.Pkg().Scope().Lookup("ipSetData").Type())
	st := idxT.Type().Underlying().(*types.Struct)
	for i := 0; i < st.NumFields(); i++ {
		f := st.Field(i)
		if types.Identical(f.Type(), supT.Type()) {
			m.supFld = f
		}
		if mt, ok := f.Type().Underlying().(*types.Map); ok && types.Identical(mt.Elem(), ownerT) {
			m.setsFld = f
		}
	}
	if m.supFld == nil || m.setsFld == nil {
		c.Lost("SelectorAndNamedPortIndex fields of type OverlapSuppressor (%v) / map[..]*ipSetData (%v)", m.supFld, m.setsFld)
	}
	m.funcs = c07FuncsWithBodies(p)
	// wrappers: functions that invoke OverlapSuppressor.Add / Remove on idx.suppressor
	for _, f := range m.funcs {
		for _, cs := range m.supCalls(f) {
			switch cs.Callee.Name() {
			case "Add":
				m.addW[f] = true
			case "Remove":
				m.remW[f] = true
			}
		}
	}
	if len(m.addW) == 0 || len(m.remW) == 0 {
		c.Lost("no function consulting OverlapSuppressor.Add (%d) / Remove (%d)", len(m.addW), len(m.remW))
	}
	return m
}

// supCalls: invoke-mode calls of OverlapSuppressor methods on the index's suppressor field.
func (m *c04Model) supCalls(f *ssa.Function) []CallSite {
	var out []CallSite
	for _, cs := range callsIn(f, false, func(*types.Func) bool { return true }) {
		if cs.Common().IsInvoke() && fieldVar(cs.Common().Value) == m.supFld {
			out = append(out, cs)
		}
	}
	return out
}

// ---------------------------------------------------------------- refcount --

type c04Inc struct {
	mu      *ssa.MapUpdate
	fn      *ssa.Function
	setArg  string // path of the set id passed to the add wrapper ("" if none found)
	addCall ssa.Instruction
}

// c04Arith: v is `m[k] op 1` with the given map/key paths; returns the lookup.
func c04Arith(v ssa.Value, op token.Token, mapPath, keyPath string) *ssa.Lookup {
	bo, ok := v.(*ssa.BinOp)
	if !ok || bo.Op != op {
		return nil
	}
	x, y := bo.X, bo.Y
	if op == token.ADD {
		if _, isC := x.(*ssa.Const); isC {
			x, y = y, x
		}
	}
	cv, ok := constOf(y)
	if !ok || cv.ExactString() != "1" {
		return nil
	}
	lk, ok := x.(*ssa.Lookup)
	if !ok || lk.CommaOk || path(lk.X) != mapPath || path(lk.Index) != keyPath {
		return nil
	}
	return lk
}

// c04ZeroTest builds an EdgePred: the edge establishes "count after the
// operation is `after`" — expressed on the old value (lk == after∓1) or on the
// new value (nv == after).
func c04EdgeTest(lk *ssa.Lookup, nv ssa.Value, oldEq, newEq string, want bool) EdgePred {
	isC := func(s string) func(ssa.Value) bool {
		return func(v ssa.Value) bool { cv, ok := constOf(v); return ok && cv.ExactString() == s }
	}
	return anyOf(
		eqCond(want, func(v ssa.Value) bool { return v == ssa.Value(lk) }, isC(oldEq)),
		eqCond(want, func(v ssa.Value) bool { return v == nv }, isC(newEq)),
	)
}

// c04TestIfs returns, for the Ifs in fn testing the edge condition, the
// successor block taken when the condition holds.
func c04TakenSuccs(fn *ssa.Function, pred EdgePred) []*ssa.BasicBlock {
	var out []*ssa.BasicBlock
	for _, b := range fn.Blocks {
		ifi, ok := b.Instrs[len(b.Instrs)-1].(*ssa.If)
		if !ok || len(b.Succs) != 2 {
			continue
		}
		for k, s := range b.Succs {
			cnd, pol := stripNot(ifi.Cond, k == 0)
			if pred(cnd, pol) {
				out = append(out, s)
			}
		}
	}
	return out
}

func c04Refcount(c *Ctx, m *c04Model) []c04Inc {
	p := m.p
	var incs []c04Inc
	wrapperCalls := func(fn *ssa.Function, ws map[*ssa.Function]bool, keyPath string) []CallSite {
		var out []CallSite
		for _, cs := range callsIn(fn, false, func(*types.Func) bool { return true }) {
			sf := calleeFn(cs.Common())
			if sf == nil || !ws[sf] {
				continue
			}
			args := cs.Common().Args
			if len(args) >= 3 && path(args[len(args)-1]) == keyPath {
				out = append(out, cs)
			}
		}
		return out
	}
	for _, f := range m.funcs {
		allInstrs(f, false, func(fn *ssa.Function, in ssa.Instruction) {
			site := p.Pos(in.Pos())
			pd := m.postdom(fn)
			switch x := in.(type) {
			case *ssa.MapUpdate:
				if fieldVar(x.Map) != m.refFld {
					return
				}
				mp, kp := path(x.Map), path(x.Key)
				if lk := c04Arith(x.Value, token.ADD, mp, kp); lk != nil {
					// INC: always stored once the count is read
					c.Check(instrPostDominates(pd, in, lk), "C04.refcount/inc-store/"+fnName(fn), site,
						"old+1 stored on every path after the count is read",
						fmt.Sprintf("in %s the incremented count of %s is not stored on every path after it is read (a contributing endpoint is not counted; a later decrement removes a member that is still selected)", fnName(fn), kp))
					// add wrapper exactly on the 0→1 edge
					first := c04EdgeTest(lk, x.Value, "0", "1", true)
					calls := wrapperCalls(fn, m.addW, kp)
					okGuard, okTotal := len(calls) > 0, false
					inc := c04Inc{mu: x, fn: fn}
					for _, cs := range calls {
						if !guardedCut(cs.Instr, first) {
							okGuard = false
						}
						for _, s := range c04TakenSuccs(fn, first) {
							if s == cs.Instr.Block() || pd[s][cs.Instr.Block()] {
								okTotal = true
							}
						}
						inc.setArg = path(cs.Common().Args[1])
						inc.addCall = cs.Instr
					}
					c.Check(okGuard && okTotal, "C04.refcount/inc-edge/"+fnName(fn), site,
						"add wrapper called exactly when the count goes 0→1",
						fmt.Sprintf("in %s the add wrapper for %s is not called exactly on the 0→1 edge of the count (calls found: %d, only-on-edge: %v, always-on-edge: %v): members are emitted twice or never", fnName(fn), kp, len(calls), okGuard, okTotal))
					incs = append(incs, inc)
					return
				}
				if lk := c04Arith(x.Value, token.SUB, mp, kp); lk != nil {
					zero := c04EdgeTest(lk, x.Value, "1", "0", true)
					nonzero := c04EdgeTest(lk, x.Value, "1", "0", false)
					okStore := guardedCut(in, nonzero)
					okTotal := false
					for _, s := range c04TakenSuccs(fn, nonzero) {
						if s == in.Block() || pd[s][in.Block()] {
							okTotal = true
						}
					}
					c.Check(okStore && okTotal, "C04.refcount/dec-store/"+fnName(fn), site,
						"old-1 stored exactly when it is non-zero",
						fmt.Sprintf("in %s the decremented count of %s is not stored exactly when non-zero (only-when-nonzero: %v, always-when-nonzero: %v): a zero entry stays behind (its next 0→1 add is lost) or a live count is dropped", fnName(fn), kp, okStore, okTotal))
					// zero edge: remove wrapper + delete
					var found []string
					okZero := true
					for _, s := range c04TakenSuccs(fn, zero) {
						hasCall, hasDel := false, false
						for _, cs := range wrapperCalls(fn, m.remW, kp) {
							if (s == cs.Instr.Block() || pd[s][cs.Instr.Block()]) && guardedCut(cs.Instr, zero) {
								hasCall = true
							}
						}
						allInstrs(fn, false, func(_ *ssa.Function, d ssa.Instruction) {
							if dc, ok := isBuiltinCall(d, "delete"); ok && path(dc.Args[0]) == mp && path(dc.Args[1]) == kp &&
								(s == d.Block() || pd[s][d.Block()]) {
								hasDel = true
							}
						})
						found = append(found, fmt.Sprintf("remove-wrapper:%v delete:%v", hasCall, hasDel))
						if !hasCall || !hasDel {
							okZero = false
						}
					}
					if len(found) == 0 {
						okZero = false
					}
					c.Check(okZero, "C04.refcount/dec-zero/"+fnName(fn), site,
						"on the →0 edge the remove wrapper is called and the entry deleted",
						fmt.Sprintf("in %s, when the count of %s drops to zero, the remove wrapper and delete() do not both happen on every path %v: the member stays in the emitted IP set, or a zero entry suppresses its re-add", fnName(fn), kp, found))
					return
				}
				c.Violate("C04.refcount/shape/"+fnName(fn), site, "write %s[%s] = %s in %s is neither old+1 nor old-1 of the same entry: reference counting is bypassed", mp, kp, path(x.Value), fnName(fn))
			default:
				dc, ok := isBuiltinCall(in, "delete")
				if !ok || fieldVar(dc.Args[0]) != m.refFld {
					return
				}
				mp, kp := path(dc.Args[0]), path(dc.Args[1])
				// must be on the →0 edge of a decrement of the same entry
				g := guardedCut(in, func(cond ssa.Value, pol bool) bool {
					bo, ok := cond.(*ssa.BinOp)
					if !ok {
						return false
					}
					for _, side := range []ssa.Value{bo.X, bo.Y} {
						if lk := c04Arith(side, token.SUB, mp, kp); lk != nil {
							return c04EdgeTest(lk, side, "1", "0", true)(cond, pol)
						}
						if lk, ok := side.(*ssa.Lookup); ok && path(lk.X) == mp && path(lk.Index) == kp {
							return c04EdgeTest(lk, nil, "1", "0", true)(cond, pol)
						}
					}
					return false
				})
				c.Check(g, "C04.refcount/delete/"+fnName(fn), site,
					"entry deleted only when its decremented count is zero",
					fmt.Sprintf("delete(%s, %s) in %s is not guarded by the decremented count being zero: other endpoints' references are forgotten", mp, kp, fnName(fn)))
			}
		})
	}
	// whole-map replacement only in literals
	for _, f := range m.funcs {
		for _, st := range storesToField(f, false, "", m.refFld.Name()) {
			fa := st.Addr.(*ssa.FieldAddr)
			if structField(fa.X.Type(), fa.Field) != m.refFld {
				continue
			}
			_, lit := fa.X.(*ssa.Alloc)
			_, mk := st.Val.(*ssa.MakeMap)
			c.Check(lit && mk, "C04.refcount/init/"+fnName(f), p.Pos(st.Pos()),
				"count map assigned only as an empty map in the ipSetData literal",
				"memberToRefCount is replaced in "+fnName(f)+" outside a fresh ipSetData literal")
		}
	}
	if len(incs) == 0 {
		c.Lost("no increment of memberToRefCount found")
	}
	return incs
}

// -------------------------------------------------------------- suppressor --

func c04Suppressor(c *Ctx, m *c04Model, supT *types.TypeName) {
	p := m.p
	// deleting an IP set clears its suppressor state
	nDel := 0
	for _, f := range m.funcs {
		allInstrs(f, false, func(fn *ssa.Function, in ssa.Instruction) {
			dc, ok := isBuiltinCall(in, "delete")
			if !ok || fieldVar(dc.Args[0]) != m.setsFld {
				return
			}
			nDel++
			kp := path(dc.Args[1])
			pd := m.postdom(fn)
			okc := false
			for _, cs := range m.supCalls(fn) {
				if cs.Callee.Name() == "DeleteIPSet" && len(cs.Common().Args) == 1 && path(cs.Common().Args[0]) == kp &&
					(instrDominates(cs.Instr, in) || instrPostDominates(pd, cs.Instr, in)) {
					okc = true
				}
			}
			c.Check(okc, "C04.suppressor/delete-ipset/"+fnName(fn), p.Pos(in.Pos()),
				"suppressor.DeleteIPSet(same id) on every path that deletes the IP set",
				fmt.Sprintf("%s deletes %s[%s] without suppressor.DeleteIPSet(%s) on the same path: a re-created IP set with the same id inherits stale tries and its members are wrongly suppressed", fnName(fn), m.setsFld.Name(), kp, kp))
		})
	}
	if nDel == 0 {
		c.Lost("no delete from %s", m.setsFld.Name())
	}

	// every implementation of OverlapSuppressor: map fields that are filled per
	// set must be deleted in DeleteIPSet
	supI := supT.Type().Underlying().(*types.Interface)
	var delM *types.Func
	for i := 0; i < supI.NumMethods(); i++ {
		if supI.Method(i).Name() == "DeleteIPSet" {
			delM = supI.Method(i)
		}
	}
	if delM == nil {
		c.Lost("OverlapSuppressor.DeleteIPSet")
	}
	for _, df := range p.implsOf(delM) {
		recv := df.Params[0].Type()
		st, ok := derefType(recv).Underlying().(*types.Struct)
		if !ok {
			continue
		}
		for i := 0; i < st.NumFields(); i++ {
			fld := st.Field(i)
			if _, isMap := fld.Type().Underlying().(*types.Map); !isMap {
				continue
			}
			// filled somewhere? (MapUpdate on a value loaded from this field, incl. via phi)
			filled := false
			for _, f := range m.funcs {
				allInstrs(f, false, func(_ *ssa.Function, in ssa.Instruction) {
					if mu, ok := in.(*ssa.MapUpdate); ok {
						for _, o := range origins(mu.Map, func(v ssa.Value) []ssa.Value {
							if u, ok := v.(*ssa.UnOp); ok && u.Op == token.MUL {
								if fa, ok := u.X.(*ssa.FieldAddr); ok && structField(fa.X.Type(), fa.Field) == fld {
									filled = true
								}
							}
							return nil
						}) {
							_ = o
						}
					}
				})
			}
			if !filled {
				continue
			}
			deleted := false
			allInstrs(df, false, func(_ *ssa.Function, in ssa.Instruction) {
				if dc, ok := isBuiltinCall(in, "delete"); ok && fieldVar(dc.Args[0]) == fld && len(df.Params) == 2 && dc.Args[1] == ssa.Value(df.Params[1]) {
					for _, r := range returnsOf(df) {
						if !instrDominates(in, r) {
							return
						}
					}
					deleted = true
				}
			})
			c.Check(deleted, fmt.Sprintf("C04.suppressor/tries/%s.%s", namedTypeName(recv), fld.Name()), p.Pos(df.Pos()),
				"per-set map entry deleted by DeleteIPSet",
				fmt.Sprintf("%s.DeleteIPSet does not delete the per-set entry of %s on every path: stale overlap state survives the IP set", namedTypeName(recv), fld.Name()))
		}
	}
}

// -------------------------------------------------------------- contribsym --

// c04Sources walks backwards from a member (or member-slice / map-of-slices)
// value to the calls that produced it, following element/range/lookup
// projections, phis, parameters (to every static caller's argument) and closure
// captures.  Leaves other than calls and nil constants are reported as "?".
func (m *c04Model) sources(v ssa.Value) map[string]bool {
	out := map[string]bool{}
	seen := map[ssa.Value]bool{}
	var walk func(v ssa.Value)
	walk = func(v ssa.Value) {
		if v == nil || seen[v] {
			return
		}
		seen[v] = true
		switch x := v.(type) {
		case *ssa.UnOp:
			if x.Op == token.MUL {
				if al, ok := x.X.(*ssa.Alloc); ok {
					n := 0
					for _, r := range *al.Referrers() {
						if st, ok := r.(*ssa.Store); ok && st.Addr == al {
							walk(st.Val)
							n++
						}
					}
					if n == 0 {
						out["?zero-local"] = true
					}
					return
				}
				if fv, ok := x.X.(*ssa.FreeVar); ok {
					// captured variable: follow the binding's stores in the parent
					fn := fv.Parent()
					idx := -1
					for i, f := range fn.FreeVars {
						if f == fv {
							idx = i
						}
					}
					found := false
					if fn.Parent() != nil && idx >= 0 {
						allInstrs(fn.Parent(), false, func(_ *ssa.Function, in ssa.Instruction) {
							if mc, ok := in.(*ssa.MakeClosure); ok && mc.Fn == fn && idx < len(mc.Bindings) {
								if al, ok := mc.Bindings[idx].(*ssa.Alloc); ok {
									for _, r := range *al.Referrers() {
										if st, ok := r.(*ssa.Store); ok && st.Addr == al {
											walk(st.Val)
											found = true
										}
									}
								}
							}
						})
					}
					if !found {
						out["?freevar:"+fv.Name()] = true
					}
					return
				}
				walk(x.X)
				return
			}
			out["?"+x.Op.String()] = true
		case *ssa.IndexAddr:
			walk(x.X)
		case *ssa.Index:
			walk(x.X)
		case *ssa.Lookup:
			walk(x.X)
		case *ssa.Extract:
			if nx, ok := x.Tuple.(*ssa.Next); ok {
				if rg, ok := nx.Iter.(*ssa.Range); ok && x.Index == 2 {
					walk(rg.X)
					return
				}
			}
			out["?extract"] = true
		case *ssa.Phi:
			for _, e := range x.Edges {
				walk(e)
			}
		case *ssa.Slice:
			walk(x.X)
		case *ssa.ChangeType:
			walk(x.X)
		case *ssa.MakeInterface:
			walk(x.X)
		case *ssa.Const:
			if x.Value != nil {
				out["?const"] = true
			}
		case *ssa.MakeMap:
			// contents come from the MapUpdates on it
			n := 0
			for _, r := range *x.Referrers() {
				if mu, ok := r.(*ssa.MapUpdate); ok && mu.Map == ssa.Value(x) {
					walk(mu.Value)
					n++
				}
			}
			if n == 0 {
				// possibly updated inside a closure through a captured variable: look
				// for MapUpdates whose map loads a cell this map was stored into.
				for _, r := range *x.Referrers() {
					if st, ok := r.(*ssa.Store); ok && st.Val == ssa.Value(x) {
						if al, ok := st.Addr.(*ssa.Alloc); ok {
							n += m.capturedMapUpdates(al, walk)
						}
					}
				}
			}
			if n == 0 {
				out["?empty-map"] = true
			}
		case *ssa.Parameter:
			fn := x.Parent()
			pi := -1
			for i, q := range fn.Params {
				if q == x {
					pi = i
				}
			}
			n := 0
			for _, f := range m.funcs {
				for _, cs := range callsIn(f, false, func(*types.Func) bool { return true }) {
					if calleeFn(cs.Common()) == fn && pi < len(cs.Common().Args) {
						walk(cs.Common().Args[pi])
						n++
					}
				}
			}
			if n == 0 {
				out["?param:"+x.Name()+"@"+fnName(fn)] = true
			}
		case *ssa.Call:
			if sf := calleeFn(x.Common()); sf != nil {
				out[fnName(sf)] = true
			} else {
				out["?dynamic-call"] = true
			}
		default:
			out[fmt.Sprintf("?%T", v)] = true
		}
	}
	walk(v)
	return out
}

// capturedMapUpdates: the map stored in cell `al` is captured by closures of
// al's function; follow MapUpdates made through the captured cell.
func (m *c04Model) capturedMapUpdates(al *ssa.Alloc, walk func(ssa.Value)) int {
	n := 0
	for _, r := range *al.Referrers() {
		mc, ok := r.(*ssa.MakeClosure)
		if !ok {
			continue
		}
		cf := mc.Fn.(*ssa.Function)
		for i, b := range mc.Bindings {
			if b != ssa.Value(al) || i >= len(cf.FreeVars) {
				continue
			}
			fv := cf.FreeVars[i]
			allInstrs(cf, false, func(_ *ssa.Function, in ssa.Instruction) {
				if mu, ok := in.(*ssa.MapUpdate); ok {
					if ld, ok := mu.Map.(*ssa.UnOp); ok && ld.Op == token.MUL && ld.X == ssa.Value(fv) {
						walk(mu.Value)
						n++
					}
				}
			})
		}
	}
	return n
}

func c04ContribSym(c *Ctx, m *c04Model, incs []c04Inc) {
	p := m.p
	calc := p.Func(c04Pkg, "SelectorAndNamedPortIndex.CalculateEndpointContribution")
	if calc == nil {
		c.Lost("SelectorAndNamedPortIndex.CalculateEndpointContribution")
	}
	recalc := p.Func(c04Pkg, "SelectorAndNamedPortIndex.RecalcCachedContributions")
	if recalc == nil {
		c.Lost("SelectorAndNamedPortIndex.RecalcCachedContributions")
	}
	calcName, recalcName := fnName(calc), fnName(recalc)
	render := func(s map[string]bool) string {
		var ks []string
		for k := range s {
			ks = append(ks, k)
		}
		sort.Strings(ks)
		return strings.Join(ks, ", ")
	}
	// (1) RecalcCachedContributions returns only CalculateEndpointContribution results
	var retSrc map[string]bool
	for _, r := range returnsOf(recalc) {
		s := m.sources(r.Results[0])
		if retSrc == nil {
			retSrc = s
		} else {
			for k := range s {
				retSrc[k] = true
			}
		}
	}
	okRecalc := len(retSrc) == 1 && retSrc[calcName]
	c.Check(okRecalc, "C04.contribsym/"+recalcName, p.Pos(recalc.Pos()),
		"cached contributions are recomputed by "+calcName,
		fmt.Sprintf("%s returns member lists produced by {%s} instead of only %s: decrements use different members than increments, so counts never return to zero (or hit zero early)", recalcName, render(retSrc), calcName))
	// (2) every refcount write's key
	n := 0
	for _, f := range m.funcs {
		allInstrs(f, false, func(fn *ssa.Function, in ssa.Instruction) {
			mu, ok := in.(*ssa.MapUpdate)
			if !ok || fieldVar(mu.Map) != m.refFld {
				return
			}
			n++
			src := m.sources(mu.Key)
			okSrc := len(src) > 0
			for k := range src {
				if k != calcName && k != recalcName {
					okSrc = false
				}
			}
			c.Check(okSrc, "C04.contribsym/"+fnName(fn), p.Pos(in.Pos()),
				"member key originates from {"+render(src)+"}",
				fmt.Sprintf("in %s the member whose count is written originates from {%s}, not only from %s/%s: increments and decrements are keyed differently", fnName(fn), render(src), calcName, recalcName))
		})
	}
	if n == 0 {
		c.Lost("no refcount writes")
	}

	// (cached) the collection RecalcCachedContributions ranges over
	var cachedFld *types.Var
	for _, cs := range callsIn(recalc, true, func(*types.Func) bool { return true }) {
		if calleeFn(cs.Common()) == calc {
			cachedFld, _ = p.rangedField(cs.Instr.Pos())
		}
	}
	if cachedFld == nil {
		c.Lost("the endpoint field %s ranges over around its call of %s", recalcName, calcName)
	}
	adders := map[*ssa.Function]bool{}
	for _, f := range m.funcs {
		for _, cs := range callsIn(f, false, func(fn *types.Func) bool { return fn.Name() == "Add" }) {
			if a := cs.Args(); len(a) == 2 && fieldVar(a[0]) == cachedFld {
				adders[f] = true
			}
		}
	}
	if len(adders) == 0 {
		c.Lost("no function adding to %s", cachedFld.Name())
	}
	for _, inc := range incs {
		ok := false
		for _, cs := range callsIn(inc.fn, false, func(*types.Func) bool { return true }) {
			sf := calleeFn(cs.Common())
			args := cs.Common().Args
			if sf == nil || !adders[sf] || len(args) != 2 || !instrDominates(cs.Instr, inc.mu) {
				continue
			}
			if inc.setArg == "" || path(args[1]) == inc.setArg {
				ok = true
			}
		}
		c.Check(ok, "C04.cached/"+fnName(inc.fn), p.Pos(inc.mu.Pos()),
			"increment dominated by recording the set id in "+cachedFld.Name(),
			fmt.Sprintf("in %s members are incremented without first recording the IP set id in the endpoint's %s: the endpoint's later update/deletion will not decrement them and the members stay in the IP set forever", fnName(inc.fn), cachedFld.Name()))
	}
}

// -------------------------------------------------------------- candidates --

// c04Candidates: the endpoint-label index and the parent-label index are two
// sources of candidates for one label restriction (an endpoint may satisfy it
// through its own label or through an inherited one).  The scan strategy that ONE
// index offers for a restriction may therefore only be adopted (stored in a
// variable, merged, returned, scanned) where every OTHER index has been shown to
// have nothing for the same restriction: on every path to the adoption an edge
// establishes  otherIndex.StrategyFor(same key, same restriction).EstimatedItemsToScan() <= 0.
func c04Candidates(c *Ctx, m *c04Model, idxT *types.TypeName) {
	p := m.p
	const lnvPkg = "felix/labelindex/labelnamevalueindex"
	ssT, _ := p.LookupExt(lnvPkg, "ScanStrategy").(*types.TypeName)
	if ssT == nil {
		c.Lost("%s.ScanStrategy", lnvPkg)
	}
	ssI, _ := ssT.Type().Underlying().(*types.Interface)
	if ssI == nil {
		c.Lost("%s.ScanStrategy is not an interface", lnvPkg)
	}
	has := map[string]bool{}
	for i := 0; i < ssI.NumMethods(); i++ {
		has[ssI.Method(i).Name()] = true
	}
	const estName, scanName = "EstimatedItemsToScan", "Scan"
	if !has[estName] || !has[scanName] {
		c.Lost("ScanStrategy.%s / ScanStrategy.%s", estName, scanName)
	}
	// candidate sources: the index fields of SelectorAndNamedPortIndex
	var srcs []*types.Var
	st := idxT.Type().Underlying().(*types.Struct)
	for i := 0; i < st.NumFields(); i++ {
		if qualTypeName(derefType(st.Field(i).Type())) == lnvPkg+".LabelNameValueIndex" {
			srcs = append(srcs, st.Field(i))
		}
	}
	if len(srcs) < 2 {
		c.Lost("SelectorAndNamedPortIndex has %d fields of type *LabelNameValueIndex (expected the endpoint and the parent index)", len(srcs))
	}
	isSrc := func(v *types.Var) bool {
		for _, s := range srcs {
			if s == v {
				return true
			}
		}
		return false
	}
	type stratCall struct {
		call *ssa.Call
		fld  *types.Var
	}
	strategyCalls := func(fn *ssa.Function) []stratCall {
		var out []stratCall
		for _, cs := range callsIn(fn, false, func(f *types.Func) bool { return isFunc(f, lnvPkg, "LabelNameValueIndex.StrategyFor") }) {
			call, ok := cs.Instr.(*ssa.Call)
			if !ok || len(cs.Common().Args) != 3 {
				continue
			}
			if fv := fieldVar(cs.Common().Args[0]); fv != nil && isSrc(fv) {
				out = append(out, stratCall{call, fv})
			}
		}
		return out
	}
	n := 0
	for _, fn := range m.funcs {
		calls := strategyCalls(fn)
		// every value  <StrategyFor result>.EstimatedItemsToScan()  in fn
		var ests []ssa.Value
		allInstrs(fn, false, func(_ *ssa.Function, in ssa.Instruction) {
			if ec, ok := in.(*ssa.Call); ok && ec.Common().IsInvoke() && ec.Common().Method.Name() == estName {
				for _, oc := range calls {
					if ssa.Value(oc.call) == ec.Common().Value {
						ests = append(ests, ec)
					}
				}
			}
		})
		for _, sc := range calls {
			// adoption sites of this strategy value
			var sites []ssa.Instruction
			for _, r := range *sc.call.Referrers() {
				switch u := r.(type) {
				case *ssa.Store:
					if u.Val == ssa.Value(sc.call) {
						sites = append(sites, u)
					}
				case *ssa.MapUpdate:
					if u.Value == ssa.Value(sc.call) {
						sites = append(sites, u)
					}
				case *ssa.Return:
					sites = append(sites, u)
				case *ssa.MakeClosure:
					sites = append(sites, u)
				case *ssa.Phi:
					for i, e := range u.Edges {
						if e == ssa.Value(sc.call) {
							pb := u.Block().Preds[i]
							sites = append(sites, pb.Instrs[len(pb.Instrs)-1])
						}
					}
				case ssa.CallInstruction:
					if cc := u.Common(); cc.IsInvoke() && cc.Value == ssa.Value(sc.call) && cc.Method.Name() == scanName {
						sites = append(sites, u)
					}
				}
			}
			if len(sites) == 0 {
				continue
			}
			n++
			var bad []string
			for _, other := range srcs {
				if other == sc.fld {
					continue
				}
				// the estimates of the other index's strategy for the same restriction
				need := map[ssa.Value]bool{}
				for _, e := range ests {
					ec := e.(*ssa.Call)
					for _, oc := range calls {
						if oc.fld == other && ssa.Value(oc.call) == ec.Common().Value &&
							oc.call.Common().Args[1] == sc.call.Common().Args[1] && oc.call.Common().Args[2] == sc.call.Common().Args[2] {
							need[e] = true
						}
					}
				}
				for _, s := range sites {
					if !c04ZeroOnEveryPath(s, ests, need) {
						bad = append(bad, fmt.Sprintf("adoption at %s can be reached without %s.StrategyFor(same label, same restriction).%s() having been tested to be zero", p.Pos(s.Pos()), other.Name(), estName))
					}
				}
			}
			c.Check(len(bad) == 0, fmt.Sprintf("C04.candidates/%s/adopt(%s)", fnName(topFn(fn)), sc.fld.Name()), p.Pos(sc.call.Pos()),
				fmt.Sprintf("%s's strategy for a restriction is adopted (%d site(s)) only where every other index has nothing for that restriction", sc.fld.Name(), len(sites)),
				fmt.Sprintf("in %s the scan strategy that %s offers for a label restriction becomes the candidate scan although another index may also hold items for the same restriction: %s. Endpoints/network sets that satisfy the restriction only through the other index (own vs. inherited label) are never evaluated, so their addresses are missing from a newly created IP set",
					fnName(topFn(fn)), sc.fld.Name(), strings.Join(bad, "; ")))
		}
	}
	if n == 0 {
		c.Lost("no adoption of a LabelNameValueIndex.StrategyFor result found")
	}
}

// c04ZeroOnEveryPath explores the CFG of target's function from its entry,
// tracking for every estimate value in ests (a non-negative count) whether the
// branch conditions passed so far leave it possibly zero and/or possibly positive
// (comparisons with integer constants; contradictory edges are infeasible).  It
// reports whether on every feasible path that reaches target's block some value
// in need is known to be zero.
func c04ZeroOnEveryPath(target ssa.Instruction, ests []ssa.Value, need map[ssa.Value]bool) bool {
	const mayZero, mayPos = 1, 2
	fn := target.Parent()
	if fn == nil || len(fn.Blocks) == 0 {
		return false
	}
	idx := map[ssa.Value]int{}
	for i, e := range ests {
		idx[e] = i
	}
	type node struct {
		b  *ssa.BasicBlock
		st string
	}
	start := make([]byte, len(ests))
	for i := range start {
		start[i] = mayZero | mayPos
	}
	seen := map[node]bool{}
	stack := []node{{fn.Blocks[0], string(start)}}
	// sat: which of {zero, positive} can satisfy  E op k
	sat := func(op token.Token, k int64) byte {
		var r byte
		z, pos := false, false
		switch op {
		case token.EQL:
			z, pos = k == 0, k > 0
		case token.NEQ:
			z, pos = k != 0, true
		case token.LSS:
			z, pos = 0 < k, k > 1
		case token.LEQ:
			z, pos = 0 <= k, k >= 1
		case token.GTR:
			z, pos = 0 > k, true
		case token.GEQ:
			z, pos = 0 >= k, true
		default:
			return mayZero | mayPos
		}
		if z {
			r |= mayZero
		}
		if pos {
			r |= mayPos
		}
		return r
	}
	for len(stack) > 0 {
		n := stack[len(stack)-1]
		stack = stack[:len(stack)-1]
		st := []byte(n.st)
		// an estimate (re)computed in this block is unconstrained again
		for _, in := range n.b.Instrs {
			if v, ok := in.(ssa.Value); ok {
				if i, ok := idx[v]; ok {
					st[i] = mayZero | mayPos
				}
			}
		}
		n.st = string(st)
		if seen[n] {
			continue
		}
		seen[n] = true
		if n.b == target.Block() {
			ok := false
			for e := range need {
				if st[idx[e]] == mayZero {
					ok = true
				}
			}
			if !ok {
				return false
			}
			continue
		}
		if isPanicBlock(n.b) {
			continue
		}
		ifi, isIf := n.b.Instrs[len(n.b.Instrs)-1].(*ssa.If)
		if !isIf || len(n.b.Succs) != 2 || n.b.Succs[0] == n.b.Succs[1] {
			for _, s := range n.b.Succs {
				stack = append(stack, node{s, n.st})
			}
			continue
		}
		for k, s := range n.b.Succs {
			cond, pol := stripNot(ifi.Cond, k == 0)
			ns := []byte(n.st)
			feasible := true
			if bo, ok := cond.(*ssa.BinOp); ok {
				op, e, kv := bo.Op, bo.X, bo.Y
				if _, isC := constOf(e); isC {
					e, kv = kv, e
					switch op {
					case token.LSS:
						op = token.GTR
					case token.LEQ:
						op = token.GEQ
					case token.GTR:
						op = token.LSS
					case token.GEQ:
						op = token.LEQ
					}
				}
				if i, isE := idx[e]; isE {
					if cv, isC := constOf(kv); isC && cv.Kind() == constant.Int {
						if kk, exact := constant.Int64Val(cv); exact {
							if !pol {
								switch op {
								case token.EQL:
									op = token.NEQ
								case token.NEQ:
									op = token.EQL
								case token.LSS:
									op = token.GEQ
								case token.LEQ:
									op = token.GTR
								case token.GTR:
									op = token.LEQ
								case token.GEQ:
									op = token.LSS
								}
							}
							ns[i] &= sat(op, kk)
							if ns[i] == 0 {
								feasible = false
							}
						}
					}
				}
			}
			if feasible {
				stack = append(stack, node{s, string(ns)})
			}
		}
	}
	return true
}

// -------------------------------------------------------------- trieprefix --

// c04TriePrefix: the overlap suppressor decides what to emit from ip.CIDRTrie
// queries about a CIDR.  Two CIDRs with the same base address but different
// prefix lengths (10.0.0.0/16 vs 10.0.0.0/24) are different queries, so
//
//	(dep)      every trie function reachable from the suppressor that takes a CIDR
//	           must let a branch condition or result depend on the CIDR's prefix
//	           length - not only on projections that hide it (Addr(), Version()) -
//	           either itself or through the trie function it hands the CIDR to;
//	(positive) a boolean containment answer `true` ("some entry covers the CIDR")
//	           must, on every path, be preceded by a test that depends on the
//	           queried CIDR's prefix length.
func c04TriePrefix(c *Ctx, supT *types.TypeName) {
	const ipPkg = "felix/ip"
	p := c.Load(ipPkg, c04Pkg)
	ipk := p.Pkg(ipPkg)
	if ipk == nil || p.SSAPkg(ipPkg) == nil {
		c.Lost("package %s", ipPkg)
	}
	cidrT, _ := p.LookupObj(ipPkg, "CIDR").(*types.TypeName)
	trieT, _ := p.LookupObj(ipPkg, "CIDRTrie").(*types.TypeName)
	if cidrT == nil || trieT == nil {
		c.Lost("ip.CIDR / ip.CIDRTrie")
	}
	cidrI, _ := cidrT.Type().Underlying().(*types.Interface)
	if cidrI == nil {
		c.Lost("ip.CIDR is not an interface")
	}
	// fields holding the prefix length: those read by the implementations of CIDR.Prefix
	var prefixM *types.Func
	for i := 0; i < cidrI.NumMethods(); i++ {
		if cidrI.Method(i).Name() == "Prefix" {
			prefixM = cidrI.Method(i)
		}
	}
	if prefixM == nil {
		c.Lost("ip.CIDR.Prefix")
	}
	prefixFld := map[*types.Var]bool{}
	readsOf := func(fn *ssa.Function, into map[*types.Var]bool) {
		for f := range p.closure(fn) {
			if f.Pkg != p.SSAPkg(ipPkg) {
				continue
			}
			allInstrs(f, true, func(_ *ssa.Function, in ssa.Instruction) {
				switch x := in.(type) {
				case *ssa.Field:
					if v := structField(x.X.Type(), x.Field); v != nil {
						into[v] = true
					}
				case *ssa.FieldAddr:
					if v := structField(x.X.Type(), x.Field); v != nil {
						into[v] = true
					}
				}
			})
		}
	}
	impls := p.implsOf(prefixM)
	if len(impls) < 2 {
		c.Lost("implementations of ip.CIDR.Prefix (found %d)", len(impls))
	}
	for _, f := range impls {
		readsOf(f, prefixFld)
	}
	if len(prefixFld) == 0 {
		c.Lost("no field read by the implementations of ip.CIDR.Prefix")
	}
	// methods of CIDR none of whose implementations touches a prefix field
	blind := map[string]bool{}
	for i := 0; i < cidrI.NumMethods(); i++ {
		mth := cidrI.Method(i)
		is := p.implsOf(mth)
		ok := len(is) >= len(impls)
		for _, f := range is {
			rd := map[*types.Var]bool{}
			readsOf(f, rd)
			for v := range rd {
				if prefixFld[v] {
					ok = false
				}
			}
		}
		if ok {
			blind[mth.Name()] = true
		}
	}
	if !blind["Addr"] || blind["Prefix"] {
		c.Lost("classification of ip.CIDR methods by whether they expose the prefix length (Addr blind: %v, Prefix blind: %v)", blind["Addr"], blind["Prefix"])
	}
	isCIDR := func(t types.Type) bool { return types.Identical(t, cidrT.Type()) }

	// the trie functions the suppressor reaches
	supI := supT.Type().Underlying().(*types.Interface)
	var roots []*ssa.Function
	lsup, _ := p.LookupObj(c04Pkg, "OverlapSuppressor").(*types.TypeName)
	if lsup == nil {
		c.Lost("OverlapSuppressor")
	}
	_ = supI
	li := lsup.Type().Underlying().(*types.Interface)
	for i := 0; i < li.NumMethods(); i++ {
		roots = append(roots, p.implsOf(li.Method(i))...)
	}
	if len(roots) == 0 {
		c.Lost("implementations of OverlapSuppressor")
	}
	var family []*ssa.Function
	paramsOf := map[*ssa.Function][]*ssa.Parameter{}
	for f := range p.closure(roots...) {
		if f.Pkg != p.SSAPkg(ipPkg) || f.Blocks == nil || f.Parent() != nil {
			continue
		}
		onTrie := false
		for _, pa := range f.Params {
			if n := namedTypeName(derefType(pa.Type())); (n == "CIDRTrie" || n == "CIDRNode") && qualTypeName(derefType(pa.Type())) == ipPkg+"."+n {
				onTrie = true
			}
		}
		if !onTrie {
			continue
		}
		for _, pa := range f.Params {
			if isCIDR(pa.Type()) {
				paramsOf[f] = append(paramsOf[f], pa)
			}
		}
		if len(paramsOf[f]) > 0 {
			family = append(family, f)
		}
	}
	sort.Slice(family, func(i, j int) bool { return family[i].Pos() < family[j].Pos() })
	if len(family) < 4 {
		c.Lost("only %d ip.CIDRTrie/CIDRNode functions with a CIDR parameter are reachable from the overlap suppressor", len(family))
	}
	inFamily := map[*ssa.Function]bool{}
	for _, f := range family {
		inFamily[f] = true
	}

	// slice: does v depend on the prefix length of parameter P?  grounded: through a
	// use that exposes it; delegs: only by handing P to these family functions.
	type dkey struct {
		f *ssa.Function
		i int
	}
	type sliceRes struct {
		grounded bool
		delegs   map[dkey]bool
	}
	var slice func(v ssa.Value, P *ssa.Parameter, seen map[ssa.Value]bool, res *sliceRes)
	slice = func(v ssa.Value, P *ssa.Parameter, seen map[ssa.Value]bool, res *sliceRes) {
		if v == nil || seen[v] || res.grounded {
			return
		}
		seen[v] = true
		if v == ssa.Value(P) {
			res.grounded = true
			return
		}
		in, ok := v.(ssa.Instruction)
		if !ok {
			return
		}
		if call, ok := v.(*ssa.Call); ok {
			cc := call.Common()
			if cc.IsInvoke() && cc.Value == ssa.Value(P) {
				if !blind[cc.Method.Name()] {
					res.grounded = true
					return
				}
				for _, a := range cc.Args {
					slice(a, P, seen, res)
				}
				return
			}
			if sf := cc.StaticCallee(); sf != nil && inFamily[sf] {
				for i, a := range cc.Args {
					if a == ssa.Value(P) && i < len(sf.Params) && isCIDR(sf.Params[i].Type()) {
						res.delegs[dkey{sf, i}] = true
					} else {
						slice(a, P, seen, res)
					}
				}
				return
			}
		}
		if ld, ok := v.(*ssa.UnOp); ok && ld.Op == token.MUL {
			if al, ok := ld.X.(*ssa.Alloc); ok {
				for _, r := range *al.Referrers() {
					if st, ok := r.(*ssa.Store); ok && st.Addr == ssa.Value(al) {
						slice(st.Val, P, seen, res)
					}
				}
				return
			}
		}
		for _, op := range in.Operands(nil) {
			if op != nil && *op != nil {
				slice(*op, P, seen, res)
			}
		}
	}
	sliceOf := func(v ssa.Value, P *ssa.Parameter) *sliceRes {
		r := &sliceRes{delegs: map[dkey]bool{}}
		slice(v, P, map[ssa.Value]bool{}, r)
		return r
	}
	// (dep) least fixpoint over the family
	type fnSum struct {
		grounded bool
		delegs   map[dkey]bool
	}
	sum := map[dkey]*fnSum{}
	pidx := func(f *ssa.Function, P *ssa.Parameter) int {
		for i, q := range f.Params {
			if q == P {
				return i
			}
		}
		return -1
	}
	for _, f := range family {
		for _, P := range paramsOf[f] {
			s := &fnSum{delegs: map[dkey]bool{}}
			add := func(r *sliceRes) {
				s.grounded = s.grounded || r.grounded
				for d := range r.delegs {
					s.delegs[d] = true
				}
			}
			for _, b := range f.Blocks {
				for _, in := range b.Instrs {
					switch x := in.(type) {
					case *ssa.If:
						add(sliceOf(x.Cond, P))
					case *ssa.Return:
						for _, rv := range x.Results {
							add(sliceOf(rv, P))
						}
					case ssa.CallInstruction:
						// handing the CIDR to another trie function, whatever happens to the result
						if sf := x.Common().StaticCallee(); sf != nil && inFamily[sf] && !x.Common().IsInvoke() {
							for i, a := range x.Common().Args {
								if a == ssa.Value(P) && i < len(sf.Params) && isCIDR(sf.Params[i].Type()) {
									s.delegs[dkey{sf, i}] = true
								}
							}
						}
					}
				}
			}
			sum[dkey{f, pidx(f, P)}] = s
		}
	}
	dep := map[dkey]bool{}
	for changed := true; changed; {
		changed = false
		for k, s := range sum {
			if dep[k] {
				continue
			}
			ok := s.grounded
			for d := range s.delegs {
				if d != k && dep[d] {
					ok = true
				}
			}
			if ok {
				dep[k] = true
				changed = true
			}
		}
	}
	depends := func(v ssa.Value, P *ssa.Parameter) bool {
		r := sliceOf(v, P)
		if r.grounded {
			return true
		}
		for d := range r.delegs {
			if dep[d] {
				return true
			}
		}
		return false
	}
	for _, f := range family {
		for _, P := range paramsOf[f] {
			k := dkey{f, pidx(f, P)}
			var via []string
			for d := range sum[k].delegs {
				via = append(via, fnName(d.f))
			}
			sort.Strings(via)
			c.Check(dep[k], fmt.Sprintf("C04.trieprefix/dep/%s(%s)", fnName(f), P.Name()), p.Pos(f.Pos()),
				fmt.Sprintf("branches/results depend on the prefix length of %s (directly: %v; via %v)", P.Name(), sum[k].grounded, via),
				fmt.Sprintf("%s uses its CIDR argument %s only through projections that hide the prefix length (%s) and through calls %v that do the same: it cannot tell 10.0.0.0/16 from 10.0.0.0/24, so the overlap suppressor masks, withdraws or re-advertises the wrong members",
					fnName(f), P.Name(), strings.Join(sortedKeys(blind), "(), ")+"()", via))
		}
	}
	// (positive) boolean containment answers
	nPos := 0
	for _, f := range family {
		res := f.Signature.Results()
		if res.Len() != 1 || !types.Identical(res.At(0).Type().Underlying(), types.Typ[types.Bool]) {
			continue
		}
		for _, P := range paramsOf[f] {
			nPos++
			var bad []string
			var leaf func(v ssa.Value, site ssa.Instruction, seen map[ssa.Value]bool)
			leaf = func(v ssa.Value, site ssa.Instruction, seen map[ssa.Value]bool) {
				if seen[v] {
					return
				}
				seen[v] = true
				if phi, ok := v.(*ssa.Phi); ok {
					for i, e := range phi.Edges {
						pb := phi.Block().Preds[i]
						leaf(e, pb.Instrs[len(pb.Instrs)-1], seen)
					}
					return
				}
				what := "a computed answer"
				if call, ok := v.(*ssa.Call); ok {
					if sf := call.Common().StaticCallee(); sf != nil && inFamily[sf] && sf.Signature.Results().Len() == 1 &&
						types.Identical(sf.Signature.Results().At(0).Type().Underlying(), types.Typ[types.Bool]) {
						for i, a := range call.Common().Args {
							if a == ssa.Value(P) && i < len(sf.Params) && isCIDR(sf.Params[i].Type()) {
								return // the callee answers for the same CIDR and has its own obligation
							}
						}
					}
				}
				if cv, ok := constOf(v); ok {
					if cv.Kind() == constant.Bool && !constant.BoolVal(cv) {
						return
					}
					what = "the answer true"
				} else if depends(v, P) {
					return
				}
				if ifi, ok := site.(*ssa.If); ok && depends(ifi.Cond, P) {
					return
				}
				if !guardedCut(site, func(cond ssa.Value, _ bool) bool { return depends(cond, P) }) {
					bad = append(bad, fmt.Sprintf("%s at %s", what, p.Pos(site.Pos())))
				}
			}
			for _, r := range returnsOf(f) {
				leaf(r.Results[0], r, map[ssa.Value]bool{})
			}
			c.Check(len(bad) == 0, fmt.Sprintf("C04.trieprefix/positive/%s(%s)", fnName(f), P.Name()), p.Pos(f.Pos()),
				"every positive answer is preceded by a test that depends on the queried CIDR's prefix length",
				fmt.Sprintf("%s can give %s without any test that depends on the prefix length of %s: an entry NARROWER than the queried CIDR that merely contains its base address counts as covering it, so memberDeduplicator.Add suppresses a broader CIDR (addresses missing from the IP set) and Remove swallows its withdrawal",
					fnName(f), strings.Join(bad, ", "), P.Name()))
		}
	}
	if nPos == 0 {
		c.Lost("no boolean CIDR query of ip.CIDRTrie is reachable from the overlap suppressor")
	}
}
