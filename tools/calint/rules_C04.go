package main

import (
	"fmt"
	"go/token"
	"go/types"
	"sort"
	"strings"

	"golang.org/x/tools/go/ssa"
)

const c04Pkg = "felix/labelindex"

func init() {
	register(&Property{
		ID:        "C04",
		Title:     "IP set contents equal the addresses selected by the rule",
		Technique: "static analysis: shape + cut-set guard analysis of every reference-count write, who-may-call of the raw member callbacks against the overlap suppressor's results, backward value slices of member keys (go/ssa over felix/labelindex)",
		DesignRef: "DESIGN.md §3 C04",
		Explanation: "Decides the reference-counting and overlap-suppression discipline of SelectorAndNamedPortIndex: (refcount) every write to ipSetData.memberToRefCount is `old+1` executed whenever the count is read, with the add wrapper called exactly on the 0→1 edge, " +
			"or `old-1` stored exactly when the result is non-zero and otherwise the remove wrapper plus delete of the entry; no other write shape exists; " +
			"(suppressor) OnMemberAdded/OnMemberRemoved are invoked only inside the wrappers that consult OverlapSuppressor.Add/Remove, with the polarity dictated by the suppressor's results (primary result non-nil → same direction, secondary slice → opposite direction, non-CIDR members pass through); " +
			"deleting an IP set also deletes its suppressor state, and memberDeduplicator.DeleteIPSet drops every per-set trie map that getTrie fills; " +
			"(contribsym) the members that are incremented and those that are decremented are both results of CalculateEndpointContribution (directly or via RecalcCachedContributions); " +
			"(cached) every increment site first records the IP set id in the endpoint's cached matching-set collection that RecalcCachedContributions later ranges over for the decrement.",
		NotDecided: "Membership arithmetic over histories (that counts equal the number of contributing endpoints); correctness of ip.CIDRTrie Covers/ClosestDescendants and hence that emitted members cover exactly the same addresses; candidate pruning by iterEndpointCandidates/AllPotentialMatches (see C07.restrict for the per-leaf half); that the set id passed to the wrappers is the id of the ipSetData whose count changed.",
		Assumptions: []string{
			"go/types + go/ssa (x/tools v0.50.0) model of the current source, CGO_ENABLED=0 build",
			"Go map semantics for memberToRefCount (missing key reads 0)",
			"logrus Panic*/Fatal* do not return",
		},
		Run: runC04,
		Fixtures: []Fixture{
			{Name: "member added event on every increment (UpdateIPSet)", File: "felix/labelindex/named_port_index.go",
				Old: "\t\t\tif refCount == 0 {\n\t\t\t\tif log.GetLevel() >= log.DebugLevel {", New: "\t\t\tif refCount >= 0 {\n\t\t\t\tif log.GetLevel() >= log.DebugLevel {", Expect: "C04.refcount/inc-edge/"},
			{Name: "member added when count reaches 2", File: "felix/labelindex/named_port_index.go",
				Old: "\t\t\t\tif newRefCount == 1 {", New: "\t\t\t\tif newRefCount == 2 {", Expect: "C04.refcount/inc-edge/"},
			{Name: "increment only stored for new members", File: "felix/labelindex/named_port_index.go",
				Old: "\t\t\t\t\tidx.onMemberAdded(ipSetID, newMember)\n\t\t\t\t}\n\t\t\t\tipSetData.memberToRefCount[newMember] = newRefCount\n", New: "\t\t\t\t\tidx.onMemberAdded(ipSetID, newMember)\n\t\t\t\t\tipSetData.memberToRefCount[newMember] = newRefCount\n\t\t\t\t}\n", Expect: "C04.refcount/inc-store/"},
			{Name: "zero count left in the map on endpoint delete", File: "felix/labelindex/named_port_index.go",
				Old: "\t\t\t\tidx.onMemberRemoved(ipSetID, oldMember)\n\t\t\t\tdelete(ipSetData.memberToRefCount, oldMember)\n\t\t\t} else {\n\t\t\t\tipSetData.memberToRefCount[oldMember] = newRefCount\n\t\t\t}\n\t\t}\n\t}\n\n\t// Record the new endpoint data.",
				New: "\t\t\t\tidx.onMemberRemoved(ipSetID, oldMember)\n\t\t\t}\n\t\t\tipSetData.memberToRefCount[oldMember] = newRefCount\n\t\t}\n\t}\n\n\t// Record the new endpoint data.", Expect: "C04.refcount/dec-store/SelectorAndNamedPortIndex.DeleteEndpoint"},
			{Name: "member removed without event when count hits zero", File: "felix/labelindex/named_port_index.go",
				Old: "\t\t\t\tlog.Debugf(\"Member removed: %s, %v\", ipSetID, oldMember)\n\t\t\t\tidx.onMemberRemoved(ipSetID, oldMember)\n", New: "\t\t\t\tlog.Debugf(\"Member removed: %s, %v\", ipSetID, oldMember)\n", Expect: "C04.refcount/dec-zero/"},
			{Name: "count overwritten instead of incremented", File: "felix/labelindex/named_port_index.go",
				Old: "\t\t\tnewIPSetData.memberToRefCount[member] = refCount + 1\n", New: "\t\t\tnewIPSetData.memberToRefCount[member] = 1\n", Expect: "C04.refcount/shape/"},
			{Name: "raw callback bypasses overlap suppression", File: "felix/labelindex/named_port_index.go",
				Old: "\t\t\t\t\tidx.onMemberAdded(ipSetID, newMember)\n", New: "\t\t\t\t\tidx.OnMemberAdded(ipSetID, newMember)\n", Expect: "C04.suppressor/raw/"},
			{Name: "suppressed (covered) CIDR still emitted", File: "felix/labelindex/named_port_index.go",
				Old: "\t\tif add != nil {\n\t\t\tidx.OnMemberAdded(ipSetID, cidrMember)\n\t\t}", New: "\t\tif add == nil {\n\t\t\tidx.OnMemberAdded(ipSetID, cidrMember)\n\t\t}", Expect: "C04.suppressor/raw/"},
			{Name: "previously masked CIDRs removed instead of re-added", File: "felix/labelindex/named_port_index.go",
				Old: "\t\t\tidx.OnMemberAdded(ipSetID, ipsetmember.MakeCIDROrIPOnly(a))", New: "\t\t\tidx.OnMemberRemoved(ipSetID, ipsetmember.MakeCIDROrIPOnly(a))", Expect: "C04.suppressor/raw/"},
			{Name: "IP set deleted but suppressor state kept", File: "felix/labelindex/named_port_index.go",
				Old: "\tidx.suppressor.DeleteIPSet(setID)\n", New: "", Expect: "C04.suppressor/delete-ipset"},
			{Name: "v6 tries leak on IP set deletion", File: "felix/labelindex/named_port_index.go",
				Old: "\tdelete(t.v4tries, set)\n\tdelete(t.v6tries, set)\n", New: "\tdelete(t.v4tries, set)\n", Expect: "C04.suppressor/tries/"},
			{Name: "decrement members computed by a different function", File: "felix/labelindex/named_port_index.go",
				Old: "\t\tcontrib[ipSetID] = idx.CalculateEndpointContribution(epData, ipSetData)\n", New: "\t\tvar ms []ipsetmember.IPSetMember\n\t\tfor _, a := range epData.nets {\n\t\t\tms = append(ms, ipsetmember.MakeCIDROrIPOnly(a))\n\t\t}\n\t\t_ = ipSetData\n\t\tcontrib[ipSetID] = ms\n", Expect: "C04.contribsym/"},
			{Name: "match not cached, so never decremented", File: "felix/labelindex/named_port_index.go",
				Old: "\t\tepData.AddMatchingIPSetID(ipSetID)\n\t\tfor _, member := range contrib {", New: "\t\tfor _, member := range contrib {", Expect: "C04.cached/"},
		},
	})
}

type c04Model struct {
	c       *Ctx
	p       *Prog
	funcs   []*ssa.Function
	refFld  *types.Var // ipSetData.memberToRefCount
	cbAdd   *types.Var
	cbRem   *types.Var
	supFld  *types.Var // SelectorAndNamedPortIndex.suppressor
	setsFld *types.Var // SelectorAndNamedPortIndex.ipSetDataByID (derived)
	pd      map[*ssa.Function]map[*ssa.BasicBlock]map[*ssa.BasicBlock]bool
	addW    map[*ssa.Function]bool // wrappers consulting suppressor.Add
	remW    map[*ssa.Function]bool
}

func (m *c04Model) postdom(fn *ssa.Function) map[*ssa.BasicBlock]map[*ssa.BasicBlock]bool {
	if pd, ok := m.pd[fn]; ok {
		return pd
	}
	pd := postDominators(fn)
	m.pd[fn] = pd
	return pd
}

func runC04(c *Ctx) {
	p := c.Load(c04Pkg)
	c.Rule("C04.refcount", "E-GUARD/E-PAIR", "every write to memberToRefCount is old+1 (always stored; add wrapper exactly on 0→1) or old-1 (stored iff non-zero; else remove wrapper + delete)", 11)
	c.Rule("C04.suppressor", "E-OWN/E-GUARD", "raw OnMemberAdded/OnMemberRemoved only inside the suppressor wrappers with polarity dictated by OverlapSuppressor results; IP set deletion clears suppressor state and all trie maps", 9)
	c.Rule("C04.contribsym", "E-FLOW", "keys of increments and decrements both originate from CalculateEndpointContribution", 5)
	c.Rule("C04.cached", "E-ORDER", "every increment site is dominated by recording the IP set id in the endpoint's cached matching-set collection", 2)

	m := &c04Model{c: c, p: p, pd: map[*ssa.Function]map[*ssa.BasicBlock]map[*ssa.BasicBlock]bool{}, addW: map[*ssa.Function]bool{}, remW: map[*ssa.Function]bool{}}
	m.refFld, _ = p.LookupObj(c04Pkg, "ipSetData.memberToRefCount").(*types.Var)
	if m.refFld == nil {
		c.Lost("ipSetData.memberToRefCount (state named by the property)")
	}
	m.cbAdd, _ = p.LookupObj(c04Pkg, "SelectorAndNamedPortIndex.OnMemberAdded").(*types.Var)
	m.cbRem, _ = p.LookupObj(c04Pkg, "SelectorAndNamedPortIndex.OnMemberRemoved").(*types.Var)
	if m.cbAdd == nil || m.cbRem == nil {
		c.Lost("SelectorAndNamedPortIndex.OnMemberAdded/OnMemberRemoved")
	}
	supT, _ := p.LookupObj(c04Pkg, "OverlapSuppressor").(*types.TypeName)
	idxT, _ := p.LookupObj(c04Pkg, "SelectorAndNamedPortIndex").(*types.TypeName)
	if supT == nil || idxT == nil {
		c.Lost("OverlapSuppressor / SelectorAndNamedPortIndex")
	}
	ownerT := types.NewPointer(m.refFld.Pkg().Scope().Lookup("ipSetData").Type())
	st := idxT.Type().Underlying().(*types.Struct)
	for i := 0; i < st.NumFields(); i++ {
		f := st.Field(i)
		if types.Identical(f.Type(), supT.Type()) {
			m.supFld = f
		}
		if mt, ok := f.Type().Underlying().(*types.Map); ok && types.Identical(mt.Elem(), ownerT) {
			m.setsFld = f
		}
	}
	if m.supFld == nil || m.setsFld == nil {
		c.Lost("SelectorAndNamedPortIndex fields of type OverlapSuppressor (%v) / map[..]*ipSetData (%v)", m.supFld, m.setsFld)
	}
	m.funcs = c07FuncsWithBodies(p)
	// wrappers: functions that invoke OverlapSuppressor.Add / Remove on idx.suppressor
	for _, f := range m.funcs {
		for _, cs := range m.supCalls(f) {
			switch cs.Callee.Name() {
			case "Add":
				m.addW[f] = true
			case "Remove":
				m.remW[f] = true
			}
		}
	}
	if len(m.addW) == 0 || len(m.remW) == 0 {
		c.Lost("no function consulting OverlapSuppressor.Add (%d) / Remove (%d)", len(m.addW), len(m.remW))
	}
	c04Suppressor(c, m, supT)
	incs := c04Refcount(c, m)
	c04ContribSym(c, m, incs)
}

// supCalls: invoke-mode calls of OverlapSuppressor methods on the index's suppressor field.
func (m *c04Model) supCalls(f *ssa.Function) []CallSite {
	var out []CallSite
	for _, cs := range callsIn(f, false, func(*types.Func) bool { return true }) {
		if cs.Common().IsInvoke() && fieldVar(cs.Common().Value) == m.supFld {
			out = append(out, cs)
		}
	}
	return out
}

// ---------------------------------------------------------------- refcount --

type c04Inc struct {
	mu      *ssa.MapUpdate
	fn      *ssa.Function
	setArg  string // path of the set id passed to the add wrapper ("" if none found)
	addCall ssa.Instruction
}

// c04Arith: v is `m[k] op 1` with the given map/key paths; returns the lookup.
func c04Arith(v ssa.Value, op token.Token, mapPath, keyPath string) *ssa.Lookup {
	bo, ok := v.(*ssa.BinOp)
	if !ok || bo.Op != op {
		return nil
	}
	x, y := bo.X, bo.Y
	if op == token.ADD {
		if _, isC := x.(*ssa.Const); isC {
			x, y = y, x
		}
	}
	cv, ok := constOf(y)
	if !ok || cv.ExactString() != "1" {
		return nil
	}
	lk, ok := x.(*ssa.Lookup)
	if !ok || lk.CommaOk || path(lk.X) != mapPath || path(lk.Index) != keyPath {
		return nil
	}
	return lk
}

// c04ZeroTest builds an EdgePred: the edge establishes "count after the
// operation is `after`" — expressed on the old value (lk == after∓1) or on the
// new value (nv == after).
func c04EdgeTest(lk *ssa.Lookup, nv ssa.Value, oldEq, newEq string, want bool) EdgePred {
	isC := func(s string) func(ssa.Value) bool {
		return func(v ssa.Value) bool { cv, ok := constOf(v); return ok && cv.ExactString() == s }
	}
	return anyOf(
		eqCond(want, func(v ssa.Value) bool { return v == ssa.Value(lk) }, isC(oldEq)),
		eqCond(want, func(v ssa.Value) bool { return v == nv }, isC(newEq)),
	)
}

// c04TestIfs returns, for the Ifs in fn testing the edge condition, the
// successor block taken when the condition holds.
func c04TakenSuccs(fn *ssa.Function, pred EdgePred) []*ssa.BasicBlock {
	var out []*ssa.BasicBlock
	for _, b := range fn.Blocks {
		ifi, ok := b.Instrs[len(b.Instrs)-1].(*ssa.If)
		if !ok || len(b.Succs) != 2 {
			continue
		}
		for k, s := range b.Succs {
			cnd, pol := stripNot(ifi.Cond, k == 0)
			if pred(cnd, pol) {
				out = append(out, s)
			}
		}
	}
	return out
}

func c04Refcount(c *Ctx, m *c04Model) []c04Inc {
	p := m.p
	var incs []c04Inc
	wrapperCalls := func(fn *ssa.Function, ws map[*ssa.Function]bool, keyPath string) []CallSite {
		var out []CallSite
		for _, cs := range callsIn(fn, false, func(*types.Func) bool { return true }) {
			sf := calleeFn(cs.Common())
			if sf == nil || !ws[sf] {
				continue
			}
			args := cs.Common().Args
			if len(args) >= 3 && path(args[len(args)-1]) == keyPath {
				out = append(out, cs)
			}
		}
		return out
	}
	for _, f := range m.funcs {
		allInstrs(f, false, func(fn *ssa.Function, in ssa.Instruction) {
			site := p.Pos(in.Pos())
			pd := m.postdom(fn)
			switch x := in.(type) {
			case *ssa.MapUpdate:
				if fieldVar(x.Map) != m.refFld {
					return
				}
				mp, kp := path(x.Map), path(x.Key)
				if lk := c04Arith(x.Value, token.ADD, mp, kp); lk != nil {
					// INC: always stored once the count is read
					c.Check(instrPostDominates(pd, in, lk), "C04.refcount/inc-store/"+fnName(fn), site,
						"old+1 stored on every path after the count is read",
						fmt.Sprintf("in %s the incremented count of %s is not stored on every path after it is read (a contributing endpoint is not counted; a later decrement removes a member that is still selected)", fnName(fn), kp))
					// add wrapper exactly on the 0→1 edge
					first := c04EdgeTest(lk, x.Value, "0", "1", true)
					calls := wrapperCalls(fn, m.addW, kp)
					okGuard, okTotal := len(calls) > 0, false
					inc := c04Inc{mu: x, fn: fn}
					for _, cs := range calls {
						if !guardedCut(cs.Instr, first) {
							okGuard = false
						}
						for _, s := range c04TakenSuccs(fn, first) {
							if s == cs.Instr.Block() || pd[s][cs.Instr.Block()] {
								okTotal = true
							}
						}
						inc.setArg = path(cs.Common().Args[1])
						inc.addCall = cs.Instr
					}
					c.Check(okGuard && okTotal, "C04.refcount/inc-edge/"+fnName(fn), site,
						"add wrapper called exactly when the count goes 0→1",
						fmt.Sprintf("in %s the add wrapper for %s is not called exactly on the 0→1 edge of the count (calls found: %d, only-on-edge: %v, always-on-edge: %v): members are emitted twice or never", fnName(fn), kp, len(calls), okGuard, okTotal))
					incs = append(incs, inc)
					return
				}
				if lk := c04Arith(x.Value, token.SUB, mp, kp); lk != nil {
					zero := c04EdgeTest(lk, x.Value, "1", "0", true)
					nonzero := c04EdgeTest(lk, x.Value, "1", "0", false)
					okStore := guardedCut(in, nonzero)
					okTotal := false
					for _, s := range c04TakenSuccs(fn, nonzero) {
						if s == in.Block() || pd[s][in.Block()] {
							okTotal = true
						}
					}
					c.Check(okStore && okTotal, "C04.refcount/dec-store/"+fnName(fn), site,
						"old-1 stored exactly when it is non-zero",
						fmt.Sprintf("in %s the decremented count of %s is not stored exactly when non-zero (only-when-nonzero: %v, always-when-nonzero: %v): a zero entry stays behind (its next 0→1 add is lost) or a live count is dropped", fnName(fn), kp, okStore, okTotal))
					// zero edge: remove wrapper + delete
					var found []string
					okZero := true
					for _, s := range c04TakenSuccs(fn, zero) {
						hasCall, hasDel := false, false
						for _, cs := range wrapperCalls(fn, m.remW, kp) {
							if (s == cs.Instr.Block() || pd[s][cs.Instr.Block()]) && guardedCut(cs.Instr, zero) {
								hasCall = true
							}
						}
						allInstrs(fn, false, func(_ *ssa.Function, d ssa.Instruction) {
							if dc, ok := isBuiltinCall(d, "delete"); ok && path(dc.Args[0]) == mp && path(dc.Args[1]) == kp &&
								(s == d.Block() || pd[s][d.Block()]) {
								hasDel = true
							}
						})
						found = append(found, fmt.Sprintf("remove-wrapper:%v delete:%v", hasCall, hasDel))
						if !hasCall || !hasDel {
							okZero = false
						}
					}
					if len(found) == 0 {
						okZero = false
					}
					c.Check(okZero, "C04.refcount/dec-zero/"+fnName(fn), site,
						"on the →0 edge the remove wrapper is called and the entry deleted",
						fmt.Sprintf("in %s, when the count of %s drops to zero, the remove wrapper and delete() do not both happen on every path %v: the member stays in the emitted IP set, or a zero entry suppresses its re-add", fnName(fn), kp, found))
					return
				}
				c.Violate("C04.refcount/shape/"+fnName(fn), site, "write %s[%s] = %s in %s is neither old+1 nor old-1 of the same entry: reference counting is bypassed", mp, kp, path(x.Value), fnName(fn))
			default:
				dc, ok := isBuiltinCall(in, "delete")
				if !ok || fieldVar(dc.Args[0]) != m.refFld {
					return
				}
				mp, kp := path(dc.Args[0]), path(dc.Args[1])
				// must be on the →0 edge of a decrement of the same entry
				g := guardedCut(in, func(cond ssa.Value, pol bool) bool {
					bo, ok := cond.(*ssa.BinOp)
					if !ok {
						return false
					}
					for _, side := range []ssa.Value{bo.X, bo.Y} {
						if lk := c04Arith(side, token.SUB, mp, kp); lk != nil {
							return c04EdgeTest(lk, side, "1", "0", true)(cond, pol)
						}
						if lk, ok := side.(*ssa.Lookup); ok && path(lk.X) == mp && path(lk.Index) == kp {
							return c04EdgeTest(lk, nil, "1", "0", true)(cond, pol)
						}
					}
					return false
				})
				c.Check(g, "C04.refcount/delete/"+fnName(fn), site,
					"entry deleted only when its decremented count is zero",
					fmt.Sprintf("delete(%s, %s) in %s is not guarded by the decremented count being zero: other endpoints' references are forgotten", mp, kp, fnName(fn)))
			}
		})
	}
	// whole-map replacement only in literals
	for _, f := range m.funcs {
		for _, st := range storesToField(f, false, "", m.refFld.Name()) {
			fa := st.Addr.(*ssa.FieldAddr)
			if structField(fa.X.Type(), fa.Field) != m.refFld {
				continue
			}
			_, lit := fa.X.(*ssa.Alloc)
			_, mk := st.Val.(*ssa.MakeMap)
			c.Check(lit && mk, "C04.refcount/init/"+fnName(f), p.Pos(st.Pos()),
				"count map assigned only as an empty map in the ipSetData literal",
				"memberToRefCount is replaced in "+fnName(f)+" outside a fresh ipSetData literal")
		}
	}
	if len(incs) == 0 {
		c.Lost("no increment of memberToRefCount found")
	}
	return incs
}

// -------------------------------------------------------------- suppressor --

// c04FromSecondary: v derives (element of / wrapped by a constructor call) from
// result #1 of the suppressor call sc.
func c04FromSecondary(v ssa.Value, sc ssa.Value) bool {
	seen := map[ssa.Value]bool{}
	var walk func(v ssa.Value) bool
	walk = func(v ssa.Value) bool {
		if v == nil || seen[v] {
			return false
		}
		seen[v] = true
		switch x := v.(type) {
		case *ssa.Extract:
			return x.Index == 1 && x.Tuple == sc
		case *ssa.UnOp:
			if x.Op == token.MUL {
				return walk(x.X)
			}
		case *ssa.IndexAddr:
			return walk(x.X)
		case *ssa.Index:
			return walk(x.X)
		case *ssa.MakeInterface:
			return walk(x.X)
		case *ssa.ChangeInterface:
			return walk(x.X)
		case *ssa.ChangeType:
			return walk(x.X)
		case *ssa.Call:
			// value constructors of the ipsetmember package with a single argument
			f := calleeOf(x.Common())
			if f != nil && f.Pkg() != nil && strings.HasSuffix(f.Pkg().Path(), "labelindex/ipsetmember") && len(x.Common().Args) == 1 && !x.Common().IsInvoke() {
				return walk(x.Common().Args[0])
			}
		}
		return false
	}
	return walk(v)
}

func c04Suppressor(c *Ctx, m *c04Model, supT *types.TypeName) {
	p := m.p
	nRaw := 0
	for _, f := range m.funcs {
		allInstrs(f, false, func(fn *ssa.Function, in ssa.Instruction) {
			ci, ok := in.(ssa.CallInstruction)
			if !ok {
				return
			}
			cc := ci.Common()
			if cc.IsInvoke() || cc.StaticCallee() != nil {
				return
			}
			fv := fieldVar(cc.Value)
			if fv != m.cbAdd && fv != m.cbRem {
				return
			}
			nRaw++
			site := p.Pos(in.Pos())
			key := fmt.Sprintf("C04.suppressor/raw/%s@%s", fv.Name(), fnName(fn))
			scs := m.supCalls(fn)
			var sc *CallSite
			for i := range scs {
				if n := scs[i].Callee.Name(); n == "Add" || n == "Remove" {
					if sc != nil {
						c.Undecided(key, site, "%s consults the suppressor more than once", fnName(fn))
						return
					}
					sc = &scs[i]
				}
			}
			if sc == nil || len(cc.Args) != 2 || len(fn.Params) < 3 {
				c.Violate(key, site, "%s is invoked in %s, which does not consult OverlapSuppressor.Add/Remove: overlap suppression is bypassed (a member lying inside another is emitted, or a masked member is withdrawn)", fv.Name(), fnName(fn))
				return
			}
			sameDir := (sc.Callee.Name() == "Add") == (fv == m.cbAdd)
			scVal := sc.Instr.(ssa.Value)
			memberParam := fn.Params[len(fn.Params)-1]
			// the type assertion on the member parameter that selects CIDR members
			isTA := func(v ssa.Value) *ssa.TypeAssert {
				ex, ok := v.(*ssa.Extract)
				if !ok {
					return nil
				}
				ta, ok := ex.Tuple.(*ssa.TypeAssert)
				if !ok || !ta.CommaOk || ta.X != memberParam {
					return nil
				}
				return ta
			}
			taOK := func(want bool) EdgePred {
				return func(cond ssa.Value, pol bool) bool {
					ex, ok := cond.(*ssa.Extract)
					return ok && ex.Index == 1 && isTA(cond) != nil && pol == want
				}
			}
			// the suppressor must be consulted exactly for the asserted members
			supGuarded := guardedCut(sc.Instr, taOK(true))
			var how string
			switch {
			case sameDir && guardedCut(in, taOK(false)) && cc.Args[1] == ssa.Value(memberParam) && supGuarded:
				how = "non-CIDR member passes through unchanged"
			case sameDir && supGuarded && guardedCut(in, eqCond(false,
				func(v ssa.Value) bool { ex, ok := v.(*ssa.Extract); return ok && ex.Index == 0 && ex.Tuple == scVal },
				isNilConst)) && c04IsAsserted(cc.Args[1], isTA):
				how = "emitted only when the suppressor's primary result is non-nil"
			case !sameDir && supGuarded && c04FromSecondary(cc.Args[1], scVal):
				how = "opposite-direction event for the suppressor's secondary results"
			}
			if how == "" {
				c.Violate(key, site, "%s in %s (which consults suppressor.%s) is neither the pass-through of a non-CIDR member, nor guarded by the suppressor's primary result being non-nil, nor an opposite-direction event for its secondary results: suppressed/masked members are emitted wrongly",
					fv.Name(), fnName(fn), sc.Callee.Name())
				return
			}
			c.Ok(key, site, "%s (suppressor.%s)", how, sc.Callee.Name())
		})
	}
	if nRaw == 0 {
		c.Lost("no invocation of the raw OnMemberAdded/OnMemberRemoved callbacks")
	}

	// deleting an IP set clears its suppressor state
	nDel := 0
	for _, f := range m.funcs {
		allInstrs(f, false, func(fn *ssa.Function, in ssa.Instruction) {
			dc, ok := isBuiltinCall(in, "delete")
			if !ok || fieldVar(dc.Args[0]) != m.setsFld {
				return
			}
			nDel++
			kp := path(dc.Args[1])
			pd := m.postdom(fn)
			okc := false
			for _, cs := range m.supCalls(fn) {
				if cs.Callee.Name() == "DeleteIPSet" && len(cs.Common().Args) == 1 && path(cs.Common().Args[0]) == kp &&
					(instrDominates(cs.Instr, in) || instrPostDominates(pd, cs.Instr, in)) {
					okc = true
				}
			}
			c.Check(okc, "C04.suppressor/delete-ipset/"+fnName(fn), p.Pos(in.Pos()),
				"suppressor.DeleteIPSet(same id) on every path that deletes the IP set",
				fmt.Sprintf("%s deletes %s[%s] without suppressor.DeleteIPSet(%s) on the same path: a re-created IP set with the same id inherits stale tries and its members are wrongly suppressed", fnName(fn), m.setsFld.Name(), kp, kp))
		})
	}
	if nDel == 0 {
		c.Lost("no delete from %s", m.setsFld.Name())
	}

	// every implementation of OverlapSuppressor: map fields that are filled per
	// set must be deleted in DeleteIPSet
	supI := supT.Type().Underlying().(*types.Interface)
	var delM *types.Func
	for i := 0; i < supI.NumMethods(); i++ {
		if supI.Method(i).Name() == "DeleteIPSet" {
			delM = supI.Method(i)
		}
	}
	if delM == nil {
		c.Lost("OverlapSuppressor.DeleteIPSet")
	}
	for _, df := range p.implsOf(delM) {
		recv := df.Params[0].Type()
		st, ok := derefType(recv).Underlying().(*types.Struct)
		if !ok {
			continue
		}
		for i := 0; i < st.NumFields(); i++ {
			fld := st.Field(i)
			if _, isMap := fld.Type().Underlying().(*types.Map); !isMap {
				continue
			}
			// filled somewhere? (MapUpdate on a value loaded from this field, incl. via phi)
			filled := false
			for _, f := range m.funcs {
				allInstrs(f, false, func(_ *ssa.Function, in ssa.Instruction) {
					if mu, ok := in.(*ssa.MapUpdate); ok {
						for _, o := range origins(mu.Map, func(v ssa.Value) []ssa.Value {
							if u, ok := v.(*ssa.UnOp); ok && u.Op == token.MUL {
								if fa, ok := u.X.(*ssa.FieldAddr); ok && structField(fa.X.Type(), fa.Field) == fld {
									filled = true
								}
							}
							return nil
						}) {
							_ = o
						}
					}
				})
			}
			if !filled {
				continue
			}
			deleted := false
			allInstrs(df, false, func(_ *ssa.Function, in ssa.Instruction) {
				if dc, ok := isBuiltinCall(in, "delete"); ok && fieldVar(dc.Args[0]) == fld && len(df.Params) == 2 && dc.Args[1] == ssa.Value(df.Params[1]) {
					for _, r := range returnsOf(df) {
						if !instrDominates(in, r) {
							return
						}
					}
					deleted = true
				}
			})
			c.Check(deleted, fmt.Sprintf("C04.suppressor/tries/%s.%s", namedTypeName(recv), fld.Name()), p.Pos(df.Pos()),
				"per-set map entry deleted by DeleteIPSet",
				fmt.Sprintf("%s.DeleteIPSet does not delete the per-set entry of %s on every path: stale overlap state survives the IP set", namedTypeName(recv), fld.Name()))
		}
	}
}

func c04IsAsserted(v ssa.Value, isTA func(ssa.Value) *ssa.TypeAssert) bool {
	for {
		switch x := v.(type) {
		case *ssa.MakeInterface:
			v = x.X
			continue
		case *ssa.ChangeInterface:
			v = x.X
			continue
		case *ssa.Extract:
			return x.Index == 0 && isTA(v) != nil
		}
		return false
	}
}

// -------------------------------------------------------------- contribsym --

// c04Sources walks backwards from a member (or member-slice / map-of-slices)
// value to the calls that produced it, following element/range/lookup
// projections, phis, parameters (to every static caller's argument) and closure
// captures.  Leaves other than calls and nil constants are reported as "?".
func (m *c04Model) sources(v ssa.Value) map[string]bool {
	out := map[string]bool{}
	seen := map[ssa.Value]bool{}
	var walk func(v ssa.Value)
	walk = func(v ssa.Value) {
		if v == nil || seen[v] {
			return
		}
		seen[v] = true
		switch x := v.(type) {
		case *ssa.UnOp:
			if x.Op == token.MUL {
				if al, ok := x.X.(*ssa.Alloc); ok {
					n := 0
					for _, r := range *al.Referrers() {
						if st, ok := r.(*ssa.Store); ok && st.Addr == al {
							walk(st.Val)
							n++
						}
					}
					if n == 0 {
						out["?zero-local"] = true
					}
					return
				}
				if fv, ok := x.X.(*ssa.FreeVar); ok {
					// captured variable: follow the binding's stores in the parent
					fn := fv.Parent()
					idx := -1
					for i, f := range fn.FreeVars {
						if f == fv {
							idx = i
						}
					}
					found := false
					if fn.Parent() != nil && idx >= 0 {
						allInstrs(fn.Parent(), false, func(_ *ssa.Function, in ssa.Instruction) {
							if mc, ok := in.(*ssa.MakeClosure); ok && mc.Fn == fn && idx < len(mc.Bindings) {
								if al, ok := mc.Bindings[idx].(*ssa.Alloc); ok {
									for _, r := range *al.Referrers() {
										if st, ok := r.(*ssa.Store); ok && st.Addr == al {
											walk(st.Val)
											found = true
										}
									}
								}
							}
						})
					}
					if !found {
						out["?freevar:"+fv.Name()] = true
					}
					return
				}
				walk(x.X)
				return
			}
			out["?"+x.Op.String()] = true
		case *ssa.IndexAddr:
			walk(x.X)
		case *ssa.Index:
			walk(x.X)
		case *ssa.Lookup:
			walk(x.X)
		case *ssa.Extract:
			if nx, ok := x.Tuple.(*ssa.Next); ok {
				if rg, ok := nx.Iter.(*ssa.Range); ok && x.Index == 2 {
					walk(rg.X)
					return
				}
			}
			out["?extract"] = true
		case *ssa.Phi:
			for _, e := range x.Edges {
				walk(e)
			}
		case *ssa.Slice:
			walk(x.X)
		case *ssa.ChangeType:
			walk(x.X)
		case *ssa.MakeInterface:
			walk(x.X)
		case *ssa.Const:
			if x.Value != nil {
				out["?const"] = true
			}
		case *ssa.MakeMap:
			// contents come from the MapUpdates on it
			n := 0
			for _, r := range *x.Referrers() {
				if mu, ok := r.(*ssa.MapUpdate); ok && mu.Map == ssa.Value(x) {
					walk(mu.Value)
					n++
				}
			}
			if n == 0 {
				// possibly updated inside a closure through a captured variable: look
				// for MapUpdates whose map loads a cell this map was stored into.
				for _, r := range *x.Referrers() {
					if st, ok := r.(*ssa.Store); ok && st.Val == ssa.Value(x) {
						if al, ok := st.Addr.(*ssa.Alloc); ok {
							n += m.capturedMapUpdates(al, walk)
						}
					}
				}
			}
			if n == 0 {
				out["?empty-map"] = true
			}
		case *ssa.Parameter:
			fn := x.Parent()
			pi := -1
			for i, q := range fn.Params {
				if q == x {
					pi = i
				}
			}
			n := 0
			for _, f := range m.funcs {
				for _, cs := range callsIn(f, false, func(*types.Func) bool { return true }) {
					if calleeFn(cs.Common()) == fn && pi < len(cs.Common().Args) {
						walk(cs.Common().Args[pi])
						n++
					}
				}
			}
			if n == 0 {
				out["?param:"+x.Name()+"@"+fnName(fn)] = true
			}
		case *ssa.Call:
			if sf := calleeFn(x.Common()); sf != nil {
				out[fnName(sf)] = true
			} else {
				out["?dynamic-call"] = true
			}
		default:
			out[fmt.Sprintf("?%T", v)] = true
		}
	}
	walk(v)
	return out
}

// capturedMapUpdates: the map stored in cell `al` is captured by closures of
// al's function; follow MapUpdates made through the captured cell.
func (m *c04Model) capturedMapUpdates(al *ssa.Alloc, walk func(ssa.Value)) int {
	n := 0
	for _, r := range *al.Referrers() {
		mc, ok := r.(*ssa.MakeClosure)
		if !ok {
			continue
		}
		cf := mc.Fn.(*ssa.Function)
		for i, b := range mc.Bindings {
			if b != ssa.Value(al) || i >= len(cf.FreeVars) {
				continue
			}
			fv := cf.FreeVars[i]
			allInstrs(cf, false, func(_ *ssa.Function, in ssa.Instruction) {
				if mu, ok := in.(*ssa.MapUpdate); ok {
					if ld, ok := mu.Map.(*ssa.UnOp); ok && ld.Op == token.MUL && ld.X == ssa.Value(fv) {
						walk(mu.Value)
						n++
					}
				}
			})
		}
	}
	return n
}

func c04ContribSym(c *Ctx, m *c04Model, incs []c04Inc) {
	p := m.p
	calc := p.Func(c04Pkg, "SelectorAndNamedPortIndex.CalculateEndpointContribution")
	if calc == nil {
		c.Lost("SelectorAndNamedPortIndex.CalculateEndpointContribution")
	}
	recalc := p.Func(c04Pkg, "SelectorAndNamedPortIndex.RecalcCachedContributions")
	if recalc == nil {
		c.Lost("SelectorAndNamedPortIndex.RecalcCachedContributions")
	}
	calcName, recalcName := fnName(calc), fnName(recalc)
	render := func(s map[string]bool) string {
		var ks []string
		for k := range s {
			ks = append(ks, k)
		}
		sort.Strings(ks)
		return strings.Join(ks, ", ")
	}
	// (1) RecalcCachedContributions returns only CalculateEndpointContribution results
	var retSrc map[string]bool
	for _, r := range returnsOf(recalc) {
		s := m.sources(r.Results[0])
		if retSrc == nil {
			retSrc = s
		} else {
			for k := range s {
				retSrc[k] = true
			}
		}
	}
	okRecalc := len(retSrc) == 1 && retSrc[calcName]
	c.Check(okRecalc, "C04.contribsym/"+recalcName, p.Pos(recalc.Pos()),
		"cached contributions are recomputed by "+calcName,
		fmt.Sprintf("%s returns member lists produced by {%s} instead of only %s: decrements use different members than increments, so counts never return to zero (or hit zero early)", recalcName, render(retSrc), calcName))
	// (2) every refcount write's key
	n := 0
	for _, f := range m.funcs {
		allInstrs(f, false, func(fn *ssa.Function, in ssa.Instruction) {
			mu, ok := in.(*ssa.MapUpdate)
			if !ok || fieldVar(mu.Map) != m.refFld {
				return
			}
			n++
			src := m.sources(mu.Key)
			okSrc := len(src) > 0
			for k := range src {
				if k != calcName && k != recalcName {
					okSrc = false
				}
			}
			c.Check(okSrc, "C04.contribsym/"+fnName(fn), p.Pos(in.Pos()),
				"member key originates from {"+render(src)+"}",
				fmt.Sprintf("in %s the member whose count is written originates from {%s}, not only from %s/%s: increments and decrements are keyed differently", fnName(fn), render(src), calcName, recalcName))
		})
	}
	if n == 0 {
		c.Lost("no refcount writes")
	}

	// (cached) the collection RecalcCachedContributions ranges over
	var cachedFld *types.Var
	for _, cs := range callsIn(recalc, true, func(*types.Func) bool { return true }) {
		if calleeFn(cs.Common()) == calc {
			cachedFld, _ = p.rangedField(cs.Instr.Pos())
		}
	}
	if cachedFld == nil {
		c.Lost("the endpoint field %s ranges over around its call of %s", recalcName, calcName)
	}
	adders := map[*ssa.Function]bool{}
	for _, f := range m.funcs {
		for _, cs := range callsIn(f, false, func(fn *types.Func) bool { return fn.Name() == "Add" }) {
			if a := cs.Args(); len(a) == 2 && fieldVar(a[0]) == cachedFld {
				adders[f] = true
			}
		}
	}
	if len(adders) == 0 {
		c.Lost("no function adding to %s", cachedFld.Name())
	}
	for _, inc := range incs {
		ok := false
		for _, cs := range callsIn(inc.fn, false, func(*types.Func) bool { return true }) {
			sf := calleeFn(cs.Common())
			args := cs.Common().Args
			if sf == nil || !adders[sf] || len(args) != 2 || !instrDominates(cs.Instr, inc.mu) {
				continue
			}
			if inc.setArg == "" || path(args[1]) == inc.setArg {
				ok = true
			}
		}
		c.Check(ok, "C04.cached/"+fnName(inc.fn), p.Pos(inc.mu.Pos()),
			"increment dominated by recording the set id in "+cachedFld.Name(),
			fmt.Sprintf("in %s members are incremented without first recording the IP set id in the endpoint's %s: the endpoint's later update/deletion will not decrement them and the members stay in the IP set forever", fnName(inc.fn), cachedFld.Name()))
	}
}
